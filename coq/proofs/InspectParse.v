(* Inversion lemmas: what a *successful* parse says about the bytes.  go-varint accepts only
   minimal encodings, so a parsed varint IS put_uv of its value; hence a parsed CID is cid_enc
   of its parts, for the buffer parser (cid.CidFromBytes) and the stream parser
   (cid.CidFromReader) alike.  Used by C13 to relate Inspect's walk to the BlockReader's. *)
From GoCar Require Import Bytes Varint Cid.
From GoCarProofs Require Import BytesFacts VarintFacts CidFacts.

Lemma pow2_7_succ i : 2 ^ (7 * (i + 1)) = 128 * 2 ^ (7 * i).
Proof. replace (7 * (i + 1)) with (7 + 7 * i) by lia. rewrite N.pow_add_r. reflexivity. Qed.

Lemma read_uv_f_inv : forall f i x s v r n,
  read_uv_f f i x s = VOk v r n ->
  exists w, s = put_uv_f f w ++ r /\ v = x + w * 2 ^ (7 * i) /\ n = i + uv_size_f f w /\
            (0 < i -> 0 < w) /\ i + uv_size_f f w <= 9 /\ w < 128 ^ (uv_size_f f w).
Proof.
  induction f as [|f IH]; intros i x s v r n H; cbn [read_uv_f] in H; [discriminate|].
  destruct s as [|b rest]; [destruct (i =? 0); discriminate|].
  destruct (((i =? 8) && (128 <=? b2n b)) || (9 <=? i)) eqn:Eg; [discriminate|].
  apply orb_false_iff in Eg. destruct Eg as (Eg1 & Eg2).
  pose proof (b2n_lt b) as Hb.
  destruct (b2n b <? 128) eqn:Eb.
  - destruct ((b2n b =? 0) && (0 <? i)) eqn:Ez; [discriminate|]. inversion H; subst v r n.
    exists (b2n b). cbn [put_uv_f uv_size_f]. rewrite Eb. rewrite n2b_b2n.
    split; [reflexivity|]. split; [reflexivity|]. split; [reflexivity|].
    split; [intros Hi; apply andb_false_iff in Ez; destruct Ez; lia|].
    split; [lia|]. change (128 ^ 1) with 128. lia.
  - apply andb_false_iff in Eg1.
    destruct (IH _ _ _ _ _ _ H) as (w' & Hs & Hv & Hn & Hpos & Hle & Hlt).
    assert (Hw'pos : 0 < w') by (apply Hpos; lia).
    set (a := b2n b - 128) in *.
    assert (Ha : a < 128) by (unfold a; lia).
    exists (a + 128 * w').
    assert (Hge : (a + 128 * w' <? 128) = false) by lia.
    assert (Hmod : (a + 128 * w') mod 128 = a).
    { rewrite N.mul_comm, N.mod_add by lia. apply N.mod_small. exact Ha. }
    assert (Hdiv : (a + 128 * w') / 128 = w').
    { rewrite N.mul_comm, N.div_add by lia. rewrite N.div_small by exact Ha. lia. }
    cbn [put_uv_f uv_size_f]. rewrite Hge, Hmod, Hdiv.
    replace (128 + a) with (b2n b) by (unfold a; lia). rewrite n2b_b2n.
    split; [rewrite Hs; reflexivity|].
    split; [rewrite Hv, pow2_7_succ; lia|].
    split; [lia|]. split; [lia|]. split; [lia|].
    replace (1 + uv_size_f f w') with (N.succ (uv_size_f f w')) by lia.
    rewrite N.pow_succ_r'. lia.
Qed.

Lemma pow128_9 : 128 ^ 9 = two63.
Proof. reflexivity. Qed.

Theorem read_uv_inv s v r n : read_uv s = VOk v r n ->
  s = put_uv v ++ r /\ n = uv_size v /\ v < two63.
Proof.
  unfold read_uv. intros H. destruct (read_uv_f_inv _ _ _ _ _ _ _ H) as (w & Hs & Hv & Hn & _ & Hle & Hlt).
  change (2 ^ (7 * 0)) with 1 in Hv. assert (v = w) by lia. subst w.
  split; [exact Hs|]. split; [exact Hn|].
  rewrite <- pow128_9. eapply N.lt_le_trans; [exact Hlt|]. apply N.pow_le_mono_r; lia.
Qed.

Lemma read_uv_ok_len s v r n : read_uv s = VOk v r n -> blen s = n + blen r /\ 1 <= n.
Proof.
  intros H. destruct (read_uv_inv _ _ _ _ H) as (Hs & Hn & _). subst s n.
  rewrite blen_app, blen_put_uv. pose proof (uv_size_pos v). lia.
Qed.

Lemma byte_of_b2n b k : b2n b = k -> b = n2b k.
Proof. intros <-. symmetry. apply n2b_b2n. Qed.

(* ---- buffer parser ---------------------------------------------------------------------- *)
Lemma mh_from_bytes_inv buf n code dig : mh_from_bytes buf = Some (n, code, dig) ->
  buf = mh_enc code dig ++ drop n buf /\ n = blen (mh_enc code dig) /\
  code < two63 /\ blen dig <= max_int32.
Proof.
  unfold mh_from_bytes. destruct (blen buf <? 2); [discriminate|].
  destruct (read_uv buf) as [code' r1 n1| | | |] eqn:E1; try discriminate.
  destruct (read_uv r1) as [len r2 n2| | | |] eqn:E2; try discriminate.
  destruct (max_int32 <? len) eqn:El; [discriminate|].
  destruct (blen r2 <? len) eqn:Eb; [discriminate|].
  intros H. inversion H; subst n code dig.
  destruct (read_uv_inv _ _ _ _ E1) as (Hs1 & Hn1 & Hc). destruct (read_uv_inv _ _ _ _ E2) as (Hs2 & Hn2 & _).
  assert (Hlen : blen (take len r2) = len) by (rewrite blen_take; lia).
  assert (Henc : blen (mh_enc code' (take len r2)) = n1 + n2 + len).
  { unfold mh_enc. rewrite !blen_app, !blen_put_uv, Hlen. lia. }
  split; [|split; [symmetry; exact Henc|split; [exact Hc|rewrite Hlen; lia]]].
  rewrite <- Henc. unfold mh_enc. rewrite Hlen.
  assert (Hbuf : buf = (put_uv code' ++ put_uv len ++ take len r2) ++ drop len r2).
  { rewrite Hs1 at 1. rewrite Hs2 at 1. rewrite <- (take_drop_id len r2) at 1. rewrite <- !app_assoc. reflexivity. }
  rewrite Hbuf at 2. rewrite drop_app. exact Hbuf.
Qed.

Theorem cid_from_bytes_inv data n p : cid_from_bytes data = Some (n, p) ->
  cid_ok p /\ data = cid_enc p ++ drop n data /\ n = blen (cid_enc p).
Proof.
  unfold cid_from_bytes. destruct (is_v0_prefix data) eqn:Ev0.
  - destruct (blen data <? 34) eqn:El; [discriminate|]. intros H. inversion H; subst n p.
    destruct data as [|b0 [|b1 [|b2 t]]]; try discriminate. cbn [is_v0_prefix] in Ev0.
    apply andb_true_iff in Ev0. destruct Ev0 as (H0 & H1).
    assert (b0 = x12) by (apply (byte_of_b2n b0 18); lia).
    assert (b1 = x20) by (apply (byte_of_b2n b1 32); lia). subst b0 b1.
    set (data := x12 :: x20 :: b2 :: t) in *.
    assert (Hd2 : drop 2 data = b2 :: t) by reflexivity.
    assert (Hdig : blen (take 32 (drop 2 data)) = 32).
    { rewrite blen_take, blen_drop. unfold data in *. rewrite !blen_cons in *. lia. }
    split; [left; cbn; repeat split; exact Hdig|].
    unfold cid_enc, mh_enc. cbn [c_ver c_mhcode c_digest N.eqb]. rewrite Hdig, put_uv_18, put_uv_32.
    split.
    + change 34 with (2 + 32). rewrite <- drop_drop.
      rewrite <- app_assoc. cbn [app]. rewrite take_drop_id. reflexivity.
    + rewrite !blen_app, Hdig. reflexivity.
  - destruct (read_uv data) as [vers r1 n1| | | |] eqn:E1; try discriminate.
    destruct (negb (vers =? 1)) eqn:Ever; [discriminate|].
    destruct (read_uv r1) as [codec r2 n2| | | |] eqn:E2; try discriminate.
    destruct (mh_from_bytes r2) as [[[n3 code] dig]|] eqn:E3; [|discriminate].
    intros H. inversion H; subst n p.
    destruct (read_uv_inv _ _ _ _ E1) as (Hs1 & Hn1 & _). destruct (read_uv_inv _ _ _ _ E2) as (Hs2 & Hn2 & Hc).
    destruct (mh_from_bytes_inv _ _ _ _ E3) as (Hs3 & Hn3 & Hcode & Hdig).
    assert (vers = 1) by (destruct (vers =? 1) eqn:X; [lia|discriminate]). subst vers.
    split; [right; cbn; repeat split; assumption|].
    assert (Henc : blen (cid_enc (mkcid 1 codec code dig)) = n1 + n2 + n3).
    { unfold cid_enc. cbn [c_ver c_codec c_mhcode c_digest N.eqb]. rewrite !blen_app, !blen_put_uv. lia. }
    split; [|symmetry; exact Henc].
    rewrite <- Henc.
    assert (Hdata : data = cid_enc (mkcid 1 codec code dig) ++ drop n3 r2).
    { unfold cid_enc. cbn [c_ver c_codec c_mhcode c_digest N.eqb].
      rewrite Hs1 at 1. rewrite Hs2 at 1. rewrite Hs3 at 1. rewrite <- !app_assoc. reflexivity. }
    rewrite Hdata at 2. rewrite drop_app. exact Hdata.
Qed.

(* ---- stream parser ---------------------------------------------------------------------- *)
Theorem cid_from_reader_inv s n c p after : cid_from_reader s = CfrOk n c p after ->
  cid_ok p /\ blen (c_digest p) <= max_digest_alloc /\ s = cid_enc p ++ after /\
  c = cid_enc p /\ n = blen (cid_enc p).
Proof.
  unfold cid_from_reader.
  destruct (read_uv s) as [vers r1 n1| | | |] eqn:E1; try discriminate.
  destruct (read_uv_inv _ _ _ _ E1) as (Hs1 & Hn1 & _).
  destruct (vers =? 18) eqn:E18.
  - assert (vers = 18) by lia. subst vers. rewrite put_uv_18 in Hs1.
    destruct (blen r1 <? 33) eqn:El; [discriminate|].
    destruct (take 34 s) as [|b0 [|b1 t]] eqn:Et; try discriminate.
    destruct (b2n b1 =? 32) eqn:E32; [|discriminate].
    intros H. inversion H; subst n c p after.
    assert (b1 = x20) by (apply (byte_of_b2n b1 32); lia). subst b1.
    assert (Hlen : blen (take 34 s) = 34) by (rewrite blen_take, Hs1, blen_app; change (blen [x12]) with 1; lia).
    assert (b0 = x12).
    { rewrite Hs1 in Et. destruct r1; cbn in Et; [discriminate|]. inversion Et; reflexivity. }
    subst b0. assert (Hd2 : drop 2 (x12 :: x20 :: t) = t) by (cbn; apply drop_0).
    cbn [c_digest]. rewrite ?Hd2, ?drop_0.
    assert (Ht : blen t = 32) by (rewrite Et in Hlen; rewrite !blen_cons in Hlen; lia).
    assert (Hmax : 32 <= max_digest_alloc) by (unfold max_digest_alloc; lia).
    split; [left; cbn; repeat split; exact Ht|]. split; [rewrite Ht; exact Hmax|].
    unfold cid_enc, mh_enc. cbn [c_ver c_mhcode c_digest N.eqb]. rewrite Ht, put_uv_18, put_uv_32.
    cbn [app]. split; [|split; [reflexivity|rewrite !blen_cons, Ht; reflexivity]].
    rewrite <- (take_drop_id 34 s) at 1. rewrite Et. reflexivity.
  - destruct (negb (vers =? 1)) eqn:Ever; [discriminate|].
    assert (vers = 1) by (destruct (vers =? 1) eqn:X; [lia|discriminate]). subst vers.
    destruct (read_uv r1) as [codec r2 n2| | | |] eqn:E2; try discriminate.
    destruct (read_uv r2) as [code r3 n3| | | |] eqn:E3; try discriminate.
    destruct (read_uv r3) as [mhl r4 n4| | | |] eqn:E4; try discriminate.
    destruct (max_digest_alloc <? mhl) eqn:Ecap; [discriminate|].
    destruct (blen r4 <? mhl) eqn:Eav; [discriminate|].
    intros H. inversion H; subst n c p after.
    destruct (read_uv_inv _ _ _ _ E2) as (Hs2 & Hn2 & Hc2). destruct (read_uv_inv _ _ _ _ E3) as (Hs3 & Hn3 & Hc3).
    destruct (read_uv_inv _ _ _ _ E4) as (Hs4 & Hn4 & _).
    assert (Hlen : blen (take mhl r4) = mhl) by (rewrite blen_take; lia).
    cbn [c_digest]. rewrite Hlen.
    assert (Hcap2 : mhl <= max_int32) by (unfold max_digest_alloc, max_int32 in *; lia).
    split; [right; cbn; rewrite Hlen; repeat split; assumption|]. split; [lia|].
    assert (Henc : blen (cid_enc (mkcid 1 codec code (take mhl r4))) = n1 + n2 + n3 + n4 + mhl).
    { unfold cid_enc, mh_enc. cbn [c_ver c_codec c_mhcode c_digest N.eqb]. rewrite !blen_app, !blen_put_uv, Hlen. lia. }
    assert (Hs : s = cid_enc (mkcid 1 codec code (take mhl r4)) ++ drop mhl r4).
    { unfold cid_enc, mh_enc. cbn [c_ver c_codec c_mhcode c_digest N.eqb]. rewrite Hlen.
      rewrite Hs1 at 1. rewrite Hs2 at 1. rewrite Hs3 at 1. rewrite Hs4 at 1.
      rewrite <- (take_drop_id mhl r4) at 1. rewrite <- !app_assoc. reflexivity. }
    split; [exact Hs|]. split; [|symmetry; exact Henc].
    rewrite <- Henc. rewrite Hs at 1. apply take_app.
Qed.

(* ---- the two parsers agree on a section ------------------------------------------------- *)
(* buffer parser on the section = stream parser on the stream, as long as the CID fits the
   section and its digest is within the stream parser's allocation cap *)
Lemma cid_bytes_to_reader l rest n p :
  cid_from_bytes (take l rest) = Some (n, p) -> l <= blen rest -> l <= max_digest_alloc ->
  cid_from_reader rest = CfrOk n (take n (take l rest)) p (drop n rest) /\ n <= l.
Proof.
  intros H Hl Hcap. destruct (cid_from_bytes_inv _ _ _ H) as (Hok & Hd & Hn).
  assert (Hnl : n <= l).
  { assert (X : blen (take l rest) = l) by (rewrite blen_take; lia).
    rewrite Hd in X. rewrite blen_app in X. lia. }
  assert (Hrest : rest = cid_enc p ++ (drop n (take l rest) ++ drop l rest)).
  { rewrite <- (take_drop_id l rest) at 1. rewrite Hd at 1. rewrite <- app_assoc. reflexivity. }
  assert (Hdig : blen (c_digest p) <= max_digest_alloc).
  { assert (blen (c_digest p) <= blen (cid_enc p)); [|lia].
    unfold cid_enc, mh_enc. destruct (c_ver p =? 0); rewrite !blen_app; lia. }
  split; [|exact Hnl].
  rewrite Hrest at 1. rewrite cid_from_reader_enc by assumption. rewrite <- Hn.
  f_equal.
  - rewrite Hd at 1. rewrite Hn. rewrite take_app. reflexivity.
  - symmetry. rewrite Hrest at 1. rewrite Hn. rewrite drop_app. reflexivity.
Qed.

Lemma cid_reader_to_bytes l rest n c p after :
  cid_from_reader rest = CfrOk n c p after -> n <= l ->
  cid_from_bytes (take l rest) = Some (n, p) /\ c = take n (take l rest) /\ after = drop n rest.
Proof.
  intros H Hnl. destruct (cid_from_reader_inv _ _ _ _ _ H) as (Hok & _ & Hs & Hc & Hn).
  assert (Ht : take l rest = cid_enc p ++ take (l - n) after).
  { rewrite Hs. rewrite take_app_ge by lia. rewrite <- Hn. reflexivity. }
  split; [|split].
  - rewrite Ht. rewrite cid_from_bytes_enc by exact Hok. rewrite Hn. reflexivity.
  - rewrite Ht, Hn, take_app. exact Hc.
  - rewrite Hs at 1. rewrite Hn, drop_app. reflexivity.
Qed.
