(* C04: ReadWrite.DeleteBlock / HashOnRead are stutter steps.  A history that contains them (and no reopen)
   returns, at the map operations, exactly what the history without them returns, the fixed answers
   (error / nothing) at the stutter steps, and ends with the same file. *)
From GoCar Require Import Bytes Varint Cid Header Frame V2Header Index Scan Store Crash Val RunStore StoreSpec RunMap.
From GoCarProofs Require Import StoreSpecFacts.

Section Stutter.
  Variable hdrdec : bytes -> option (list bytes * N).
  Variables (f : front) (o : wopts) (nilroots : bool) (roots : list bytes).

  Theorem xtrace_stutter ops : forall s,
    forallb no_reopen ops = true ->
    map snd (xtrace hdrdec f o nilroots roots s ops)
      = weave ops (outs (trace (impl_step hdrdec f) s (x_sops ops))) /\
    last (map fst (xtrace hdrdec f o nilroots roots s ops)) (ws_file s)
      = ws_file (last (map fst (trace (impl_step hdrdec f) s (x_sops ops))) s).
  Proof.
    induction ops as [|x t IH]; intros s Hn; [split; reflexivity|].
    cbn [forallb] in Hn. apply andb_true_iff in Hn. destruct Hn as (Hx & Hn).
    destruct x as [op| |c|b]; try discriminate Hx; cbn [xtrace x_sops weave trace].
    - destruct (impl_step hdrdec f s op) as [s' r]. cbn [map fst snd outs]. destruct (IH s' Hn) as (H1 & H2).
      split; [f_equal; exact H1|]. rewrite !last_cons_default. exact H2.
    - cbn [map fst snd]. destruct (IH s Hn) as (H1 & H2). split; [f_equal; exact H1|].
      rewrite last_cons_default. exact H2.
    - cbn [map fst snd]. destruct (IH s Hn) as (H1 & H2). split; [f_equal; exact H1|].
      rewrite last_cons_default. exact H2.
  Qed.

  (* a stutter step, taken alone: fixed answer, same file *)
  Lemma stutter_step s x t : match x with XDelete _ | XHashOnRead _ => True | _ => False end ->
    xtrace hdrdec f o nilroots roots s (x :: t) = (ws_file s, stutter_res x) :: xtrace hdrdec f o nilroots roots s t.
  Proof. destruct x; intros H; try contradiction; reflexivity. Qed.
End Stutter.
