(* C02 for CARv2 containers, beyond ScanTruncV2's truncation theorem for the Next-only BlockReader:
   (c) a corrupted section inside the payload of a container stops the BlockReader with an error;
   Reader.Inspect(true) over a cut or corrupted container fails (via C13);
   (b) every walk mixing Next and SkipNext over a container cut inside its payload (seekable or plain
       source) returns only complete sections from in front of the cut and never ends with io.EOF. *)
From GoCar Require Import Bytes Varint Cid Header Frame V2Header Scan BlockReaderPos Inspect.
From GoCarProofs Require Import BytesFacts VarintFacts CidFacts HeaderFacts ScanFacts ScanTrunc ScanTruncV2
  InspectFacts InspectC13 BlockReaderPosFacts BlockReaderPosC14 Termination TotalWalk
  ScanTruncInspect ScanTruncWalk.

Section V2More.
  Variable hok : bytes -> bytes -> option bool.
  Variable hdrdec : bytes -> option (list bytes * N).
  Hypothesis pragma_ok : hdrdec pragma_body = Some ([], 2).

  Lemma window_whole dpad ioff payload tail :
    window (mkv2 0 0 (51 + dpad) (blen payload) ioff) (zerosN dpad ++ payload ++ tail) = payload.
  Proof.
    pose proof (window_container hok dpad ioff payload tail (dpad + blen payload + blen tail) (N.le_refl _)) as H.
    rewrite take_ge in H by (rewrite !blen_app, blen_zerosN; lia).
    rewrite H. apply take_ge. lia.
  Qed.

  (* (c) BlockReader over a container whose payload holds a section that does not hash to its CID *)
  Theorem br_read_all_corrupt_v2 o roots pre c d rest dpad ioff tail :
    o_trusted o = false ->
    hdr_good hdrdec roots -> blen (enc_header (Some roots) 1) <= o_maxh o ->
    blen (enc_header (Some roots) 1) < two63 ->
    Forall (block_ok (o_maxs o)) pre -> Forall (hash_good hok) pre ->
    block_ok (o_maxs o) (c, d) -> hash_bad hok (c, d) ->
    10 <= o_maxh o -> 51 + dpad < two63 -> ioff < two63 ->
    blen (ld (enc_header (Some roots) 1) ++ enc_sections pre ++ enc_section c d ++ rest) < two63 ->
    br_read_all hok hdrdec o
      (container dpad ioff (ld (enc_header (Some roots) 1) ++ enc_sections pre ++ enc_section c d ++ rest) tail)
    = Ok (2, roots, mkscan pre EOther).
  Proof.
    intros Ht Hg Hmax H63 Hok Hh Hb Hbad Hm Hd Hi Hp. unfold container.
    set (P := ld (enc_header (Some roots) 1) ++ enc_sections pre ++ enc_section c d ++ rest) in *.
    assert (Hpos : 0 < blen P).
    { unfold P. rewrite blen_app, blen_ld. unfold ld_size. pose proof (uv_size_pos (blen (enc_header (Some roots) 1))). lia. }
    rewrite (br_read_all_v2 hok hdrdec pragma_ok) by
      (try assumption; unfold v2hdr_ok; cbn [h_hi h_lo h_doff h_dsize h_ioff]; unfold two63, two64 in *; lia).
    rewrite window_whole. apply lift_ok. unfold P. apply br_read_all_corrupt_v1; assumption.
  Qed.

  (* Inspect(true) fails whenever the verifying scan of the same bytes does not end cleanly *)
  Lemma inspect_file_fails_when_scan_fails o file :
    o_maxs o <= max_digest_alloc ->
    (forall v roots bl, br_read_all hok hdrdec (untrusted o) file <> Ok (v, roots, mkscan bl EEof)) ->
    exists e, inspect_file hok hdrdec o file true = Err e.
  Proof.
    intros Hcap Hno. unfold inspect_file.
    destruct (new_reader hdrdec o file) as [rd|e] eqn:Enr; [|exists e; reflexivity].
    destruct (inspect hok hdrdec o rd file true) as [st|e] eqn:Ei; [|exists e; reflexivity].
    exfalso. apply (c13_iff hok hdrdec o file rd Hcap Enr) in Ei.
    destruct Ei as (roots & blocks & codec & Hbr & _). exact (Hno _ _ _ Hbr).
  Qed.

  Theorem inspect_trunc_v2 o roots bs dpad ioff tail k :
    o_maxs o <= max_digest_alloc ->
    hdr_good hdrdec roots -> blen (enc_header (Some roots) 1) <= o_maxh o ->
    blen (enc_header (Some roots) 1) < two63 ->
    Forall (block_ok (o_maxs o)) bs -> Forall (hash_good hok) bs ->
    10 <= o_maxh o -> 51 + dpad < two63 -> ioff < two63 -> 0 < blen (enc_payload roots bs) < two63 ->
    51 + dpad <= k -> k < 51 + dpad + blen (enc_payload roots bs) ->
    ~ (exists j, (j <= length bs)%nat /\
         k = 51 + dpad + blen (ld (enc_header (Some roots) 1)) + blen (enc_sections (firstn j bs))) ->
    exists e, inspect_file hok hdrdec o (take k (container dpad ioff (enc_payload roots bs) tail)) true = Err e.
  Proof.
    intros Hcap Hg Hmax H63 Hok Hh Hm Hd Hi Hp Hk1 Hk2 Hnb.
    apply inspect_file_fails_when_scan_fails; [exact Hcap|].
    pose proof (untrusted_archive_ok hok hdrdec o roots bs Hg Hmax H63 Hok Hh) as Ha.
    intros v rs bl Hbr.
    destruct (br_read_all_trunc_v2 hok hdrdec pragma_ok (untrusted o) roots bs dpad ioff tail k Ha Hm Hd Hi Hp Hk1 Hk2 Hnb)
      as [(e & He)|(j & e & _ & Hne & He)]; rewrite He in Hbr; [discriminate|].
    inversion Hbr. congruence.
  Qed.

  Theorem inspect_corrupt_v2 o roots pre c d rest dpad ioff tail :
    o_maxs o <= max_digest_alloc ->
    hdr_good hdrdec roots -> blen (enc_header (Some roots) 1) <= o_maxh o ->
    blen (enc_header (Some roots) 1) < two63 ->
    Forall (block_ok (o_maxs o)) pre -> Forall (hash_good hok) pre ->
    block_ok (o_maxs o) (c, d) -> hash_bad hok (c, d) ->
    10 <= o_maxh o -> 51 + dpad < two63 -> ioff < two63 ->
    blen (ld (enc_header (Some roots) 1) ++ enc_sections pre ++ enc_section c d ++ rest) < two63 ->
    exists e, inspect_file hok hdrdec o
      (container dpad ioff (ld (enc_header (Some roots) 1) ++ enc_sections pre ++ enc_section c d ++ rest) tail)
      true = Err e.
  Proof.
    intros Hcap Hg Hmax H63 Hok Hh Hb Hbad Hm Hd Hi Hp.
    apply inspect_file_fails_when_scan_fails; [exact Hcap|]. intros v rs bl Hbr.
    rewrite (br_read_all_corrupt_v2 (untrusted o)) in Hbr by (try assumption; reflexivity).
    inversion Hbr.
  Qed.

  (* ---- walks over the LimitReader of a CARv2 (discard path): statements in terms of [vis] only ------- *)
  Lemma vis_set_off off st : vis (set_off off st) = vis st.
  Proof. reflexivity. Qed.

  Lemma brp_next_vis o st c d x :
    vis st = enc_section c d ++ x -> block_ok (o_maxs o) (c, d) ->
    (o_trusted o = false -> hash_good hok (c, d)) ->
    exists st', brp_next hok o st = Ok ((c, d), st') /\ vis st' = x /\ p_lim st' = match p_lim st with
                                                                                  | None => None
                                                                                  | Some n => Some (n - blen (enc_section c d))
                                                                                  end.
  Proof.
    intros Hvis Hb Hh. unfold brp_next. rewrite Hvis, next_block_section by assumption.
    eexists. split; [reflexivity|]. rewrite vis_set_off, vis_adv, Hvis, blen_app.
    replace (blen (enc_section c d) + blen x - blen x) with (blen (enc_section c d)) by lia.
    split; [apply drop_app|]. cbn [set_off adv p_lim]. reflexivity.
  Qed.

  Lemma brp_skip_vis o st lim c d x :
    p_lim st = Some lim ->
    vis st = enc_section c d ++ x -> block_ok (o_maxs o) (c, d) -> cid_stream_ok c ->
    exists md st', brp_skip o st = Ok (md, st') /\ m_cid md = c /\ vis st' = x /\
                   p_lim st' = Some (lim - blen (enc_section c d)).
  Proof.
    intros Hlim Hvis (Hc & Hmax & H63) Hs. cbn [fst snd] in *.
    destruct Hs as (p & Hp & Hcap & ->).
    pose proof (cid_enc_nonempty p Hp) as Hne.
    set (c := cid_enc p) in *. set (l := blen c + blen d) in *.
    assert (Hsec : enc_section c d ++ x = put_uv l ++ (c ++ d) ++ x).
    { unfold enc_section. fold l. rewrite <- !app_assoc. reflexivity. }
    unfold brp_skip. rewrite Hvis, Hsec.
    rewrite ld_read_size_put by (try assumption; intros _; unfold l; lia).
    replace (l =? 0) with false by (unfold l; lia).
    assert (Htake : take l ((c ++ d) ++ x) = c ++ d).
    { unfold l. rewrite <- blen_app. apply take_app. }
    rewrite Htake. unfold c at 1. rewrite (cid_from_reader_enc p d Hp Hcap). fold c.
    cbv zeta. rewrite Hlim.
    assert (Hv1 : vis (adv (uv_size l + blen c) st) = d ++ x).
    { rewrite vis_adv, Hvis, Hsec. rewrite <- (blen_put_uv l).
      replace (blen (put_uv l) + blen c) with (blen (put_uv l ++ c)) by (rewrite blen_app; reflexivity).
      rewrite <- !app_assoc. rewrite (app_assoc (put_uv l) c). apply drop_app. }
    assert (Hbsz : l - blen c = blen d) by (unfold l; lia).
    rewrite Hv1, Hbsz.
    replace (blen (d ++ x) <? blen d) with false by (rewrite blen_app; lia).
    eexists. eexists. split; [reflexivity|]. cbn [m_cid]. split; [reflexivity|].
    split.
    - rewrite vis_set_off, vis_adv, Hv1. apply drop_app.
    - cbn [set_off adv p_lim]. rewrite Hlim. f_equal.
      unfold enc_section. fold l. rewrite !blen_app, blen_put_uv. lia.
  Qed.

  Lemma brp_walk_cut_v2 o c d m : block_ok (o_maxs o) (c, d) -> 0 < m -> m < blen (enc_section c d) ->
    forall w bs st lim,
    blocks_ok hok o bs -> p_lim st = Some lim ->
    vis st = enc_sections bs ++ take m (enc_section c d) ->
    map step_cid (fst (brp_walk hok o w st)) = firstn (length (fst (brp_walk hok o w st))) (map fst bs) /\
    (length (fst (brp_walk hok o w st)) <= length bs)%nat /\
    fst (snd (brp_walk hok o w st)) <> Some EEof /\
    ((length (fst (brp_walk hok o w st)) < length w)%nat ->
       exists e, e <> EEof /\ fst (snd (brp_walk hok o w st)) = Some e).
  Proof.
    intros Hb Hm0 Hm. induction w as [|ch w IH]; intros bs st lim Hbs Hlim Hvis.
    - cbn. repeat split; try lia; discriminate.
    - destruct bs as [|[c1 d1] bs].
      + change (enc_sections [] ++ take m (enc_section c d)) with (take m (enc_section c d)) in Hvis.
        assert (Hrs : rsize_ok st) by (unfold rsize_ok; rewrite Hlim; discriminate).
        destruct (cut_section_calls_fail hok hdrdec o st c d m Hb Hm0 Hm Hvis Hrs)
          as ((e1 & Hne1 & He1) & (e2 & Hne2 & He2)).
        destruct ch; cbn [brp_walk]; [rewrite He1|rewrite He2]; cbn [fst snd length map firstn].
        * repeat split; try lia; [congruence|]. intros _. exists e1. split; [exact Hne1|reflexivity].
        * repeat split; try lia; [congruence|]. intros _. exists e2. split; [exact Hne2|reflexivity].
      + destruct Hbs as (Hok & Hst & Hh).
        inversion Hok as [|? ? Hb1 Hok']; subst. inversion Hst as [|? ? Hs1 Hst']; subst. cbn [fst] in Hs1.
        assert (Hbs' : blocks_ok hok o bs).
        { split; [exact Hok'|split; [exact Hst'|]]. intros Ht. specialize (Hh Ht). inversion Hh; assumption. }
        change (enc_sections ((c1, d1) :: bs)) with (enc_section c1 d1 ++ enc_sections bs) in Hvis.
        rewrite <- app_assoc in Hvis.
        destruct ch; cbn [brp_walk].
        * destruct (brp_next_vis o st c1 d1 _ Hvis Hb1) as (st' & Hn & Hv' & Hl').
          { intros Ht. specialize (Hh Ht). inversion Hh; assumption. }
          rewrite Hlim in Hl'. rewrite Hn. cbn [fst snd].
          destruct (IH bs st' _ Hbs' Hl' Hv') as (I1 & I2 & I3 & I4).
          cbn [length map firstn step_cid fst]. split; [rewrite I1; reflexivity|].
          split; [lia|]. split; [exact I3|]. intros Hl. apply I4. lia.
        * destruct (brp_skip_vis o st lim c1 d1 _ Hlim Hvis Hb1 Hs1) as (md & st' & Hn & Hc & Hv' & Hl').
          rewrite Hn. cbn [fst snd].
          destruct (IH bs st' _ Hbs' Hl' Hv') as (I1 & I2 & I3 & I4).
          cbn [length map firstn step_cid fst]. rewrite Hc. split; [rewrite I1; reflexivity|].
          split; [lia|]. split; [exact I3|]. intros Hl. apply I4. lia.
  Qed.

  (* NewBlockReader over a container cut at k inside the sections of its payload *)
  Lemma brp_open_cut_v2 o seek roots dpad ioff P tail k x :
    hdr_good hdrdec roots -> blen (enc_header (Some roots) 1) <= o_maxh o ->
    blen (enc_header (Some roots) 1) < two63 ->
    10 <= o_maxh o -> 51 + dpad < two63 -> ioff < two63 -> 0 < blen P < two63 ->
    51 + dpad <= k -> k <= 51 + dpad + blen P ->
    take (k - (51 + dpad)) P = ld (enc_header (Some roots) 1) ++ x ->
    exists st0 lim, brp_open hdrdec o seek (take k (container dpad ioff P tail)) = Ok (2, roots, st0) /\
                    p_lim st0 = Some lim /\ vis st0 = x.
  Proof.
    intros Hg Hmax H63 Hm Hd Hi Hp Hk1 Hk2 Hcut. unfold container.
    set (h := mkv2 0 0 (51 + dpad) (blen P) ioff).
    assert (Hh : v2hdr_ok h) by (unfold v2hdr_ok, h; cbn [h_hi h_lo h_doff h_dsize h_ioff]; unfold two63, two64 in *; lia).
    rewrite take_app_ge by (change (blen pragma) with 11; lia). change (blen pragma) with 11.
    rewrite take_app_ge by (rewrite blen_enc_v2hdr; lia). rewrite blen_enc_v2hdr.
    set (X := take (k - 11 - 40) (zerosN dpad ++ P ++ tail)).
    unfold brp_open. rewrite (read_header_pragma hok hdrdec pragma_ok) by exact Hm. cbn [N.eqb Pos.eqb].
    rewrite read_v2hdr_enc by exact Hh. cbv zeta. cbn [h_doff h_dsize h].
    replace (51 + dpad - 51) with dpad by lia.
    assert (HX : blen X = k - 51).
    { unfold X. rewrite blen_take, !blen_app, blen_zerosN. lia. }
    replace (negb seek && (blen X <? dpad)) with false by (rewrite HX; destruct seek; cbn; lia).
    (* the stream the reader sees: the window of the cut file *)
    match goal with |- context [read_header hdrdec (o_maxh o) (vis ?s)] => set (st0 := s) end.
    assert (Hvis0 : vis st0 = ld (enc_header (Some roots) 1) ++ x).
    { unfold vis, st0. cbn [p_lim p_pos p_all].
      change (11 + 40 + dpad) with (blen pragma + 40 + dpad).
      rewrite <- (blen_enc_v2hdr h) at 1.
      replace (blen pragma + blen (enc_v2hdr h) + dpad) with (blen (pragma ++ enc_v2hdr h) + dpad)
        by (rewrite blen_app; reflexivity).
      rewrite app_assoc. rewrite <- drop_drop, drop_app.
      replace (take (blen P) (drop dpad X)) with (window h X)
        by (unfold window, h; cbn [h_dsize h_doff]; f_equal; f_equal; lia).
      unfold X, h. rewrite (window_container hok) by (rewrite ?blen_app; lia).
      replace (k - 11 - 40 - dpad) with (k - (51 + dpad)) by lia. exact Hcut. }
    rewrite Hvis0. rewrite (read_header_payload hdrdec (o_maxh o) roots x Hg Hmax H63). cbn [N.eqb Pos.eqb].
    eexists. eexists. split; [reflexivity|]. split; [cbn [set_off adv p_lim st0]; reflexivity|].
    rewrite vis_set_off, vis_adv, Hvis0. rewrite <- blen_ld. apply drop_app.
  Qed.

  (* (b) every walk over a container cut inside its payload, off a section boundary *)
  Theorem brp_run_trunc_v2 o seek roots bs dpad ioff tail k w :
    hdr_good hdrdec roots -> blen (enc_header (Some roots) 1) <= o_maxh o ->
    blen (enc_header (Some roots) 1) < two63 ->
    Forall (block_ok (o_maxs o)) bs -> Forall (fun b => cid_stream_ok (fst b)) bs ->
    (o_trusted o = false -> Forall (hash_good hok) bs) ->
    10 <= o_maxh o -> 51 + dpad < two63 -> ioff < two63 -> 0 < blen (enc_payload roots bs) < two63 ->
    51 + dpad + blen (ld (enc_header (Some roots) 1)) <= k -> k < 51 + dpad + blen (enc_payload roots bs) ->
    ~ (exists j, (j <= length bs)%nat /\
         k = 51 + dpad + blen (ld (enc_header (Some roots) 1)) + blen (enc_sections (firstn j bs))) ->
    exists j st0 steps e fin, (j < length bs)%nat /\
      51 + dpad + blen (ld (enc_header (Some roots) 1)) + blen (enc_sections (firstn j bs)) < k /\
      brp_run hok hdrdec o seek (take k (container dpad ioff (enc_payload roots bs) tail)) w
      = Ok (2, roots, st0, (steps, (e, fin))) /\
      (length steps <= j)%nat /\
      map step_cid steps = firstn (length steps) (map fst bs) /\
      e <> Some EEof /\
      ((length steps < length w)%nat -> exists e', e' <> EEof /\ e = Some e').
  Proof.
    intros Hg Hmax H63 Hok Hst Hh Hm Hd Hi Hp Hk1 Hk2 Hnb.
    set (hb := ld (enc_header (Some roots) 1)) in *.
    set (kk := k - (51 + dpad)).
    assert (Hpay : enc_payload roots bs = hb ++ enc_sections bs) by reflexivity.
    destruct (cut_decompose hok hdrdec bs (kk - blen hb)) as (j & c & d & m' & Hn & H0 & Hl & Ht).
    { rewrite Hpay, blen_app in Hk2. unfold kk. lia. }
    { intros (j & Hj & Hmj). apply Hnb. exists j. split; [exact Hj|]. unfold kk in Hmj. lia. }
    assert (Hjl : (j < length bs)%nat) by (apply nth_error_Some; congruence).
    assert (Hbc : block_ok (o_maxs o) (c, d)) by (eapply Forall_nth; eassumption).
    set (x := enc_sections (firstn j bs) ++ take m' (enc_section c d)).
    assert (Hcut : take kk (enc_payload roots bs) = hb ++ x).
    { rewrite Hpay. rewrite take_app_ge by (unfold kk; lia). rewrite Ht. reflexivity. }
    destruct (brp_open_cut_v2 o seek roots dpad ioff (enc_payload roots bs) tail k x)
      as (st0 & lim & Hopen & Hlim & Hvis); try assumption; try lia.
    assert (Hbs : blocks_ok hok o (firstn j bs)).
    { split; [apply Forall_firstn; exact Hok|]. split; [apply Forall_firstn; exact Hst|].
      intros T. apply Forall_firstn. exact (Hh T). }
    destruct (brp_walk_cut_v2 o c d m' Hbc H0 Hl w (firstn j bs) st0 lim Hbs Hlim Hvis) as (W1 & W2 & W3 & W4).
    exists j, st0, (fst (brp_walk hok o w st0)), (fst (snd (brp_walk hok o w st0))), (snd (snd (brp_walk hok o w st0))).
    split; [exact Hjl|]. split.
    { assert (Hb' : blen (take (kk - blen hb) (enc_sections bs)) = kk - blen hb).
      { rewrite blen_take. rewrite Hpay, blen_app in Hk2. unfold kk. lia. }
      rewrite Ht, blen_app, blen_take in Hb'. unfold kk in Hb'. lia. }
    split.
    { unfold brp_run. rewrite Hopen. destruct (brp_walk hok o w st0) as [s [e f]]. reflexivity. }
    rewrite firstn_length in W2. split; [lia|]. split.
    { rewrite W1. rewrite <- firstn_map. rewrite firstn_firstn. f_equal. lia. }
    split; [exact W3|exact W4].
  Qed.
End V2More.

(* ---- non-vacuity: the example archive of ScanTrunc inside a container with 3 bytes of data padding ---- *)
Example ex_pragma_canon : dec_header_canon pragma_body = Some ([], 2).
Proof. vm_compute. reflexivity. Qed.

Definition ex_v2_cut : bytes :=
  take (51 + 3 + blen (enc_payload [ex_cid1] ex_blocks) - 1) (container 3 0 (enc_payload [ex_cid1] ex_blocks) []).

Example ex_corrupt_v2_runs :
  br_read_all ex_hok dec_header_canon default_ropts
    (container 3 0 (ld (enc_header (Some [ex_cid1]) 1) ++ enc_sections [(ex_cid1, [x61; x62])] ++ enc_section ex_cid2 [x64] ++ []) [])
  = Ok (2, [ex_cid1], mkscan [(ex_cid1, [x61; x62])] EOther).
Proof. vm_compute. reflexivity. Qed.

Example ex_inspect_v2_cut_runs :
  inspect_file ex_hok dec_header_canon default_ropts ex_v2_cut true = Err EUnexpectedEof.
Proof. vm_compute. reflexivity. Qed.

(* SkipNext, Next over the cut container, seekable and plain source: one step, then an error that is not EOF *)
Example ex_walk_v2_cut_runs :
  forall seek, exists st0 s1 fin,
    brp_run ex_hok dec_header_canon default_ropts seek ex_v2_cut [false; true]
    = Ok (2, [ex_cid1], st0, ([s1], (Some EUnexpectedEof, fin))) /\ step_cid s1 = ex_cid1.
Proof. intros [|]; eexists; eexists; eexists; split; vm_compute; reflexivity. Qed.

(* statement of props/C02.v: Inspect(true) over a cut and over a corrupted container *)
Theorem inspect_v2_fails hok hdrdec (pragma_ok : hdrdec pragma_body = Some ([], 2)) o roots dpad ioff tail :
  o_maxs o <= max_digest_alloc ->
  hdr_good hdrdec roots -> blen (enc_header (Some roots) 1) <= o_maxh o ->
  blen (enc_header (Some roots) 1) < two63 -> 10 <= o_maxh o -> 51 + dpad < two63 -> ioff < two63 ->
  (forall bs k,
     Forall (block_ok (o_maxs o)) bs -> Forall (hash_good hok) bs -> 0 < blen (enc_payload roots bs) < two63 ->
     51 + dpad <= k -> k < 51 + dpad + blen (enc_payload roots bs) ->
     ~ (exists j, (j <= length bs)%nat /\
          k = 51 + dpad + blen (ld (enc_header (Some roots) 1)) + blen (enc_sections (firstn j bs))) ->
     exists e, inspect_file hok hdrdec o (take k (container dpad ioff (enc_payload roots bs) tail)) true = Err e) /\
  (forall pre c d rest,
     Forall (block_ok (o_maxs o)) pre -> Forall (hash_good hok) pre ->
     block_ok (o_maxs o) (c, d) -> hash_bad hok (c, d) ->
     blen (ld (enc_header (Some roots) 1) ++ enc_sections pre ++ enc_section c d ++ rest) < two63 ->
     exists e, inspect_file hok hdrdec o
       (container dpad ioff (ld (enc_header (Some roots) 1) ++ enc_sections pre ++ enc_section c d ++ rest) tail)
       true = Err e).
Proof.
  intros Hcap Hg Hmax H63 Hm Hd Hi. split.
  - intros bs k Hok Hh Hp Hk1 Hk2 Hnb. apply inspect_trunc_v2; assumption.
  - intros pre c d rest Hok Hh Hb Hbad Hp. apply inspect_corrupt_v2; assumption.
Qed.
