(* C05 groundwork: bytes.Compare is a total order; sort.Search; ordered association lists. *)
From Coq Require Import Sorting.Sorted Sorting.Permutation.
From GoCar Require Import Bytes Varint Cid Index.
From GoCarProofs Require Import BytesFacts.
Ltac Zify.zify_post_hook ::= Z.div_mod_to_equations.

(* ---- bytes_cmp ------------------------------------------------------------------------------- *)
Lemma b2n_inj x y : b2n x = b2n y -> x = y.
Proof. intros H. rewrite <- (n2b_b2n x), <- (n2b_b2n y), H. reflexivity. Qed.

Lemma bytes_cmp_refl a : bytes_cmp a a = Eq.
Proof. induction a as [|x a IH]; cbn [bytes_cmp]; [reflexivity|]. rewrite N.compare_refl. exact IH. Qed.

Lemma bytes_cmp_eq a : forall b, bytes_cmp a b = Eq -> a = b.
Proof.
  induction a as [|x a IH]; intros [|y b] H; cbn [bytes_cmp] in H; try discriminate; [reflexivity|].
  destruct (N.compare_spec (b2n x) (b2n y)) as [E|E|E]; try discriminate.
  apply b2n_inj in E. subst. f_equal. apply IH. exact H.
Qed.

Lemma bytes_cmp_antisym a : forall b, bytes_cmp b a = CompOpp (bytes_cmp a b).
Proof.
  induction a as [|x a IH]; intros [|y b]; cbn [bytes_cmp]; try reflexivity.
  rewrite (N.compare_antisym (b2n x) (b2n y)).
  destruct (b2n x ?= b2n y); cbn [CompOpp]; [apply IH|reflexivity|reflexivity].
Qed.

Lemma bytes_cmp_trans_le a : forall b c,
  bytes_cmp a b <> Gt -> bytes_cmp b c <> Gt -> bytes_cmp a c <> Gt.
Proof.
  induction a as [|x a IH]; intros b c Hab Hbc.
  - destruct c; cbn; discriminate.
  - destruct b as [|y b]; [cbn in Hab; congruence|].
    destruct c as [|z c]; [cbn in Hbc; congruence|].
    cbn [bytes_cmp] in *.
    destruct (N.compare_spec (b2n x) (b2n y)) as [E1|E1|E1]; [| |congruence];
      destruct (N.compare_spec (b2n y) (b2n z)) as [E2|E2|E2]; try congruence.
    + rewrite E1, E2, N.compare_refl. eapply IH; eassumption.
    + replace (b2n x ?= b2n z) with Lt by (symmetry; apply N.compare_lt_iff; lia). discriminate.
    + replace (b2n x ?= b2n z) with Lt by (symmetry; apply N.compare_lt_iff; lia). discriminate.
    + replace (b2n x ?= b2n z) with Lt by (symmetry; apply N.compare_lt_iff; lia). discriminate.
Qed.

Lemma bytes_leb_refl a : bytes_leb a a = true.
Proof. unfold bytes_leb. rewrite bytes_cmp_refl. reflexivity. Qed.
Lemma bytes_leb_iff a b : bytes_leb a b = true <-> bytes_cmp a b <> Gt.
Proof. unfold bytes_leb. destruct (bytes_cmp a b); split; congruence. Qed.
Lemma bytes_leb_trans a b c : bytes_leb a b = true -> bytes_leb b c = true -> bytes_leb a c = true.
Proof. rewrite !bytes_leb_iff. apply bytes_cmp_trans_le. Qed.
Lemma bytes_leb_antisym a b : bytes_leb a b = true -> bytes_leb b a = true -> a = b.
Proof.
  rewrite !bytes_leb_iff. intros H1 H2. apply bytes_cmp_eq.
  rewrite (bytes_cmp_antisym a b) in H2. destruct (bytes_cmp a b); cbn in *; congruence.
Qed.
Lemma bytes_ltb_leb a b : bytes_ltb a b = negb (bytes_leb b a).
Proof.
  unfold bytes_ltb, bytes_leb. rewrite (bytes_cmp_antisym b a).
  destruct (bytes_cmp b a); reflexivity.
Qed.
Lemma bytes_ltb_false_leb a b : bytes_ltb a b = false -> bytes_leb b a = true.
Proof. rewrite bytes_ltb_leb. destruct (bytes_leb b a); [reflexivity|discriminate]. Qed.
Lemma bytes_ltb_true_leb a b : bytes_ltb a b = true -> bytes_leb a b = true.
Proof. unfold bytes_ltb, bytes_leb. destruct (bytes_cmp a b); congruence. Qed.

(* ---- stable insertion sort by digest ------------------------------------------------------------ *)
Definition dle (a b : irec) : Prop := bytes_leb (r_digest a) (r_digest b) = true.

Lemma ins_by_digest_perm r l : Permutation (ins_by_digest r l) (r :: l).
Proof.
  induction l as [|x t IH]; cbn [ins_by_digest]; [apply Permutation_refl|].
  destruct (bytes_ltb (r_digest r) (r_digest x)); [apply Permutation_refl|].
  eapply Permutation_trans; [apply perm_skip; exact IH|apply perm_swap].
Qed.

Lemma ins_by_digest_sorted r l : StronglySorted dle l -> StronglySorted dle (ins_by_digest r l).
Proof.
  induction 1 as [|x t Ht IH Hx]; cbn [ins_by_digest].
  - constructor; constructor.
  - destruct (bytes_ltb (r_digest r) (r_digest x)) eqn:E.
    + constructor; [constructor; assumption|].
      constructor; [apply bytes_ltb_true_leb; exact E|].
      rewrite Forall_forall in *. intros y Hy. unfold dle in *.
      eapply bytes_leb_trans; [apply bytes_ltb_true_leb; exact E|apply Hx; exact Hy].
    + constructor; [exact IH|].
      rewrite Forall_forall in *. intros y Hy.
      apply (Permutation_in _ (ins_by_digest_perm r t)) in Hy. destruct Hy as [<-|Hy].
      * apply bytes_ltb_false_leb. exact E.
      * apply Hx. exact Hy.
Qed.

Lemma sort_by_digest_gen rs : forall acc, StronglySorted dle acc ->
  StronglySorted dle (fold_left (fun a r => ins_by_digest r a) rs acc) /\
  Permutation (fold_left (fun a r => ins_by_digest r a) rs acc) (acc ++ rs).
Proof.
  induction rs as [|r rs IH]; intros acc Hs; cbn [fold_left].
  - rewrite app_nil_r. split; [exact Hs|apply Permutation_refl].
  - destruct (IH (ins_by_digest r acc) (ins_by_digest_sorted r acc Hs)) as [H1 H2]. split; [exact H1|].
    eapply Permutation_trans; [exact H2|].
    eapply Permutation_trans; [apply Permutation_app_tail; apply ins_by_digest_perm|].
    cbn [app]. apply Permutation_middle.
Qed.
Lemma sort_by_digest_sorted rs : StronglySorted dle (sort_by_digest rs).
Proof. apply (sort_by_digest_gen rs []). constructor. Qed.
Lemma sort_by_digest_perm rs : Permutation (sort_by_digest rs) rs.
Proof. apply (sort_by_digest_gen rs []). constructor. Qed.

Lemma ii_load_sorted rs : StronglySorted dle (ii_load rs []).
Proof. apply sort_by_digest_sorted. Qed.
Lemma ii_load_perm rs : Permutation (ii_load rs []) rs.
Proof. apply sort_by_digest_perm. Qed.

(* ---- sort.Search --------------------------------------------------------------------------------- *)
Lemma search_f_spec fuel f : forall i j, i <= j -> j - i < 2 ^ N.of_nat fuel ->
  (forall a b, i <= a -> a <= b -> b < j -> f a = true -> f b = true) ->
  i <= search_f fuel f i j <= j /\
  (forall a, i <= a -> a < search_f fuel f i j -> f a = false) /\
  (forall a, search_f fuel f i j <= a -> a < j -> f a = true).
Proof.
  induction fuel as [|k IH]; intros i j Hij Hsz Hmono; cbn [search_f].
  - cbn in Hsz. assert (i = j) by lia. subst. repeat split; intros; lia.
  - destruct (i <? j) eqn:E; [|assert (i = j) by lia; subst; repeat split; intros; lia].
    rewrite Nnat.Nat2N.inj_succ, N.pow_succ_r' in Hsz.
    set (h := (i + j) / 2). assert (Hh : i <= h /\ h < j) by (unfold h; lia).
    destruct (f h) eqn:Fh.
    + assert (Hsz1 : h - i < 2 ^ N.of_nat k) by (unfold h in *; lia).
      assert (Hm1 : forall a b, i <= a -> a <= b -> b < h -> f a = true -> f b = true).
      { intros a b H1 H2 H3 H4. apply (Hmono a b); try assumption. lia. }
      destruct (IH i h (proj1 Hh) Hsz1 Hm1) as (Hr & Hlo & Hhi).
      split; [lia|]. split; [exact Hlo|].
      intros a Ha Haj. destruct (a <? h) eqn:Eah.
      * apply Hhi; lia.
      * apply (Hmono h a); try lia. exact Fh.
    + assert (Hsz1 : j - (h + 1) < 2 ^ N.of_nat k) by (unfold h in *; lia).
      assert (Hm1 : forall a b, h + 1 <= a -> a <= b -> b < j -> f a = true -> f b = true).
      { intros a b H1 H2 H3 H4. apply (Hmono a b); try assumption. lia. }
      assert (Hle : h + 1 <= j) by lia.
      destruct (IH (h + 1) j Hle Hsz1 Hm1) as (Hr & Hlo & Hhi).
      split; [lia|]. split; [|exact Hhi].
      intros a Ha Har. destruct (a <=? h) eqn:Eah.
      * destruct (f a) eqn:Fa; [|reflexivity].
        assert (f h = true) by (apply (Hmono a h); try lia; exact Fa). congruence.
      * apply Hlo; lia.
Qed.

Lemma sort_search_spec n f : n < 2 ^ 70 ->
  (forall a b, a <= b -> b < n -> f a = true -> f b = true) ->
  sort_search n f <= n /\
  (forall a, a < sort_search n f -> f a = false) /\
  (forall a, sort_search n f <= a -> a < n -> f a = true).
Proof.
  intros Hn Hmono. unfold sort_search.
  destruct (search_f_spec 70 f 0 n) as (Hr & Hlo & Hhi); [lia|change (N.of_nat 70) with 70; lia|intros; eapply Hmono; eauto|].
  split; [lia|]. split; [intros; apply Hlo; lia|exact Hhi].
Qed.

(* ---- ordered association lists ----------------------------------------------------------------------- *)
Definition keys_asc {A} (m : list (N * A)) : Prop := StronglySorted N.lt (map fst m).

Lemma keys_asc_nil {A} : keys_asc (@nil (N * A)).
Proof. constructor. Qed.

Lemma keys_asc_cons_inv {A} k (v : A) m : keys_asc ((k, v) :: m) ->
  keys_asc m /\ forall k' v', In (k', v') m -> k < k'.
Proof.
  intros H. inversion H as [|? ? Hs Hall]; subst. split; [exact Hs|].
  intros k' v' Hin. rewrite Forall_forall in Hall. apply Hall. apply (in_map fst) in Hin. exact Hin.
Qed.

Lemma keys_asc_cons {A} k (v : A) m : keys_asc m -> (forall k' v', In (k', v') m -> k < k') ->
  keys_asc ((k, v) :: m).
Proof.
  intros Hs Hall. constructor; [exact Hs|]. rewrite Forall_forall. intros k' Hin.
  apply in_map_iff in Hin. destruct Hin as ([k'' v'] & <- & Hin). eapply Hall. exact Hin.
Qed.

Lemma kv_put_in {A} k (v : A) m : keys_asc m -> forall k' v',
  In (k', v') (kv_put k v m) <-> (k' = k /\ v' = v) \/ (k' <> k /\ In (k', v') m).
Proof.
  induction m as [|[k0 v0] t IH]; intros Hs k' v'; cbn [kv_put].
  - cbn. split; [intros [H|[]]; inversion H; auto|intros [[-> ->]|[_ []]]; auto].
  - destruct (keys_asc_cons_inv _ _ _ Hs) as [Ht Hlt].
    destruct (k <? k0) eqn:E1; [|destruct (k =? k0) eqn:E2].
    + cbn [In]. split.
      * intros [H|[H|H]]; [inversion H; auto|inversion H; subst; right; split; [lia|auto]|].
        right. split; [|auto]. specialize (Hlt _ _ H). lia.
      * intros [[-> ->]|[Hne H]]; [auto|right; exact H].
    + assert (k = k0) by lia. subst k0. cbn [In]. split.
      * intros [H|H]; [inversion H; auto|]. right. split; [|auto]. specialize (Hlt _ _ H). lia.
      * intros [[-> ->]|[Hne [H|H]]]; [auto|inversion H; congruence|auto].
    + cbn [In]. rewrite (IH Ht). split.
      * intros [H|[H|[Hne H]]]; [inversion H; subst; right; split; [lia|auto]|auto|auto].
      * intros [[-> ->]|[Hne [H|H]]]; auto.
Qed.

Lemma kv_put_asc {A} k (v : A) m : keys_asc m -> keys_asc (kv_put k v m).
Proof.
  induction m as [|[k0 v0] t IH]; intros Hs; cbn [kv_put].
  - apply keys_asc_cons; [constructor|intros ? ? []].
  - destruct (keys_asc_cons_inv _ _ _ Hs) as [Ht Hlt].
    destruct (k <? k0) eqn:E1; [|destruct (k =? k0) eqn:E2].
    + apply keys_asc_cons; [exact Hs|]. intros k' v' [H|H]; [inversion H; lia|]. specialize (Hlt _ _ H). lia.
    + assert (k = k0) by lia. subst. apply keys_asc_cons; assumption.
    + apply keys_asc_cons; [apply IH; exact Ht|].
      intros k' v' H. apply (kv_put_in k v t Ht) in H. destruct H as [[-> ->]|[_ H]]; [lia|eapply Hlt; exact H].
Qed.

Lemma kv_get_in {A} (m : list (N * A)) : keys_asc m -> forall k v, kv_get k m = Some v <-> In (k, v) m.
Proof.
  induction m as [|[k0 v0] t IH]; intros Hs k v; cbn [kv_get In].
  - split; [discriminate|intros []].
  - destruct (keys_asc_cons_inv _ _ _ Hs) as [Ht Hlt].
    destruct (k =? k0) eqn:E.
    + assert (k = k0) by lia. subst. split; [intros H; inversion H; auto|].
      intros [H|H]; [inversion H; reflexivity|]. specialize (Hlt _ _ H). lia.
    + rewrite (IH Ht). split; [auto|]. intros [H|H]; [inversion H; lia|exact H].
Qed.

Lemma kv_get_none {A} (m : list (N * A)) k : kv_get k m = None -> forall v, ~ In (k, v) m.
Proof.
  induction m as [|[k0 v0] t IH]; cbn [kv_get In]; intros H v; [tauto|].
  destruct (k =? k0) eqn:E; [discriminate|]. intros [Hin|Hin]; [inversion Hin; lia|]. exact (IH H v Hin).
Qed.

(* appending a key above all present ones *)
Lemma kv_put_append {A} k (v : A) m : (forall k' v', In (k', v') m -> k' < k) -> kv_put k v m = m ++ [(k, v)].
Proof.
  induction m as [|[k0 v0] t IH]; intros H; cbn [kv_put app]; [reflexivity|].
  assert (k0 < k) by (apply (H k0 v0); left; reflexivity).
  replace (k <? k0) with false by lia. replace (k =? k0) with false by lia.
  rewrite IH; [reflexivity|]. intros k' v' Hin. apply (H k' v'). right. exact Hin.
Qed.

(* folding kv_put over an ascending list rebuilds it *)
Lemma fold_kv_put_asc {A B} (F : A -> B) (gs : list (N * A)) : forall acc,
  keys_asc (acc ++ map (fun g => (fst g, F (snd g))) gs) ->
  fold_left (fun a g => kv_put (fst g) (F (snd g)) a) gs acc = acc ++ map (fun g => (fst g, F (snd g))) gs.
Proof.
  induction gs as [|[k g] t IH]; intros acc Hs; cbn [fold_left map fst snd].
  - rewrite app_nil_r. reflexivity.
  - cbn [map fst snd] in Hs.
    assert (Hlt : forall k' v', In (k', v') acc -> k' < k).
    { intros k' v' Hin. unfold keys_asc in Hs. rewrite map_app in Hs. cbn [map fst] in Hs.
      clear IH. induction acc as [|[k1 v1] acc IHa]; [destruct Hin|].
      cbn [map app fst] in Hs. inversion Hs as [|? ? Hs' Hall]; subst.
      destruct Hin as [Hin|Hin].
      - inversion Hin; subst. rewrite Forall_forall in Hall. apply Hall. apply in_or_app. right. left. reflexivity.
      - apply IHa; assumption. }
    rewrite (kv_put_append k (F g) acc Hlt).
    rewrite IH; [rewrite <- app_assoc; reflexivity|]. rewrite <- app_assoc. exact Hs.
Qed.

(* a strictly ascending list of numbers bounded by B has at most B + 1 elements *)
Lemma asc_length_bound ks : forall lo B, StronglySorted N.lt ks -> Forall (fun k => lo <= k /\ k <= B) ks ->
  N.of_nat (length ks) <= B + 1 - lo.
Proof.
  induction ks as [|k t IH]; intros lo B Hs Hb; cbn [length]; [lia|].
  inversion Hs as [|? ? Hs' Hall]; subst. inversion Hb as [|? ? [H1 H2] Hb']; subst.
  assert (Ht : Forall (fun x => k + 1 <= x /\ x <= B) t).
  { rewrite Forall_forall in *. intros x Hx. specialize (Hall x Hx). destruct (Hb' x Hx). lia. }
  specialize (IH (k + 1) B Hs' Ht). lia.
Qed.

(* ---- group_by ------------------------------------------------------------------------------------------ *)
Section GroupBy.
  Context {A : Type} (key : A -> N).

  Definition groups_ok (m : list (N * list A)) : Prop :=
    keys_asc m /\ (forall k g, In (k, g) m -> g <> [] /\ Forall (fun x => key x = k) g).

  Lemma kv_snoc_ok k x m : key x = k -> groups_ok m ->
    groups_ok (kv_snoc k x m) /\
    Permutation (concat (map snd (kv_snoc k x m))) (concat (map snd m) ++ [x]).
  Proof.
    intros Hk [Hs Hg]. unfold kv_snoc. destruct (kv_get k m) as [l|] eqn:E.
    - split.
      + split; [apply kv_put_asc; exact Hs|]. intros k' g Hin.
        apply (kv_put_in k (l ++ [x]) m Hs) in Hin. destruct Hin as [[-> ->]|[_ Hin]]; [|apply Hg; exact Hin].
        apply (kv_get_in m Hs) in E. destruct (Hg _ _ E) as [_ Hall].
        split; [destruct l; discriminate|]. apply Forall_app. split; [exact Hall|constructor; [exact Hk|constructor]].
      + apply (kv_get_in m Hs) in E. clear Hg. revert Hs E.
        induction m as [|[k0 v0] t IH]; intros Hs E; [destruct E|].
        destruct (keys_asc_cons_inv _ _ _ Hs) as [Ht Hlt]. cbn [kv_put].
        destruct E as [E|E].
        * inversion E; subst k0 v0. replace (k <? k) with false by lia. rewrite N.eqb_refl.
          cbn [map concat snd]. rewrite <- !app_assoc. apply Permutation_app_head. apply Permutation_app_comm.
        * specialize (Hlt _ _ E). replace (k <? k0) with false by lia. replace (k =? k0) with false by lia.
          cbn [map concat snd]. rewrite <- app_assoc. apply Permutation_app_head. apply IH; assumption.
    - split.
      + split; [apply kv_put_asc; exact Hs|]. intros k' g Hin.
        apply (kv_put_in k [x] m Hs) in Hin. destruct Hin as [[-> ->]|[_ Hin]]; [|apply Hg; exact Hin].
        split; [discriminate|constructor; [exact Hk|constructor]].
      + pose proof (kv_get_none m k E) as Hnone. clear Hg E. revert Hs Hnone.
        induction m as [|[k0 v0] t IH]; intros Hs Hnone; cbn [kv_put map concat snd app]; [apply Permutation_refl|].
        destruct (keys_asc_cons_inv _ _ _ Hs) as [Ht Hlt].
        destruct (k <? k0) eqn:E1; [|destruct (k =? k0) eqn:E2].
        * cbn [map concat snd]. change (x :: v0 ++ concat (map snd t)) with ([x] ++ (v0 ++ concat (map snd t))).
          apply Permutation_app_comm.
        * assert (k = k0) by lia. subst k0. exfalso. apply (Hnone v0). left. reflexivity.
        * cbn [map concat snd]. rewrite <- app_assoc. apply Permutation_app_head. apply IH; [exact Ht|].
          intros v Hin. apply (Hnone v). right. exact Hin.
  Qed.

  Lemma group_by_gen xs : forall m, groups_ok m ->
    groups_ok (fold_left (fun m x => kv_snoc (key x) x m) xs m) /\
    Permutation (concat (map snd (fold_left (fun m x => kv_snoc (key x) x m) xs m))) (concat (map snd m) ++ xs).
  Proof.
    induction xs as [|x xs IH]; intros m Hm; cbn [fold_left].
    - rewrite app_nil_r. split; [exact Hm|apply Permutation_refl].
    - destruct (kv_snoc_ok (key x) x m eq_refl Hm) as [Hm' Hp].
      destruct (IH _ Hm') as [H1 H2]. split; [exact H1|].
      eapply Permutation_trans; [exact H2|].
      eapply Permutation_trans; [apply Permutation_app_tail; exact Hp|]. rewrite <- app_assoc. apply Permutation_refl.
  Qed.

  Lemma group_by_ok xs : groups_ok (group_by key xs).
  Proof. apply (group_by_gen xs []). split; [constructor|intros ? ? []]. Qed.
  Lemma group_by_perm xs : Permutation (concat (map snd (group_by key xs))) xs.
  Proof. apply (group_by_gen xs []). split; [constructor|intros ? ? []]. Qed.

  (* every element sits in the group its key selects *)
  Lemma group_by_find xs x : In x xs ->
    exists g, kv_get (key x) (group_by key xs) = Some g /\ In x g.
  Proof.
    intros Hin. destruct (group_by_ok xs) as [Hs Hg].
    apply (Permutation_in _ (Permutation_sym (group_by_perm xs))) in Hin.
    apply in_concat in Hin. destruct Hin as (g & Hg1 & Hx).
    apply in_map_iff in Hg1. destruct Hg1 as ([k g'] & Heq & Hin). cbn in Heq. subst g'.
    destruct (Hg _ _ Hin) as [_ Hall]. rewrite Forall_forall in Hall. rewrite (Hall x Hx).
    exists g. split; [apply (kv_get_in _ Hs); exact Hin|exact Hx].
  Qed.

  Lemma group_by_length xs : (length (group_by key xs) <= length xs)%nat.
  Proof.
    destruct (group_by_ok xs) as [_ Hg]. pose proof (group_by_perm xs) as Hp.
    apply Permutation_length in Hp. rewrite <- Hp. clear Hp.
    induction (group_by key xs) as [|[k g] t IH]; cbn [length map concat snd]; [lia|].
    rewrite app_length. destruct (Hg k g (or_introl eq_refl)) as [Hne _].
    assert (length t <= length (concat (map snd t)))%nat by (apply IH; intros; apply Hg; right; assumption).
    destruct g; [congruence|cbn [length]; lia].
  Qed.
End GroupBy.
