(* C05 groundwork: ordered association lists (Go maps iterated through sorted keys), group_by, the
   insertion index as a permutation. *)
From Coq Require Import Sorting.Sorted Sorting.Permutation.
From GoCar Require Import Bytes Varint Cid Index.
From GoCarProofs Require Import BytesFacts.
Ltac Zify.zify_post_hook ::= Z.div_mod_to_equations.

Lemma b2n_inj x y : b2n x = b2n y -> x = y.
Proof. intros H. rewrite <- (n2b_b2n x), <- (n2b_b2n y), H. reflexivity. Qed.

(* ---- the insertion index is a permutation of the inserted records ----------------------------------
   (that it ascends by digest, and what sort.Search does with that, is IndexSort / IndexSearch's subject) *)
Lemma ins_by_digest_perm r l : Permutation (ins_by_digest r l) (r :: l).
Proof.
  induction l as [|x t IH]; cbn [ins_by_digest]; [apply Permutation_refl|].
  destruct (bytes_ltb (r_digest r) (r_digest x)); [apply Permutation_refl|].
  eapply Permutation_trans; [apply perm_skip; exact IH|apply perm_swap].
Qed.

Lemma sort_by_digest_gen rs : forall acc,
  Permutation (fold_left (fun a r => ins_by_digest r a) rs acc) (acc ++ rs).
Proof.
  induction rs as [|r rs IH]; intros acc; cbn [fold_left].
  - rewrite app_nil_r. apply Permutation_refl.
  - eapply Permutation_trans; [apply IH|].
    eapply Permutation_trans; [apply Permutation_app_tail; apply ins_by_digest_perm|].
    cbn [app]. apply Permutation_middle.
Qed.
Lemma sort_by_digest_perm rs : Permutation (sort_by_digest rs) rs.
Proof. apply (sort_by_digest_gen rs []). Qed.
Lemma ii_load_perm rs : Permutation (ii_load rs []) rs.
Proof. apply sort_by_digest_perm. Qed.

(* ---- ordered association lists ----------------------------------------------------------------------- *)
Definition keys_asc {A} (m : list (N * A)) : Prop := StronglySorted N.lt (map fst m).

Lemma keys_asc_nil {A} : keys_asc (@nil (N * A)).
Proof. constructor. Qed.

Lemma keys_asc_cons_inv {A} k (v : A) m : keys_asc ((k, v) :: m) ->
  keys_asc m /\ forall k' v', In (k', v') m -> k < k'.
Proof.
  intros H. inversion H as [|? ? Hs Hall]; subst. split; [exact Hs|].
  intros k' v' Hin. rewrite Forall_forall in Hall. apply Hall. apply (in_map fst) in Hin. exact Hin.
Qed.

Lemma keys_asc_cons {A} k (v : A) m : keys_asc m -> (forall k' v', In (k', v') m -> k < k') ->
  keys_asc ((k, v) :: m).
Proof.
  intros Hs Hall. constructor; [exact Hs|]. rewrite Forall_forall. intros k' Hin.
  apply in_map_iff in Hin. destruct Hin as ([k'' v'] & <- & Hin). eapply Hall. exact Hin.
Qed.

Lemma kv_put_in {A} k (v : A) m : keys_asc m -> forall k' v',
  In (k', v') (kv_put k v m) <-> (k' = k /\ v' = v) \/ (k' <> k /\ In (k', v') m).
Proof.
  induction m as [|[k0 v0] t IH]; intros Hs k' v'; cbn [kv_put].
  - cbn. split; [intros [H|[]]; inversion H; auto|intros [[-> ->]|[_ []]]; auto].
  - destruct (keys_asc_cons_inv _ _ _ Hs) as [Ht Hlt].
    destruct (k <? k0) eqn:E1; [|destruct (k =? k0) eqn:E2].
    + cbn [In]. split.
      * intros [H|[H|H]]; [inversion H; auto|inversion H; subst; right; split; [lia|auto]|].
        right. split; [|auto]. specialize (Hlt _ _ H). lia.
      * intros [[-> ->]|[Hne H]]; [auto|right; exact H].
    + assert (k = k0) by lia. subst k0. cbn [In]. split.
      * intros [H|H]; [inversion H; auto|]. right. split; [|auto]. specialize (Hlt _ _ H). lia.
      * intros [[-> ->]|[Hne [H|H]]]; [auto|inversion H; congruence|auto].
    + cbn [In]. rewrite (IH Ht). split.
      * intros [H|[H|[Hne H]]]; [inversion H; subst; right; split; [lia|auto]|auto|auto].
      * intros [[-> ->]|[Hne [H|H]]]; auto.
Qed.

Lemma kv_put_asc {A} k (v : A) m : keys_asc m -> keys_asc (kv_put k v m).
Proof.
  induction m as [|[k0 v0] t IH]; intros Hs; cbn [kv_put].
  - apply keys_asc_cons; [constructor|intros ? ? []].
  - destruct (keys_asc_cons_inv _ _ _ Hs) as [Ht Hlt].
    destruct (k <? k0) eqn:E1; [|destruct (k =? k0) eqn:E2].
    + apply keys_asc_cons; [exact Hs|]. intros k' v' [H|H]; [inversion H; lia|]. specialize (Hlt _ _ H). lia.
    + assert (k = k0) by lia. subst. apply keys_asc_cons; assumption.
    + apply keys_asc_cons; [apply IH; exact Ht|].
      intros k' v' H. apply (kv_put_in k v t Ht) in H. destruct H as [[-> ->]|[_ H]]; [lia|eapply Hlt; exact H].
Qed.

Lemma kv_get_in {A} (m : list (N * A)) : keys_asc m -> forall k v, kv_get k m = Some v <-> In (k, v) m.
Proof.
  induction m as [|[k0 v0] t IH]; intros Hs k v; cbn [kv_get In].
  - split; [discriminate|intros []].
  - destruct (keys_asc_cons_inv _ _ _ Hs) as [Ht Hlt].
    destruct (k =? k0) eqn:E.
    + assert (k = k0) by lia. subst. split; [intros H; inversion H; auto|].
      intros [H|H]; [inversion H; reflexivity|]. specialize (Hlt _ _ H). lia.
    + rewrite (IH Ht). split; [auto|]. intros [H|H]; [inversion H; lia|exact H].
Qed.

Lemma kv_get_none {A} (m : list (N * A)) k : kv_get k m = None -> forall v, ~ In (k, v) m.
Proof.
  induction m as [|[k0 v0] t IH]; cbn [kv_get In]; intros H v; [tauto|].
  destruct (k =? k0) eqn:E; [discriminate|]. intros [Hin|Hin]; [inversion Hin; lia|]. exact (IH H v Hin).
Qed.

(* appending a key above all present ones *)
Lemma kv_put_append {A} k (v : A) m : (forall k' v', In (k', v') m -> k' < k) -> kv_put k v m = m ++ [(k, v)].
Proof.
  induction m as [|[k0 v0] t IH]; intros H; cbn [kv_put app]; [reflexivity|].
  assert (k0 < k) by (apply (H k0 v0); left; reflexivity).
  replace (k <? k0) with false by lia. replace (k =? k0) with false by lia.
  rewrite IH; [reflexivity|]. intros k' v' Hin. apply (H k' v'). right. exact Hin.
Qed.

(* folding kv_put over an ascending list rebuilds it *)
Lemma fold_kv_put_asc {A B} (F : A -> B) (gs : list (N * A)) : forall acc,
  keys_asc (acc ++ map (fun g => (fst g, F (snd g))) gs) ->
  fold_left (fun a g => kv_put (fst g) (F (snd g)) a) gs acc = acc ++ map (fun g => (fst g, F (snd g))) gs.
Proof.
  induction gs as [|[k g] t IH]; intros acc Hs; cbn [fold_left map fst snd].
  - rewrite app_nil_r. reflexivity.
  - cbn [map fst snd] in Hs.
    assert (Hlt : forall k' v', In (k', v') acc -> k' < k).
    { intros k' v' Hin. unfold keys_asc in Hs. rewrite map_app in Hs. cbn [map fst] in Hs.
      clear IH. induction acc as [|[k1 v1] acc IHa]; [destruct Hin|].
      cbn [map app fst] in Hs. inversion Hs as [|? ? Hs' Hall]; subst.
      destruct Hin as [Hin|Hin].
      - inversion Hin; subst. rewrite Forall_forall in Hall. apply Hall. apply in_or_app. right. left. reflexivity.
      - apply IHa; assumption. }
    rewrite (kv_put_append k (F g) acc Hlt).
    rewrite IH; [rewrite <- app_assoc; reflexivity|]. rewrite <- app_assoc. exact Hs.
Qed.

(* a strictly ascending list of numbers bounded by B has at most B + 1 elements *)
Lemma asc_length_bound ks : forall lo B, StronglySorted N.lt ks -> Forall (fun k => lo <= k /\ k <= B) ks ->
  N.of_nat (length ks) <= B + 1 - lo.
Proof.
  induction ks as [|k t IH]; intros lo B Hs Hb; cbn [length]; [lia|].
  inversion Hs as [|? ? Hs' Hall]; subst. inversion Hb as [|? ? [H1 H2] Hb']; subst.
  assert (Ht : Forall (fun x => k + 1 <= x /\ x <= B) t).
  { rewrite Forall_forall in *. intros x Hx. specialize (Hall x Hx). destruct (Hb' x Hx). lia. }
  specialize (IH (k + 1) B Hs' Ht). lia.
Qed.

(* ---- group_by ------------------------------------------------------------------------------------------ *)
Section GroupBy.
  Context {A : Type} (key : A -> N).

  Definition groups_ok (m : list (N * list A)) : Prop :=
    keys_asc m /\ (forall k g, In (k, g) m -> g <> [] /\ Forall (fun x => key x = k) g).

  Lemma kv_snoc_ok k x m : key x = k -> groups_ok m ->
    groups_ok (kv_snoc k x m) /\
    Permutation (concat (map snd (kv_snoc k x m))) (concat (map snd m) ++ [x]).
  Proof.
    intros Hk [Hs Hg]. unfold kv_snoc. destruct (kv_get k m) as [l|] eqn:E.
    - split.
      + split; [apply kv_put_asc; exact Hs|]. intros k' g Hin.
        apply (kv_put_in k (l ++ [x]) m Hs) in Hin. destruct Hin as [[-> ->]|[_ Hin]]; [|apply Hg; exact Hin].
        apply (kv_get_in m Hs) in E. destruct (Hg _ _ E) as [_ Hall].
        split; [destruct l; discriminate|]. apply Forall_app. split; [exact Hall|constructor; [exact Hk|constructor]].
      + apply (kv_get_in m Hs) in E. clear Hg. revert Hs E.
        induction m as [|[k0 v0] t IH]; intros Hs E; [destruct E|].
        destruct (keys_asc_cons_inv _ _ _ Hs) as [Ht Hlt]. cbn [kv_put].
        destruct E as [E|E].
        * inversion E; subst k0 v0. replace (k <? k) with false by lia. rewrite N.eqb_refl.
          cbn [map concat snd]. rewrite <- !app_assoc. apply Permutation_app_head. apply Permutation_app_comm.
        * specialize (Hlt _ _ E). replace (k <? k0) with false by lia. replace (k =? k0) with false by lia.
          cbn [map concat snd]. rewrite <- app_assoc. apply Permutation_app_head. apply IH; assumption.
    - split.
      + split; [apply kv_put_asc; exact Hs|]. intros k' g Hin.
        apply (kv_put_in k [x] m Hs) in Hin. destruct Hin as [[-> ->]|[_ Hin]]; [|apply Hg; exact Hin].
        split; [discriminate|constructor; [exact Hk|constructor]].
      + pose proof (kv_get_none m k E) as Hnone. clear Hg E. revert Hs Hnone.
        induction m as [|[k0 v0] t IH]; intros Hs Hnone; cbn [kv_put map concat snd app]; [apply Permutation_refl|].
        destruct (keys_asc_cons_inv _ _ _ Hs) as [Ht Hlt].
        destruct (k <? k0) eqn:E1; [|destruct (k =? k0) eqn:E2].
        * cbn [map concat snd]. change (x :: v0 ++ concat (map snd t)) with ([x] ++ (v0 ++ concat (map snd t))).
          apply Permutation_app_comm.
        * assert (k = k0) by lia. subst k0. exfalso. apply (Hnone v0). left. reflexivity.
        * cbn [map concat snd]. rewrite <- app_assoc. apply Permutation_app_head. apply IH; [exact Ht|].
          intros v Hin. apply (Hnone v). right. exact Hin.
  Qed.

  Lemma group_by_gen xs : forall m, groups_ok m ->
    groups_ok (fold_left (fun m x => kv_snoc (key x) x m) xs m) /\
    Permutation (concat (map snd (fold_left (fun m x => kv_snoc (key x) x m) xs m))) (concat (map snd m) ++ xs).
  Proof.
    induction xs as [|x xs IH]; intros m Hm; cbn [fold_left].
    - rewrite app_nil_r. split; [exact Hm|apply Permutation_refl].
    - destruct (kv_snoc_ok (key x) x m eq_refl Hm) as [Hm' Hp].
      destruct (IH _ Hm') as [H1 H2]. split; [exact H1|].
      eapply Permutation_trans; [exact H2|].
      eapply Permutation_trans; [apply Permutation_app_tail; exact Hp|]. rewrite <- app_assoc. apply Permutation_refl.
  Qed.

  Lemma group_by_ok xs : groups_ok (group_by key xs).
  Proof. apply (group_by_gen xs []). split; [constructor|intros ? ? []]. Qed.
  Lemma group_by_perm xs : Permutation (concat (map snd (group_by key xs))) xs.
  Proof. apply (group_by_gen xs []). split; [constructor|intros ? ? []]. Qed.

  (* every element sits in the group its key selects *)
  Lemma group_by_find xs x : In x xs ->
    exists g, kv_get (key x) (group_by key xs) = Some g /\ In x g.
  Proof.
    intros Hin. destruct (group_by_ok xs) as [Hs Hg].
    apply (Permutation_in _ (Permutation_sym (group_by_perm xs))) in Hin.
    apply in_concat in Hin. destruct Hin as (g & Hg1 & Hx).
    apply in_map_iff in Hg1. destruct Hg1 as ([k g'] & Heq & Hin). cbn in Heq. subst g'.
    destruct (Hg _ _ Hin) as [_ Hall]. rewrite Forall_forall in Hall. rewrite (Hall x Hx).
    exists g. split; [apply (kv_get_in _ Hs); exact Hin|exact Hx].
  Qed.

  Lemma group_by_length xs : (length (group_by key xs) <= length xs)%nat.
  Proof.
    destruct (group_by_ok xs) as [_ Hg]. pose proof (group_by_perm xs) as Hp.
    apply Permutation_length in Hp. rewrite <- Hp. clear Hp.
    induction (group_by key xs) as [|[k g] t IH]; cbn [length map concat snd]; [lia|].
    rewrite app_length. destruct (Hg k g (or_introl eq_refl)) as [Hne _].
    assert (length t <= length (concat (map snd t)))%nat by (apply IH; intros; apply Hg; right; assumption).
    destruct g; [congruence|cbn [length]; lia].
  Qed.
End GroupBy.
