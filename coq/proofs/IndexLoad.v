(* Load: what the buckets of a loaded index are (extensionally), that the result is well-formed
   and ascending, that lookups return exactly the offsets of the matching records, and that the
   serialized form does not depend on the load order beyond the order inside equal-digest runs --
   for ANY sorting function meeting sort.Sort's contract. *)
From Coq Require Import Permutation Sorting.Sorted.
From GoCar Require Import Bytes Varint Cid Index.
From GoCarProofs Require Import BytesFacts VarintFacts IndexKv IndexSort IndexCompact IndexSearch IndexRoundtrip.

Definition rec_ok (r : irec) : Prop :=
  r_off r < two64 /\ r_code r < two64 /\ rec_width r <= max_width.
(* the whole record set fits one allocation (every real []Record does) *)
Definition recs_fit (rs : list irec) : Prop := blen (compact rs) <= max_alloc.

Lemma rec_width_ge8 r : 8 <= rec_width r.
Proof. unfold rec_width. lia. Qed.

Lemma perm_filter {A} (p : A -> bool) (a b : list A) :
  Permutation a b -> Permutation (filter p a) (filter p b).
Proof.
  induction 1 as [|x l1 l2 Hp IH|x y l1|l1 l2 l3 H1 IH1 H2 IH2]; cbn [filter].
  - apply perm_nil.
  - destruct (p x); [apply perm_skip|]; exact IH.
  - destruct (p x), (p y); try reflexivity. apply perm_swap.
  - etransitivity; eassumption.
Qed.

(* ---- sizes ------------------------------------------------------------------------------------ *)
Lemma blen_compact_perm a b : Permutation a b -> blen (compact a) = blen (compact b).
Proof.
  induction 1 as [|x a b Hp IH|x y a|a b c H1 IH1 H2 IH2]; try reflexivity.
  - rewrite !compact_cons, !blen_app, IH. reflexivity.
  - rewrite !compact_cons, !blen_app. lia.
  - congruence.
Qed.

Lemma blen_compact_filter p l : blen (compact (filter p l)) <= blen (compact l).
Proof.
  induction l as [|x l IH]; cbn [filter]; [lia|]. destruct (p x); rewrite ?compact_cons, ?blen_app; lia.
Qed.

Lemma compact_length_bound w l : 8 <= w -> all_width w l -> 8 * N.of_nat (length l) <= blen (compact l).
Proof. intros Hw Hl. rewrite (blen_compact w l Hl). nia. Qed.

(* ---- the buckets of a loaded index ---------------------------------------------------------------- *)
Section Load.
  Variable srt : list irec -> list irec.
  Hypothesis srt_ok : sort_contract srt.

  Definition width_is (w : N) (r : irec) : bool := rec_width r =? w.
  Definition code_is (c : N) (r : irec) : bool := r_code r =? c.

  Lemma mwi_load_get rs m w :
    kv_get w (mwi_load_with srt rs m)
    = match filter (width_is w) rs with
      | [] => kv_get w m
      | l => Some (compact (srt l))
      end.
  Proof.
    unfold mwi_load_with.
    rewrite (kv_fold_put_get (fun g => compact (srt (snd g))) (group_by rec_width rs) m w (group_by_sorted _ _)).
    rewrite group_by_get. unfold width_is.
    destruct (filter (fun x => rec_width x =? w) rs); reflexivity.
  Qed.

  Lemma mwi_load_sorted rs m : kv_sorted m -> kv_sorted (mwi_load_with srt rs m).
  Proof. intros H. unfold mwi_load_with. apply (kv_fold_put_sorted (fun g => compact (srt (snd g)))). exact H. Qed.

  (* loading onto a fresh index: one bucket per width present, in ascending width order *)
  Lemma mwi_load_fresh rs :
    mwi_load_with srt rs [] = map (fun g => (fst g, compact (srt (snd g)))) (group_by rec_width rs).
  Proof.
    apply kv_ext.
    - apply mwi_load_sorted. exact I.
    - apply (kv_sorted_map (fun g => compact (srt (snd g)))). apply group_by_sorted.
    - intros k. rewrite mwi_load_get.
      rewrite (kv_get_map (fun g => compact (srt (snd g)))). rewrite group_by_get. unfold width_is.
      destruct (filter (fun x => rec_width x =? k) rs); reflexivity.
  Qed.

  Lemma mh_load_get rs m c :
    kv_get c (mh_load_with srt rs m)
    = match filter (code_is c) rs with
      | [] => kv_get c m
      | l => Some (mwi_load_with srt l [])
      end.
  Proof.
    unfold mh_load_with.
    rewrite (kv_fold_put_get (fun g => mwi_load_with srt (snd g) []) (group_by r_code rs) m c (group_by_sorted _ _)).
    rewrite group_by_get. unfold code_is.
    destruct (filter (fun x => r_code x =? c) rs); reflexivity.
  Qed.

  Lemma mh_load_sorted rs m : kv_sorted m -> kv_sorted (mh_load_with srt rs m).
  Proof. intros H. unfold mh_load_with. apply (kv_fold_put_sorted (fun g => mwi_load_with srt (snd g) [])). exact H. Qed.

  Lemma mh_load_fresh rs :
    mh_load_with srt rs [] = map (fun g => (fst g, mwi_load_with srt (snd g) [])) (group_by r_code rs).
  Proof.
    apply kv_ext.
    - apply mh_load_sorted. exact I.
    - apply (kv_sorted_map (fun g => mwi_load_with srt (snd g) [])). apply group_by_sorted.
    - intros k. rewrite mh_load_get.
      rewrite (kv_get_map (fun g => mwi_load_with srt (snd g) [])). rewrite group_by_get. unfold code_is.
      destruct (filter (fun x => r_code x =? k) rs); reflexivity.
  Qed.

  (* ---- facts about one bucket ------------------------------------------------------------------- *)
  Lemma srt_all_width w l : all_width w l -> all_width w (srt l).
  Proof.
    unfold all_width. intros H. apply Forall_forall. intros x Hx.
    rewrite Forall_forall in H. apply H. eapply Permutation_in; [apply srt_ok|exact Hx].
  Qed.
  Lemma srt_offs_ok l : offs_ok l -> offs_ok (srt l).
  Proof.
    unfold offs_ok. intros H. apply Forall_forall. intros x Hx.
    rewrite Forall_forall in H. apply H. eapply Permutation_in; [apply srt_ok|exact Hx].
  Qed.

  Lemma filter_width_all w rs : all_width w (filter (width_is w) rs).
  Proof. apply Forall_forall. intros x Hx. apply filter_In in Hx. unfold width_is in Hx. lia. Qed.

  Lemma recs_offs_ok rs : Forall rec_ok rs -> offs_ok rs.
  Proof. apply Forall_impl. intros r (H & _). exact H. Qed.

  Lemma offs_ok_filter p rs : offs_ok rs -> offs_ok (filter p rs).
  Proof.
    unfold offs_ok. intros H. apply Forall_forall. intros x Hx. apply filter_In in Hx.
    rewrite Forall_forall in H. apply H. tauto.
  Qed.

  Lemma Forall_filter {A} (P : A -> Prop) p (l : list A) : Forall P l -> Forall P (filter p l).
  Proof.
    intros H. apply Forall_forall. intros x Hx. apply filter_In in Hx. rewrite Forall_forall in H. apply H. tauto.
  Qed.

  Lemma recs_fit_filter p rs : recs_fit rs -> recs_fit (filter p rs).
  Proof. unfold recs_fit. pose proof (blen_compact_filter p rs). lia. Qed.

  (* ---- well-formedness of a freshly loaded index ------------------------------------------------ *)
  Lemma mwi_load_fresh_wf rs : Forall rec_ok rs -> recs_fit rs -> mwi_wf (mwi_load_with srt rs []).
  Proof.
    intros Hok Hfit.
    assert (Hb : Forall swi_wf (mwi_load_with srt rs [])).
    { rewrite mwi_load_fresh. apply Forall_forall. intros b Hb. apply in_map_iff in Hb.
      destruct Hb as (g & <- & Hg). unfold swi_wf. cbn [fst snd].
      destruct (group_in_filter rec_width rs g Hg) as [Eg Hne].
      destruct (snd g) as [|x l] eqn:Eg'; [congruence|].
      assert (Hx : In x (filter (fun x0 => rec_width x0 =? fst g) rs)) by (rewrite <- Eg; left; reflexivity).
      apply filter_In in Hx. destruct Hx as [Hin Hk].
      rewrite Forall_forall in Hok. destruct (Hok x Hin) as (_ & _ & Hw).
      pose proof (rec_width_ge8 x).
      split; [lia|]. split; [lia|].
      rewrite (blen_compact_perm (srt (x :: l)) (x :: l)) by apply srt_ok. rewrite Eg.
      pose proof (blen_compact_filter (fun x0 => rec_width x0 =? fst g) rs). unfold recs_fit in Hfit. lia. }
    split; [apply mwi_load_sorted; exact I|]. split; [exact Hb|].
    pose proof (kv_sorted_length_bound (mwi_load_with srt rs []) 8 max_width (mwi_load_sorted rs [] I)) as Hl.
    assert (Hrange : Forall (fun x => 8 <= fst x <= max_width) (mwi_load_with srt rs [])).
    { eapply Forall_impl; [|exact Hb]. intros a (H1 & H2 & _). lia. }
    specialize (Hl Hrange). unfold max_width, two31 in *. lia.
  Qed.

  (* the int32 bucket count of the multihash index: number of distinct hash codes *)
  Definition codes_fit (rs : list irec) : Prop := N.of_nat (length (group_by r_code rs)) < two31.

  Lemma mh_load_fresh_wf rs : Forall rec_ok rs -> recs_fit rs -> codes_fit rs -> mh_wf (mh_load_with srt rs []).
  Proof.
    intros Hok Hfit Hcodes. split; [apply mh_load_sorted; exact I|]. split.
    - rewrite mh_load_fresh. apply Forall_forall. intros b Hb. apply in_map_iff in Hb.
      destruct Hb as (g & <- & Hg). cbn [fst snd].
      destruct (group_in_filter r_code rs g Hg) as [Eg Hne]. rewrite Eg. split.
      + destruct (snd g) as [|x l] eqn:Eg'; [congruence|].
        assert (Hx : In x (filter (fun x0 => r_code x0 =? fst g) rs)) by (rewrite <- Eg; left; reflexivity).
        apply filter_In in Hx. destruct Hx as [Hin Hc].
        rewrite Forall_forall in Hok. destruct (Hok x Hin) as (_ & Hcode & _). lia.
      + apply mwi_load_fresh_wf; [apply Forall_filter; exact Hok|apply recs_fit_filter; exact Hfit].
    - rewrite mh_load_fresh, map_length. exact Hcodes.
  Qed.

  Definition fits (codec : N) (rs : list irec) : Prop :=
    recs_fit rs /\ (codec = codec_mh_sorted -> codes_fit rs).

  Theorem idx_load_fresh_wf codec i0 rs :
    idx_new codec = Some i0 -> Forall rec_ok rs -> fits codec rs -> idx_wf (idx_load_with srt rs i0).
  Proof.
    unfold idx_new. intros Hnew Hok [Hfit Hcodes].
    destruct (codec =? codec_sorted) eqn:E1.
    - inversion Hnew; subst. cbn [idx_load_with idx_wf]. apply mwi_load_fresh_wf; assumption.
    - destruct (codec =? codec_mh_sorted) eqn:E2; [|discriminate]. inversion Hnew; subst.
      cbn [idx_load_with idx_wf]. apply mh_load_fresh_wf; try assumption. apply Hcodes. lia.
  Qed.

  (* ---- lookups ------------------------------------------------------------------------------------ *)
  Lemma has_digest_width d r : has_digest d r = true -> rec_width r = blen d + 8.
  Proof. unfold has_digest. intros H. apply bytes_eqb_eq in H. unfold rec_width. rewrite H. reflexivity. Qed.

  Lemma filter_digest_width d rs :
    filter (has_digest d) (filter (width_is (blen d + 8)) rs) = filter (has_digest d) rs.
  Proof.
    induction rs as [|r rs IH]; [reflexivity|]. cbn [filter]. unfold width_is at 1.
    destruct (rec_width r =? blen d + 8) eqn:E.
    - cbn [filter]. rewrite IH. reflexivity.
    - rewrite IH. destruct (has_digest d r) eqn:H; [|reflexivity].
      apply has_digest_width in H. lia.
  Qed.

  Lemma mwi_getall_load rs d : Forall rec_ok rs -> recs_fit rs ->
    Permutation (mwi_getall (mwi_load_with srt rs []) d) (spec_offsets_digest rs d).
  Proof.
    intros Hok Hfit. unfold mwi_getall, spec_offsets_digest. rewrite mwi_load_get. cbn [kv_get].
    fold (has_digest d). rewrite <- (filter_digest_width d rs).
    set (w := blen d + 8). destruct (filter (width_is w) rs) as [|x l] eqn:F.
    - reflexivity.
    - rewrite <- F.
      assert (Hall : all_width w (filter (width_is w) rs)) by apply filter_width_all.
      assert (Hoffs : offs_ok (filter (width_is w) rs)) by (apply offs_ok_filter, recs_offs_ok; exact Hok).
      assert (Hw : 8 <= w) by (unfold w; lia).
      rewrite swi_getall_sorted.
      + apply Permutation_map.
        apply perm_filter. apply srt_ok.
      + exact Hw.
      + apply srt_all_width. exact Hall.
      + apply srt_offs_ok. exact Hoffs.
      + apply srt_ok.
      + rewrite (Permutation_length (proj1 (srt_ok (filter (width_is w) rs)))).
        pose proof (compact_length_bound w _ Hw Hall) as Hb.
        pose proof (blen_compact_filter (width_is w) rs) as Hf. unfold recs_fit, max_alloc in Hfit.
        unfold search_cap. lia.
  Qed.

  Lemma filter_filter_code_digest c d rs :
    filter (has_digest d) (filter (code_is c) rs)
    = filter (fun r => (r_code r =? c) && bytes_eqb (r_digest r) d) rs.
  Proof.
    induction rs as [|r rs IH]; [reflexivity|]. cbn [filter]. unfold code_is at 1.
    destruct (r_code r =? c); cbn [andb filter]; rewrite IH; reflexivity.
  Qed.

  Lemma mh_getall_load rs c d : Forall rec_ok rs -> recs_fit rs ->
    Permutation (mh_getall (mh_load_with srt rs []) c d) (spec_offsets_mh rs c d).
  Proof.
    intros Hok Hfit. unfold mh_getall, spec_offsets_mh. rewrite mh_load_get. cbn [kv_get].
    rewrite <- filter_filter_code_digest.
    destruct (filter (code_is c) rs) as [|x l] eqn:F; [reflexivity|]. rewrite <- F.
    apply (mwi_getall_load (filter (code_is c) rs) d);
      [apply Forall_filter; exact Hok|apply recs_fit_filter; exact Hfit].
  Qed.

  (* C03/C11: a lookup returns exactly (as a multiset) the offsets of the records carrying the key *)
  Theorem idx_getall_load codec i0 rs c d :
    idx_new codec = Some i0 -> Forall rec_ok rs -> recs_fit rs ->
    Permutation (idx_getall (idx_load_with srt rs i0) c d)
                (if codec =? codec_sorted then spec_offsets_digest rs d else spec_offsets_mh rs c d).
  Proof.
    unfold idx_new. intros Hnew Hok Hfit. destruct (codec =? codec_sorted) eqn:E1.
    - inversion Hnew; subst. cbn [idx_load_with idx_getall]. apply mwi_getall_load; assumption.
    - destruct (codec =? codec_mh_sorted) eqn:E2; [|discriminate]. inversion Hnew; subst.
      cbn [idx_load_with idx_getall]. apply mh_getall_load; assumption.
  Qed.

  (* ---- ascending order of the stored form ---------------------------------------------------------- *)
  Lemma kv_sorted_ascending {A} (m : list (N * A)) : kv_sorted m -> ascending (map fst m) = true.
  Proof.
    induction m as [|[k v] t IH]; [reflexivity|]. cbn [kv_sorted fst]. intros [Hlb Hs].
    destruct t as [|[k' v'] t']; [reflexivity|]. cbn [map fst ascending].
    inversion Hlb; subst. cbn in *. rewrite (IH Hs). replace (k <? k') with true by lia. reflexivity.
  Qed.

  Lemma digests_sorted_cons2 a b t :
    digests_sorted (a :: b :: t) = bytes_leb a b && digests_sorted (b :: t).
  Proof. reflexivity. Qed.

  Lemma digest_sorted_adjacent l : digest_sorted l -> digests_sorted (map r_digest l) = true.
  Proof.
    induction 1 as [|a t Hs IH Hlb]; [reflexivity|]. destruct t as [|b t']; [reflexivity|].
    cbn [map] in *. rewrite digests_sorted_cons2, IH. inversion Hlb; subst. unfold digest_le in *.
    replace (bytes_leb (r_digest a) (r_digest b)) with true by (symmetry; assumption). reflexivity.
  Qed.


  Lemma swi_sortedb_compact w l : 8 <= w -> all_width w l -> offs_ok l -> digest_sorted l ->
    swi_sortedb (w, compact l) = true.
  Proof.
    intros Hw Hl Ho Hs. unfold swi_sortedb. rewrite swi_foreach_compact by assumption.
    rewrite map_map. cbn [entry_of fst]. apply digest_sorted_adjacent. exact Hs.
  Qed.

  Lemma mwi_load_sortedb rs : Forall rec_ok rs -> mwi_sortedb (mwi_load_with srt rs []) = true.
  Proof.
    intros Hok. unfold mwi_sortedb. rewrite (kv_sorted_ascending _ (mwi_load_sorted rs [] I)). cbn [andb].
    rewrite mwi_load_fresh. apply forallb_forall. intros b Hb. apply in_map_iff in Hb.
    destruct Hb as (g & <- & Hg).
    destruct (group_in_filter rec_width rs g Hg) as [Eg Hne]. cbn [fst snd]. rewrite Eg.
    fold (width_is (fst g)).
    destruct (filter (width_is (fst g)) rs) as [|x l] eqn:F; [unfold width_is in F; congruence|].
    assert (Hx : In x (filter (width_is (fst g)) rs)) by (rewrite F; left; reflexivity).
    rewrite <- F.
    apply filter_In in Hx. destruct Hx as [_ Hx]. unfold width_is in Hx.
    apply swi_sortedb_compact.
    - pose proof (rec_width_ge8 x). lia.
    - apply srt_all_width, filter_width_all.
    - apply srt_offs_ok, offs_ok_filter, recs_offs_ok. exact Hok.
    - apply srt_ok.
  Qed.

  Lemma mh_load_sortedb rs : Forall rec_ok rs -> mh_sortedb (mh_load_with srt rs []) = true.
  Proof.
    intros Hok. unfold mh_sortedb. rewrite (kv_sorted_ascending _ (mh_load_sorted rs [] I)). cbn [andb].
    rewrite mh_load_fresh. apply forallb_forall. intros b Hb. apply in_map_iff in Hb.
    destruct Hb as (g & <- & Hg). cbn [snd].
    assert (Hsub : Forall rec_ok (snd g)).
    { apply Forall_forall. intros x Hx. destruct (group_by_in_key r_code rs g x Hg Hx) as [_ Hin].
      rewrite Forall_forall in Hok. apply Hok. exact Hin. }
    apply mwi_load_sortedb. exact Hsub.
  Qed.

  Theorem idx_load_sortedb codec i0 rs :
    idx_new codec = Some i0 -> Forall rec_ok rs -> idx_sortedb (idx_load_with srt rs i0) = true.
  Proof.
    unfold idx_new. intros Hnew Hok. destruct (codec =? codec_sorted) eqn:E1.
    - inversion Hnew; subst. apply mwi_load_sortedb. exact Hok.
    - destruct (codec =? codec_mh_sorted) eqn:E2; [|discriminate]. inversion Hnew; subst.
      apply mh_load_sortedb. exact Hok.
  Qed.
End Load.
