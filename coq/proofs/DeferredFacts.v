(* C20: facts about the deferred writer model (theories/Deferred.v). *)
From GoCar Require Import Bytes Varint Cid Header Frame V2Header Index Store Deferred.
From GoCarProofs Require Import BytesFacts.

(* ---- the in-place removal loop = filter ------------------------------------------------------------- *)
Definition keep (cb : N * bool) : bool := negb (snd cb).

Lemma remove_nth_app {A} (pre : list A) x t : remove_nth (length pre) (pre ++ x :: t) = pre ++ t.
Proof. induction pre as [|y pre IH]; [reflexivity|]. cbn [length app remove_nth]. rewrite IH. reflexivity. Qed.

Lemma nth_error_mid {A} (pre : list A) x t : nth_error (pre ++ x :: t) (length pre) = Some x.
Proof. induction pre as [|y pre IH]; [reflexivity|]. exact IH. Qed.

Lemma nth_error_end {A} (pre : list A) : nth_error (pre ++ []) (length pre) = None.
Proof. rewrite app_nil_r. apply nth_error_None. apply Nat.le_refl. Qed.

Lemma cb_loop_spec rest : forall fuel pre log, (length rest < fuel)%nat ->
  cb_loop fuel (length pre) (pre ++ rest) log = Some (pre ++ filter keep rest, log ++ map fst rest).
Proof.
  induction rest as [|[id once] t IH]; intros fuel pre log Hf; (destruct fuel; [cbn in Hf; lia|]); cbn [cb_loop].
  - rewrite nth_error_end. cbn [filter map]. rewrite !app_nil_r. reflexivity.
  - rewrite nth_error_mid. cbn [length] in Hf. destruct once.
    + rewrite remove_nth_app. rewrite IH by lia. cbn [filter keep snd negb map fst]. rewrite <- app_assoc. reflexivity.
    + replace (pre ++ (id, false) :: t) with ((pre ++ [(id, false)]) ++ t) by (rewrite <- app_assoc; reflexivity).
      replace (S (length pre)) with (length (pre ++ [(id, false)])) by (rewrite app_length; cbn; lia).
      rewrite IH by lia. cbn [filter keep snd negb map fst]. rewrite <- !app_assoc. reflexivity.
Qed.

(* the fuel is enough, and the loop does what the documentation says: every registered callback is
   invoked once, in registration order, and exactly the once-callbacks are dropped *)
Theorem fire_spec cbs : fire cbs = Some (filter keep cbs, map fst cbs).
Proof. unfold fire. apply (cb_loop_spec cbs (S (length cbs)) [] []). lia. Qed.

(* ---- single steps ------------------------------------------------------------------------------------------ *)
Section Steps.
  Variable c : dcfg.
  (* ordinary callbacks: none registers further callbacks while it fires (re-entrant registration is
     treated below: fire_re_reentrant) *)
  Hypothesis Hnk : dc_kids c = [].
  Lemma fire_re_plain cbs : fire_re (dc_kids c) cbs = fire cbs.
  Proof. rewrite Hnk. reflexivity. Qed.

  Lemma d_writer_cbs st : d_cbs (fst (d_writer c st)) = d_cbs st /\ d_closed (fst (d_writer c st)) = d_closed st.
  Proof. unfold d_writer. destruct (d_inner st); [auto|]. destruct (direct_open c); auto. Qed.

  (* Put on an open writer: the callback invocations and the callbacks that remain *)
  Lemma put_callbacks st k d : d_closed st = false ->
    do_log (snd (d_step c st (DPut k d))) = map (fun cb => (fst cb, blen d)) (d_cbs st) /\
    d_cbs (fst (d_step c st (DPut k d))) = filter keep (d_cbs st) /\
    d_closed (fst (d_step c st (DPut k d))) = false.
  Proof.
    intros Hc. cbn [d_step]. rewrite Hc, fire_re_plain, fire_spec.
    match goal with |- context [d_writer c ?x] => set (st1 := x) end.
    pose proof (d_writer_cbs st1) as (H1 & H2). cbn [st1 d_cbs d_closed] in H1, H2. fold st1 in H1, H2.
    destruct (d_writer c st1) as [st2 [s|e]]; cbn [fst] in H1, H2.
    - destruct (st_put s k d) as [s' r]. cbn [snd fst do_log d_cbs d_closed]. rewrite map_map.
      split; [reflexivity|split; [exact H1|exact H2]].
    - cbn [snd fst do_log]. rewrite map_map. split; [reflexivity|split; [exact H1|exact H2]].
  Qed.

  (* a closed writer: every call answers closed, nothing changes (OnPut still records the callback) *)
  Lemma closed_step st op : d_closed st = true ->
    (match op with
     | DOnPut _ _ => do_res (snd (d_step c st op)) = ONil
     | _ => d_step c st op = (st, mkdout (OErr EClosed) [])
     end) /\
    d_closed (fst (d_step c st op)) = true /\ d_inner (fst (d_step c st op)) = d_inner st /\
    d_created (fst (d_step c st op)) = d_created st /\ do_log (snd (d_step c st op)) = [].
  Proof.
    intros Hc. destruct op; cbn [d_step]; rewrite ?Hc; cbn [fst snd d_closed d_inner d_created do_res do_log]; auto.
  Qed.

  Lemma close_closes st : d_closed (fst (d_step c st DClose)) = true.
  Proof.
    cbn [d_step]. destruct (d_closed st) eqn:Hc; [exact Hc|]. destruct (d_inner st); [|reflexivity].
    destruct (st_finalize w). reflexivity.
  Qed.

  (* ---- histories ------------------------------------------------------------------------------------------------ *)
  Lemma d_run_cons st op t : d_run c st (op :: t) = d_run c (fst (d_step c st op)) t.
  Proof. reflexivity. Qed.

  Lemma closed_run ops : forall st, d_closed st = true ->
    d_closed (d_run c st ops) = true /\ d_inner (d_run c st ops) = d_inner st /\ d_created (d_run c st ops) = d_created st.
  Proof.
    induction ops as [|op t IH]; intros st Hc; [auto|]. rewrite d_run_cons.
    destruct (closed_step st op Hc) as (_ & H1 & H2 & H3 & _).
    destruct (IH _ H1) as (I1 & I2 & I3). rewrite I2, I3. auto.
  Qed.

  (* lazy: as long as no Put has been issued on a writer that is not closed, nothing is written and the
     output path is as it was (absent, or the pre-existing file with its bytes) -- in every state along
     the history *)
  Definition idle (st : dstate) : Prop := d_inner st = None /\ d_created st = false.

  Lemma idle_obs st : idle st -> d_bytes c st = pre_bytes c /\ d_exists c st = pre_exists c.
  Proof. intros (H1 & H2). unfold d_bytes, d_exists. rewrite H1, H2. auto. Qed.

  Lemma idle_step st op : idle st -> (d_closed st = true \/ is_put op = false) -> idle (fst (d_step c st op)).
  Proof.
    intros (Hi & Hcr) H. destruct (d_closed st) eqn:Hc.
    - destruct (closed_step st op Hc) as (_ & _ & H2 & H3 & _). split; congruence.
    - destruct H as [H|H]; [discriminate|]. unfold idle.
      destruct op; try discriminate; cbn [d_step]; rewrite ?Hc, ?Hi; cbn [fst d_inner d_created]; split; (assumption || reflexivity).
  Qed.

  Theorem lazy_trace ops : forall st, idle st ->
    (if d_closed st then True else d_puts ops = []) ->
    Forall (fun so => d_bytes c (fst so) = pre_bytes c /\ d_exists c (fst so) = pre_exists c) (d_trace c st ops).
  Proof.
    induction ops as [|op t IH]; intros st Hi Hp; [constructor|]. cbn [d_trace].
    assert (Hstep : d_closed st = true \/ is_put op = false).
    { destruct (d_closed st); [left; reflexivity|right]. destruct op; try reflexivity. discriminate. }
    pose proof (idle_step st op Hi Hstep) as Hi'.
    assert (Hp' : if d_closed (fst (d_step c st op)) then True else d_puts t = []).
    { destruct (d_closed st) eqn:Hc.
      - destruct (closed_step st op Hc) as (_ & H1 & _). rewrite H1. exact I.
      - destruct (d_closed (fst (d_step c st op))) eqn:Hc'; [exact I|].
        destruct op; cbn [d_puts] in Hp; try exact Hp; try discriminate.
        pose proof (close_closes st). congruence. }
    destruct (d_step c st op) as [st' o]. cbn [fst] in *. constructor.
    - cbn [fst]. apply idle_obs. exact Hi'.
    - apply IH; assumption.
  Qed.

  (* identical: once a writer exists, its state is that of the direct writer fed the same puts *)
  Lemma direct_puts_cons s k d t : direct_puts s ((k, d) :: t) = direct_puts (fst (st_put s k d)) t.
  Proof. reflexivity. Qed.

  Lemma run_from_some ops : forall st s, d_closed st = false -> d_inner st = Some s ->
    d_inner (d_run c st ops) = Some (direct_run s (d_puts ops) (existsb is_close ops)).
  Proof.
    induction ops as [|op t IH]; intros st s Hc Hi; [exact Hi|]. rewrite d_run_cons.
    destruct op as [id once|k|k d|]; cbn [d_puts existsb is_close orb].
    - apply IH; cbn [d_step fst d_closed d_inner]; assumption.
    - assert (E : fst (d_step c st (DHas k)) = st) by (cbn [d_step]; rewrite Hc, Hi; reflexivity).
      rewrite E. apply IH; assumption.
    - (* Put goes to the existing writer *)
      assert (E : d_closed (fst (d_step c st (DPut k d))) = false /\
                  d_inner (fst (d_step c st (DPut k d))) = Some (fst (st_put s k d))).
      { cbn [d_step]. rewrite Hc, fire_re_plain, fire_spec. unfold d_writer. cbn [d_inner]. rewrite Hi.
        destruct (st_put s k d) as [s' r]. cbn [fst d_closed d_inner]. auto. }
      destruct E as (E1 & E2). rewrite (IH _ _ E1 E2). unfold direct_run. rewrite direct_puts_cons. reflexivity.
    - (* Close finalizes; nothing moves afterwards *)
      assert (E : d_closed (fst (d_step c st DClose)) = true /\
                  d_inner (fst (d_step c st DClose)) = Some (fst (st_finalize s))).
      { cbn [d_step]. rewrite Hc, Hi. destruct (st_finalize s) as [s' r]. auto. }
      destruct E as (E1 & E2). destruct (closed_run t _ E1) as (_ & I2 & _). rewrite I2, E2. reflexivity.
  Qed.

  Theorem identical_from ops : forall st, d_closed st = false -> d_inner st = None ->
    forall s, d_inner (d_run c st ops) = Some s ->
    exists s0, direct_open c = Ok s0 /\ s = direct_run s0 (d_puts ops) (existsb is_close ops).
  Proof.
    induction ops as [|op t IH]; intros st Hc Hi s Hs; [cbn in Hs; congruence|]. rewrite d_run_cons in Hs.
    destruct op as [id once|k|k d|]; cbn [d_puts existsb is_close orb].
    - apply (IH (fst (d_step c st (DOnPut id once)))); cbn [d_step fst d_closed d_inner]; assumption.
    - assert (E : fst (d_step c st (DHas k)) = st) by (cbn [d_step]; rewrite Hc, Hi; reflexivity).
      rewrite E in Hs. apply (IH st); assumption.
    - (* the first Put creates the writer exactly as the direct constructor does *)
      cbn [d_step] in Hs. rewrite Hc, fire_re_plain, fire_spec in Hs. unfold d_writer in Hs. cbn [d_inner] in Hs. rewrite Hi in Hs.
      destruct (direct_open c) as [s0|e] eqn:Eo.
      + exists s0. split; [reflexivity|].
        destruct (st_put s0 k d) as [s' r] eqn:Ep. cbn [fst] in Hs.
        rewrite (run_from_some t _ s') in Hs by (cbn [d_closed d_inner]; auto).
        inversion Hs. unfold direct_run. rewrite direct_puts_cons, Ep. reflexivity.
      + cbn [fst] in Hs. apply (IH _) in Hs; cbn [d_closed d_inner]; auto.
        destruct Hs as (s0 & H0 & _). congruence.
    - (* Close before any Put: nothing will ever be written *)
      cbn [d_step] in Hs. rewrite Hc, Hi in Hs. cbn [fst] in Hs.
      destruct (closed_run t (mkd None (d_created st) (d_cbs st) true) eq_refl) as (_ & I2 & _).
      rewrite I2 in Hs. discriminate.
  Qed.

  (* callbacks along a history = the reference bookkeeping *)
  Lemma live_run ops : forall st,
    (d_cbs (d_run c st ops), d_closed (d_run c st ops)) = fold_left live_step ops (d_cbs st, d_closed st).
  Proof.
    induction ops as [|op t IH]; intros st; [reflexivity|]. rewrite d_run_cons. cbn [fold_left]. rewrite IH. f_equal.
    destruct op as [id once|k|k d|]; cbn [live_step].
    - reflexivity.
    - cbn [d_step]. destruct (d_closed st) eqn:Hc; [|destruct (d_inner st)]; cbn [fst]; rewrite Hc; reflexivity.
    - destruct (d_closed st) eqn:Hc.
      + cbn [d_step]. rewrite Hc. cbn [fst]. rewrite Hc. reflexivity.
      + destruct (put_callbacks st k d Hc) as (_ & H1 & H2). rewrite H1, H2. reflexivity.
    - destruct (d_closed st) eqn:Hc.
      + cbn [d_step]. rewrite Hc. cbn [fst]. rewrite Hc. reflexivity.
      + cbn [d_step]. rewrite Hc. destruct (d_inner st); [destruct (st_finalize w)|]; reflexivity.
  Qed.
End Steps.

Theorem callbacks_history c pre k d : dc_kids c = [] ->
  do_log (snd (d_step c (d_run c d_init pre) (DPut k d))) = expected_log pre d.
Proof.
  intros Hnk. pose proof (live_run c Hnk pre d_init) as H. cbn [d_init d_cbs d_closed] in H. fold (live pre) in H.
  unfold expected_log. rewrite <- H. cbn [fst snd].
  destruct (d_closed (d_run c d_init pre)) eqn:Hc.
  - destruct (closed_step c _ (DPut k d) Hc) as (_ & _ & _ & _ & H4). exact H4.
  - destruct (put_callbacks c Hnk _ k d Hc) as (H1 & _). exact H1.
Qed.

(* from the initial state *)
Theorem lazy_init c ops : d_puts ops = [] ->
  Forall (fun so => d_bytes c (fst so) = pre_bytes c /\ d_exists c (fst so) = pre_exists c) (d_trace c d_init ops).
Proof. intros H. apply lazy_trace; [split; reflexivity|exact H]. Qed.

Theorem identical_init c ops s : dc_kids c = [] -> d_inner (d_run c d_init ops) = Some s ->
  exists s0, direct_open c = Ok s0 /\ s = direct_run s0 (d_puts ops) (existsb is_close ops).
Proof. intros Hnk. apply identical_from; try reflexivity. exact Hnk. Qed.

(* the observable output once a writer exists: exactly the direct writer's file, and the file exists
   (path target) -- dc_pre does not occur on the right-hand side: whatever was at the path is gone *)
Theorem output_is_direct c ops s : dc_kids c = [] -> d_inner (d_run c d_init ops) = Some s ->
  exists s0, direct_open c = Ok s0 /\
             d_bytes c (d_run c d_init ops) = ws_file (direct_run s0 (d_puts ops) (existsb is_close ops)).
Proof.
  intros Hnk H. destruct (identical_init c ops s Hnk H) as (s0 & H0 & H1). exists s0. split; [exact H0|].
  unfold d_bytes. rewrite H, H1. reflexivity.
Qed.

Lemma direct_open_ignores_pre c pre :
  direct_open (mkdcfg (dc_target c) (dc_opts c) (dc_v1_given c) (dc_nilroots c) (dc_roots c) pre (dc_faults c) (dc_kids c)) = direct_open c.
Proof. reflexivity. Qed.

(* the inner writer exists only after the path was opened with create+truncate (path target) *)
Lemma created_when_inner c ops : dc_kids c = [] -> forall st, (d_inner st <> None -> dc_target c = TPath -> d_created st = true) ->
  d_inner (d_run c st ops) <> None -> dc_target c = TPath -> d_created (d_run c st ops) = true.
Proof.
  intros Hnk. induction ops as [|op t IH]; intros st Hst; [exact Hst|]. rewrite d_run_cons. apply IH. clear IH.
  destruct op as [id once|k|k d|]; cbn [d_step].
  - exact Hst.
  - destruct (d_closed st); [exact Hst|]. destruct (d_inner st) as [w|] eqn:E; cbn [fst]; rewrite ?E; exact Hst.
  - destruct (d_closed st); [exact Hst|]. rewrite (fire_re_plain c Hnk), fire_spec. unfold d_writer. cbn [d_inner d_created d_cbs d_closed].
    destruct (d_inner st) as [w|] eqn:E.
    + destruct (st_put w k d). cbn [fst d_created]. intros _ Ht. apply Hst; [congruence|exact Ht].
    + destruct (direct_open c) as [s0|e]; [destruct (st_put s0 k d)|]; cbn [fst d_inner d_created]; intros _ Ht; rewrite Ht; reflexivity.
  - destruct (d_closed st); [exact Hst|]. destruct (d_inner st) as [w|] eqn:E; [destruct (st_finalize w)|]; cbn [fst d_inner d_created].
    + intros _ Ht. apply Hst; [congruence|exact Ht].
    + congruence.
Qed.

Theorem created_init c ops : dc_kids c = [] ->
  d_inner (d_run c d_init ops) <> None -> dc_target c = TPath -> d_created (d_run c d_init ops) = true.
Proof. intros Hnk. apply created_when_inner; [exact Hnk|]. intros H. exfalso. apply H. reflexivity. Qed.

(* a Put's result is the direct writer's result for that Put *)
Theorem put_result_direct c pre k d s : dc_kids c = [] ->
  d_closed (d_run c d_init pre) = false -> d_inner (d_run c d_init pre) = Some s ->
  do_res (snd (d_step c (d_run c d_init pre) (DPut k d))) = snd (st_put s k d).
Proof.
  intros Hnk Hc Hi. cbn [d_step]. rewrite Hc, (fire_re_plain c Hnk), fire_spec. unfold d_writer. cbn [d_inner]. rewrite Hi.
  destruct (st_put s k d). reflexivity.
Qed.

(* ---- non-vacuity ---------------------------------------------------------------------------------------------- *)
Definition exd_digest : bytes := map n2b [1;2;3;4;5;6;7;8;9;10;11;12;13;14;15;16;17;18;19;20;21;22;23;24;25;26;27;28;29;30;31;32].
Definition exd_k1 : bytes := cid_enc (mkcid 1 85 18 exd_digest).
Definition exd_k2 : bytes := cid_enc (mkcid 1 112 18 exd_digest).     (* same multihash: skipped *)
Definition exd_k3 : bytes := cid_enc (mkcid 1 113 18 (rev exd_digest)).
Definition exd_o : wopts := mkwopts 0 0 1025 false 2048 false false false false 33554432 8388608.
Definition exd_cfg : dcfg := mkdcfg TStream exd_o false false [exd_k1] None [] [].
(* a path target on which a 500-byte file already sits *)
Definition exd_pcfg : dcfg := mkdcfg TPath exd_o false false [exd_k1] (Some (zeros 500)) [] [].
Definition exd_ops : list dop :=
  [DOnPut 1 false; DHas exd_k1; DOnPut 2 true; DPut exd_k1 [x01; x02]; DOnPut 3 true; DPut exd_k2 [x01; x02];
   DPut exd_k3 [x03]; DHas exd_k3; DClose; DPut exd_k1 [x01]; DHas exd_k1; DClose].

Example C20_example_logs :
  map (fun so => (do_res (snd so), do_log (snd so), blen (d_bytes exd_cfg (fst so)))) (d_trace exd_cfg d_init exd_ops)
  = [(ONil, [], 0); (OBool false, [], 0); (ONil, [], 0); (ONil, [(1, 2); (2, 2)], 98); (ONil, [], 98);
     (ONil, [(1, 2); (3, 2)], 98); (ONil, [(1, 1)], 136); (OBool true, [], 136); (ONil, [], 136);
     (OErr EClosed, [], 136); (OErr EClosed, [], 136); (OErr EClosed, [], 136)].
Proof. vm_compute. reflexivity. Qed.

Example C20_example_identical :
  exists s0, direct_open exd_cfg = Ok s0 /\
             d_inner (d_run exd_cfg d_init exd_ops) = Some (direct_run s0 (d_puts exd_ops) true) /\
             d_puts exd_ops = [(exd_k1, [x01; x02]); (exd_k2, [x01; x02]); (exd_k3, [x03])].
Proof.
  destruct (d_inner (d_run exd_cfg d_init exd_ops)) as [s|] eqn:E; [|vm_compute in E; discriminate].
  destruct (identical_init exd_cfg exd_ops s eq_refl E) as (s0 & H0 & H1). exists s0. split; [exact H0|]. split.
  - rewrite H1. reflexivity.
  - reflexivity.
Qed.

Example C20_example_lazy :
  Forall (fun so => d_bytes exd_pcfg (fst so) = zeros 500 /\ d_exists exd_pcfg (fst so) = true)
         (d_trace exd_pcfg d_init [DOnPut 1 true; DHas exd_k1; DClose; DPut exd_k1 [x01]; DHas exd_k1]).
Proof. apply (lazy_init exd_pcfg). reflexivity. Qed.

(* the 500-byte file is replaced by the 297 bytes of the finished CARv2, nothing of it survives *)
Example C20_example_overwrites_longer_file :
  map (fun so => blen (d_bytes exd_pcfg (fst so))) (d_trace exd_pcfg d_init exd_ops)
  = [500; 500; 500; 149; 149; 149; 187; 187; 297; 297; 297; 297] /\
  d_bytes exd_pcfg (d_run exd_pcfg d_init exd_ops)
  = d_bytes (mkdcfg TPath exd_o false false [exd_k1] None [] []) (d_run (mkdcfg TPath exd_o false false [exd_k1] None [] []) d_init exd_ops).
Proof. vm_compute. split; reflexivity. Qed.

(* ---- write faults: after ANY Close -- successful or not -- the writer is closed ------------------------- *)
Definition closed_answer (op : dop) (o : dout) : Prop :=
  (match op with DOnPut _ _ => do_res o = ONil | _ => do_res o = OErr EClosed end) /\ do_log o = [].

Lemma closed_trace c ops : forall st, d_closed st = true ->
  Forall (fun x => closed_answer (fst x) (snd (snd x)) /\ d_closed (fst (snd x)) = true /\
                   d_inner (fst (snd x)) = d_inner st /\ d_created (fst (snd x)) = d_created st)
         (combine ops (d_trace c st ops)).
Proof.
  induction ops as [|op t IH]; intros st Hc; [constructor|]. cbn [d_trace].
  destruct (closed_step c st op Hc) as (H0 & H1 & H2 & H3 & H4).
  destruct (d_step c st op) as [st' o] eqn:E. cbn [fst snd] in *. cbn [combine]. constructor.
  - cbn [fst snd]. split; [|auto]. split; [|exact H4]. destruct op; try exact H0; inversion H0; reflexivity.
  - specialize (IH st' H1). eapply Forall_impl; [|exact IH]. intros x (A & B & C & D). rewrite C, D. auto.
Qed.

Lemma d_run_app c a b st : d_run c st (a ++ b) = d_run c (d_run c st a) b.
Proof. unfold d_run. apply fold_left_app. Qed.

(* for every configuration -- any target, options, pre-existing file and ANY fault script, so also when
   a Put failed half-way or Close's Finalize fails -- and every history: once a Close has been issued,
   every later Has / Put / Close answers "closed", no callback fires, the inner writer is not touched *)
Theorem closed_after_any_close c pre post :
  let st := d_run c d_init (pre ++ [DClose]) in
  d_closed st = true /\
  Forall (fun x => closed_answer (fst x) (snd (snd x)) /\ d_closed (fst (snd x)) = true /\
                   d_inner (fst (snd x)) = d_inner st /\ d_created (fst (snd x)) = d_created st)
         (combine post (d_trace c st post)).
Proof.
  cbn zeta. assert (H : d_closed (d_run c d_init (pre ++ [DClose])) = true).
  { rewrite d_run_app. apply close_closes. }
  split; [exact H|]. apply closed_trace. exact H.
Qed.

(* non-vacuity with a Close whose Finalize FAILS: a stream that breaks 5 bytes into the CID of the first
   block (4th write call).  The Put fails, the StorageCar keeps the write error (it cannot take the
   partial section back), Close reports it -- and the writer is closed all the same *)
Definition exd_fcfg : dcfg := mkdcfg TStream exd_o false false [exd_k1] None [None; None; None; Some 5] [].
Definition exd_fops : list dop :=
  [DOnPut 1 false; DPut exd_k1 [x01; x02]; DPut exd_k3 [x03]; DClose; DClose; DPut exd_k1 [x01]; DHas exd_k1].

Example C20_example_failed_finalize :
  map (fun so => (do_res (snd so), do_log (snd so), blen (d_bytes exd_fcfg (fst so)))) (d_trace exd_fcfg d_init exd_fops)
  = [(ONil, [], 0); (OErr EOther, [(1, 2)], 65); (OErr EOther, [(1, 1)], 65); (OErr EOther, [], 65);
     (OErr EClosed, [], 65); (OErr EClosed, [], 65); (OErr EClosed, [], 65)].
Proof. vm_compute. reflexivity. Qed.

Example C20_example_closed_after_failed_close :
  Forall (fun x => closed_answer (fst x) (snd (snd x)))
         (combine (skipn 4 exd_fops) (d_trace exd_fcfg (d_run exd_fcfg d_init (firstn 3 exd_fops ++ [DClose])) (skipn 4 exd_fops))).
Proof.
  destruct (closed_after_any_close exd_fcfg (firstn 3 exd_fops) (skipn 4 exd_fops)) as (_ & H).
  eapply Forall_impl; [|exact H]. intros x (A & _). exact A.
Qed.

(* ---- BlockWriteOpener: an opener history is the plain history of its committed blocks -------------------- *)
Lemma dx_run_cons c xs op t : dx_run c xs (op :: t) = dx_run c (fst (dx_step c xs op)) t.
Proof. reflexivity. Qed.

(* the deferred writer behind an opener history is in the state the flattened history leads to *)
Theorem dx_run_flatten c ops : forall xs,
  dx_st (dx_run c xs ops) = d_run c (dx_st xs) (dx_flatten (dx_bufs xs) ops).
Proof.
  induction ops as [|op t IH]; intros xs; [reflexivity|]. rewrite dx_run_cons, IH. cbn [dx_flatten].
  unfold dx_step. destruct (dx_eff (dx_bufs xs) op) as [[o|] b'].
  - destruct (d_step c (dx_st xs) o) as [st' r] eqn:E. cbn [fst dx_st dx_bufs]. rewrite d_run_cons, E. reflexivity.
  - reflexivity.
Qed.

(* opening a writer, writing to it, and a committer that was already used do not touch the deferred
   writer, fire no callback, and leave the output and the file as they were *)
Theorem dx_idle_step c xs op b' :
  dx_eff (dx_bufs xs) op = (None, b') ->
  dx_st (fst (dx_step c xs op)) = dx_st xs /\ do_log (snd (dx_step c xs op)) = [] /\
  d_bytes c (dx_st (fst (dx_step c xs op))) = d_bytes c (dx_st xs) /\
  d_exists c (dx_st (fst (dx_step c xs op))) = d_exists c (dx_st xs).
Proof. intros H. unfold dx_step. rewrite H. cbn [fst snd dx_st do_log]. auto. Qed.

(* a first commit IS a Put of everything written to that writer *)
Theorem dx_commit_is_put c xs h k buf :
  buf_get h (dx_bufs xs) = Some (buf, false) ->
  dx_st (fst (dx_step c xs (XCommit h k))) = fst (d_step c (dx_st xs) (DPut k buf)) /\
  snd (dx_step c xs (XCommit h k)) = snd (d_step c (dx_st xs) (DPut k buf)).
Proof.
  intros H. unfold dx_step. cbn [dx_eff]. rewrite H. destruct (d_step c (dx_st xs) (DPut k buf)). auto.
Qed.

(* identical, for opener histories: the output is the direct writer's for the committed blocks (and the
   plain Puts), in order; uncommitted writers contribute nothing *)
Theorem dx_identical c ops s : dc_kids c = [] ->
  d_inner (dx_st (dx_run c dx_init ops)) = Some s ->
  exists s0, direct_open c = Ok s0 /\
             s = direct_run s0 (d_puts (dx_flatten [] ops)) (existsb is_close (dx_flatten [] ops)) /\
             d_bytes c (dx_st (dx_run c dx_init ops)) = ws_file s.
Proof.
  intros Hnk. rewrite dx_run_flatten. cbn [dx_init dx_st dx_bufs]. intros H.
  destruct (identical_init c _ s Hnk H) as (s0 & H0 & H1). exists s0. split; [exact H0|]. split; [exact H1|].
  unfold d_bytes. rewrite H. reflexivity.
Qed.

(* lazy, for opener histories: as long as nothing was committed (and no plain Put issued) before the
   first Close, the output path is untouched -- however much was written to openers *)
Theorem dx_lazy c ops :
  d_puts (dx_flatten [] ops) = [] ->
  d_bytes c (dx_st (dx_run c dx_init ops)) = pre_bytes c /\ d_exists c (dx_st (dx_run c dx_init ops)) = pre_exists c.
Proof.
  intros H. rewrite dx_run_flatten. cbn [dx_init dx_st dx_bufs]. set (fl := dx_flatten [] ops) in *.
  assert (G : forall ops' st, idle st -> (if d_closed st then True else d_puts ops' = []) -> idle (d_run c st ops')).
  { induction ops' as [|op t IH]; intros st Hi Hp; [exact Hi|]. rewrite d_run_cons.
    assert (Hstep : d_closed st = true \/ is_put op = false).
    { destruct (d_closed st); [left; reflexivity|right]. destruct op; try reflexivity. discriminate. }
    apply IH; [apply idle_step; assumption|].
    destruct (d_closed st) eqn:Hc.
    - destruct (closed_step c st op Hc) as (_ & H1 & _). rewrite H1. exact I.
    - destruct (d_closed (fst (d_step c st op))) eqn:Hc'; [exact I|].
      destruct op; cbn [d_puts] in Hp; try exact Hp; try discriminate.
      pose proof (close_closes c st). congruence. }
  apply idle_obs. apply G; [split; reflexivity|exact H].
Qed.

Example C20_example_opener :
  let ops := [XOpen 1; XWrite 1 [x01]; XD (DOnPut 7 false); XOpen 2; XWrite 2 [x09; x09; x09]; XD (DHas exd_k1);
              XWrite 1 [x02]; XCommit 1 exd_k1; XCommit 1 exd_k1; XD (DPut exd_k3 [x03]); XD DClose; XCommit 2 exd_k3] in
  dx_flatten [] ops = [DOnPut 7 false; DHas exd_k1; DPut exd_k1 [x01; x02]; DPut exd_k3 [x03]; DClose; DPut exd_k3 [x09; x09; x09]] /\
  map (fun so => (do_res (snd so), do_log (snd so), blen (d_bytes exd_cfg (dx_st (fst so))))) (dx_trace exd_cfg dx_init ops)
  = [(ONil, [], 0); (ONil, [], 0); (ONil, [], 0); (ONil, [], 0); (ONil, [], 0); (OBool false, [], 0); (ONil, [], 0);
     (ONil, [(7, 2)], 98); (OErr EOther, [], 98); (ONil, [(7, 1)], 136); (ONil, [], 136); (OErr EClosed, [], 136)].
Proof. vm_compute. split; reflexivity. Qed.
