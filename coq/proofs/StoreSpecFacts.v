(* C04: the writable stores (theories/Store.v, dispatched by StoreSpec.impl_step) refine the reference
   append-only map (StoreSpec.spec_step).  Simulation relation = the store invariant of StoreInv.v
   plus equal typestate flags; one lemma per operation; the history theorem by induction. *)
From GoCar Require Import Bytes Varint Cid Header Frame V2Header Scan Index Store StoreSpec.
From GoCarProofs Require Import BytesFacts VarintFacts CidFacts HeaderFacts ScanFacts StoreInv.
From Coq Require Import Sorting.Sorted Permutation.

(* ---- index queries = queries on the stored blocks ------------------------------------------------------ *)
Lemma existsb_filter {A} (f h : A -> bool) l : existsb f (filter h l) = existsb (fun x => h x && f x) l.
Proof.
  induction l as [|x t IH]; [reflexivity|]. cbn [filter existsb]. destruct (h x); cbn [existsb andb]; rewrite IH; reflexivity.
Qed.

Definition parses (b : bytes * bytes) : Prop := cid_parse (fst b) <> None.

Lemma blk_ok_parses maxs b : blk_ok maxs b -> parses b.
Proof. intros (Hc & _). destruct (cid_rd_ok_parse _ Hc) as (p & Hp & _). unfold parses. congruence. Qed.

(* a test on the records with digest dg = the corresponding test on the blocks *)
Lemma existsb_records (f : irec -> bool) (g : bytes * bytes -> bool) dg bs :
  Forall parses bs ->
  (forall c d p pos, cid_parse c = Some p ->
     has_digest dg (mkrec c (c_mhcode p) (c_digest p) pos) && f (mkrec c (c_mhcode p) (c_digest p) pos) = g (c, d)) ->
  forall pos, existsb f (filter (has_digest dg) (records_from pos bs)) = existsb g bs.
Proof.
  intros Hall Hfg. rewrite Forall_forall in Hall.
  induction bs as [|[c d] t IH]; intros pos; [reflexivity|].
  cbn [records_from]. destruct (cid_parse c) as [p|] eqn:Hp.
  - rewrite existsb_filter. cbn [existsb]. rewrite (Hfg c d p pos Hp). f_equal.
    rewrite <- existsb_filter. apply IH. intros x Hx. apply Hall. right. exact Hx.
  - exfalso. apply (Hall (c, d) (or_introl eq_refl)). exact Hp.
Qed.

Lemma has_exact_cid_blocks s hb bs c p :
  Inv s hb bs -> Forall parses bs -> cid_parse c = Some p ->
  ii_has_exact_cid c (c_digest p) (ws_idx s) = existsb (fun b => same_key true (fst b) c) bs.
Proof.
  intros HI Hall Hp. unfold ii_has_exact_cid. rewrite (inv_with_digest _ _ _ _ HI).
  apply existsb_records; [exact Hall|]. intros c' d' p' pos Hp'. unfold has_digest, same_key. cbn [r_digest r_cid fst].
  destruct (bytes_eqb c' c) eqn:E; [|apply andb_false_r].
  apply bytes_eqb_eq in E. subst c'. rewrite Hp in Hp'. inversion Hp'; subst. rewrite bytes_eqb_refl. reflexivity.
Qed.

Lemma has_multihash_blocks s hb bs c p :
  Inv s hb bs -> Forall parses bs -> cid_parse c = Some p ->
  ii_has_multihash (c_mhcode p) (c_digest p) (ws_idx s) = existsb (fun b => same_key false (fst b) c) bs.
Proof.
  intros HI Hall Hp. unfold ii_has_multihash. rewrite (inv_with_digest _ _ _ _ HI).
  apply existsb_records; [exact Hall|]. intros c' d' p' pos Hp'. unfold has_digest, same_key. cbn [r_digest r_code fst].
  rewrite Hp', Hp. apply andb_comm.
Qed.

Lemma present_blocks o s hb bs c p :
  Inv s hb bs -> Forall parses bs -> cid_parse c = Some p ->
  (if w_whole o then ii_has_exact_cid c (c_digest p) (ws_idx s)
   else ii_has_multihash (c_mhcode p) (c_digest p) (ws_idx s)) = m_present o bs c.
Proof.
  intros HI Hall Hp. unfold m_present. destruct (w_whole o).
  - eapply has_exact_cid_blocks; eauto.
  - eapply has_multihash_blocks; eauto.
Qed.

(* ---- ShouldPut / Has against the map ------------------------------------------------------------------ *)
Lemma should_put_spec o s hb bs c p :
  Inv s hb bs -> Forall parses bs -> cid_parse c = Some p ->
  should_put o (ws_idx s) c p =
    (if negb (w_storeid o) && is_identity p then Ok false
     else if w_maxcid o <? blen c then Err ECidTooLarge
     else if negb (w_dups o) && m_present o bs c then Ok false
     else Ok true).
Proof.
  intros HI Hall Hp. unfold should_put.
  destruct (negb (w_storeid o) && is_identity p); [reflexivity|].
  destruct (w_maxcid o <? blen c); [reflexivity|].
  rewrite <- (present_blocks o s hb bs c p HI Hall Hp).
  destruct (w_dups o); cbn [negb andb]; [reflexivity|].
  destruct (w_whole o).
  - destruct (ii_has_exact_cid c (c_digest p) (ws_idx s)); reflexivity.
  - destruct (ii_has_multihash (c_mhcode p) (c_digest p) (ws_idx s)); reflexivity.
Qed.

Lemma store_has_spec o s hb bs c p :
  Inv s hb bs -> Forall parses bs -> cid_parse c = Some p ->
  store_has o (ws_idx s) c p = (if negb (w_storeid o) && is_identity p then true else m_present o bs c).
Proof.
  intros HI Hall Hp. unfold store_has. rewrite <- (present_blocks o s hb bs c p HI Hall Hp).
  destruct (negb (w_storeid o) && is_identity p); reflexivity.
Qed.

(* ---- FindCid against the map ------------------------------------------------------------------------------ *)
Lemma keyed_same_key whole key kp b : cid_parse key = Some kp ->
  keyed whole key kp b = same_key whole (fst b) key.
Proof.
  intros Hk. unfold keyed, same_key, same_key_p. rewrite Hk. destruct whole.
  - destruct (cid_parse (fst b)) eqn:Hp; [reflexivity|].
    destruct (bytes_eqb (fst b) key) eqn:E; [|reflexivity].
    apply bytes_eqb_eq in E. rewrite E in Hp. congruence.
  - destruct (cid_parse (fst b)); reflexivity.
Qed.

Lemma find_ext {A} (f g : A -> bool) l : (forall x, f x = g x) -> find f l = find g l.
Proof. intros H. induction l as [|x t IH]; [reflexivity|]. cbn [find]. rewrite H, IH. reflexivity. Qed.

Lemma ws_find_rb o s hb bs c p :
  Inv s hb bs -> ws_opts s = o -> Forall (blk_ok (w_maxs o)) bs -> cid_parse c = Some p ->
  ws_find s c p true = match m_lookup o bs c with
                       | Some b => Ok (snd b, 0, Z.of_N (blen (snd b)))
                       | None => Err ENotFound
                       end.
Proof.
  intros HI Ho Hok Hp. unfold ws_find, ii_getall. rewrite Ho. rewrite (inv_with_digest _ _ _ _ HI).
  destruct (inv_view _ _ _ HI) as (post & Hv).
  rewrite (find_cid_sections_rb (w_whole o) (w_zeof o) (w_maxs o) c p post Hp bs (ws_view s) (ld hb) Hv Hok).
  unfold m_lookup. rewrite (find_ext _ _ bs (fun b => keyed_same_key (w_whole o) c p b Hp)). reflexivity.
Qed.

Lemma ws_find_sz o s hb bs c p :
  Inv s hb bs -> ws_opts s = o -> Forall (blk_ok (w_maxs o)) bs -> cid_parse c = Some p ->
  match m_lookup o bs c with
  | Some b => exists off, ws_find s c p false = Ok ([], off, Z.of_N (blen (snd b))) /\
                          take (blen (snd b)) (drop off (ws_view s)) = snd b
  | None => ws_find s c p false = Err ENotFound
  end.
Proof.
  intros HI Ho Hok Hp. unfold ws_find, ii_getall. rewrite Ho. rewrite (inv_with_digest _ _ _ _ HI).
  destruct (inv_view _ _ _ HI) as (post & Hv).
  pose proof (find_cid_sections_sz (w_whole o) (w_zeof o) (w_maxs o) c p post Hp bs (ws_view s) (ld hb) Hv Hok) as H.
  unfold m_lookup. rewrite <- (find_ext _ _ bs (fun b => keyed_same_key (w_whole o) c p b Hp)). exact H.
Qed.

(* ---- listing ------------------------------------------------------------------------------------------------ *)
Definition zero_off (r : irec) : irec := mkrec (r_cid r) (r_code r) (r_digest r) 0.

Lemma map_ins_by_digest (g : irec -> irec) r l : (forall x, r_digest (g x) = r_digest x) ->
  map g (ins_by_digest r l) = ins_by_digest (g r) (map g l).
Proof.
  intros Hg. induction l as [|y t IH]; [reflexivity|]. cbn [ins_by_digest map]. rewrite !Hg.
  destruct (bytes_ltb (r_digest r) (r_digest y)); cbn [map]; [reflexivity|]. rewrite IH. reflexivity.
Qed.

Lemma map_sort_by_digest (g : irec -> irec) rs : (forall x, r_digest (g x) = r_digest x) ->
  forall acc, map g (fold_left (fun a r => ins_by_digest r a) rs acc)
              = fold_left (fun a r => ins_by_digest r a) (map g rs) (map g acc).
Proof.
  intros Hg. induction rs as [|r t IH]; intros acc; [reflexivity|]. cbn [fold_left map].
  rewrite IH, map_ins_by_digest by exact Hg. reflexivity.
Qed.

Lemma zero_off_records bs : forall a b, map zero_off (records_from a bs) = map zero_off (records_from b bs).
Proof.
  induction bs as [|[c d] t IH]; intros a b; [reflexivity|]. cbn [records_from].
  destruct (cid_parse c); cbn [map]; [f_equal|]; apply IH.
Qed.

Lemma listed_keys_offset_free whole a b bs :
  map (listed_key whole) (sort_by_digest (records_from a bs))
  = map (listed_key whole) (sort_by_digest (records_from b bs)).
Proof.
  assert (Hlk : forall l, map (listed_key whole) l = map (listed_key whole) (map zero_off l)).
  { intros l. rewrite map_map. apply map_ext. intros r. unfold listed_key, zero_off. destruct whole; reflexivity. }
  unfold sort_by_digest. rewrite (Hlk (fold_left _ (records_from a bs) [])), (Hlk (fold_left _ (records_from b bs) [])).
  rewrite !map_sort_by_digest by reflexivity. rewrite (zero_off_records bs a b). reflexivity.
Qed.

(* the listing is a permutation of the stored blocks' keys *)
Lemma sort_by_digest_perm rs : Permutation (sort_by_digest rs) rs.
Proof. exact (ii_load_perm rs []). Qed.

(* ---- the simulation ------------------------------------------------------------------------------------------ *)
Section Sim.
  Variable hdrdec : bytes -> option (list bytes * N).
  Variable o : wopts.
  Variable roots : list bytes.
  Variable hb : bytes.           (* the header bytes written at open *)
  Hypothesis Hdec : hdrdec hb = Some (roots, 1).
  Hypothesis Hhmax : blen hb <= w_maxh o.
  Hypothesis Hh63 : blen hb < two63.

  Definition R (s : wstate) (m : mstate) : Prop :=
    Inv s hb (m_blocks m) /\ no_faults s /\ Forall (blk_ok (w_maxs o)) (m_blocks m) /\
    ws_closed s = m_closed m /\ ws_finalized s = m_finalized m /\ ws_opts s = o /\ ws_roots s = roots.

  (* what a history may put: CIDs that do not parse are rejected by the stores; the others must be
     well-formed CIDs and fit the section limit the readers apply *)
  Definition put_ok (b : bytes * bytes) : Prop := cid_parse (fst b) <> None -> blk_ok (w_maxs o) b.
  Definition op_ok (op : sop) : Prop :=
    match op with
    | OpPut c d => put_ok (c, d)
    | OpPutMany l => Forall put_ok l
    | _ => True
    end.
  (* no 64-bit wrap-around in the CARv2 header arithmetic: paddings + payload stay below 2^64 *)
  Definition fits (s : wstate) (extra : N) : Prop := 51 + w_dpad o + w_ipad o + ws_pos s + extra < two64.

  Lemma R_parses s m : R s m -> Forall parses (m_blocks m).
  Proof. intros (_ & _ & Hok & _). eapply Forall_impl; [|exact Hok]. intros b. apply blk_ok_parses. Qed.

  Lemma R_intro s m :
    Inv s hb (m_blocks m) -> no_faults s -> Forall (blk_ok (w_maxs o)) (m_blocks m) ->
    ws_closed s = m_closed m -> ws_finalized s = m_finalized m -> ws_opts s = o -> ws_roots s = roots -> R s m.
  Proof. intros. unfold R. repeat (split; [assumption|]). assumption. Qed.

  (* conclusion shape of every step lemma: same result, related successor states *)
  Ltac finish s' m' r HR' :=
    exists s', m', r; split; [reflexivity|]; split; [reflexivity|]; split; [exact HR'|].

  (* one block through ShouldPut: same verdict, and the appended block keeps the relation *)
  Lemma put_one_sim s m c d p :
    R s m -> cid_parse c = Some p -> put_ok (c, d) ->
    exists s' m' r, put_one s c d p = (s', r) /\ m_put_one o m c d p = (m', r) /\ R s' m' /\
                    ws_pos s <= ws_pos s' <= ws_pos s + section_size c d.
  Proof.
    intros HR Hp Hput. pose proof (R_parses _ _ HR) as Hpar.
    pose proof HR as (HI & Hnf & Hok & Hc & Hf & Ho & Hr).
    pose proof (should_put_spec o s hb (m_blocks m) c p HI Hpar Hp) as Hsp. rewrite <- Ho in Hsp at 1.
    unfold m_put_one.
    destruct (negb (w_storeid o) && is_identity p).
    { rewrite (put_one_unchanged s c d p _ Hsp) by discriminate. finish s m ONil HR. lia. }
    destruct (w_maxcid o <? blen c).
    { rewrite (put_one_unchanged s c d p _ Hsp) by discriminate. finish s m (OErr ECidTooLarge) HR. lia. }
    destruct (negb (w_dups o) && m_present o (m_blocks m) c).
    { rewrite (put_one_unchanged s c d p _ Hsp) by discriminate. finish s m ONil HR. lia. }
    destruct (put_one_inv s hb (m_blocks m) c d p HI Hnf Hp Hsp)
      as (s' & Hpo & HI' & Hnf' & Hc' & Hf' & Hr' & Ho' & Hpos').
    rewrite Hpo.
    assert (HR' : R s' (m_set_blocks m (m_blocks m ++ [(c, d)]))).
    { apply R_intro; cbn [m_set_blocks m_blocks m_closed m_finalized]; try congruence; try assumption.
      apply Forall_app. split; [exact Hok|]. constructor; [|constructor]. apply Hput. cbn [fst]. congruence. }
    finish s' (m_set_blocks m (m_blocks m ++ [(c, d)])) ONil HR'. lia.
  Qed.

  Lemma put_loop_sim blks : forall s m,
    R s m -> Forall put_ok blks ->
    exists s' m' r, put_many_loop s blks = (s', r) /\ m_put_loop o m blks = (m', r) /\ R s' m' /\
                    ws_pos s <= ws_pos s' <= ws_pos s + blks_size blks.
  Proof.
    induction blks as [|[c d] t IH]; intros s m HR Hall.
    - finish s m ONil HR. cbn. lia.
    - inversion Hall as [|? ? Hput Hall']; subst. cbn [put_many_loop m_put_loop blks_size fold_right fst snd].
      fold (blks_size t).
      destruct (cid_parse c) as [p|] eqn:Hp.
      2:{ finish s m (OErr EOther) HR. lia. }
      destruct (put_one_sim s m c d p HR Hp Hput) as (s1 & m1 & r1 & H1 & H2 & HR1 & Hpos1).
      rewrite H1, H2.
      destruct r1; try (finish s1 m1 (OErr e) HR1; lia); try (exists s1, m1; eexists; split; [reflexivity|]; split; [reflexivity|]; split; [exact HR1|lia]).
      destruct (IH s1 m1 HR1 Hall') as (s2 & m2 & r2 & H3 & H4 & HR2 & Hpos2).
      exists s2, m2, r2. split; [exact H3|]. split; [exact H4|]. split; [exact HR2|lia].
  Qed.

  Lemma R_set_flags s m c f : R s m -> R (set_flags s c f) (m_set_flags m c f).
  Proof.
    intros (HI & Hnf & Hok & Hc & Hf & Ho & Hr).
    apply R_intro; cbn [set_flags m_set_flags ws_closed ws_finalized ws_opts ws_roots m_blocks m_closed m_finalized];
      try assumption; try reflexivity. apply inv_set_flags. exact HI.
  Qed.

  (* store.Finalize on a related state *)
  Lemma store_finalize_sim s m :
    R s m -> w_v1 o = false -> fits s 0 ->
    exists s', store_finalize s = (s', if codec_ok o then ONil else OErr EOther) /\ R s' m /\ ws_pos s' = ws_pos s.
  Proof.
    intros (HI & Hnf & Hok & Hc & Hf & Ho & Hr) Hv1 Hfit. unfold fits in Hfit.
    destruct (store_finalize_inv s hb (m_blocks m) HI Hnf) as (s' & Hsf & HI' & Hnf' & Hc' & Hf' & Hr' & Ho' & Hp').
    { rewrite Ho. exact Hv1. } { rewrite Ho. lia. }
    exists s'. rewrite Hsf, Ho. unfold codec_ok. split.
    - destruct (idx_new (w_codec o)); reflexivity.
    - split; [|exact Hp']. apply R_intro; try assumption; congruence.
  Qed.

  Lemma bs_finalize_ro_sim s m :
    R s m -> fits s 0 ->
    exists s' m' r, bs_finalize_ro s = (s', r) /\ m_bs_finalize_ro o m = (m', r) /\ R s' m' /\ ws_pos s' = ws_pos s.
  Proof.
    intros HR Hfit. pose proof HR as (HI & Hnf & Hok & Hc & Hf & Ho & Hr).
    unfold bs_finalize_ro, m_bs_finalize_ro. rewrite Ho, Hc, Hf.
    destruct (w_v1 o) eqn:Hv1.
    { pose proof (R_set_flags s m (m_closed m) true HR) as HR'.
      finish (set_flags s (m_closed m) true) (m_set_flags m (m_closed m) true) ONil HR'. reflexivity. }
    destruct (m_closed m) eqn:Emc. { finish s m (OErr EOther) HR. reflexivity. }
    destruct (m_finalized m) eqn:Emf. { finish s m (OErr EOther) HR. reflexivity. }
    destruct (store_finalize_sim (set_flags s false true) (m_set_flags m false true)) as (s' & Hsf & HR' & Hp').
    { apply R_set_flags. exact HR. } { exact Hv1. } { exact Hfit. }
    rewrite Hsf. finish s' (m_set_flags m false true) (if codec_ok o then ONil else OErr EOther) HR'. exact Hp'.
  Qed.

  Lemma bs_close_sim s m :
    R s m -> exists s' m' r, bs_close s = (s', r) /\ m_bs_close o m = (m', r) /\ R s' m' /\ ws_pos s' = ws_pos s.
  Proof.
    intros HR. pose proof HR as (HI & Hnf & Hok & Hc & Hf & Ho & Hr).
    unfold bs_close, m_bs_close. rewrite Ho, Hc, Hf.
    destruct (negb (w_v1 o) && negb (m_finalized m)). { finish s m (OErr EOther) HR. reflexivity. }
    destruct (m_closed m). { finish s m (OErr EOther) HR. reflexivity. }
    pose proof (R_set_flags s m true (m_finalized m) HR) as HR'.
    finish (set_flags s true (m_finalized m)) (m_set_flags m true (m_finalized m)) ONil HR'. reflexivity.
  Qed.

  (* ---- one step of either front-end ------------------------------------------------------------------------ *)
  Lemma step_sim_base f s m op :
    f <> FBf ->
    R s m -> op_ok op -> fits s (op_size op) ->
    exists s' m' r, impl_step hdrdec f s op = (s', r) /\ spec_step f o roots m op = (m', r) /\ R s' m' /\
                    ws_pos s <= ws_pos s' <= ws_pos s + op_size op.
  Proof.
    intros Hnf0 HR Hop Hfit. pose proof HR as (HI & Hnf & Hok & Hc & Hf & Ho & Hr).
    pose proof (R_parses _ _ HR) as Hpar.
    assert (Hfit0 : fits s 0) by (unfold fits in *; lia).
    assert (Hsame : forall r : out, exists s' m' r0, (s, r) = (s', r0) /\ (m, r) = (m', r0) /\ R s' m' /\
                                         ws_pos s <= ws_pos s' <= ws_pos s + op_size op).
    { intros r. finish s m r HR. lia. }
    assert (Hhas : forall c, bs_has s c = m_has o m c).
    { intros c. unfold bs_has, m_has. destruct (cid_parse c) as [p|] eqn:Hp; [|reflexivity].
      rewrite Hc, Ho. destruct (m_closed m); [reflexivity|].
      rewrite (store_has_spec o s hb (m_blocks m) c p HI Hpar Hp).
      destruct (negb (w_storeid o) && is_identity p); reflexivity. }
    assert (Hget : forall c, bs_get s c = m_get o m c).
    { intros c. unfold bs_get, m_get. destruct (cid_parse c) as [p|] eqn:Hp; [|reflexivity].
      rewrite Hc, Ho. destruct (negb (w_storeid o) && is_identity p); [reflexivity|].
      destruct (m_closed m); [reflexivity|].
      rewrite (ws_find_rb o s hb (m_blocks m) c p HI Ho Hok Hp).
      destruct (m_lookup o (m_blocks m) c); reflexivity. }
    destruct f as [|readable|]; [| |exfalso; apply Hnf0; reflexivity];
      destruct op as [c d|l|c|c|c| | | | | | ]; cbn [impl_step spec_step op_size] in *;
      try (apply Hsame).
    - (* blockstore Put *)
      unfold bs_put_many, m_put_many. rewrite Hc, Hf.
      destruct (m_closed m); [apply Hsame|]. destruct (m_finalized m); [apply Hsame|].
      destruct (put_loop_sim [(c, d)] s m HR) as (s' & m' & r & H1 & H2 & HR' & Hpos).
      { constructor; [exact Hop|constructor]. }
      exists s', m', r. cbn [blks_size fold_right fst snd] in Hpos.
      split; [exact H1|]. split; [exact H2|]. split; [exact HR'|lia].
    - (* PutMany *)
      unfold bs_put_many, m_put_many. rewrite Hc, Hf.
      destruct (m_closed m); [apply Hsame|]. destruct (m_finalized m); [apply Hsame|].
      destruct (put_loop_sim l s m HR Hop) as (s' & m' & r & H1 & H2 & HR' & Hpos).
      exists s', m', r. split; [exact H1|]. split; [exact H2|]. split; [exact HR'|lia].
    - rewrite Hhas. apply Hsame.
    - rewrite Hget. apply Hsame.
    - (* GetSize *)
      replace (bs_getsize s c) with (m_getsize o m c); [apply Hsame|].
      unfold bs_getsize, m_getsize. destruct (cid_parse c) as [p|] eqn:Hp; [|reflexivity].
      destruct (is_identity p); [reflexivity|]. rewrite Hc. destruct (m_closed m); [reflexivity|].
      pose proof (ws_find_sz o s hb (m_blocks m) c p HI Ho Hok Hp) as Hfs.
      destruct (m_lookup o (m_blocks m) c) as [b|].
      + destruct Hfs as (off & Hfs & _). rewrite Hfs. reflexivity.
      + rewrite Hfs. reflexivity.
    - (* AllKeysChan *)
      replace (bs_allkeys s) with (m_keys o m); [apply Hsame|].
      unfold bs_allkeys, m_keys. rewrite Hc, Ho. destruct (m_closed m); [reflexivity|].
      f_equal. destruct HI as [_ _ Hidx]. rewrite Hidx.
      change (ii_load (records_from (blen (ld hb)) (m_blocks m)) []) with (sort_by_digest (records_from (blen (ld hb)) (m_blocks m))).
      apply (listed_keys_offset_free (w_whole o) 0 (blen (ld hb)) (m_blocks m)).
    - (* Roots: the header is read back from the file *)
      replace (bs_roots hdrdec s) with (if m_closed m then OErr EOther else OKeys roots); [apply Hsame|].
      unfold bs_roots. rewrite Hc, Ho. destruct (m_closed m); [reflexivity|].
      destruct (inv_view _ _ _ HI) as (post & Hv). rewrite Hv. unfold read_header.
      rewrite ld_read_ld by (try assumption; discriminate). rewrite Hdec. reflexivity.
    - (* Finalize = FinalizeReadOnly then Close *)
      unfold bs_finalize, m_bs_finalize.
      destruct (bs_finalize_ro_sim s m HR Hfit0) as (s1 & m1 & r1 & H1 & H2 & HR1 & Hp1). rewrite H1, H2.
      destruct (bs_close_sim s1 m1 HR1) as (s2 & m2 & r2 & H3 & H4 & HR2 & Hp2). rewrite H3, H4.
      exists s2, m2. eexists. split; [reflexivity|]. split; [reflexivity|]. split; [exact HR2|lia].
    - destruct (bs_finalize_ro_sim s m HR Hfit0) as (s1 & m1 & r1 & H1 & H2 & HR1 & Hp1).
      exists s1, m1, r1. split; [exact H1|]. split; [exact H2|]. split; [exact HR1|lia].
    - destruct (bs_close_sim s m HR) as (s1 & m1 & r1 & H1 & H2 & HR1 & Hp1).
      exists s1, m1, r1. split; [exact H1|]. split; [exact H2|]. split; [exact HR1|lia].
    - (* Discard *)
      unfold bs_discard, m_bs_discard. rewrite Hf.
      pose proof (R_set_flags s m true (m_finalized m) HR) as HR'.
      finish (set_flags s true (m_finalized m)) (m_set_flags m true (m_finalized m)) ONil HR'.
      cbn [set_flags ws_pos]. lia.
    - (* storage Put *)
      unfold st_put, m_st_put. destruct (cid_parse c) as [p|] eqn:Hp; [|apply Hsame].
      rewrite Hc. destruct (m_closed m); [apply Hsame|].
      rewrite Hf. destruct (m_finalized m); [apply Hsame|].
      destruct (put_one_sim s m c d p HR Hp Hop) as (s' & m' & r & H1 & H2 & HR' & Hpos).
      exists s', m', r. split; [exact H1|]. split; [exact H2|]. split; [exact HR'|lia].
    - (* storage Has *)
      change (st_has s c) with (bs_has s c). rewrite Hhas. apply Hsame.
    - (* storage Get (GetStream + ReadAll) *)
      replace (st_get s readable c) with (if readable then m_get o m c else OErr EOther); [apply Hsame|].
      unfold st_get, m_get. destruct readable; cbn [negb]; [|reflexivity].
      destruct (cid_parse c) as [p|] eqn:Hp; [|reflexivity].
      rewrite Hc, Ho. destruct (negb (w_storeid o) && is_identity p); [reflexivity|].
      destruct (m_closed m); [reflexivity|].
      pose proof (ws_find_sz o s hb (m_blocks m) c p HI Ho Hok Hp) as Hfs.
      destruct (m_lookup o (m_blocks m) c) as [b|].
      + destruct Hfs as (off & Hfs & Htake). rewrite Hfs.
        replace (Z.of_N (blen (snd b)) <? 0)%Z with false by lia. rewrite N2Z.id, Htake. reflexivity.
      + rewrite Hfs. reflexivity.
    - (* storage Roots *)
      rewrite Hr. apply Hsame.
    - (* storage Finalize *)
      unfold st_finalize, m_st_finalize. rewrite Hc, Ho, Hf. destruct (m_finalized m) eqn:Emf.
      { pose proof (R_set_flags s m true true HR) as HRs.
        finish (set_flags s true true) (m_set_flags m true true) (OErr EOther) HRs. cbn [set_flags ws_pos]. lia. }
      rewrite <- Emf. destruct (m_closed m) eqn:Emc; [apply Hsame|].
      pose proof (R_set_flags s m true (m_finalized m) HR) as HR'.
      destruct (w_v1 o) eqn:Hv1.
      + finish (set_flags s true (m_finalized m)) (m_set_flags m true (m_finalized m)) ONil HR'.
        cbn [set_flags ws_pos]. lia.
      + destruct (store_finalize_sim _ _ HR' Hv1) as (s' & Hsf & HR'' & Hp'). { exact Hfit0. }
        rewrite Hsf. cbn [set_flags ws_pos] in Hp'.
        finish s' (m_set_flags m true (m_finalized m)) (if codec_ok o then ONil else OErr EOther) HR''. lia.
  Qed.

  (* the blockstore over a caller-owned file: the same steps, except that Roots ignores the closed flag *)
  Lemma step_sim f s m op :
    R s m -> op_ok op -> fits s (op_size op) ->
    exists s' m' r, impl_step hdrdec f s op = (s', r) /\ spec_step f o roots m op = (m', r) /\ R s' m' /\
                    ws_pos s <= ws_pos s' <= ws_pos s + op_size op.
  Proof.
    intros HR Hop Hfit.
    destruct f as [|readable|]; [apply step_sim_base; [discriminate|assumption..]|apply step_sim_base; [discriminate|assumption..]|].
    assert (HB := step_sim_base FBs s m op ltac:(discriminate) HR Hop Hfit).
    destruct op; try exact HB.
    (* Roots *)
    pose proof HR as (HI & Hnf & Hok & Hc & Hf & Ho & Hr). cbn [impl_step spec_step op_size].
    replace (bs_roots hdrdec (set_flags s false (ws_finalized s))) with (OKeys roots).
    { exists s, m, (OKeys roots). split; [reflexivity|]. split; [reflexivity|]. split; [exact HR|lia]. }
    unfold bs_roots. cbn [set_flags ws_closed ws_opts]. rewrite Ho.
    destruct (inv_view _ _ _ HI) as (post & Hv).
    change (ws_view (set_flags s false (ws_finalized s))) with (ws_view s). rewrite Hv. unfold read_header.
    rewrite ld_read_ld by (try assumption; discriminate). rewrite Hdec. reflexivity.
  Qed.

  (* ---- histories ------------------------------------------------------------------------------------------------ *)
  Theorem trace_sim f ops : forall s m,
    R s m -> Forall op_ok ops -> fits s (ops_size ops) ->
    outs (trace (impl_step hdrdec f) s ops) = outs (trace (spec_step f o roots) m ops) /\
    Forall2 R (map fst (trace (impl_step hdrdec f) s ops)) (map fst (trace (spec_step f o roots) m ops)).
  Proof.
    induction ops as [|op t IH]; intros s m HR Hall Hfit; [split; [reflexivity|constructor]|].
    inversion Hall as [|? ? Hop Hall']; subst. cbn [ops_size fold_right] in Hfit. fold (ops_size t) in Hfit.
    destruct (step_sim f s m op HR Hop) as (s' & m' & r & H1 & H2 & HR' & Hpos).
    { unfold fits in *. lia. }
    cbn [trace]. rewrite H1, H2. cbn [outs map fst snd].
    destruct (IH s' m' HR' Hall') as (IH1 & IH2). { unfold fits in *. lia. }
    split; [f_equal; exact IH1|constructor; [exact HR'|exact IH2]].
  Qed.
End Sim.

(* ---- the abstraction function ---------------------------------------------------------------------------------- *)
Lemma sections_length bs : (length bs <= length (sections bs))%nat.
Proof.
  induction bs as [|[c d] t IH]; [cbn; lia|]. rewrite sections_cons, app_length. cbn [length].
  assert (1 <= length (enc_section c d))%nat.
  { unfold enc_section. rewrite app_length. pose proof (put_uv_nonempty (blen c + blen d)).
    destruct (put_uv (blen c + blen d)); [congruence|cbn; lia]. }
  lia.
Qed.

Lemma scan_sections_sections maxs bs : Forall (blk_ok maxs) bs ->
  forall fuel, (length bs < fuel)%nat -> scan_sections fuel (sections bs) = bs.
Proof.
  induction 1 as [|[c d] t Hb Hok IH]; intros fuel Hf.
  - destruct fuel; [lia|]. reflexivity.
  - destruct fuel; [cbn in Hf; lia|]. cbn [scan_sections]. rewrite sections_cons.
    destruct (read_node_section false two63 c d (sections t)) as (p & _ & Hrn).
    { destruct Hb as ((q & Hq & Hc & _) & _ & H63). split; [exists q; auto|]. cbn [fst snd] in *. split; lia. }
    rewrite Hrn. f_equal. apply IH. cbn [length] in Hf. lia.
Qed.

Lemma stored_of_inv maxs s hb bs :
  Inv s hb bs -> Forall (blk_ok maxs) bs -> blen hb < two63 -> stored_of s = bs.
Proof.
  intros HI Hok Hh. destruct (inv_view _ _ _ HI) as (post & Hv). destruct HI as [_ Hpos _].
  unfold stored_of. rewrite Hv, Hpos, app_assoc, take_app.
  rewrite ld_read_ld by (try lia; discriminate).
  apply (scan_sections_sections maxs); [exact Hok|]. pose proof (sections_length bs). lia.
Qed.

Section Abs.
  Variable hdrdec : bytes -> option (list bytes * N).
  Variables (o : wopts) (roots : list bytes) (hb : bytes).

  Lemma abs_R s m : blen hb < two63 -> R o roots hb s m -> abs s = m.
  Proof.
    intros Hh (HI & _ & Hok & Hc & Hf & _). unfold abs.
    rewrite (stored_of_inv _ _ _ _ HI Hok Hh), Hc, Hf. destruct m; reflexivity.
  Qed.
End Abs.

Lemma last_cons_default {A} (l : list A) : forall x d, last (x :: l) d = last l x.
Proof.
  induction l as [|y t IH]; intros x d; [reflexivity|].
  change (last (x :: y :: t) d) with (last (y :: t) d). rewrite (IH y d), (IH y x). reflexivity.
Qed.

(* ---- histories as folds ------------------------------------------------------------------------------------------ *)
Lemma run_ops_trace {S} (step : S -> sop -> S * out) ops : forall s acc,
  fold_left (fun a op => let '(s', r) := step (fst a) op in (s', snd a ++ [r])) ops (s, acc)
  = (last (map fst (trace step s ops)) s, acc ++ outs (trace step s ops)).
Proof.
  induction ops as [|op t IH]; intros s acc; [cbn; rewrite app_nil_r; reflexivity|].
  cbn [fold_left trace fst snd]. destruct (step s op) as [s' r] eqn:E. rewrite IH.
  cbn [map fst outs snd]. rewrite <- app_assoc. f_equal. symmetry. apply last_cons_default.
Qed.

Corollary run_ops_outs {S} (step : S -> sop -> S * out) s ops :
  snd (run_ops step s ops) = outs (trace step s ops).
Proof. unfold run_ops. rewrite run_ops_trace. reflexivity. Qed.

Lemma trace_app {S} (step : S -> sop -> S * out) a : forall s b,
  trace step s (a ++ b) = trace step s a ++ trace step (last (map fst (trace step s a)) s) b.
Proof.
  induction a as [|op t IH]; intros s b; [reflexivity|]. cbn [app trace].
  destruct (step s op) as [s' r]. rewrite IH. cbn [map fst app]. f_equal. f_equal. f_equal.
  symmetry. apply last_cons_default.
Qed.

(* ---- the header oracle: the canonical decoder qualifies --------------------------------------------------- *)
Lemma hdr_canon_ok nilroots roots : roots_ok roots ->
  dec_header_canon (enc_header (roots_opt nilroots roots) 1) = Some (roots, 1).
Proof.
  intros Hr. unfold roots_opt. destruct roots as [|r t].
  - destruct nilroots; [apply dec_header_enc_nil|apply dec_header_enc]; try exact Hr; unfold two64; lia.
  - apply dec_header_enc; [exact Hr|unfold two64; lia].
Qed.

(* ---- C04: the history theorem from an empty file ------------------------------------------------------------- *)
Section Top.
  Variable hdrdec : bytes -> option (list bytes * N).
  Variables (k : skind) (o : wopts) (nilroots : bool) (roots : list bytes).
  Let hb := enc_header (roots_opt nilroots roots) 1.
  Hypothesis Hbase : base_fits o.
  Hypothesis Hdec : hdrdec hb = Some (roots, 1).
  Hypothesis Hhmax : blen hb <= w_maxh o.
  Hypothesis Hh63 : blen hb < two63.
  Variable s0 : wstate.
  Hypothesis Hopen : open_new k o nilroots roots [] = Ok s0.

  Lemma R_open : R o roots hb s0 m_empty /\ ws_pos s0 = ld_size (blen hb).
  Proof.
    destruct (open_new_inv k o nilroots roots s0 Hbase Hopen) as (HI & Hnf & Hc & Hf & Hr & Ho & _).
    split.
    - unfold R. cbn [m_empty m_blocks m_closed m_finalized]. repeat (split; [assumption || constructor|]). assumption.
    - destruct HI as [_ Hpos _]. rewrite Hpos. cbn [sections map concat]. rewrite app_nil_r. apply blen_ld.
  Qed.

  Definition hist_ok (ops : list sop) : Prop :=
    Forall (op_ok o) ops /\ 51 + w_dpad o + w_ipad o + ld_size (blen hb) + ops_size ops < two64.

  Theorem refines_map f ops : hist_ok ops ->
    outs (trace (impl_step hdrdec f) s0 ops) = outs (trace (spec_step f o roots) m_empty ops).
  Proof.
    intros (Hops & Hsz). destruct R_open as (HR & Hpos).
    apply (trace_sim hdrdec o roots hb Hdec Hhmax Hh63 f ops s0 m_empty HR Hops).
    unfold fits. rewrite Hpos. exact Hsz.
  Qed.

  (* the states correspond too, and the abstraction function maps one onto the other *)
  Theorem refines_map_states f ops : hist_ok ops ->
    map abs (map fst (trace (impl_step hdrdec f) s0 ops)) = map fst (trace (spec_step f o roots) m_empty ops).
  Proof.
    intros (Hops & Hsz). destruct R_open as (HR & Hpos).
    destruct (trace_sim hdrdec o roots hb Hdec Hhmax Hh63 f ops s0 m_empty HR Hops) as (_ & H2).
    { unfold fits. rewrite Hpos. exact Hsz. }
    induction H2 as [|s m ls lm Hsm _ IH]; [reflexivity|]. cbn [map]. f_equal; [|exact IH].
    apply (abs_R o roots hb s m Hh63 Hsm).
  Qed.

  Corollary refines_map_fold f ops : hist_ok ops ->
    snd (run_ops (impl_step hdrdec f) s0 ops) = snd (run_ops (spec_step f o roots) m_empty ops).
  Proof. intros H. rewrite !run_ops_outs. apply refines_map. exact H. Qed.

  (* every state a valid history reaches is related to the map state the same history reaches *)
  Lemma reach_R f ops : hist_ok ops ->
    R o roots hb (last (map fst (trace (impl_step hdrdec f) s0 ops)) s0)
                 (last (map fst (trace (spec_step f o roots) m_empty ops)) m_empty).
  Proof.
    intros (Hops & Hsz). destruct R_open as (HR & Hpos).
    destruct (trace_sim hdrdec o roots hb Hdec Hhmax Hh63 f ops s0 m_empty HR Hops) as (_ & H2).
    { unfold fits. rewrite Hpos. exact Hsz. }
    revert H2. generalize (map fst (trace (impl_step hdrdec f) s0 ops)) (map fst (trace (spec_step f o roots) m_empty ops)).
    intros ls lm H2. revert HR. generalize s0 m_empty. induction H2 as [|s m ls lm Hsm _ IH]; intros s1 m1 HR1; [exact HR1|].
    rewrite !last_cons_default. apply IH. exact Hsm.
  Qed.
End Top.
