(* C01 bridge, part 2: every writer's output is a constructed archive (ReadOnly.car_file) of the roots it
   was given and the stored blocks; the writers' CARv1 payloads coincide for the same logical content. *)
From Coq Require Import Sorting.Sorted Permutation.
From GoCar Require Import Bytes Varint Cid Header Frame V2Header Scan Index Store ReadOnly Wf Deferred Traversal.
From GoCarProofs Require Import BytesFacts VarintFacts CidFacts HeaderFacts ScanFacts StoreInv
  FinalCid FinalStore FinalWf FinalMain DeferredFacts TraversalRoot
  ReadOnlyFacts ReadOnlyRefine ReadOnlyIndex RoundTripBridge.

(* the container a finalizing writer produces under options o *)
Definition writer_ct (o : wopts) : container :=
  if w_v1 o then CV1
  else CV2 (if w_storeid o then 128 else 0) 0 (w_dpad o) (w_ipad o) (Some (w_codec o, w_storeid o)).

(* the index records of the stored blocks = the section records of the payload (identity blocks are
   only stored when StoreIdentityCIDs is on) *)
Lemma records_from_sect o bs : Forall (stored_ok o) bs -> forall pos,
  records_from pos bs = sect_records (w_storeid o) pos bs.
Proof.
  induction 1 as [|[c d] bs Hb _ IH]; intros pos; [reflexivity|]. cbn [records_from sect_records].
  rewrite IH. destruct (cid_parse c) as [p|] eqn:Ep; [|reflexivity].
  destruct Hb as (_ & _ & Hk). cbn [fst] in Hk. rewrite (Hk p Ep). reflexivity.
Qed.

Lemma payload_np_0 ro bs : payload_np ro bs 0 = ld (enc_header ro 1) ++ enc_sections bs.
Proof. unfold payload_np. cbn. apply app_nil_r. Qed.

(* the limits under which a session finalizes (C05_layout's side conditions) *)
Definition session_fits (k : skind) (o : wopts) (ro : option (list bytes)) (h : list batch) : Prop :=
  51 + w_dpad o + w_ipad o < two64 /\
  (k = KStorage false -> w_v1 o = true) /\
  Forall (Forall (fun b : block => blen (fst b) + blen (snd b) < 2 ^ 56)) h /\
  51 + w_dpad o + blen (ld (enc_header ro 1) ++ enc_sections (spec_stored k o ro h)) + w_ipad o < two64 /\
  (w_v1 o = false -> idx_new (w_codec o) <> None).

(* blockstore.ReadWrite, storage.StorageCar on a file / on a stream: the finalized file *)
Theorem session_car_file k o nilroots roots h :
  let ro := roots_opt nilroots roots in
  session_fits k o ro h ->
  exists s outs, session k o nilroots roots h = Ok (s, outs, ONil) /\
                 car_file (writer_ct o) ro (spec_stored k o ro h) 0 = Some (ws_file s).
Proof.
  intros ro (Ho & Hk & Hfr & Hfit & Hcodec).
  set (stored := spec_stored k o ro h).
  assert (Hok : Forall (stored_ok o) stored) by (apply spec_stored_ok; exact Hfr).
  assert (Hrecs : records_from (ld_size (blen (enc_header ro 1))) stored = payload_records (w_storeid o) ro stored)
    by (apply records_from_sect; exact Hok).
  assert (HL : forall fi,
             (w_v1 o = false -> ii_flatten (w_codec o) (ii_load (records_from (ld_size (blen (enc_header ro 1))) stored) []) = Some fi) ->
             exists s outs, session k o nilroots roots h = Ok (s, outs, ONil) /\
               ws_file s = if w_v1 o then ld (enc_header ro 1) ++ enc_sections stored
                           else pragma ++ enc_v2hdr (mkv2 (if w_storeid o then 128 else 0) 0 (51 + w_dpad o)
                                                         (blen (ld (enc_header ro 1) ++ enc_sections stored))
                                                         (51 + w_dpad o + blen (ld (enc_header ro 1) ++ enc_sections stored) + w_ipad o)) ++
                                zerosN (w_dpad o) ++ (ld (enc_header ro 1) ++ enc_sections stored) ++ zerosN (w_ipad o) ++ idx_write fi)
    by (intros fi Hfi; apply (c05_layout k o nilroots roots h fi Ho Hk Hfr Hfit Hfi)).
  clear Hk. unfold writer_ct. destruct (w_v1 o) eqn:Ev1.
  - destruct (HL (IdxSorted [])) as (s & outs & Hs & Hf); [discriminate|].
    exists s, outs. split; [exact Hs|]. rewrite Hf. cbn [car_file]. rewrite payload_np_0. reflexivity.
  - destruct (idx_new (w_codec o)) as [i0|] eqn:En; [|exfalso; apply (Hcodec eq_refl); reflexivity].
    set (fi := idx_load (payload_records (w_storeid o) ro stored) i0).
    assert (Hfi : ii_flatten (w_codec o) (ii_load (records_from (ld_size (blen (enc_header ro 1))) stored) []) = Some fi).
    { rewrite Hrecs, ii_flatten_flat_of. unfold flat_of. rewrite En. reflexivity. }
    destruct (HL fi (fun _ => Hfi)) as (s & outs & Hs & Hf).
    exists s, outs. split; [exact Hs|]. rewrite Hf. cbn [car_file].
    unfold flat_of. rewrite En. fold stored. fold fi. unfold v2_file. rewrite payload_np_0. reflexivity.
Qed.

(* ---- the deferred writer ------------------------------------------------------------------------------ *)
Lemma st_puts_fold b : forall s acc,
  fst (st_puts s b acc) = fold_left (fun s kd => fst (st_put s (fst kd) (snd kd))) b s.
Proof.
  induction b as [|[c d] t IH]; intros s acc; [reflexivity|]. cbn [st_puts fold_left fst snd].
  destruct (st_put s c d) as [s' o] eqn:E. cbn [fst]. apply IH.
Qed.

Lemma open_new_kind k o nilroots roots s0 : open_new k o nilroots roots [] = Ok s0 -> ws_kind s0 = k.
Proof.
  intros H. unfold open_new in H.
  repeat match type of H with context [match ?x with _ => _ end] => destruct x end;
    try discriminate; inversion H; reflexivity.
Qed.

Lemma st_put_kind s c d : ws_kind (fst (st_put s c d)) = ws_kind s.
Proof.
  unfold st_put, put_one.
  destruct (cid_parse c) as [p|]; [|reflexivity]. destruct (ws_closed s); [reflexivity|].
  destruct (ws_finalized s); [reflexivity|].
  destruct (should_put (ws_opts s) (ws_idx s) c p) as [[|]|e]; try reflexivity.
  destruct (write_chunks (ws_dev s) (data_base (ws_opts s) + ws_pos s) (ld_chunks [c; d])) as [[dv abs] ok].
  destruct ok; [reflexivity|]. destruct (abs =? data_base (ws_opts s) + ws_pos s); [reflexivity|].
  remember (ws_kind s) as kk eqn:Ek.
  destruct kk as [|[|]]; try (destruct (dev_try_truncate dv _) as [dv' [|]]); cbn; symmetry; exact Ek.
Qed.

Lemma direct_puts_kind puts : forall s, ws_kind (direct_puts s puts) = ws_kind s.
Proof.
  unfold direct_puts. induction puts as [|[c d] t IH]; intros s; [reflexivity|]. cbn [fold_left fst snd].
  rewrite IH. apply st_put_kind.
Qed.

(* a storage session over one batch is the direct writer's run *)
Lemma session_direct kw o nilroots roots puts s0 :
  open_new (KStorage kw) o nilroots roots [] = Ok s0 ->
  exists outs, session (KStorage kw) o nilroots roots [puts]
               = Ok (direct_run s0 puts true, outs, snd (st_finalize (direct_puts s0 puts))).
Proof.
  intros H0. unfold session. rewrite H0. cbn [put_batches].
  pose proof (open_new_kind _ _ _ _ _ H0) as Hk0.
  unfold put_batch. rewrite Hk0.
  destruct (st_puts s0 puts []) as [s1 o1] eqn:E1. cbn [put_batches].
  assert (Hs1 : s1 = direct_puts s0 puts).
  { pose proof (st_puts_fold puts s0 []) as Hf. rewrite E1 in Hf. exact Hf. }
  unfold finalize. rewrite Hs1, direct_puts_kind, Hk0.
  destruct (st_finalize (direct_puts s0 puts)) as [s2 fo] eqn:E2.
  eexists. unfold direct_run. rewrite E2. reflexivity.
Qed.

(* deferred writer, closed after at least one Put: its bytes are the constructed archive of the roots
   and the de-duplicated puts *)
Theorem deferred_car_file c ops s :
  dc_faults c = [] ->   (* a healthy output target: write faults are C16/C20 *)
  dc_kids c = [] ->     (* ordinary OnPut callbacks (no re-entrant registration: C20) *)
  d_inner (d_run c d_init ops) = Some s -> existsb is_close ops = true ->
  let o := eff_opts c in
  let ro := roots_opt (dc_nilroots c) (dc_roots c) in
  session_fits (dc_kind c) o ro [d_puts ops] ->
  car_file (writer_ct o) ro (spec_stored (dc_kind c) o ro [d_puts ops]) 0
  = Some (d_bytes c (d_run c d_init ops)).
Proof.
  intros Hnf Hnk Hin Hcl o ro Hfit.
  destruct (output_is_direct c ops s Hnk Hin) as (s0 & H0 & Hb). rewrite Hcl in Hb.
  destruct (session_car_file (dc_kind c) o (dc_nilroots c) (dc_roots c) [d_puts ops] Hfit) as (s' & outs & Hs & Hf).
  unfold direct_open in H0. rewrite Hnf in H0.
  assert (Hd : exists outs', session (dc_kind c) o (dc_nilroots c) (dc_roots c) [d_puts ops]
                 = Ok (direct_run s0 (d_puts ops) true, outs', snd (st_finalize (direct_puts s0 (d_puts ops)))))
    by (unfold dc_kind in *; apply session_direct; exact H0).
  destruct Hd as (outs' & Hd). rewrite Hd in Hs. inversion Hs; subst. rewrite Hb. exact Hf.
Qed.

(* ---- root car.WriteCar / WriteCarWithWalker ------------------------------------------------------------ *)
Theorem write_car_car_file ro vs ok :
  car_file CV1 ro (first_occ vs) 0 = Some (fst (write_car ro vs ok)).
Proof. rewrite write_car_spec. cbn [fst car_file]. rewrite payload_np_0. reflexivity. Qed.

(* ---- the same logical content gives the same stored list, hence byte-identical payloads ------------------ *)
(* the options the stored list depends on *)
Definition same_dedup (o o' : wopts) : Prop :=
  w_storeid o = w_storeid o' /\ w_maxcid o = w_maxcid o' /\ w_dups o = w_dups o' /\ w_whole o = w_whole o'.
(* no put is refused: every key is a CID within MaxIndexCidSize *)
Definition accepted (o : wopts) (b : block) : Prop := cid_parse (fst b) <> None /\ blen (fst b) <= w_maxcid o.

Lemma spec_put_same o o' ro stored b : same_dedup o o' -> spec_put o ro stored b = spec_put o' ro stored b.
Proof.
  intros (H1 & H2 & H3 & H4). unfold spec_put, should_put. rewrite H1, H2, H3, H4. reflexivity.
Qed.

Lemma spec_put_accepts o ro stored b : accepted o b -> snd (spec_put o ro stored b) = false.
Proof.
  intros [Hp Hl]. unfold spec_put. destruct (cid_parse (fst b)) as [p|]; [|congruence].
  unfold should_put. destruct (negb (w_storeid o) && is_identity p); [reflexivity|].
  replace (w_maxcid o <? blen (fst b)) with false by lia.
  destruct (negb (w_dups o)); [|reflexivity]. destruct (w_whole o).
  - destruct (ii_has_exact_cid (fst b) (c_digest p) (idx_of ro stored)); reflexivity.
  - destruct (ii_has_multihash (c_mhcode p) (c_digest p) (idx_of ro stored)); reflexivity.
Qed.

Lemma spec_batch_same stop stop' o o' ro b : same_dedup o o' -> Forall (accepted o) b ->
  forall stored, spec_batch stop o ro stored b = spec_batch stop' o' ro stored b.
Proof.
  intros Hs. induction 1 as [|x t Hx _ IH]; intros stored; [reflexivity|]. cbn [spec_batch].
  rewrite <- (spec_put_same o o' ro stored x Hs).
  pose proof (spec_put_accepts o ro stored x Hx) as Hr.
  destruct (spec_put o ro stored x) as [st' refused]. cbn [snd] in Hr. subst refused. cbn [andb]. apply IH.
Qed.

Theorem spec_stored_same k k' o o' ro h : same_dedup o o' -> Forall (Forall (accepted o)) h ->
  spec_stored k o ro h = spec_stored k' o' ro h.
Proof.
  intros Hs Hh. unfold spec_stored. generalize (@nil block).
  induction Hh as [|b t Hb _ IH]; intros stored; [reflexivity|]. cbn [fold_left].
  rewrite (spec_batch_same (stops k) (stops k') o o' ro b Hs Hb). apply IH.
Qed.

(* whole-CID de-duplication with identity CIDs stored = first occurrences (what WriteCar's seen-set does) *)
Lemma mem_in c s : mem c s = true <-> In c s.
Proof.
  induction s as [|x t IH]; cbn [mem In]; [split; [discriminate|contradiction]|].
  rewrite orb_true_iff, IH, bytes_eqb_eq. split; intros [H|H]; auto.
Qed.

Lemma mem_eq_iff c s1 s2 : (In c s1 <-> In c s2) -> mem c s1 = mem c s2.
Proof.
  intros H. destruct (mem c s1) eqn:E1, (mem c s2) eqn:E2; try reflexivity.
  - apply mem_in in E1. apply H in E1. apply mem_in in E1. congruence.
  - apply mem_in in E2. apply H in E2. apply mem_in in E2. congruence.
Qed.
Lemma mem_iff_in s1 s2 : (forall c, mem c s1 = mem c s2) -> forall c, In c s1 <-> In c s2.
Proof. intros H c. rewrite <- !mem_in, H. tauto. Qed.

Lemma first_occ_from_ext s1 s2 l : (forall c, mem c s1 = mem c s2) -> first_occ_from s1 l = first_occ_from s2 l.
Proof.
  revert s1 s2. induction l as [|b t IH]; intros s1 s2 H; [reflexivity|]. cbn [first_occ_from].
  rewrite (H (fst b)). destruct (mem (fst b) s2); [apply IH; exact H|].
  f_equal. apply IH. intros c. cbn [mem]. rewrite (H c). reflexivity.
Qed.

Lemma has_exact_cid_stored ro stored c p :
  Forall (fun b => cid_parse (fst b) <> None) stored -> cid_parse c = Some p ->
  ii_has_exact_cid c (c_digest p) (idx_of ro stored) = mem c (map fst stored).
Proof.
  intros Hall Hc. unfold ii_has_exact_cid, idx_of. rewrite ii_with_digest_load_nil.
  generalize (Wf.hdr_len ro). induction Hall as [|[c0 d0] t Hp _ IH]; intros pos; [reflexivity|].
  cbn [records_from map fst mem]. cbn [fst] in Hp. destruct (cid_parse c0) as [p0|] eqn:E0; [|congruence].
  cbn [filter]. unfold has_digest at 1. cbn [r_digest].
  destruct (bytes_eqb c c0) eqn:Ecc.
  - apply bytes_eqb_eq in Ecc. subst c0. rewrite Hc in E0. inversion E0; subst p0.
    rewrite bytes_eqb_refl. cbn [existsb r_cid]. rewrite bytes_eqb_refl. reflexivity.
  - cbn [orb]. destruct (bytes_eqb (c_digest p0) (c_digest p)); [|apply IH].
    cbn [existsb r_cid]. assert (bytes_eqb c0 c = false).
    { destruct (bytes_eqb c0 c) eqn:E; [|reflexivity]. apply bytes_eqb_eq in E. subst. rewrite bytes_eqb_refl in Ecc. discriminate. }
    rewrite H. cbn [orb]. apply IH.
Qed.

Definition whole_store (o : wopts) : Prop := w_whole o = true /\ w_storeid o = true /\ w_dups o = false.

Lemma spec_batch_first_occ stop o ro b : whole_store o -> Forall (accepted o) b ->
  forall stored seen, Forall (fun x => cid_parse (fst x) <> None) stored ->
    (forall c, mem c seen = mem c (map fst stored)) ->
    spec_batch stop o ro stored b = stored ++ first_occ_from seen b.
Proof.
  intros (Hw & Hi & Hd). induction 1 as [|x t Hx _ IH]; intros stored seen Hst Hseen.
  - cbn. rewrite app_nil_r. reflexivity.
  - cbn [spec_batch first_occ_from]. destruct Hx as [Hp Hl].
    unfold spec_put. destruct (cid_parse (fst x)) as [p|] eqn:Ep; [|congruence].
    unfold should_put. rewrite Hi, Hd, Hw. cbn [negb andb].
    replace (w_maxcid o <? blen (fst x)) with false by lia.
    rewrite (has_exact_cid_stored ro stored (fst x) p Hst Ep), <- Hseen.
    destruct (mem (fst x) seen) eqn:Em; cbn [negb andb].
    + apply IH; assumption.
    + transitivity ((stored ++ [x]) ++ first_occ_from (fst x :: seen) t); [apply IH|rewrite <- app_assoc; reflexivity].
      * apply Forall_app. split; [exact Hst|]. constructor; [congruence|constructor].
      * intros c. apply mem_eq_iff. pose proof (mem_iff_in _ _ Hseen c) as Hc.
        rewrite map_app, in_app_iff. cbn [map In]. tauto.
Qed.

Lemma first_occ_from_app seen a b :
  first_occ_from seen (a ++ b) = first_occ_from seen a ++ first_occ_from (map fst (first_occ_from seen a) ++ seen) b.
Proof.
  revert seen. induction a as [|x t IH]; intros seen; [reflexivity|]. cbn [app first_occ_from].
  destruct (mem (fst x) seen) eqn:E; [apply IH|].
  cbn [app map]. f_equal. rewrite IH. f_equal. apply first_occ_from_ext. intros c.
  apply mem_eq_iff. rewrite !in_app_iff. cbn [In]. rewrite in_app_iff. tauto.
Qed.

Theorem whole_store_first_occ k o ro h : whole_store o -> Forall (Forall (accepted o)) h ->
  spec_stored k o ro h = first_occ (concat h).
Proof.
  intros Hw Hh. unfold spec_stored, first_occ.
  assert (G : forall stored seen, Forall (fun x => cid_parse (fst x) <> None) stored ->
                (forall c, mem c seen = mem c (map fst stored)) ->
                fold_left (spec_batch (stops k) o ro) h stored = stored ++ first_occ_from seen (concat h)).
  { induction Hh as [|b t Hb _ IH]; intros stored seen Hst Hseen; [cbn; rewrite app_nil_r; reflexivity|].
    cbn [fold_left concat]. rewrite (spec_batch_first_occ (stops k) o ro b Hw Hb stored seen Hst Hseen).
    rewrite first_occ_from_app, app_assoc.
    apply IH.
    - apply Forall_app. split; [exact Hst|].
      (* first occurrences are members of b, which parse *)
      clear -Hb. revert seen. induction Hb as [|x t0 [Hp _] _ IHb]; intros seen; [constructor|]. cbn [first_occ_from].
      destruct (mem (fst x) seen); [apply IHb|constructor; [exact Hp|apply IHb]].
    - intros c. apply mem_eq_iff. pose proof (mem_iff_in _ _ Hseen c) as Hc.
      rewrite map_app, !in_app_iff. tauto. }
  exact (G [] [] (Forall_nil _) (fun c => eq_refl)).
Qed.
