(* C03: LoadIndex over constructed archives (CARv1, CARv2 with any padding and trailer) returns
   exactly the records of the indexed sections with their payload-relative offsets, for seekable
   and plain sources alike and through the ReaderAt path. *)
From Coq Require Import Permutation Sorting.Sorted.
From GoCar Require Import Bytes Varint Cid Header Frame V2Header Scan Index IndexGen.
From GoCarProofs Require Import BytesFacts VarintFacts CidFacts HeaderFacts ScanFacts
  IndexKv IndexSort IndexCompact IndexSearch IndexRoundtrip IndexLoad IndexCanon.

(* ---- CARv2 header round trip ---------------------------------------------------------------- *)
Definition v2hdr_ok (h : v2hdr) : Prop :=
  h_hi h < two64 /\ h_lo h < two64 /\ 51 <= h_doff h < two63 /\ 0 < h_dsize h < two63 /\ h_ioff h < two63.

Lemma blen_enc_v2hdr h : blen (enc_v2hdr h) = 40.
Proof. unfold enc_v2hdr. rewrite !blen_app, !blen_le_enc. reflexivity. Qed.

Lemma as_int64_small n : n < two63 -> as_int64 n = Z.of_N n.
Proof. intros H. unfold as_int64. replace (n <? two63) with true by lia. reflexivity. Qed.

Lemma read_v2hdr_enc h rest : v2hdr_ok h -> read_v2hdr (enc_v2hdr h ++ rest) = Ok (h, rest).
Proof.
  destruct h as [hi lo doff dsize ioff]. intros (Hhi & Hlo & Hdo & Hds & Hio). cbn [h_hi h_lo h_doff h_dsize h_ioff] in *.
  unfold read_v2hdr.
  assert (Hlen : blen (enc_v2hdr (mkv2 hi lo doff dsize ioff) ++ rest) = 40 + blen rest)
    by (rewrite blen_app, blen_enc_v2hdr; reflexivity).
  replace (blen (enc_v2hdr (mkv2 hi lo doff dsize ioff) ++ rest) <? 16) with false by lia.
  replace (blen (enc_v2hdr (mkv2 hi lo doff dsize ioff) ++ rest) <? 40) with false by lia.
  unfold enc_v2hdr. cbn [h_hi h_lo h_doff h_dsize h_ioff]. rewrite <- !app_assoc.
  assert (P : forall n, n < two64 -> n < 256 ^ N.of_nat 8)
    by (intros n Hn; unfold two64 in Hn; change (256 ^ N.of_nat 8) with 18446744073709551616; exact Hn).
  assert (F : forall n r, n < two64 -> le_dec (take 8 (le_enc 8 n ++ r)) = n /\ drop 8 (le_enc 8 n ++ r) = r).
  { intros n r Hn. apply (le_field 8 n r (P n Hn)). }
  set (r4 := le_enc 8 ioff ++ rest).
  set (r3 := le_enc 8 dsize ++ r4).
  set (r2 := le_enc 8 doff ++ r3).
  set (r1 := le_enc 8 lo ++ r2).
  destruct (F hi r1 Hhi) as [A1 B1].
  destruct (F lo r2 Hlo) as [A2 B2].
  destruct (F doff r3 ltac:(unfold two63, two64 in *; lia)) as [A3 B3].
  destruct (F dsize r4 ltac:(unfold two63, two64 in *; lia)) as [A4 B4].
  destruct (F ioff rest ltac:(unfold two63, two64 in *; lia)) as [A5 B5].
  assert (D16 : drop 16 (le_enc 8 hi ++ r1) = r2).
  { replace 16 with (8 + 8) by reflexivity. rewrite <- drop_drop, B1. exact B2. }
  assert (D24 : drop 24 (le_enc 8 hi ++ r1) = r3).
  { replace 24 with (16 + 8) by reflexivity. rewrite <- drop_drop, D16. exact B3. }
  assert (D32 : drop 32 (le_enc 8 hi ++ r1) = r4).
  { replace 32 with (24 + 8) by reflexivity. rewrite <- drop_drop, D24. exact B4. }
  assert (D40 : drop 40 (le_enc 8 hi ++ r1) = rest).
  { replace 40 with (32 + 8) by reflexivity. rewrite <- drop_drop, D32. exact B5. }
  rewrite A1, B1, D16, D24, D32, D40. unfold r1, r2, r3, r4 in *. rewrite A2, A3, A4, A5.
  rewrite !as_int64_small by lia.
  replace (Z.of_N doff <? 51)%Z with false by lia.
  replace (Z.of_N dsize <=? 0)%Z with false by lia.
  replace (Z.of_N ioff <? 0)%Z with false by lia. reflexivity.
Qed.

Lemma pragma_is_ld : pragma = ld pragma_body.
Proof. reflexivity. Qed.

(* ---- blocks LoadIndex walks --------------------------------------------------------------------- *)
(* a section the writers can emit: well-formed CID whose digest fits an index bucket (32 MiB - 8),
   length below the varint limit *)
Definition gblock_ok (b : block) : Prop :=
  exists p, cid_ok p /\ fst b = cid_enc p /\ blen (c_digest p) + 8 <= max_width /\
            blen (fst b) + blen (snd b) < two63.

(* MaxIndexCidSize is respected by this block (or the block is an unindexed identity CID) *)
Definition cid_fits (o : gopts) (b : block) : Prop :=
  section_indexed o (fst b) = true -> blen (fst b) <= g_max_cid o.

Lemma gblock_parse b : gblock_ok b -> exists p, cid_ok p /\ fst b = cid_enc p /\ cid_parse (fst b) = Some p.
Proof. intros (p & Hp & E & _). exists p. split; [exact Hp|]. split; [exact E|]. rewrite E. apply cid_parse_enc, Hp. Qed.

Lemma enc_section_nonempty c d : 1 <= blen (enc_section c d).
Proof. rewrite blen_enc_section. unfold section_size, ld_size. pose proof (uv_size_pos (blen c + blen d)). lia. Qed.

(* one iteration of the (repaired) loop over a well-formed section *)
Lemma li_step k o all doff dsize pre c d rest p f acc :
  blen all < two63 -> all = pre ++ enc_section c d ++ rest ->
  cid_ok p -> c = cid_enc p -> blen (c_digest p) + 8 <= max_width -> blen c + blen d < two63 ->
  doff <= blen pre -> payload_end doff dsize (mkrs (blen pre) (blen pre)) = false ->
  li_loop (S f) true k o all doff dsize (mkrs (blen pre) (blen pre)) acc
  = if indexed o p && (g_max_cid o <? blen c) then Err ECidTooLarge
    else li_loop f true k o all doff dsize
           (mkrs (blen pre + section_size c d) (blen pre + section_size c d))
           (if indexed o p then mkrec c (c_mhcode p) (c_digest p) (blen pre - doff) :: acc else acc).
Proof.
  intros Hall Eall Hp Ec Hcap Hlen Hdoff Hend.
  cbn [li_loop andb]. rewrite Hend. unfold view. cbn [rs_pos rs_woff].
  set (len := blen c + blen d).
  assert (Ev : drop (blen pre) all = put_uv len ++ c ++ d ++ rest).
  { rewrite Eall, drop_app. unfold enc_section. rewrite <- !app_assoc. reflexivity. }
  rewrite Ev, read_uv_put_uv by exact Hlen.
  pose proof (cid_enc_nonempty p Hp) as Hne. rewrite <- Ec in Hne.
  replace (len =? 0) with false by (unfold len; lia).
  unfold advance. cbn [rs_pos rs_woff].
  assert (Ev2 : drop (blen pre + uv_size len) all = c ++ d ++ rest).
  { rewrite Eall. unfold enc_section. fold len.
    replace (pre ++ (put_uv len ++ c ++ d) ++ rest) with ((pre ++ put_uv len) ++ c ++ d ++ rest)
      by (rewrite <- !app_assoc; reflexivity).
    replace (blen pre + uv_size len) with (blen (pre ++ put_uv len)) by (rewrite blen_app, blen_put_uv; reflexivity).
    apply drop_app. }
  rewrite Ev2. rewrite Ec at 1.
  rewrite cid_from_reader_enc; [|exact Hp|unfold max_width, max_digest_alloc in *; lia].
  rewrite <- Ec.
  destruct (indexed o p && (g_max_cid o <? blen c)); [reflexivity|].
  assert (Eall_len : blen all = blen pre + (uv_size len + blen c + blen d) + blen rest).
  { rewrite Eall. unfold enc_section. rewrite !blen_app, blen_put_uv. fold len. lia. }
  assert (Hsize : section_size c d = uv_size len + blen c + blen d).
  { unfold section_size, ld_size. fold len. unfold len. lia. }
  assert (Est3 : seek_cur k all (Z.of_N len - Z.of_N (blen c))%Z
                   (mkrs (blen pre + uv_size len + blen c) (blen pre + uv_size len + blen c))
                 = Ok (mkrs (blen pre + section_size c d) (blen pre + section_size c d))).
  { unfold seek_cur. cbn [rs_pos rs_woff]. destruct k.
    - replace (Z.of_N (blen pre + uv_size len + blen c) + (Z.of_N len - Z.of_N (blen c)) <? 0)%Z with false by (unfold len; lia).
      replace (Z.of_N two63 <=? Z.of_N (blen pre + uv_size len + blen c) + (Z.of_N len - Z.of_N (blen c)))%Z
        with false by (unfold len in *; lia).
      f_equal. rewrite Hsize. unfold len. f_equal; lia.
    - destruct (Z.of_N len - Z.of_N (blen c) <=? 0)%Z eqn:E.
      + f_equal. rewrite Hsize. unfold len in *. f_equal; lia.
      + replace (blen all - (blen pre + uv_size len + blen c) <? Z.to_N (Z.of_N len - Z.of_N (blen c))) with false
          by (unfold len in *; lia).
        unfold advance. cbn [rs_pos rs_woff]. f_equal. rewrite Hsize. unfold len in *. f_equal; lia. }
  rewrite Est3. cbn [negb andb]. reflexivity.
Qed.

Lemma blen_enc_sections_cons b t : blen (enc_sections (b :: t)) = section_size (fst b) (snd b) + blen (enc_sections t).
Proof. unfold enc_sections. cbn [map concat]. rewrite blen_app, blen_enc_section. reflexivity. Qed.

Lemma enc_sections_cons b t : enc_sections (b :: t) = enc_section (fst b) (snd b) ++ enc_sections t.
Proof. reflexivity. Qed.

Lemma section_size_pos c d : 1 <= section_size c d.
Proof. rewrite <- blen_enc_section. apply enc_section_nonempty. Qed.

(* the record list produced so far is kept reversed in [acc] *)
Lemma rec_of_section_parse o off c d p : cid_parse c = Some p ->
  rec_of_section o (off, (c, d)) = if indexed o p then [mkrec c (c_mhcode p) (c_digest p) off] else [].
Proof. intros H. unfold rec_of_section. cbn [fst snd]. rewrite H. reflexivity. Qed.

(* walking all the sections: from the start of the first to the end of the last *)
Lemma li_loop_through k o all doff dsize : blen all < two63 ->
  forall bs pre post acc f,
    all = pre ++ enc_sections bs ++ post ->
    Forall gblock_ok bs -> Forall (cid_fits o) bs -> doff <= blen pre ->
    (dsize = 0 \/ blen pre + blen (enc_sections bs) <= dsize + doff) ->
    li_loop (length bs + f) true k o all doff dsize (mkrs (blen pre) (blen pre)) acc
    = li_loop f true k o all doff dsize
        (mkrs (blen pre + blen (enc_sections bs)) (blen pre + blen (enc_sections bs)))
        (rev (flat_map (rec_of_section o) (sections_at (blen pre - doff) bs)) ++ acc).
Proof.
  intros Hall. induction bs as [|[c d] t IH]; intros pre post acc f Eall Hok Hfit Hdoff Hend.
  - cbn [length Nat.add enc_sections map concat sections_at flat_map rev app]. rewrite blen_nil, N.add_0_r. reflexivity.
  - pose proof (Forall_inv Hok) as Hb. pose proof (Forall_inv_tail Hok) as Hok'.
    pose proof (Forall_inv Hfit) as Hf1. pose proof (Forall_inv_tail Hfit) as Hfit'.
    destruct Hb as (p & Hp & Ec & Hcap & Hlen). cbn [fst snd] in *.
    cbn [length Nat.add]. rewrite enc_sections_cons in Eall. cbn [fst snd] in Eall. rewrite <- app_assoc in Eall.
    rewrite (li_step k o all doff dsize pre c d (enc_sections t ++ post) p (length t + f) acc Hall Eall Hp Ec Hcap Hlen Hdoff).
    + assert (Hparse : cid_parse c = Some p) by (rewrite Ec; apply cid_parse_enc, Hp).
      assert (Hnot : indexed o p && (g_max_cid o <? blen c) = false).
      { destruct (indexed o p) eqn:Ei; [|reflexivity]. cbn [andb].
        unfold cid_fits, section_indexed in Hf1. cbn [fst] in Hf1. rewrite Hparse in Hf1. specialize (Hf1 Ei). lia. }
      rewrite Hnot.
      assert (Eall' : all = (pre ++ enc_section c d) ++ enc_sections t ++ post) by (rewrite <- app_assoc; exact Eall).
      specialize (IH (pre ++ enc_section c d) post
                     (if indexed o p then mkrec c (c_mhcode p) (c_digest p) (blen pre - doff) :: acc else acc)
                     f Eall' Hok' Hfit').
      rewrite blen_app, blen_enc_section in IH. rewrite IH.
      * rewrite blen_enc_sections_cons. cbn [fst snd sections_at flat_map].
        rewrite (rec_of_section_parse o _ c d p Hparse).
        replace (blen pre + section_size c d - doff) with (blen pre - doff + section_size c d) by lia.
        f_equal; [f_equal; lia|].
        destruct (indexed o p); cbn [app rev]; rewrite ?rev_app_distr, <- ?app_assoc; reflexivity.
      * lia.
      * destruct Hend as [Hz|Hle]; [left; exact Hz|right]. rewrite blen_enc_sections_cons in Hle. cbn [fst snd] in Hle. lia.
    + unfold payload_end. cbn [rs_woff]. destruct Hend as [Hz|Hle].
      * subst dsize. reflexivity.
      * rewrite blen_enc_sections_cons in Hle. cbn [fst snd] in Hle. pose proof (section_size_pos c d).
        replace (dsize <=? blen pre - doff) with false by lia. apply andb_false_r.
Qed.

(* how the loop ends *)
Lemma li_loop_end_eof k o all doff dsize e acc f : blen all <= e ->
  li_loop (S f) true k o all doff dsize (mkrs e e) acc = Ok (rev acc).
Proof.
  intros H. cbn [li_loop andb]. destruct (payload_end doff dsize (mkrs e e)); [reflexivity|].
  unfold view. cbn [rs_pos]. rewrite drop_ge by exact H. reflexivity.
Qed.

Lemma li_loop_end_payload k o all doff dsize e acc f : dsize <> 0 -> dsize + doff <= e ->
  li_loop (S f) true k o all doff dsize (mkrs e e) acc = Ok (rev acc).
Proof.
  intros Hnz Hle. cbn [li_loop andb]. unfold payload_end. cbn [rs_woff].
  replace (dsize =? 0) with false by lia. replace (dsize <=? e - doff) with true by lia. reflexivity.
Qed.

Lemma li_loop_end_zero k o all doff dsize pre post acc f :
  all = pre ++ x00 :: post -> payload_end doff dsize (mkrs (blen pre) (blen pre)) = false ->
  li_loop (S f) true k o all doff dsize (mkrs (blen pre) (blen pre)) acc
  = if g_zeof o then Ok (rev acc) else Err EOther.
Proof.
  intros Eall Hend. cbn [li_loop andb]. rewrite Hend. unfold view. cbn [rs_pos].
  rewrite Eall, drop_app. reflexivity.
Qed.

Lemma length_enc_sections bs : (length bs <= length (enc_sections bs))%nat.
Proof.
  induction bs as [|[c d] t IH]; [cbn; lia|]. rewrite enc_sections_cons, app_length. cbn [length fst snd].
  pose proof (enc_section_nonempty c d) as H. unfold blen in H. lia.
Qed.

(* ---- whole archives ------------------------------------------------------------------------------ *)
Section Oracles.
  Variable hdrdec : bytes -> option (list bytes * N).

  Definition hdr_fits (o : gopts) (roots : list bytes) : Prop :=
    hdr_good hdrdec roots /\ blen (enc_header (Some roots) 1) <= g_maxh o /\
    blen (enc_header (Some roots) 1) < two63.
  Definition pragma_good (o : gopts) : Prop :=
    (exists r, hdrdec pragma_body = Some (r, 2)) /\ 10 <= g_maxh o.

  Definition hlen_of (roots : list bytes) : N := ld_size (blen (enc_header (Some roots) 1)).

  Lemma blen_payload_split roots bs :
    blen (enc_payload roots bs) = hlen_of roots + blen (enc_sections bs).
  Proof. unfold enc_payload, hlen_of. rewrite blen_app, blen_ld. reflexivity. Qed.

  (* CARv1, both source kinds; [tail]: nothing, or zero padding *)
  Theorem load_index_v1 k o roots bs :
    hdr_fits o roots -> Forall gblock_ok bs -> Forall (cid_fits o) bs ->
    blen (enc_payload roots bs) < two63 ->
    load_index hdrdec k o (enc_payload roots bs) = Ok (section_recs o (hlen_of roots) bs).
  Proof.
    intros (Hg & Hmax & H63) Hok Hfit Hall. unfold load_index, load_index_gen. cbn [fx_counted fx_topcheck repaired].
    unfold enc_payload at 1. rewrite (read_header_payload hdrdec (g_maxh o) roots (enc_sections bs) Hg Hmax H63).
    change (1 =? 1) with true. cbv iota.
    fold (hlen_of roots).
    assert (Est0 : advance_raw k true (hlen_of roots) (mkrs 0 0) = mkrs (hlen_of roots) (hlen_of roots))
      by (destruct k; reflexivity).
    rewrite Est0.
    set (all := enc_payload roots bs) in *.
    set (pre := ld (enc_header (Some roots) 1)).
    assert (Hpre : blen pre = hlen_of roots) by (unfold pre, hlen_of; apply blen_ld).
    assert (Eall : all = pre ++ enc_sections bs ++ []) by (unfold all, enc_payload, pre; rewrite app_nil_r; reflexivity).
    assert (Hfuel : exists f, S (length all) = (length bs + S f)%nat).
    { exists (length all - length bs)%nat.
      assert (length bs <= length all)%nat.
      { rewrite Eall, !app_length. pose proof (length_enc_sections bs). lia. }
      lia. }
    destruct Hfuel as (f & ->). rewrite <- Hpre.
    rewrite (li_loop_through k o all 0 0 Hall bs pre [] [] (S f) Eall Hok Hfit ltac:(lia) ltac:(left; reflexivity)).
    rewrite li_loop_end_eof.
    - rewrite app_nil_r, rev_involutive, N.sub_0_r. reflexivity.
    - rewrite Eall, !blen_app, blen_nil. lia.
  Qed.

  (* the same with zero bytes after the sections (null padding) *)
  Theorem load_index_v1_padded k o roots bs n post :
    hdr_fits o roots -> Forall gblock_ok bs -> Forall (cid_fits o) bs ->
    blen (enc_payload roots bs ++ zeros (S n) ++ post) < two63 ->
    load_index hdrdec k o (enc_payload roots bs ++ zeros (S n) ++ post)
    = if g_zeof o then Ok (section_recs o (hlen_of roots) bs) else Err EOther.
  Proof.
    intros (Hg & Hmax & H63) Hok Hfit Hall. unfold load_index, load_index_gen. cbn [fx_counted fx_topcheck repaired].
    unfold enc_payload at 1. rewrite <- app_assoc.
    rewrite (read_header_payload hdrdec (g_maxh o) roots _ Hg Hmax H63).
    change (1 =? 1) with true. cbv iota. fold (hlen_of roots).
    assert (Est0 : advance_raw k true (hlen_of roots) (mkrs 0 0) = mkrs (hlen_of roots) (hlen_of roots))
      by (destruct k; reflexivity).
    rewrite Est0.
    set (all := enc_payload roots bs ++ zeros (S n) ++ post) in *.
    set (pre := ld (enc_header (Some roots) 1)).
    assert (Hpre : blen pre = hlen_of roots) by (unfold pre, hlen_of; apply blen_ld).
    assert (Eall : all = pre ++ enc_sections bs ++ (zeros (S n) ++ post))
      by (unfold all, enc_payload, pre; rewrite <- app_assoc; reflexivity).
    assert (Hfuel : exists f, S (length all) = (length bs + S f)%nat).
    { exists (length all - length bs)%nat.
      assert (length bs <= length all)%nat.
      { rewrite Eall, !app_length. pose proof (length_enc_sections bs). lia. }
      lia. }
    destruct Hfuel as (f & ->). rewrite <- Hpre.
    rewrite (li_loop_through k o all 0 0 Hall bs pre _ [] (S f) Eall Hok Hfit ltac:(lia) ltac:(left; reflexivity)).
    assert (Eall2 : all = (pre ++ enc_sections bs) ++ x00 :: (zeros n ++ post)).
    { rewrite Eall. rewrite <- app_assoc. reflexivity. }
    replace (blen pre + blen (enc_sections bs)) with (blen (pre ++ enc_sections bs)) by apply blen_app.
    rewrite (li_loop_end_zero k o all 0 0 _ _ _ f Eall2) by reflexivity.
    destruct (g_zeof o); [|reflexivity]. rewrite app_nil_r, rev_involutive, N.sub_0_r. reflexivity.
  Qed.

  (* the first indexed CID above MaxIndexCidSize stops the load with ErrCidTooLarge *)
  Theorem load_index_v1_cid_too_large k o roots bs1 b bs2 :
    hdr_fits o roots -> Forall gblock_ok (bs1 ++ b :: bs2) -> Forall (cid_fits o) bs1 ->
    section_indexed o (fst b) = true -> g_max_cid o < blen (fst b) ->
    blen (enc_payload roots (bs1 ++ b :: bs2)) < two63 ->
    load_index hdrdec k o (enc_payload roots (bs1 ++ b :: bs2)) = Err ECidTooLarge.
  Proof.
    intros (Hg & Hmax & H63) Hok Hfit Hidx Hbig Hall. unfold load_index, load_index_gen. cbn [fx_counted fx_topcheck repaired].
    unfold enc_payload at 1. rewrite (read_header_payload hdrdec (g_maxh o) roots _ Hg Hmax H63).
    change (1 =? 1) with true. cbv iota. fold (hlen_of roots).
    assert (Est0 : advance_raw k true (hlen_of roots) (mkrs 0 0) = mkrs (hlen_of roots) (hlen_of roots))
      by (destruct k; reflexivity).
    rewrite Est0.
    set (all := enc_payload roots (bs1 ++ b :: bs2)) in *.
    set (pre := ld (enc_header (Some roots) 1)).
    assert (Hpre : blen pre = hlen_of roots) by (unfold pre, hlen_of; apply blen_ld).
    assert (Esec : enc_sections (bs1 ++ b :: bs2) = enc_sections bs1 ++ enc_section (fst b) (snd b) ++ enc_sections bs2).
    { unfold enc_sections. rewrite map_app, concat_app. reflexivity. }
    assert (Eall : all = pre ++ enc_sections bs1 ++ (enc_section (fst b) (snd b) ++ enc_sections bs2))
      by (unfold all, enc_payload, pre; rewrite Esec; reflexivity).
    apply Forall_app in Hok. destruct Hok as [Hok1 Hok2]. pose proof (Forall_inv Hok2) as Hb.
    assert (Hfuel : exists f, S (length all) = (length bs1 + S f)%nat).
    { exists (length all - length bs1)%nat.
      assert (length bs1 <= length all)%nat.
      { rewrite Eall, !app_length. pose proof (length_enc_sections bs1). lia. }
      lia. }
    destruct Hfuel as (f & ->). rewrite <- Hpre.
    rewrite (li_loop_through k o all 0 0 Hall bs1 pre _ [] (S f) Eall Hok1 Hfit ltac:(lia) ltac:(left; reflexivity)).
    destruct Hb as (p & Hp & Ec & Hcap & Hlen). destruct b as [c d]. cbn [fst snd] in *.
    assert (Eall2 : all = (pre ++ enc_sections bs1) ++ enc_section c d ++ enc_sections bs2).
    { rewrite Eall. rewrite <- app_assoc. reflexivity. }
    replace (blen pre + blen (enc_sections bs1)) with (blen (pre ++ enc_sections bs1)) by apply blen_app.
    rewrite (li_step k o all 0 0 _ c d _ p f _ Hall Eall2 Hp Ec Hcap Hlen ltac:(lia) ltac:(reflexivity)).
    assert (Hparse : cid_parse c = Some p) by (rewrite Ec; apply cid_parse_enc, Hp).
    unfold section_indexed in Hidx. rewrite Hparse in Hidx. rewrite Hidx.
    replace (g_max_cid o <? blen c) with true by lia. reflexivity.
  Qed.

  (* CARv2: any characteristics, any padding bytes, anything after the payload *)
  Theorem load_index_v2 k o hi lo ioff pad roots bs trailer :
    pragma_good o -> hdr_fits o roots -> Forall gblock_ok bs -> Forall (cid_fits o) bs ->
    hi < two64 -> lo < two64 -> ioff < two63 ->
    blen (v2_container hi lo ioff pad (enc_payload roots bs) trailer) < two63 ->
    load_index hdrdec k o (v2_container hi lo ioff pad (enc_payload roots bs) trailer)
    = Ok (section_recs o (hlen_of roots) bs).
  Proof.
    intros ((r & Hprag) & Hmaxp) (Hg & Hmax & H63) Hok Hfit Hhi Hlo Hio Hall.
    set (payload := enc_payload roots bs) in *.
    set (h := mkv2 hi lo (51 + blen pad) (blen payload) ioff).
    assert (Hpay : 0 < blen payload).
    { unfold payload. rewrite blen_payload_split. unfold hlen_of, ld_size. pose proof (uv_size_pos (blen (enc_header (Some roots) 1))). lia. }
    assert (Hcont : blen (v2_container hi lo ioff pad payload trailer) = 51 + blen pad + blen payload + blen trailer).
    { unfold v2_container. rewrite !blen_app, blen_enc_v2hdr. change (blen pragma) with 11. lia. }
    assert (Hh : v2hdr_ok h).
    { unfold v2hdr_ok, h. cbn [h_hi h_lo h_doff h_dsize h_ioff]. rewrite Hcont in Hall. repeat split; try assumption; lia. }
    unfold load_index, load_index_gen. cbn [fx_counted fx_topcheck repaired].
    set (all := v2_container hi lo ioff pad payload trailer) in *.
    assert (Eall0 : all = ld pragma_body ++ (enc_v2hdr h ++ pad ++ payload ++ trailer)) by reflexivity.
    (* pragma *)
    assert (Hrp : read_header hdrdec (g_maxh o) all = Ok (r, 2, enc_v2hdr h ++ pad ++ payload ++ trailer, 11)).
    { rewrite Eall0. unfold read_header. rewrite ld_read_ld; [|cbv; reflexivity|change (blen pragma_body) with 10; lia|discriminate].
      rewrite Hprag. reflexivity. }
    rewrite Hrp. change (2 =? 1) with false. change (2 =? 2) with true. cbv iota.
    assert (Est0 : advance_raw k true 11 (mkrs 0 0) = mkrs 11 11) by (destruct k; reflexivity).
    rewrite Est0.
    assert (Ev0 : view all (mkrs 11 11) = enc_v2hdr h ++ pad ++ payload ++ trailer).
    { unfold view. cbn [rs_pos]. rewrite Eall0. change 11 with (blen (ld pragma_body)). apply drop_app. }
    rewrite Ev0, (read_v2hdr_enc h _ Hh).
    assert (Est1 : advance_raw k true 40 (mkrs 11 11) = mkrs 51 51) by (destruct k; reflexivity).
    rewrite Est1. cbn [h_doff h_dsize h].
    assert (Est2 : seek_start k all (51 + blen pad) (mkrs 51 51) = Ok (mkrs (51 + blen pad) (51 + blen pad))).
    { unfold seek_start. cbn [rs_pos rs_woff]. destruct k; [reflexivity|].
      replace (51 + blen pad <? 51) with false by lia.
      replace (blen all - 51 <? 51 + blen pad - 51) with false by (rewrite Hcont; lia).
      unfold advance. cbn [rs_pos rs_woff]. f_equal. f_equal; lia. }
    rewrite Est2.
    set (pre0 := ld pragma_body ++ enc_v2hdr h ++ pad).
    assert (Hpre0 : blen pre0 = 51 + blen pad).
    { unfold pre0. rewrite !blen_app, blen_enc_v2hdr. change (blen (ld pragma_body)) with 11. lia. }
    assert (Eall1 : all = pre0 ++ payload ++ trailer).
    { rewrite Eall0. unfold pre0. rewrite <- !app_assoc. reflexivity. }
    assert (Ev2 : view all (mkrs (51 + blen pad) (51 + blen pad)) = payload ++ trailer).
    { unfold view. cbn [rs_pos]. rewrite Eall1, <- Hpre0. apply drop_app. }
    rewrite Ev2. unfold payload at 1, enc_payload. rewrite <- app_assoc.
    rewrite (read_header_payload hdrdec (g_maxh o) roots _ Hg Hmax H63).
    change (1 =? 1) with true. cbn [negb]. cbv iota. fold (hlen_of roots).
    unfold advance. cbn [rs_pos rs_woff].
    set (pre := pre0 ++ ld (enc_header (Some roots) 1)).
    assert (Hpre : blen pre = 51 + blen pad + hlen_of roots).
    { unfold pre. rewrite blen_app, Hpre0, blen_ld. reflexivity. }
    assert (Eall : all = pre ++ enc_sections bs ++ trailer).
    { rewrite Eall1. unfold pre, payload, enc_payload. rewrite <- !app_assoc. reflexivity. }
    assert (Hfuel : exists f, S (length all) = (length bs + S f)%nat).
    { exists (length all - length bs)%nat.
      assert (length bs <= length all)%nat.
      { rewrite Eall, !app_length. pose proof (length_enc_sections bs). lia. }
      lia. }
    destruct Hfuel as (f & ->). rewrite <- Hpre.
    assert (Hdsz : blen pre + blen (enc_sections bs) = blen payload + (51 + blen pad)).
    { rewrite Hpre. unfold payload. rewrite blen_payload_split. lia. }
    rewrite (li_loop_through k o all (51 + blen pad) (blen payload) Hall bs pre trailer [] (S f) Eall Hok Hfit
               ltac:(lia) ltac:(right; lia)).
    rewrite li_loop_end_payload by lia.
    rewrite app_nil_r, rev_involutive. unfold section_recs.
    replace (blen pre - (51 + blen pad)) with (hlen_of roots) by lia. reflexivity.
  Qed.

  (* io.ReaderAt sources go through NewReader(..).DataReader(): same records *)
  Theorem load_index_reader_at_v1 o roots bs :
    hdr_fits o roots -> Forall gblock_ok bs -> Forall (cid_fits o) bs ->
    blen (enc_payload roots bs) < two63 ->
    load_index_reader_at hdrdec o (enc_payload roots bs) = Ok (section_recs o (hlen_of roots) bs).
  Proof.
    intros Hh Hok Hfit Hall. unfold load_index_reader_at, load_index_reader_at_gen, data_reader_view.
    destruct Hh as (Hg & Hmax & H63).
    unfold enc_payload at 1. rewrite (read_header_payload hdrdec (g_maxh o) roots _ Hg Hmax H63).
    change (1 =? 1) with true. cbv iota.
    apply (load_index_v1 SrcSeek o roots bs); [repeat split; assumption|assumption..].
  Qed.

  Theorem load_index_reader_at_v2 o hi lo ioff pad roots bs trailer :
    pragma_good o -> hdr_fits o roots -> Forall gblock_ok bs -> Forall (cid_fits o) bs ->
    hi < two64 -> lo < two64 -> ioff < two63 ->
    blen (v2_container hi lo ioff pad (enc_payload roots bs) trailer) < two63 ->
    load_index_reader_at hdrdec o (v2_container hi lo ioff pad (enc_payload roots bs) trailer)
    = Ok (section_recs o (hlen_of roots) bs).
  Proof.
    intros ((r & Hprag) & Hmaxp) Hh Hok Hfit Hhi Hlo Hio Hall.
    set (payload := enc_payload roots bs) in *.
    set (h := mkv2 hi lo (51 + blen pad) (blen payload) ioff).
    assert (Hpay : 0 < blen payload).
    { unfold payload. rewrite blen_payload_split. unfold hlen_of, ld_size. pose proof (uv_size_pos (blen (enc_header (Some roots) 1))). lia. }
    assert (Hcont : blen (v2_container hi lo ioff pad payload trailer) = 51 + blen pad + blen payload + blen trailer).
    { unfold v2_container. rewrite !blen_app, blen_enc_v2hdr. change (blen pragma) with 11. lia. }
    assert (Hv : v2hdr_ok h).
    { unfold v2hdr_ok, h. cbn [h_hi h_lo h_doff h_dsize h_ioff]. rewrite Hcont in Hall. repeat split; try assumption; lia. }
    unfold load_index_reader_at, load_index_reader_at_gen, data_reader_view.
    set (all := v2_container hi lo ioff pad payload trailer) in *.
    assert (Eall0 : all = ld pragma_body ++ (enc_v2hdr h ++ pad ++ payload ++ trailer)) by reflexivity.
    assert (Hrp : read_header hdrdec (g_maxh o) all = Ok (r, 2, enc_v2hdr h ++ pad ++ payload ++ trailer, 11)).
    { rewrite Eall0. unfold read_header. rewrite ld_read_ld; [|cbv; reflexivity|change (blen pragma_body) with 10; lia|discriminate].
      rewrite Hprag. reflexivity. }
    rewrite Hrp. change (2 =? 1) with false. change (2 =? 2) with true. cbv iota.
    assert (E11 : drop 11 all = enc_v2hdr h ++ pad ++ payload ++ trailer).
    { rewrite Eall0. change 11 with (blen (ld pragma_body)). apply drop_app. }
    rewrite E11. rewrite <- (blen_enc_v2hdr h) at 1. rewrite take_app.
    rewrite <- (app_nil_r (enc_v2hdr h)) at 1. rewrite (read_v2hdr_enc h [] Hv). cbn [h_doff h_dsize h].
    assert (Ewin : take (blen payload) (drop (51 + blen pad) all) = payload).
    { replace all with ((ld pragma_body ++ enc_v2hdr h ++ pad) ++ payload ++ trailer)
        by (rewrite Eall0, <- !app_assoc; reflexivity).
      replace (51 + blen pad) with (blen (ld pragma_body ++ enc_v2hdr h ++ pad))
        by (rewrite !blen_app, blen_enc_v2hdr; change (blen (ld pragma_body)) with 11; lia).
      rewrite drop_app. apply take_app. }
    rewrite Ewin. apply (load_index_v1 SrcSeek o roots bs); try assumption.
    rewrite Hcont in Hall. fold payload. lia.
  Qed.
End Oracles.
