(* L1: go-varint round trip and size facts. *)
From GoCar Require Import Bytes Varint.
From GoCarProofs Require Import BytesFacts.
Ltac Zify.zify_post_hook ::= Z.div_mod_to_equations.

Lemma pow128_succ k : 128 ^ N.of_nat (S k) = 128 * 128 ^ N.of_nat k.
Proof. rewrite Nnat.Nat2N.inj_succ, N.pow_succ_r'. reflexivity. Qed.

(* fuel beyond what the value needs is irrelevant *)
Lemma put_uv_f_fuel k : forall f n, (S k <= f)%nat -> n < 128 ^ N.of_nat (S k) ->
  put_uv_f f n = put_uv_f (S k) n.
Proof.
  induction k as [|k IH]; intros f n Hf Hn; (destruct f as [|f']; [lia|]); cbn [put_uv_f].
  - change (128 ^ N.of_nat 1) with 128 in Hn. replace (n <? 128) with true by lia. reflexivity.
  - destruct (n <? 128) eqn:E; [reflexivity|].
    f_equal. apply IH; [lia|]. rewrite pow128_succ in Hn. apply N.div_lt_upper_bound; lia.
Qed.
Lemma uv_size_f_fuel k : forall f n, (S k <= f)%nat -> n < 128 ^ N.of_nat (S k) ->
  uv_size_f f n = uv_size_f (S k) n.
Proof.
  induction k as [|k IH]; intros f n Hf Hn; (destruct f as [|f']; [lia|]); cbn [uv_size_f].
  - change (128 ^ N.of_nat 1) with 128 in Hn. replace (n <? 128) with true by lia. reflexivity.
  - destruct (n <? 128) eqn:E; [reflexivity|].
    f_equal. apply IH; [lia|]. rewrite pow128_succ in Hn. apply N.div_lt_upper_bound; lia.
Qed.

Lemma blen_put_uv_f f n : blen (put_uv_f f n) = uv_size_f f n.
Proof.
  revert n. induction f as [|f IH]; intros n; cbn [put_uv_f uv_size_f]; [reflexivity|].
  destruct (n <? 128); [reflexivity|]. rewrite blen_cons, IH. reflexivity.
Qed.
Lemma blen_put_uv n : blen (put_uv n) = uv_size n.
Proof. apply blen_put_uv_f. Qed.

Lemma uv_size_f_bounds f n : (0 < f)%nat -> 1 <= uv_size_f f n <= N.of_nat f.
Proof.
  revert n. induction f as [|f IH]; intros n Hf; [lia|]. cbn [uv_size_f].
  destruct (n <? 128); [lia|]. destruct f as [|f']; [cbn; lia|].
  specialize (IH (n / 128) ltac:(lia)). lia.
Qed.
Lemma uv_size_pos n : 1 <= uv_size n.
Proof. apply (uv_size_f_bounds 10 n). lia. Qed.

Lemma uv_size_f_S f n :
  uv_size_f (S f) n = if n <? 128 then 1 else 1 + uv_size_f f (n / 128).
Proof. reflexivity. Qed.

Lemma read_put_gen : forall fuel rf n i x rest,
  (S fuel <= rf)%nat -> n < 128 ^ N.of_nat (S fuel) -> (0 < i -> 0 < n) ->
  N.of_nat (S fuel) + i <= 9 ->
  read_uv_f rf i x (put_uv_f (S fuel) n ++ rest)
  = VOk (x + n * 2 ^ (7 * i)) rest (i + uv_size_f (S fuel) n).
Proof.
  induction fuel as [|f IH]; intros rf n i x rest Hrf Hn Hpos Hi;
    (destruct rf as [|rf']; [lia|]); cbn [put_uv_f]; rewrite (uv_size_f_S _ n); destruct (n <? 128) eqn:E.
  - cbn [app read_uv_f]. rewrite b2n_n2b by lia.
    replace ((i =? 8) && (128 <=? n)) with false by lia.
    replace (9 <=? i) with false by lia. cbn [orb].
    rewrite E. replace ((n =? 0) && (0 <? i)) with false by lia. reflexivity.
  - change (128 ^ N.of_nat 1) with 128 in Hn. lia.
  - cbn [app read_uv_f]. rewrite b2n_n2b by lia.
    replace ((i =? 8) && (128 <=? n)) with false by lia.
    replace (9 <=? i) with false by lia. cbn [orb].
    rewrite E. replace ((n =? 0) && (0 <? i)) with false by lia. reflexivity.
  - cbn [app read_uv_f].
    assert (Hm : n mod 128 < 128) by (apply N.mod_lt; lia).
    rewrite b2n_n2b by lia.
    replace ((i =? 8) && (128 <=? 128 + n mod 128)) with false by lia.
    replace (9 <=? i) with false by lia. cbn [orb].
    replace (128 + n mod 128 <? 128) with false by lia.
    assert (Hdiv : n / 128 < 128 ^ N.of_nat (S f)).
    { rewrite pow128_succ in Hn. apply N.div_lt_upper_bound; lia. }
    rewrite (IH rf' (n / 128) (i + 1) _ rest); try lia.
    f_equal; [|lia].
    replace (7 * (i + 1)) with (7 * i + 7) by lia. rewrite N.pow_add_r.
    change (2 ^ 7) with 128.
    pose proof (N.div_mod n 128).
    replace (128 + n mod 128 - 128) with (n mod 128) by lia. nia.
Qed.

(* the statement used everywhere: values below 2^63 (what go-varint accepts) round-trip *)
Theorem read_uv_put_uv n rest : n < two63 ->
  read_uv (put_uv n ++ rest) = VOk n rest (uv_size n).
Proof.
  intros Hn. unfold read_uv, put_uv, uv_size.
  assert (H9 : n < 128 ^ N.of_nat 9) by (unfold two63 in Hn; change (128 ^ N.of_nat 9) with 9223372036854775808; lia).
  rewrite (put_uv_f_fuel 8 10 n) by (try lia; exact H9).
  rewrite (uv_size_f_fuel 8 10 n) by (try lia; exact H9).
  rewrite (read_put_gen 8 10 n 0 0 rest); try lia; try exact H9.
  f_equal. cbn. lia.
Qed.

Lemma uv_size_le9 n : n < two63 -> uv_size n <= 9.
Proof.
  intros Hn. unfold uv_size.
  assert (H9 : n < 128 ^ N.of_nat 9) by (unfold two63 in Hn; change (128 ^ N.of_nat 9) with 9223372036854775808; lia).
  rewrite (uv_size_f_fuel 8 10 n) by (try lia; exact H9).
  pose proof (uv_size_f_bounds 9 n). lia.
Qed.

Lemma put_uv_nonempty n : put_uv n <> [].
Proof.
  intros H. pose proof (blen_put_uv n) as Hl. rewrite H, blen_nil in Hl. pose proof (uv_size_pos n). lia.
Qed.

(* single-byte case *)
Lemma put_uv_small n : n < 128 -> put_uv n = [n2b n].
Proof. intros H. unfold put_uv. cbn [put_uv_f]. replace (n <? 128) with true by lia. reflexivity. Qed.
Lemma uv_size_small n : n < 128 -> uv_size n = 1.
Proof. intros H. unfold uv_size. cbn [uv_size_f]. replace (n <? 128) with true by lia. reflexivity. Qed.
Lemma uv_size_1_iff n : uv_size n = 1 <-> n < 128.
Proof.
  split; [|apply uv_size_small]. unfold uv_size. rewrite uv_size_f_S.
  destruct (n <? 128) eqn:E; [lia|]. intros H.
  pose proof (uv_size_f_bounds 9 (n / 128) ltac:(lia)). lia.
Qed.
