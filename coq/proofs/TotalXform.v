(* C09 for the entry points modelled in theories/Transform.v: LoadIndex/GenerateIndex over a seekable
   source, ExtractV1File, ReplaceRootsInFile -- totality and buffer bounds for ALL byte strings. *)
From GoCar Require Import Bytes Varint Cid Header Frame V2Header Scan Index Store Alloc RunTotal.
From GoCar Require Transform.
From GoCarProofs Require Import BytesFacts VarintFacts Termination TotalAlloc TotalIndex TotalMain
     TransformFacts TransformWrap.

Section Xform.
  Variable hdrdec : bytes -> option (list bytes * N).

  (* ---- buffers ---- *)
  Lemma li_loop_allocs_bound o all doff dsize : forall fuel pos,
    Forall (fun a => a <= max_digest_alloc) (li_loop_allocs fuel o all pos doff dsize).
  Proof.
    induction fuel as [|f IH]; intros pos; cbn [li_loop_allocs]; [constructor|].
    destruct (negb (dsize =? 0) && (dsize <=? pos - doff)); [constructor|].
    destruct (read_uv (drop pos all)) as [slen r n| | | |]; try constructor.
    destruct (slen =? 0); [constructor|]. apply Forall_app. split; [apply cfr_allocs_bound|].
    destruct (cid_from_reader (drop (pos + n) all)) as [cn c p rest| |]; try constructor.
    destruct (_ && (Transform.x_maxcid o <? cn)); [constructor|]. cbv zeta.
    destruct (negb (Transform.seek_ok o (pos + n + slen))); [constructor|apply IH].
  Qed.

  Theorem load_index_allocs_bound o all :
    Forall (fun a => a <= Transform.x_maxh o \/ a <= max_digest_alloc) (load_index_allocs hdrdec o all).
  Proof.
    unfold load_index_allocs.
    assert (Hh : forall s, Forall (fun a => a <= Transform.x_maxh o \/ a <= max_digest_alloc)
                                  (ld_read_allocs false (Transform.x_maxh o) s)).
    { intros s. eapply Forall_weaken; [|apply ld_read_allocs_bound]. cbv beta. intros; lia. }
    assert (Hl : forall fuel pos doff dsize, Forall (fun a => a <= Transform.x_maxh o \/ a <= max_digest_alloc)
                                  (li_loop_allocs fuel o all pos doff dsize)).
    { intros. eapply Forall_weaken; [|apply li_loop_allocs_bound]. cbv beta. intros; lia. }
    apply Forall_app. split; [apply Hh|].
    destruct (read_header hdrdec (Transform.x_maxh o) all) as [[[[roots v] rest] used]|]; [|constructor].
    destruct (v =? 1); [apply Hl|]. destruct (v =? 2); [|constructor].
    destruct (read_v2hdr rest) as [[h rest2]|]; [|constructor].
    destruct (negb (Transform.seek_ok o (h_doff h))); [constructor|].
    apply Forall_app. split; [apply Hh|].
    destruct (read_header hdrdec (Transform.x_maxh o) (drop (h_doff h) all)) as [[[[roots1 v1] rest1] used1]|]; [|constructor].
    destruct (negb (v1 =? 1)); [constructor|apply Hl].
  Qed.

  Theorem extract_allocs_bound o a :
    Forall (fun n => n <= Transform.x_maxh o) (extract_allocs o a) /\ sumN (extract_allocs o a) <= Transform.x_maxh o.
  Proof. unfold extract_allocs. split; [apply ld_read_allocs_bound|apply ld_read_allocs_sum]. Qed.

  Theorem replace_allocs_bound o a :
    Forall (fun n => n <= Transform.x_maxh o) (replace_allocs hdrdec o a) /\
    sumN (replace_allocs hdrdec o a) <= 2 * Transform.x_maxh o.
  Proof.
    unfold replace_allocs. split.
    - apply Forall_app. split; [apply ld_read_allocs_bound|].
      destruct (read_header hdrdec (Transform.x_maxh o) a) as [[[[roots v] rest] used]|]; [|constructor].
      destruct (v =? 1); [constructor|]. destruct (v =? 2); [|constructor].
      destruct (read_v2hdr rest) as [[h rest2]|]; [|constructor].
      destruct (negb (Transform.seek_ok o (h_doff h))); [constructor|apply ld_read_allocs_bound].
    - rewrite sumN_app. pose proof (ld_read_allocs_sum false (Transform.x_maxh o) a).
      destruct (read_header hdrdec (Transform.x_maxh o) a) as [[[[roots v] rest] used]|]; [|cbn [sumN]; lia].
      destruct (v =? 1); [cbn [sumN]; lia|]. destruct (v =? 2); [|cbn [sumN]; lia].
      destruct (read_v2hdr rest) as [[h rest2]|]; [|cbn [sumN]; lia].
      destruct (negb (Transform.seek_ok o (h_doff h))); [cbn [sumN]; lia|].
      pose proof (ld_read_allocs_sum false (Transform.x_maxh o) (drop (h_doff h) a)). lia.
  Qed.

  (* ---- totality ---- *)
  Lemma li_loop_not_panic o all doff dsize : forall fuel pos acc e,
    Transform.li_loop fuel o all pos doff dsize acc = Err e -> e <> EPanic.
  Proof.
    induction fuel as [|f IH]; intros pos acc e H; cbn [Transform.li_loop] in H; [inversion H; discriminate|].
    destruct (negb (dsize =? 0) && (dsize <=? pos - doff)); [discriminate|].
    destruct (read_uv (drop pos all)) as [slen r n| | | |]; try (inversion H; discriminate).
    destruct (slen =? 0); [destruct (Transform.x_zeof o); inversion H; discriminate|].
    destruct (cid_from_reader (drop (pos + n) all)) as [cn c p rest| |]; try (inversion H; discriminate).
    cbv zeta in H.
    destruct (_ && (Transform.x_maxcid o <? cn)); [inversion H; discriminate|].
    destruct (negb (Transform.seek_ok o (pos + n + slen))); [inversion H; discriminate|].
    eapply IH; eassumption.
  Qed.

  Lemma load_index_err_total o all e : Transform.load_index hdrdec o all = Err e -> err_total e.
  Proof.
    intros H. split; [intros ->; exact (load_index_fuel_enough hdrdec o all H)|].
    unfold Transform.load_index in H.
    destruct (read_header hdrdec (Transform.x_maxh o) all) as [[[[roots v] rest] used]|e'] eqn:E;
      [|destruct e'; inversion H; discriminate].
    destruct (v =? 1); [eapply li_loop_not_panic; eassumption|].
    destruct (v =? 2); [|inversion H; discriminate].
    destruct (read_v2hdr rest) as [[h rest2]|e'] eqn:E2;
      [|inversion H; subst; apply (read_v2hdr_err_total _ _ E2)].
    destruct (negb (Transform.seek_ok o (h_doff h))); [inversion H; discriminate|].
    destruct (read_header hdrdec (Transform.x_maxh o) (drop (h_doff h) all)) as [[[[roots1 v1] rest1] used1]|e'] eqn:E3;
      [|inversion H; subst; apply (read_header_err_total hdrdec _ _ _ E3)].
    destruct (negb (v1 =? 1)); [inversion H; discriminate|]. eapply li_loop_not_panic; eassumption.
  Qed.

  Theorem tot_loadindex_total o all : Transform.x_maxh o <= go_max_alloc ->
    tot_loadindex hdrdec o all = TOk \/ exists e, tot_loadindex hdrdec o all = TErr e /\ err_total e.
  Proof.
    intros Hh. unfold tot_loadindex. rewrite allocs_panic_false.
    2:{ eapply Forall_weaken; [|apply load_index_allocs_bound]. cbv beta.
        unfold max_digest_alloc, go_max_alloc in *. intros n [H|H]; lia. }
    destruct (Transform.load_index hdrdec o all) as [x|e] eqn:E; [left; reflexivity|].
    right. exists e. split; [reflexivity|]. eapply load_index_err_total; eassumption.
  Qed.

  Lemma copy_chunk_pos : csz_pos copy_chunk.
  Proof. intros k. unfold copy_chunk. lia. Qed.

  Lemma extract_file_err_total o s e :
    fst (Transform.extract_file hdrdec copy_chunk o s) = Transform.XErr e -> err_total e.
  Proof.
    intros H. split; [intros ->; exact (extract_file_fuel_enough hdrdec copy_chunk o s copy_chunk_pos H)|].
    unfold Transform.extract_file in H.
    destruct (Transform.f_src s) as [a|]; [|inversion H; discriminate].
    destruct (read_header hdrdec (Transform.x_maxh o) a) as [[[[roots v] rest] used]|e'] eqn:E;
      [|inversion H; subst; apply (read_header_err_total hdrdec _ _ _ E)].
    destruct (v =? 1); [discriminate|]. destruct (negb (v =? 2)); [inversion H; discriminate|].
    destruct (read_v2hdr rest) as [[h rest2]|e'] eqn:E2;
      [|inversion H; subst; apply (read_v2hdr_err_total _ _ E2)].
    destruct (negb (Transform.seek_ok o (h_doff h))); [inversion H; discriminate|].
    cbv zeta in H.
    match type of H with context [Transform.copy_loop ?a ?b ?c ?d ?e0 ?f ?g ?h0] =>
      destruct (Transform.copy_loop a b c d e0 f g h0) as [a' d' remaining|] end; [|inversion H; discriminate].
    destruct (negb (remaining =? 0)); [inversion H; discriminate|].
    destruct (h_dsize h <? _); discriminate.
  Qed.

  Theorem tot_extract_total o in_place a : Transform.x_maxh o <= go_max_alloc ->
    tot_extract hdrdec o in_place a = TOk \/ exists e, tot_extract hdrdec o in_place a = TErr e /\ err_total e.
  Proof.
    intros Hh. unfold tot_extract. rewrite allocs_panic_false.
    2:{ eapply Forall_weaken; [|apply (proj1 (extract_allocs_bound o a))]. cbv beta. intros; lia. }
    match goal with |- context [fst ?x] => destruct (fst x) as [| |e] eqn:E end.
    - left. reflexivity.
    - right. exists EOther. split; [reflexivity|split; discriminate].
    - right. exists e. split; [reflexivity|]. eapply extract_file_err_total; eassumption.
  Qed.

  Lemma replace_roots_err_total o a roots e :
    fst (Transform.replace_roots hdrdec o (Some a) roots) = Err e -> err_total e.
  Proof.
    unfold Transform.replace_roots, Transform.replace_finish. intros H.
    destruct (read_header hdrdec (Transform.x_maxh o) a) as [[[[rs v] rest] used]|e'] eqn:E;
      [|inversion H; subst; apply (read_header_err_total hdrdec _ _ _ E)].
    destruct (v =? 1).
    { cbv zeta in H. destruct (negb _); inversion H; split; discriminate. }
    destruct (v =? 2); [|inversion H; split; discriminate].
    destruct (read_v2hdr rest) as [[h rest2]|e'] eqn:E2;
      [|inversion H; subst; apply (read_v2hdr_err_total _ _ E2)].
    destruct (negb (Transform.seek_ok o (h_doff h))); [inversion H; split; discriminate|].
    destruct (read_header hdrdec (Transform.x_maxh o) (drop (h_doff h) a)) as [[[[rs1 v1] rest1] used1]|e'] eqn:E3;
      [|inversion H; subst; apply (read_header_err_total hdrdec _ _ _ E3)].
    cbv zeta in H. destruct (negb _); inversion H; split; discriminate.
  Qed.

  Theorem tot_replace_total o roots a : Transform.x_maxh o <= go_max_alloc ->
    tot_replace hdrdec o roots a = TOk \/ exists e, tot_replace hdrdec o roots a = TErr e /\ err_total e.
  Proof.
    intros Hh. unfold tot_replace. rewrite allocs_panic_false.
    2:{ eapply Forall_weaken; [|apply (proj1 (replace_allocs_bound o a))]. cbv beta. intros; lia. }
    match goal with |- context [fst ?x] => destruct (fst x) as [u|e] eqn:E end.
    - left. reflexivity.
    - right. exists e. split; [reflexivity|]. eapply replace_roots_err_total; eassumption.
  Qed.
End Xform.
