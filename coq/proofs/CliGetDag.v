(* C19 round 4: car get-dag.  For every load sequence the traversal library may present (the oracle):
   --version 1 writes the CARv1 of the root and the first occurrence of every loaded CID;
   --version 2 writes the CARv2 of the root and the first occurrence of every loaded multihash
   (identity blocks dropped), with a car-multihash-index-sorted index; the two agree when no identity
   block is loaded and distinct CIDs have distinct multihashes; both outputs are accepted by
   inspect --full and verify. *)
From Coq Require Import Sorting.Sorted Permutation.
From GoCar Require Import Bytes Varint Cid Header Frame V2Header Scan Index Store Traversal CliCmds.
From GoCarProofs Require Import BytesFacts VarintFacts CidFacts HeaderFacts ScanFacts StoreInv TraversalSpec TraversalRoot
  CliBase CliWalk CliProducers CliFilter CliClosure CliTheorems CliGet CliIndexFacts CliFull.

Lemma first_occ_from_in seen : forall l x, In x (first_occ_from seen l) -> In x l.
Proof.
  intros l. revert seen. induction l as [|b t IH]; intros seen x H; [exact H|]. cbn [first_occ_from] in H.
  destruct (mem (fst b) seen); [right; eapply IH; exact H|].
  destruct H as [->|H]; [left; reflexivity|right; eapply IH; exact H].
Qed.
Lemma first_occ_forall (P : block -> Prop) l : Forall P l -> Forall P (first_occ l).
Proof.
  intros H. apply Forall_forall. intros x Hx. apply first_occ_from_in in Hx.
  exact (proj1 (Forall_forall _ _) H x Hx).
Qed.
Lemma dedup_forall (P : block -> Prop) l : Forall P l -> Forall P (dedup_blocks l).
Proof.
  intros H. apply Forall_forall. intros x Hx. apply dedup_from_in in Hx.
  exact (proj1 (Forall_forall _ _) H x Hx).
Qed.

(* ---- v1 and v2 keep the same blocks unless identity CIDs or multihash twins are loaded ------------ *)
Lemma mem_in c s : mem c s = true <-> In c s.
Proof.
  induction s as [|x t IH]; cbn [mem In]; [split; [discriminate|tauto]|].
  rewrite orb_true_iff, IH, bytes_eqb_eq. split; intros [H|H]; auto.
Qed.

(* no identity CID; a CID's multihash identifies it among the loaded CIDs *)
Definition mh_identifies (cs : list bytes) : Prop :=
  forall c, In c cs -> is_identity_cid c = false /\ same_mh c c = true /\
                       forall c', In c' cs -> same_mh c c' = true -> c = c'.

Lemma mh_identifies_sub cs cs' : (forall x, In x cs' -> In x cs) -> mh_identifies cs -> mh_identifies cs'.
Proof.
  intros Hsub H c Hc. destruct (H c (Hsub c Hc)) as (H1 & H2 & H3). split; [exact H1|]. split; [exact H2|].
  intros c' Hc'. apply H3. apply Hsub. exact Hc'.
Qed.

Lemma first_occ_from_dedup : forall l seen,
  mh_identifies (seen ++ map fst l) ->
  first_occ_from seen l = dedup_from seen l.
Proof.
  induction l as [|b t IH]; intros seen H; [reflexivity|]. cbn [first_occ_from dedup_from].
  assert (Hb : In (fst b) (seen ++ map fst (b :: t))) by (apply in_or_app; right; left; reflexivity).
  destruct (H _ Hb) as (Hid & Hself & Hinj). rewrite Hid. cbn [orb].
  assert (Heq : mem (fst b) seen = existsb (same_mh (fst b)) seen).
  { destruct (mem (fst b) seen) eqn:Em.
    - symmetry. apply existsb_exists. exists (fst b). split; [apply mem_in; exact Em|exact Hself].
    - symmetry. destruct (existsb (same_mh (fst b)) seen) eqn:Ee; [|reflexivity].
      apply existsb_exists in Ee. destruct Ee as (c' & Hc' & Hs).
      assert (fst b = c') by (apply Hinj; [apply in_or_app; left; exact Hc'|exact Hs]). subst c'.
      apply mem_in in Hc'. congruence. }
  rewrite <- Heq. destruct (mem (fst b) seen).
  - apply IH. apply (mh_identifies_sub (seen ++ map fst (b :: t))); [|exact H].
    intros c Hc. apply in_app_or in Hc. apply in_or_app. cbn [map In].
    destruct Hc as [Hc|Hc]; [left; exact Hc|right; right; exact Hc].
  - f_equal. apply IH. apply (mh_identifies_sub (seen ++ map fst (b :: t))); [|exact H].
    intros c Hc. apply in_app_or in Hc. apply in_or_app. cbn [map In] in *.
    destruct Hc as [[Hc|Hc]|Hc]; [right; left; exact Hc|left; exact Hc|right; right; exact Hc].
Qed.

Theorem first_occ_eq_dedup l : mh_identifies (map fst l) -> first_occ l = dedup_blocks l.
Proof. intros H. apply first_occ_from_dedup. exact H. Qed.

Set Default Proof Using "All".
Section GetDag.
  Variable hok : bytes -> bytes -> option bool.
  Variable hdrdec : bytes -> option (list bytes * N).
  Hypothesis pragma_ok : hdrdec pragma_body = Some ([], 2).

  (* blockstore.OpenReadOnly succeeds on the input *)
  Definition opens (file : bytes) (r : creader) : Prop :=
    new_reader hdrdec file = Ok r /\ exists i, open_readonly_index hdrdec r file = Ok i.

  Lemma opens_no_index hb roots bs file :
    hdr_ok hdrdec hb roots -> blocks_ok bs -> cids_indexable bs -> no_index_input hb bs file ->
    exists r, opens file r /\ reader_roots hdrdec r file = Ok roots.
  Proof.
    intros Hh Hb Hix Hni. destruct (no_index_reader hok hdrdec pragma_ok hb roots bs file Hh Hni) as (r & Hr & Hno).
    exists r. split; [split; [apply Hr|]|].
    - eexists. apply (open_generated hok hdrdec pragma_ok hb roots bs file r Hh Hb Hix Hr Hno).
    - apply (reader_roots_valid hok hdrdec pragma_ok hb roots bs file r Hh Hr).
  Qed.

  Definition dag_hb (rc : bytes) : bytes := enc_header (Some [rc]) 1.

  (* ---- --version 1 ------------------------------------------------------------------------------------ *)
  Theorem get_dag_v1 file r rc loads ok outf : opens file r ->
    get_dag hdrdec 1 (Some rc) loads ok file outf
    = (ok, Some (payload_hb (dag_hb rc) (first_occ loads))).
  Proof.
    intros (Hn & i & Hi). unfold get_dag. rewrite Hn, Hi. cbn [N.eqb Pos.eqb].
    rewrite sc_write_spec. reflexivity.
  Qed.

  (* ---- --version 2 ------------------------------------------------------------------------------------ *)
  Theorem get_dag_v2 file r rc loads outf : opens file r ->
    Forall (blk_ok default_maxs) loads -> cids_indexable loads ->
    51 + blen (payload_hb (dag_hb rc) (dedup_blocks loads)) < two64 ->
    get_dag hdrdec 2 (Some rc) loads true file outf
    = (true, Some (v2file 0 0 0 (51 + blen (payload_hb (dag_hb rc) (dedup_blocks loads)))
                          (payload_hb (dag_hb rc) (dedup_blocks loads))
                          (idx_write (filter_index (dag_hb rc) (dedup_blocks loads))))).
  Proof.
    intros (Hn & i & Hi) Hb Hix Hfit. unfold get_dag. rewrite Hn, Hi. cbn [N.eqb Pos.eqb].
    destruct (open_new_filter hok hdrdec pragma_ok 2 [rc] (or_intror eq_refl)) as (s0 & Hopen & X0).
    rewrite Hopen.
    destruct (put_each_spec hok hdrdec pragma_ok 2 _ (or_intror eq_refl) loads s0 [] [] X0 (fun _ => eq_refl) Hb Hix)
      as (s1 & Hpe & X1).
    rewrite Hpe. cbn [app] in X1.
    destruct (finalize_v2 hok hdrdec pragma_ok s1 _ _ X1 Hfit) as (s2 & Hfin & Hfile).
    rewrite Hfin, Hfile. reflexivity.
  Qed.

  (* a failed walk (missing block under --strict, missing root, ...): exit 1, the output is left
     unfinalized (pragma, zero header, the blocks put so far) *)
  Theorem get_dag_v2_failed_walk file r rc loads outf : opens file r ->
    Forall (blk_ok default_maxs) loads -> cids_indexable loads ->
    get_dag hdrdec 2 (Some rc) loads false file outf
    = (false, Some (pragma ++ zerosN 40 ++ payload_hb (dag_hb rc) (dedup_blocks loads))).
  Proof.
    intros (Hn & i & Hi) Hb Hix. unfold get_dag. rewrite Hn, Hi. cbn [N.eqb Pos.eqb].
    destruct (open_new_filter hok hdrdec pragma_ok 2 [rc] (or_intror eq_refl)) as (s0 & Hopen & X0).
    rewrite Hopen.
    destruct (put_each_spec hok hdrdec pragma_ok 2 _ (or_intror eq_refl) loads s0 [] [] X0 (fun _ => eq_refl) Hb Hix)
      as (s1 & Hpe & X1).
    rewrite Hpe. cbn [app] in X1. rewrite (x_file _ _ _ _ X1). cbn [xprefix N.eqb Pos.eqb].
    rewrite <- app_assoc. reflexivity.
  Qed.

  (* the root argument may be omitted when the archive has exactly one root *)
  Theorem get_dag_root_from_archive ver file r rc loads ok outf : opens file r ->
    reader_roots hdrdec r file = Ok [rc] ->
    get_dag hdrdec ver None loads ok file outf = get_dag hdrdec ver (Some rc) loads ok file outf.
  Proof.
    intros (Hn & i & Hi) Hr. unfold get_dag. rewrite Hn, Hi, Hr. reflexivity.
  Qed.

  Theorem get_dag_needs_one_root ver file r roots loads ok outf : opens file r ->
    reader_roots hdrdec r file = Ok roots -> length roots <> 1%nat ->
    get_dag hdrdec ver None loads ok file outf = (false, outf).
  Proof.
    intros (Hn & i & Hi) Hr Hl. unfold get_dag. rewrite Hn, Hi, Hr.
    destruct roots as [|a [|b t]]; try reflexivity. cbn in Hl. congruence.
  Qed.

  (* ---- closure ------------------------------------------------------------------------------------------ *)
  Section Closed.
    Variables (file : bytes) (r : creader) (rc : bytes) (loads : list block) (outf : option bytes).
    Hypothesis Hopen : opens file r.
    Hypothesis Hb : blocks_ok loads.
    Hypothesis Hg : hashes_ok hok loads.
    (* the CBOR oracle decodes the header the tool writes for the root *)
    Hypothesis Hh : hdr_ok hdrdec (dag_hb rc) [rc].

    Theorem get_dag_v1_closed :
      let out := payload_hb (dag_hb rc) (first_occ loads) in
      get_dag hdrdec 1 (Some rc) loads true file outf = (true, Some out) /\
      br_read_all hok hdrdec default_ropts out = Ok (1, [rc], mkscan (first_occ loads) EEof) /\
      (exists st, inspect_car hok hdrdec true out = Ok st /\ is_count st = N.of_nat (length (first_occ loads))) /\
      (roots_present [rc] (first_occ loads) = true -> verify_car hok hdrdec out = Ok tt).
    Proof.
      intros out.
      pose proof (first_occ_forall _ loads Hb) as Hb'. pose proof (first_occ_forall _ loads Hg) as Hg'.
      split; [apply (get_dag_v1 file r rc loads true outf Hopen)|].
      split; [apply (br_read_all_payload hok hdrdec pragma_ok _ _ _ Hh Hb' Hg')|]. split.
      - eexists. split; [apply (inspect_full_v1 hok hdrdec pragma_ok _ _ _ Hh Hb' Hg')|].
        unfold is_count. cbn [is_secs]. rewrite map_length. reflexivity.
      - intros Hrp. apply (verify_v1 hok hdrdec pragma_ok _ _ _ Hh Hb' Hg'); [discriminate|exact Hrp].
    Qed.

    Theorem get_dag_v2_closed :
      cids_indexable loads ->
      let kept := dedup_blocks loads in
      let P := payload_hb (dag_hb rc) kept in
      let out := v2file 0 0 0 (51 + blen P) P (idx_write (filter_index (dag_hb rc) kept)) in
      51 + blen P + blen (idx_write (filter_index (dag_hb rc) kept)) < two63 ->
      get_dag hdrdec 2 (Some rc) loads true file outf = (true, Some out) /\
      br_read_all hok hdrdec default_ropts out = Ok (2, [rc], mkscan kept EEof) /\
      (exists st, inspect_car hok hdrdec true out = Ok st /\ is_count st = N.of_nat (length kept)) /\
      (roots_present [rc] kept = true -> N.of_nat (length kept) < two31 -> verify_car hok hdrdec out = Ok tt).
    Proof.
      intros Hix kept P out H63.
      pose proof (dedup_forall _ loads Hb) as Hb'. pose proof (dedup_forall _ loads Hg) as Hg'.
      assert (Hfit : 51 + blen P < two64) by (unfold two63, two64 in *; lia).
      split; [apply (get_dag_v2 file r rc loads outf Hopen Hb Hix Hfit)|].
      split.
      { apply (br_read_all_v2file hok hdrdec pragma_ok (dag_hb rc) [rc] kept 0 0 0 _ _ Hh Hb' Hg');
          [unfold two64; lia|unfold two64; lia|fold P; lia|fold P; lia]. }
      split.
      - eexists. split; [apply (inspect_full_indexed0 hok hdrdec pragma_ok (dag_hb rc) [rc] kept _ Hh Hb' Hg' H63)|].
        unfold is_count. cbn [is_secs]. rewrite map_length. reflexivity.
      - intros Hrp Hcnt.
        apply (verify_indexed0 hok hdrdec pragma_ok (dag_hb rc) [rc] kept _ Hh Hb' Hg'); [discriminate|exact Hrp|exact H63|].
        rewrite filter_index_session.
        apply (own_index_answers (session_records _ _) _ _ (IdxMh []) (or_intror eq_refl) (session_describes _ _)
                 Hb' (payload_lt _ _ _ H63) (length_session _ _)).
        + rewrite <- filter_index_session. fold kept P. lia.
        + apply (small_count_codes _ _ _ (length_session _ _) Hcnt).
    Qed.
  End Closed.
End GetDag.
