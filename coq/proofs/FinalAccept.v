(* C05 acceptance: Reader.Inspect and lib.VerifyCar (as modelled in Wf.v) accept the file Finalize
   leaves, under explicit hypotheses on the hash and header-decoder oracles. *)
From Coq Require Import Sorting.Sorted Sorting.Permutation.
From GoCar Require Import Bytes Varint Cid Header Frame V2Header Scan Index Store Wf.
From GoCarProofs Require Import BytesFacts VarintFacts CidFacts HeaderFacts ScanFacts
     FinalBytes FinalOrder FinalIndex FinalStore FinalWf.
From GoCarProofs Require IndexRoundtrip.

(* ---- parts of a CARv2 layout -------------------------------------------------------------------- *)
Section Parts.
  Variables (o : wopts) (ro : option (list bytes)) (bs : list block) (fi : index).
  Hypothesis Hv2 : w_v1 o = false.
  Let P := payload_opt ro bs.
  Let h := final_hdr o (blen P).
  Let I := idx_write fi.
  Let file := layout o ro bs fi.

  Lemma layout_v2_eq :
    file = pragma ++ enc_v2hdr h ++ zerosN (w_dpad o) ++ P ++ zerosN (w_ipad o) ++ I.
  Proof. unfold file, layout. rewrite Hv2. reflexivity. Qed.

  Lemma layout_v2_len : blen file = 51 + w_dpad o + blen P + w_ipad o + blen I.
  Proof. rewrite layout_v2_eq, !blen_app, blen_pragma, blen_enc_v2hdr, !blen_zerosN. lia. Qed.

  Lemma layout_v2_drop11 : drop pragma_size file = enc_v2hdr h ++ zerosN (w_dpad o) ++ P ++ zerosN (w_ipad o) ++ I.
  Proof. rewrite layout_v2_eq. change pragma_size with (blen pragma). apply drop_app. Qed.

  Lemma layout_v2_drop51 : drop 51 file = zerosN (w_dpad o) ++ P ++ zerosN (w_ipad o) ++ I.
  Proof.
    rewrite layout_v2_eq, app_assoc.
    replace 51 with (blen (pragma ++ enc_v2hdr h)) by (rewrite blen_app, blen_pragma, blen_enc_v2hdr; reflexivity).
    apply drop_app.
  Qed.

  Lemma layout_v2_drop_doff : drop (51 + w_dpad o) file = P ++ zerosN (w_ipad o) ++ I.
  Proof.
    rewrite <- (drop_drop (w_dpad o) 51), layout_v2_drop51. rewrite <- (blen_zerosN (w_dpad o)) at 1. apply drop_app.
  Qed.

  Lemma layout_v2_payload : take (blen P) (drop (51 + w_dpad o) file) = P.
  Proof. rewrite layout_v2_drop_doff. apply take_app. Qed.

  Lemma layout_v2_drop_ioff : drop (51 + w_dpad o + blen P + w_ipad o) file = I.
  Proof.
    rewrite <- (drop_drop (w_ipad o) (51 + w_dpad o + blen P)).
    rewrite <- (drop_drop (blen P) (51 + w_dpad o)), layout_v2_drop_doff, drop_app.
    rewrite <- (blen_zerosN (w_ipad o)) at 1. apply drop_app.
  Qed.
End Parts.

(* Header.ReadFrom reads a header within the int64 ranges back *)
Lemma as_int64_small n : n < two63 -> as_int64 n = Z.of_N n.
Proof. intros H. unfold as_int64. replace (n <? two63) with true by lia. reflexivity. Qed.

Lemma read_v2hdr_enc h rest :
  h_hi h < two64 -> h_lo h < two64 -> 51 <= h_doff h < two63 -> 0 < h_dsize h < two63 -> h_ioff h < two63 ->
  read_v2hdr (enc_v2hdr h ++ rest) = Ok (h, rest).
Proof.
  intros H1 H2 H3 H4 H5. unfold read_v2hdr.
  assert (Hl : blen (enc_v2hdr h ++ rest) = 40 + blen rest) by (rewrite blen_app, blen_enc_v2hdr; reflexivity).
  rewrite Hl. replace (40 + blen rest <? 16) with false by lia. replace (40 + blen rest <? 40) with false by lia.
  destruct (v2hdr_fields h rest) as (E1 & E2 & E3 & E4 & E5); try (unfold two63, two64 in *; lia).
  rewrite E1, E2, E3, E4, E5.
  rewrite !as_int64_small by lia.
  replace (Z.of_N (h_doff h) <? 51)%Z with false by lia.
  replace (Z.of_N (h_dsize h) <=? 0)%Z with false by lia.
  replace (Z.of_N (h_ioff h) <? 0)%Z with false by lia.
  rewrite <- (blen_enc_v2hdr h), drop_app. destruct h; reflexivity.
Qed.

Lemma pragma_ld : pragma = ld pragma_body.
Proof. reflexivity. Qed.

Lemma blen_enc_header_ge ro : 16 <= blen (enc_header ro 1).
Proof.
  unfold enc_header. rewrite !blen_app. change (blen [xa2]) with 1. change (blen key_roots) with 6.
  change (blen key_version) with 8. change (blen (cbor_head 0 1)) with 1. lia.
Qed.

Section Accept.
  Variable hok : bytes -> bytes -> option bool.
  Variable hdrdec : bytes -> option (list bytes * N).

  (* the header decoder (refmt's CBOR decoder) reads the pragma and this header *)
  Definition hdrdec_good (ro : option (list bytes)) : Prop :=
    hdrdec pragma_body = Some ([], 2) /\ hdrdec (enc_header ro 1) = Some (roots_of ro, 1).

  Lemma read_header_ld maxh hb r v rest :
    hdrdec hb = Some (r, v) -> blen hb <= maxh -> blen hb < two63 ->
    read_header hdrdec maxh (ld hb ++ rest) = Ok (r, v, rest, ld_size (blen hb)).
  Proof.
    intros Hd Hmax H63. unfold read_header. rewrite ld_read_ld; try assumption; [|discriminate].
    rewrite Hd. reflexivity.
  Qed.

  (* a block the readers take under the section-size limit maxs *)
  Definition rd_ok (o : wopts) (maxs : N) (b : block) : Prop :=
    stored_ok o b /\ blen (fst b) + blen (snd b) <= maxs.

  Lemma rd_ok_block_ok o maxs b : rd_ok o maxs b -> block_ok maxs b.
  Proof.
    intros (((Hc & Hlen) & _) & Hm). split; [exact Hc|]. split; [exact Hm|]. unfold two56, two63 in *. lia.
  Qed.

  Lemma rd_ok_reader o maxs c d : wf_opts o -> rd_ok o maxs (c, d) ->
    exists p, cid_parse c = Some p /\ 2 <= blen c /\
              forall rest, cid_from_reader (c ++ rest) = CfrOk (blen c) c p rest.
  Proof.
    intros Hwo (((Hc & _) & Hmax & _) & _). cbn [fst snd] in *. destruct Hc as (p & Hp & ->).
    exists p. split; [apply cid_parse_enc; exact Hp|]. split; [apply cid_enc_nonempty; exact Hp|].
    intros rest. apply cid_from_reader_enc; [exact Hp|].
    pose proof (cid_digest_le p). unfold wf_opts, max_width, max_digest_alloc in *. lia.
  Qed.

  (* ---- Inspect ------------------------------------------------------------------------------------ *)
  Lemma inspect_loop_sections wo o validate bs :
    wf_opts wo -> Forall (rd_ok wo (o_maxs o)) bs -> (validate = true -> Forall (hash_good hok) bs) ->
    forall fuel, (length bs < fuel)%nat -> inspect_loop hok fuel o validate (enc_sections bs) = Ok tt.
  Proof.
    intros Hwo Hbs. induction Hbs as [|[c d] t Hb _ IH]; intros Hh fuel Hfuel;
      (destruct fuel as [|f]; [cbn in Hfuel; lia|]); cbn [inspect_loop].
    - reflexivity.
    - unfold enc_sections. cbn [map concat fst snd]. fold (enc_sections t).
      destruct (rd_ok_reader wo _ c d Hwo Hb) as (p & Hp & Hc2 & Hrd).
      pose proof (rd_ok_block_ok _ _ _ Hb) as (_ & Hmax & H63). cbn [fst snd] in *.
      unfold enc_section. rewrite <- !app_assoc. rewrite read_uv_put_uv by exact H63.
      replace (blen c + blen d =? 0) with false by lia. cbn [andb].
      replace (o_maxs o <? blen c + blen d) with false by lia.
      rewrite Hrd. replace (blen c + blen d <? blen c) with false by lia.
      replace (blen c + blen d - blen c) with (blen d) by lia. rewrite take_app, drop_app.
      replace (validate && (blen d <? blen d)) with false by (destruct validate; cbn [andb]; lia).
      assert (Hhash : (if validate then match hash_matches hok c p d with
                                        | Some true => Ok tt | Some false => Err EOther | None => Err EOracleMiss end
                       else Ok tt) = Ok tt).
      { destruct validate; [|reflexivity]. specialize (Hh eq_refl). inversion Hh as [|? ? Hg _]; subst.
        pose proof (Hg p Hp) as Hg'. cbn [fst snd] in Hg'. rewrite Hg'. reflexivity. }
      rewrite Hhash. apply IH; [|cbn [length] in Hfuel; lia].
      intros Hv. specialize (Hh Hv). inversion Hh; assumption.
  Qed.

  Definition content_ok (wo : wopts) (o : ropts) (validate : bool) (ro : option (list bytes)) (bs : list block) : Prop :=
    hdrdec_good ro /\ blen (enc_header ro 1) <= o_maxh o /\ blen (enc_header ro 1) < two63 /\
    Forall (rd_ok wo (o_maxs o)) bs /\ (validate = true -> Forall (hash_good hok) bs).

  Lemma inspect_payload_ok isv2 wo o validate ro bs :
    wf_opts wo -> content_ok wo o validate ro bs ->
    inspect_payload hok hdrdec isv2 o validate (payload_opt ro bs) = Ok tt.
  Proof.
    intros Hwo ((_ & Hd) & Hmax & H63 & Hbs & Hh). unfold inspect_payload, payload_opt.
    rewrite (read_header_ld _ _ _ _ _ Hd Hmax H63).
    change (1 =? 1) with true. cbn [negb]. rewrite andb_false_r.
    apply (inspect_loop_sections wo); try assumption.
    pose proof (enc_sections_length (fun _ _ => None) (fun _ => None) bs). lia.
  Qed.

  Definition file_fits (o : wopts) (ro : option (list bytes)) (bs : list block) (fi : index) : Prop :=
    blen (layout o ro bs fi) < two63.

  Lemma final_hdr_reads o ro bs fi rest :
    w_v1 o = false -> file_fits o ro bs fi ->
    read_v2hdr (enc_v2hdr (final_hdr o (blen (payload_opt ro bs))) ++ rest)
    = Ok (final_hdr o (blen (payload_opt ro bs)), rest).
  Proof.
    intros Hv Hfit. unfold file_fits in Hfit. rewrite (layout_v2_len o ro bs fi Hv) in Hfit.
    assert (Hp : 0 < blen (payload_opt ro bs)).
    { rewrite blen_payload_opt. unfold hdr_len, ld_size. pose proof (blen_enc_header_ge ro). lia. }
    apply read_v2hdr_enc; unfold final_hdr, fully_indexed_bit; cbn [h_hi h_lo h_doff h_dsize h_ioff];
      unfold two63, two64 in *; try lia. destruct (w_storeid o); lia.
  Qed.

  Theorem inspect_check_layout wo ro bs fi o validate :
    wf_opts wo -> content_ok wo o validate ro bs -> file_fits wo ro bs fi ->
    inspect_check hok hdrdec o validate (layout wo ro bs fi) = Ok tt.
  Proof.
    intros Hwo Hc Hfit. pose proof Hc as ((Hpr & Hd) & Hmax & H63 & Hbs & Hh).
    unfold inspect_check. destruct (w_v1 wo) eqn:Hv.
    - unfold layout. rewrite Hv. unfold payload_opt at 1.
      rewrite (read_header_ld _ _ _ _ _ Hd Hmax H63). cbn [N.eqb Pos.eqb].
      fold (payload_opt ro bs). apply (inspect_payload_ok false wo); assumption.
    - rewrite (layout_v2_eq wo ro bs fi Hv) at 1. rewrite pragma_ld.
      rewrite (read_header_ld _ pragma_body [] 2 _ Hpr); [|pose proof (blen_enc_header_ge ro); change (blen pragma_body) with 10; lia|change (blen pragma_body) with 10; unfold two63; lia].
      change (2 =? 1) with false. change (2 =? 2) with true. cbv iota.
      replace (negb (ld_size (blen pragma_body) =? pragma_size)) with false by reflexivity. cbv iota.
      rewrite (layout_v2_drop11 wo ro bs fi Hv). rewrite (final_hdr_reads wo ro bs fi _ Hv Hfit).
      unfold final_hdr at 1 2. cbn [h_dsize h_doff].
      rewrite (layout_v2_payload wo ro bs fi Hv). rewrite (inspect_payload_ok true wo o validate ro bs Hwo Hc).
      unfold has_index, final_hdr. cbn [h_ioff].
      replace (51 + w_dpad wo + blen (payload_opt ro bs) + w_ipad wo =? 0) with false by lia. cbn [negb].
      rewrite (layout_v2_drop_ioff wo ro bs fi Hv). unfold idx_write.
      rewrite read_uv_put_uv; [reflexivity|].
      destruct fi; cbn [idx_codec]; unfold codec_sorted, codec_mh_sorted, two63; lia.
  Qed.

  (* ---- the block reader on a finished file -------------------------------------------------------------------- *)
  Lemma br_read_all_layout wo ro bs fi o :
    content_ok wo o true ro bs -> file_fits wo ro bs fi ->
    br_read_all hok hdrdec o (layout wo ro bs fi)
    = Ok ((if w_v1 wo then 1 else 2), roots_of ro, mkscan bs EEof).
  Proof.
    intros ((Hpr & Hd) & Hmax & H63 & Hbs & Hh) Hfit. unfold br_read_all, br_open.
    assert (Hscan : scan_all hok o (enc_sections bs) = mkscan bs EEof).
    { apply (scan_all_sections hok hdrdec).
      - eapply Forall_impl; [|exact Hbs]. intros b. apply rd_ok_block_ok.
      - intros _. apply Hh. reflexivity. }
    destruct (w_v1 wo) eqn:Hv.
    - unfold layout. rewrite Hv. unfold payload_opt.
      rewrite (read_header_ld _ _ _ _ _ Hd Hmax H63). cbn [N.eqb Pos.eqb]. rewrite Hscan. reflexivity.
    - rewrite (layout_v2_eq wo ro bs fi Hv). rewrite pragma_ld.
      rewrite (read_header_ld _ pragma_body [] 2 _ Hpr); [|pose proof (blen_enc_header_ge ro); change (blen pragma_body) with 10; lia|change (blen pragma_body) with 10; unfold two63; lia].
      change (2 =? 1) with false. change (2 =? 2) with true. cbv iota.
      rewrite (final_hdr_reads wo ro bs fi _ Hv Hfit).
      unfold final_hdr at 1 2 3. cbn [h_dsize h_doff].
      replace (51 + w_dpad wo - 51) with (w_dpad wo) by lia.
      rewrite <- (blen_zerosN (w_dpad wo)) at 1. rewrite drop_app, take_app.
      unfold payload_opt at 1. rewrite (read_header_ld _ _ _ _ _ Hd Hmax H63). cbn [N.eqb Pos.eqb].
      rewrite Hscan. reflexivity.
  Qed.

  (* ---- VerifyCar ------------------------------------------------------------------------------------------------- *)
  Lemma secs_of_parse bs : forall pos, Forall (fun s => cid_parse (s_cid s) = Some (s_p s)) (secs_of pos bs).
  Proof.
    induction bs as [|[c d] t IH]; intros pos; cbn [secs_of]; [constructor|].
    destruct (cid_parse c) eqn:E; [constructor; [exact E|apply IH]|apply IH].
  Qed.

  Lemma has_block_incl (bs : list block) roots : incl roots (map fst bs) -> forallb (has_block bs) roots = true.
  Proof.
    intros Hi. apply forallb_forall. intros r Hr. apply Hi in Hr. apply in_map_iff in Hr.
    destruct Hr as (b & <- & Hb). unfold has_block. apply existsb_exists. exists b. split; [exact Hb|apply bytes_eqb_refl].
  Qed.

  Theorem verify_check_layout wo ro bs fi :
    wf_opts wo -> content_ok wo default_ropts true ro bs -> file_fits wo ro bs fi ->
    (w_v1 wo = false -> final_index wo ro bs = Some fi /\
                        (w_codec wo = codec_mh_sorted -> N.of_nat (n_codes (idx_of ro bs)) < two31)) ->
    roots_of ro <> [] -> incl (roots_of ro) (map fst bs) ->
    verify_check hok hdrdec (layout wo ro bs fi) = Ok tt.
  Proof.
    intros Hwo Hc Hfit Hidx Hne Hincl. pose proof Hc as ((Hpr & Hd) & Hmax & H63 & Hbs & Hh).
    unfold verify_check. rewrite (br_read_all_layout wo ro bs fi default_ropts Hc Hfit).
    cbn [s_end s_blocks err_eqb negb]. pose proof (has_block_incl bs _ Hincl) as Hhb.
    destruct (w_v1 wo) eqn:Hv.
    - unfold layout. rewrite Hv. unfold payload_opt.
      rewrite (read_header_ld _ _ _ _ _ Hd Hmax H63). cbn [N.eqb Pos.eqb orb negb].
      rewrite (read_header_ld _ _ _ _ _ Hd Hmax H63). cbv beta iota. rewrite Hhb.
      destruct (roots_of ro) as [|r rs] eqn:Er; [congruence|]. reflexivity.
    - destruct (Hidx eq_refl) as [Hfi Hcodes].
      rewrite (layout_v2_eq wo ro bs fi Hv) at 1. rewrite pragma_ld.
      rewrite (read_header_ld _ pragma_body [] 2 _ Hpr); [|pose proof (blen_enc_header_ge ro); change (blen pragma_body) with 10; cbn [o_maxh default_ropts] in *; lia|change (blen pragma_body) with 10; unfold two63; lia].
      change (2 =? 1) with false. change (2 =? 2) with true. cbn [orb negb].
      rewrite (layout_v2_drop11 wo ro bs fi Hv). rewrite (final_hdr_reads wo ro bs fi _ Hv Hfit).
      unfold has_index. cbn [final_hdr h_dsize h_doff h_ioff].
      rewrite (layout_v2_payload wo ro bs fi Hv).
      assert (Hrh : read_header hdrdec (o_maxh default_ropts) (payload_opt ro bs)
                    = Ok (roots_of ro, 1, enc_sections bs, ld_size (blen (enc_header ro 1)))).
      { unfold payload_opt. apply (read_header_ld _ _ _ _ _ Hd Hmax H63). }
      rewrite Hrh. cbv beta iota. rewrite Hhb.
      rewrite (layout_v2_drop_ioff wo ro bs fi Hv).
      set (P := payload_opt ro bs) in *.
      destruct (roots_of ro) as [|r rs] eqn:Er; [congruence|].
      pose proof Hfit as Hfit'. unfold file_fits in Hfit'. rewrite (layout_v2_len wo ro bs fi Hv) in Hfit'. fold P in Hfit'.
      rewrite (wrap64_small (51 + blen P)) by (unfold two63, two64 in *; lia).
      replace (51 + w_dpad wo + blen P + w_ipad wo =? 0) with false by lia. rewrite andb_false_r.
      replace (51 + w_dpad wo <? 51) with false by lia.
      replace (51 + w_dpad wo + blen P + w_ipad wo <? 51 + blen P) with false by lia. cbn [negb andb].
      assert (Hso : Forall (stored_ok wo) bs) by (eapply Forall_impl; [|exact Hbs]; intros b [H _]; exact H).
      assert (HP63 : blen P < two63) by lia.
      assert (HI63 : blen (idx_write fi) < two63) by lia.
      destruct (final_index_good wo ro bs fi Hso Hwo HP63 Hfi HI63 Hcodes) as [Hgood _].
      rewrite <- (app_nil_r (idx_write fi)). rewrite (IndexRoundtrip.idx_read_write fi [] Hgood).
      assert (Hfinds : forallb (idx_finds fi) bs = true).
      { apply forallb_forall. intros b Hb.
        pose proof (stored_ok_put wo bs Hso) as Hput.
        rewrite <- (secs_of_blocks bs Hput (hdr_len ro)) in Hb. apply in_map_iff in Hb.
        destruct Hb as (s & <- & Hs). unfold idx_finds, sec_block. cbn [fst].
        pose proof (secs_of_parse bs (hdr_len ro)) as Hpar. rewrite Forall_forall in Hpar. rewrite (Hpar s Hs).
        pose proof (getall_finds wo ro bs fi Hso Hwo HP63 Hfi HI63 Hcodes s Hs) as Hin.
        destruct (idx_getall fi (c_mhcode (s_p s)) (c_digest (s_p s))); [destruct Hin|apply orb_true_r]. }
      rewrite Hfinds. reflexivity.
  Qed.
End Accept.
