(* C02 (b),(c): truncation anywhere but on a section boundary, and a section whose bytes do not
   hash to its CID, end the scan with an error distinct from a clean end-of-archive, after
   exactly the blocks that precede the damage. *)
From GoCar Require Import Bytes Varint Cid Header Frame V2Header Scan.
From GoCarProofs Require Import BytesFacts VarintFacts CidFacts HeaderFacts ScanFacts.

(* ---- a truncated varint is io.ErrUnexpectedEOF ----------------------------------------------- *)
Lemma take_cons_pos j (b : byte) t : 0 < j -> take j (b :: t) = b :: take (N.pred j) t.
Proof. intros H. cbn [take]. replace (j =? 0) with false by lia. reflexivity. Qed.

Lemma read_put_trunc : forall fuel rf n i x j,
  (S fuel <= rf)%nat -> n < 128 ^ N.of_nat (S fuel) -> N.of_nat (S fuel) + i <= 9 ->
  j < uv_size_f (S fuel) n -> (0 < i \/ 0 < j) ->
  read_uv_f rf i x (take j (put_uv_f (S fuel) n)) = VUnexpectedEof.
Proof.
  induction fuel as [|f IH]; intros rf n i x j Hrf Hn Hi Hj Hpos;
    (destruct rf as [|rf']; [lia|]); rewrite (uv_size_f_S _ n) in Hj; cbn [put_uv_f];
    destruct (n <? 128) eqn:E.
  - assert (j = 0) by lia. subst j. rewrite take_0. cbn [read_uv_f].
    replace (i =? 0) with false by lia. reflexivity.
  - change (128 ^ N.of_nat 1) with 128 in Hn. lia.
  - assert (j = 0) by lia. subst j. rewrite take_0. cbn [read_uv_f].
    replace (i =? 0) with false by lia. reflexivity.
  - destruct (N.eq_dec j 0) as [->|Hj0].
    + rewrite take_0. cbn [read_uv_f]. replace (i =? 0) with false by lia. reflexivity.
    + rewrite take_cons_pos by lia. cbn [read_uv_f].
      assert (Hm : n mod 128 < 128) by (apply N.mod_lt; lia).
      rewrite b2n_n2b by lia.
      replace ((i =? 8) && (128 <=? 128 + n mod 128)) with false by lia.
      replace (9 <=? i) with false by lia. cbn [orb].
      replace (128 + n mod 128 <? 128) with false by lia.
      apply IH; try lia.
      rewrite pow128_succ in Hn. apply N.div_lt_upper_bound; lia.
Qed.

Lemma read_uv_put_uv_trunc n j : n < two63 -> 0 < j -> j < uv_size n ->
  read_uv (take j (put_uv n)) = VUnexpectedEof.
Proof.
  intros Hn Hj0 Hj. unfold read_uv, put_uv, uv_size in *.
  assert (H9 : n < 128 ^ N.of_nat 9) by (unfold two63 in Hn; change (128 ^ N.of_nat 9) with 9223372036854775808; lia).
  rewrite (put_uv_f_fuel 8 10 n) by (try lia; exact H9).
  rewrite (uv_size_f_fuel 8 10 n) in Hj by (try lia; exact H9).
  apply (read_put_trunc 8 10 n 0 0 j); try lia; exact H9.
Qed.

(* ---- a truncated frame is an error, never a clean EOF (except the empty prefix) ---------------- *)
Lemma ld_read_trunc zeof maxb payload m :
  blen payload < two63 -> 0 < m -> m < blen (ld payload) -> blen payload <> 0 ->
  exists e, e <> EEof /\ ld_read zeof maxb (take m (ld payload)) = Err e.
Proof.
  intros H63 Hm0 Hm Hne. rewrite blen_ld in Hm. unfold ld_size in Hm.
  unfold ld. destruct (N.ltb_spec m (uv_size (blen payload))) as [Hlt|Hge].
  - rewrite take_app_le by (rewrite blen_put_uv; lia).
    exists EUnexpectedEof. split; [discriminate|].
    unfold ld_read, ld_read_size. rewrite read_uv_put_uv_trunc by assumption. reflexivity.
  - rewrite take_app_ge by (rewrite blen_put_uv; lia). rewrite blen_put_uv.
    unfold ld_read, ld_read_size. rewrite read_uv_put_uv by exact H63.
    replace (blen payload =? 0) with false by lia. cbn [andb].
    destruct (maxb <? blen payload) eqn:Emax.
    + exists ESectionTooLarge. split; [discriminate|reflexivity].
    + exists EUnexpectedEof. split; [discriminate|].
      replace (blen (take (m - uv_size (blen payload)) payload) <? blen payload) with true
        by (rewrite blen_take; lia).
      reflexivity.
Qed.

Lemma block_ok_len maxs c d : block_ok maxs (c, d) -> 2 <= blen c + blen d /\ blen c + blen d < two63.
Proof.
  intros (Hc & _ & H63). cbn [fst snd] in *. split; [|exact H63].
  destruct Hc as (q & Hq & ->). pose proof (cid_enc_nonempty q Hq). lia.
Qed.

Section Trunc.
  Variable hok : bytes -> bytes -> option bool.
  Variable hdrdec : bytes -> option (list bytes * N).

  Lemma next_block_trunc o c d m :
    block_ok (o_maxs o) (c, d) -> 0 < m -> m < blen (enc_section c d) ->
    exists e, e <> EEof /\ next_block hok o (take m (enc_section c d)) = Err e.
  Proof.
    intros Hb Hm0 Hm. destruct (block_ok_len _ _ _ Hb) as [H2 H63].
    rewrite enc_section_ld in *.
    destruct (ld_read_trunc (o_zeof o) (o_maxs o) (c ++ d) m) as (e & Hne & He);
      try assumption; try (rewrite blen_app; lia).
    exists e. split; [exact Hne|]. unfold next_block, read_node. rewrite He. reflexivity.
  Qed.

  (* offsets at which a cut leaves only whole sections *)
  Definition boundary (bs : list block) (m : N) : Prop :=
    exists j, (j <= length bs)%nat /\ m = blen (enc_sections (firstn j bs)).

  Lemma enc_sections_cons b bs : enc_sections (b :: bs) = enc_section (fst b) (snd b) ++ enc_sections bs.
  Proof. reflexivity. Qed.

  Lemma enc_section_pos c d : 1 <= blen (enc_section c d).
  Proof.
    unfold enc_section. rewrite blen_app, blen_put_uv. pose proof (uv_size_pos (blen c + blen d)). lia.
  Qed.

  Lemma scan_blocks_trunc o : forall bs,
    Forall (block_ok (o_maxs o)) bs -> (o_trusted o = false -> Forall (hash_good hok) bs) ->
    forall m fuel acc, m < blen (enc_sections bs) -> (N.to_nat m < fuel)%nat -> ~ boundary bs m ->
    exists j e, (j < length bs)%nat /\ e <> EEof /\
      scan_blocks hok fuel o (take m (enc_sections bs)) acc = mkscan (rev acc ++ firstn j bs) e.
  Proof.
    induction bs as [|[c d] bs IH]; intros Hok Hh m fuel acc Hm Hf Hnb.
    - cbn in Hm. lia.
    - inversion Hok as [|? ? Hb Hok']; subst.
      rewrite enc_sections_cons in *. cbn [fst snd] in *.
      destruct fuel as [|fuel]; [lia|]. cbn [scan_blocks].
      destruct (N.ltb_spec m (blen (enc_section c d))) as [Hlt|Hge].
      + assert (0 < m).
        { destruct (N.eq_dec m 0) as [->|]; [|lia]. exfalso. apply Hnb. exists 0%nat. split; [cbn; lia|reflexivity]. }
        rewrite take_app_le by lia.
        destruct (next_block_trunc o c d m Hb) as (e & Hne & He); try assumption.
        rewrite He. exists 0%nat, e. split; [cbn; lia|]. split; [exact Hne|].
        cbn [firstn]. rewrite app_nil_r. reflexivity.
      + rewrite take_app_ge by lia.
        rewrite (next_block_section hok o c d _ Hb) by (intros Ht; specialize (Hh Ht); inversion Hh; assumption).
        pose proof (enc_section_pos c d) as Hpos.
        assert (Hh' : o_trusted o = false -> Forall (hash_good hok) bs)
          by (intros Ht; specialize (Hh Ht); inversion Hh; assumption).
        destruct (IH Hok' Hh' (m - blen (enc_section c d)) fuel ((c, d) :: acc)) as (j & e & Hj & Hne & Hs).
        * rewrite blen_app in Hm. lia.
        * lia.
        * intros (j & Hj & Hmj). apply Hnb. exists (S j). split; [cbn; lia|].
          cbn [firstn]. rewrite enc_sections_cons. cbn [fst snd]. rewrite blen_app. lia.
        * exists (S j), e. split; [cbn; lia|]. split; [exact Hne|].
          cbn beta iota. etransitivity; [exact Hs|]. cbn [rev firstn]. rewrite <- app_assoc. reflexivity.
  Qed.

  (* whole sections in front of anything are returned and the scan continues behind them *)
  Lemma scan_blocks_prefix o : forall pre,
    Forall (block_ok (o_maxs o)) pre -> (o_trusted o = false -> Forall (hash_good hok) pre) ->
    forall fuel tail acc,
    scan_blocks hok (length pre + fuel) o (enc_sections pre ++ tail) acc
    = scan_blocks hok fuel o tail (rev pre ++ acc).
  Proof.
    induction pre as [|[c d] pre IH]; intros Hok Hh fuel tail acc; [reflexivity|].
    inversion Hok as [|? ? Hb Hok']; subst.
    rewrite enc_sections_cons. cbn [fst snd length Nat.add scan_blocks]. rewrite <- app_assoc.
    rewrite (next_block_section hok o c d _ Hb) by (intros Ht; specialize (Hh Ht); inversion Hh; assumption).
    rewrite IH; [|exact Hok'|intros Ht; specialize (Hh Ht); inversion Hh; assumption].
    cbn [rev]. rewrite <- app_assoc. reflexivity.
  Qed.

  (* (c) a section whose bytes do not hash to its CID stops a verifying scan with an error,
     right after the sections in front of it *)
  Definition hash_bad (b : block) : Prop :=
    forall p, cid_parse (fst b) = Some p -> hash_matches hok (fst b) p (snd b) = Some false.

  Theorem scan_all_corrupt o pre c d rest :
    o_trusted o = false ->
    Forall (block_ok (o_maxs o)) pre -> Forall (hash_good hok) pre ->
    block_ok (o_maxs o) (c, d) -> hash_bad (c, d) ->
    scan_all hok o (enc_sections pre ++ enc_section c d ++ rest) = mkscan pre EOther.
  Proof.
    intros Ht Hok Hh Hb Hbad. unfold scan_all.
    pose proof (enc_sections_length hok hdrdec pre) as Hl. pose proof (enc_section_pos c d) as Hp.
    assert (Hlen : (length pre + 1 <= length (enc_sections pre ++ enc_section c d ++ rest))%nat).
    { rewrite !app_length. unfold blen in Hp. lia. }
    remember (length (enc_sections pre ++ enc_section c d ++ rest)) as L.
    replace (S L) with (length pre + S (L - length pre))%nat by lia.
    rewrite scan_blocks_prefix by (try assumption; intros _; assumption).
    cbn [scan_blocks].
    destruct (read_node_section (o_zeof o) (o_maxs o) c d rest Hb) as (p & Hp' & Hr).
    unfold next_block. rewrite Hr, Ht. unfold verify.
    pose proof (Hbad p Hp') as X. cbn [fst snd] in X. rewrite X.
    rewrite app_nil_r, rev_involutive. reflexivity.
  Qed.

  (* header part of a truncated archive: the constructor fails *)
  Lemma read_header_trunc maxh hb m :
    blen hb < two63 -> blen hb <> 0 -> m < blen (ld hb) ->
    exists e, read_header hdrdec maxh (take m (ld hb)) = Err e.
  Proof.
    intros H63 Hne Hm. destruct (N.eq_dec m 0) as [->|Hm0].
    - rewrite take_0. exists EEof. reflexivity.
    - destruct (ld_read_trunc false maxh hb m) as (e & _ & He); try assumption; try lia.
      unfold read_header. rewrite He. destruct e; eexists; reflexivity.
  Qed.

  Lemma enc_header_nonempty roots v : blen (enc_header roots v) <> 0.
  Proof. unfold enc_header. cbn [app]. rewrite blen_cons. lia. Qed.

  (* (b) for the v2 BlockReader on a bare CARv1: any cut that is not a section boundary is either
     a failed open (cut inside the header) or the complete blocks in front of the cut followed by
     an error that is not a clean EOF *)
  Theorem br_read_all_trunc_v1 o roots bs k :
    archive_ok hok hdrdec o roots bs ->
    k < blen (enc_payload roots bs) ->
    ~ (exists j, (j <= length bs)%nat /\
                 k = blen (ld (enc_header (Some roots) 1)) + blen (enc_sections (firstn j bs))) ->
    (k < blen (ld (enc_header (Some roots) 1)) /\
       exists e, br_read_all hok hdrdec o (take k (enc_payload roots bs)) = Err e)
    \/ (blen (ld (enc_header (Some roots) 1)) <= k /\ exists j e, (j < length bs)%nat /\ e <> EEof /\
          br_read_all hok hdrdec o (take k (enc_payload roots bs))
          = Ok (1, roots, mkscan (firstn j bs) e)).
  Proof.
    intros (Hg & Hmax & H63 & Hok & Hh) Hk Hnb. unfold enc_payload in *.
    remember (enc_header (Some roots) 1) as hb eqn:Ehb.
    destruct (N.ltb_spec k (blen (ld hb))) as [Hlt|Hge].
    - left. split; [exact Hlt|]. rewrite take_app_le by lia.
      destruct (read_header_trunc (o_maxh o) hb k) as (e & He);
        try assumption; try (subst hb; apply enc_header_nonempty).
      exists e. unfold br_read_all, br_open. rewrite He. reflexivity.
    - right. split; [exact Hge|]. rewrite take_app_ge by lia.
      unfold br_read_all, br_open. subst hb.
      rewrite (read_header_payload hdrdec (o_maxh o) roots _ Hg Hmax H63). cbn [N.eqb Pos.eqb].
      unfold scan_all.
      remember (ld (enc_header (Some roots) 1)) as hdr.
      destruct (scan_blocks_trunc o bs Hok Hh (k - blen hdr)
                  (S (length (take (k - blen hdr) (enc_sections bs)))) []) as (j & e & Hj & Hne & Hs).
      + rewrite blen_app in Hk. lia.
      + pose proof (blen_take (k - blen hdr) (enc_sections bs)) as Hbt. unfold blen in Hbt at 1.
        rewrite blen_app in Hk. lia.
      + intros (j & Hj & Hmj). apply Hnb. exists j. split; [exact Hj|]. lia.
      + exists j, e. split; [exact Hj|]. split; [exact Hne|].
        cbn [rev app] in Hs. rewrite Hs. reflexivity.
  Qed.

  (* the same for a CARv1 whose sections are followed by anything: corruption inside block i *)
  Theorem br_read_all_corrupt_v1 o roots pre c d rest :
    o_trusted o = false ->
    hdr_good hdrdec roots -> blen (enc_header (Some roots) 1) <= o_maxh o ->
    blen (enc_header (Some roots) 1) < two63 ->
    Forall (block_ok (o_maxs o)) pre -> Forall (hash_good hok) pre ->
    block_ok (o_maxs o) (c, d) -> hash_bad (c, d) ->
    br_read_all hok hdrdec o
      (ld (enc_header (Some roots) 1) ++ enc_sections pre ++ enc_section c d ++ rest)
    = Ok (1, roots, mkscan pre EOther).
  Proof.
    intros Ht Hg Hmax H63 Hok Hh Hb Hbad. unfold br_read_all, br_open.
    rewrite (read_header_payload hdrdec (o_maxh o) roots _ Hg Hmax H63). cbn [N.eqb Pos.eqb].
    rewrite scan_all_corrupt by assumption. reflexivity.
  Qed.
End Trunc.

(* ---- non-vacuity: a concrete archive (identity CIDs: the hash is defined, no oracle) ---------- *)
Definition ex_cid1 : bytes := cid_enc (mkcid 1 85 0 [x61; x62]).
Definition ex_cid2 : bytes := cid_enc (mkcid 1 113 0 [x63]).
Definition ex_blocks : list block := [(ex_cid1, [x61; x62]); (ex_cid2, [x63])].
Definition ex_hok : bytes -> bytes -> option bool := fun _ _ => None.

Lemma ex_cid_ok d codec : blen d <= max_int32 -> codec < two63 -> cid_bytes_ok (cid_enc (mkcid 1 codec 0 d)).
Proof. intros Hd Hc. eexists. split; [|reflexivity]. right. cbn. unfold two63 in *. repeat split; lia. Qed.

Example ex_archive_ok : archive_ok ex_hok dec_header_canon default_ropts [ex_cid1] ex_blocks.
Proof.
  assert (C1 : cid_bytes_ok ex_cid1) by (apply ex_cid_ok; vm_compute; [discriminate|reflexivity]).
  assert (C2 : cid_bytes_ok ex_cid2) by (apply ex_cid_ok; vm_compute; [discriminate|reflexivity]).
  unfold archive_ok. split; [|split; [|split; [|split]]].
  - apply hdr_good_canon. split; [|vm_compute; reflexivity].
    constructor; [|constructor]. split; [exact C1|vm_compute; reflexivity].
  - vm_compute. discriminate.
  - vm_compute. reflexivity.
  - repeat constructor; try assumption; vm_compute; try discriminate; reflexivity.
  - intros _. repeat constructor; intros p Hp; vm_compute in Hp; inversion Hp; subst; vm_compute; reflexivity.
Qed.

(* a cut one byte before the end falls inside the second section: first block, then an error that is not EOF *)
Example ex_trunc_runs :
  br_read_all ex_hok dec_header_canon default_ropts (take (blen (enc_payload [ex_cid1] ex_blocks) - 1) (enc_payload [ex_cid1] ex_blocks))
  = Ok (1, [ex_cid1], mkscan [(ex_cid1, [x61; x62])] EUnexpectedEof).
Proof. vm_compute. reflexivity. Qed.
