(* Byte-string and file-write lemmas, the closed form of the chunked copy loop, and the
   ExtractV1File theorems (exactness for every destination state, chunk-size independence). *)
From GoCar Require Import Bytes Varint Cid Header Frame V2Header Scan Index Transform.
From GoCarProofs Require Import BytesFacts VarintFacts CidFacts HeaderFacts ScanFacts.

(* ---- more take/drop algebra --------------------------------------------------------------- *)
Lemma take_take n m (l : bytes) : take n (take m l) = take (N.min n m) l.
Proof.
  rewrite !take_firstn, firstn_firstn. f_equal. lia.
Qed.

Lemma take_add n m (l : bytes) : take (n + m) l = take n l ++ take m (drop n l).
Proof.
  rewrite !take_firstn, drop_skipn.
  replace (N.to_nat (n + m)) with (N.to_nat n + N.to_nat m)%nat by lia.
  revert l. induction (N.to_nat n) as [|k IH]; intros l; cbn [Nat.add firstn skipn app].
  - reflexivity.
  - destruct l as [|x t]; cbn [firstn skipn app].
    + destruct (N.to_nat m); reflexivity.
    + rewrite IH. reflexivity.
Qed.

Lemma take_blen_take a (l : bytes) : take (blen (take a l)) l = take a l.
Proof.
  rewrite blen_take. destruct (N.le_ge_cases a (blen l)) as [H|H].
  - rewrite N.min_l by exact H. reflexivity.
  - rewrite N.min_r by exact H. rewrite take_all. symmetry. apply take_ge. exact H.
Qed.

Lemma take_nil n : take n ([] : bytes) = [].
Proof. reflexivity. Qed.
Lemma drop_nil n : drop n ([] : bytes) = [].
Proof. reflexivity. Qed.

Lemma take_pos_nonempty n (l : bytes) : 0 < n -> take n l = [] -> l = [].
Proof.
  intros Hn H. destruct l as [|x t]; [reflexivity|]. cbn [take] in H.
  replace (n =? 0) with false in H by lia. discriminate.
Qed.

Lemma blen_zero_nil (l : bytes) : blen l = 0 -> l = [].
Proof. destruct l; [reflexivity|]. rewrite blen_cons. lia. Qed.

Lemma blen_pos_cons x (t : bytes) : 1 <= blen (x :: t).
Proof. rewrite blen_cons. lia. Qed.

(* the "view" lemma of DESIGN 2.1: keep [all] opaque, read it at the end of a known prefix *)
Lemma view_at (all a b : bytes) : all = a ++ b -> drop (blen a) all = b.
Proof. intros ->. apply drop_app. Qed.

Lemma zerosN_0 : zerosN 0 = [].
Proof. reflexivity. Qed.

(* ---- write_at ------------------------------------------------------------------------------- *)
Lemma write_at_inb f off data : off <= blen f ->
  write_at f off data = take off f ++ data ++ drop (off + blen data) f.
Proof.
  intros H. unfold write_at. replace (off - blen f) with 0 by lia. rewrite zerosN_0. reflexivity.
Qed.

Lemma blen_write_at_inb f off data : off + blen data <= blen f ->
  blen (write_at f off data) = blen f.
Proof.
  intros H. rewrite write_at_inb by lia.
  rewrite !blen_app, blen_take, blen_drop. lia.
Qed.

Lemma blen_write_at_ge f off data : off <= blen f -> off + blen data <= blen (write_at f off data).
Proof.
  intros H. rewrite write_at_inb by lia.
  rewrite !blen_app, blen_take, blen_drop. lia.
Qed.

Lemma write_at_nil f off : off <= blen f -> write_at f off [] = f.
Proof.
  intros H. rewrite write_at_inb by exact H. cbn [app]. rewrite blen_nil, N.add_0_r.
  apply take_drop_id.
Qed.

Lemma write_at_0 f data : write_at f 0 data = data ++ drop (blen data) f.
Proof. rewrite write_at_inb by lia. rewrite take_0. reflexivity. Qed.

Lemma take_write_at_before f off data : off <= blen f -> take off (write_at f off data) = take off f.
Proof.
  intros H. rewrite write_at_inb by exact H.
  assert (Hl : blen (take off f) = off) by (rewrite blen_take; lia).
  rewrite <- Hl at 1. apply take_app.
Qed.

Lemma drop_write_at_after f off data p : off <= blen f -> off + blen data <= p ->
  drop p (write_at f off data) = drop p f.
Proof.
  intros H Hp. rewrite write_at_inb by exact H.
  assert (Hl : blen (take off f) = off) by (rewrite blen_take; lia).
  rewrite drop_app_ge by lia. rewrite Hl.
  rewrite drop_app_ge by lia.
  rewrite drop_drop. f_equal. lia.
Qed.

Lemma write_at_compose f off c1 c2 : off <= blen f ->
  write_at (write_at f off c1) (off + blen c1) c2 = write_at f off (c1 ++ c2).
Proof.
  intros H.
  assert (Hl : blen (take off f) = off) by (rewrite blen_take; lia).
  rewrite (write_at_inb (write_at f off c1)) by (apply blen_write_at_ge; exact H).
  rewrite drop_write_at_after by lia.
  rewrite (write_at_inb f off c1) by exact H.
  rewrite (write_at_inb f off (c1 ++ c2)) by exact H.
  assert (Hl2 : blen (take off f ++ c1) = off + blen c1) by (rewrite blen_app; lia).
  rewrite (app_assoc (take off f) c1 (drop (off + blen c1) f)).
  rewrite <- Hl2 at 1. rewrite take_app.
  rewrite blen_app, <- !app_assoc.
  replace (off + blen c1 + blen c2) with (off + (blen c1 + blen c2)) by lia. reflexivity.
Qed.

Lemma take_drop_write_at_before f off data p n : off <= blen f -> p + n <= off ->
  take n (drop p (write_at f off data)) = take n (drop p f).
Proof.
  intros Hoff Hpn. rewrite write_at_inb by exact Hoff.
  assert (Hl : blen (take off f) = off) by (rewrite blen_take; lia).
  rewrite drop_app_le by lia. rewrite take_app_le by (rewrite blen_drop; lia).
  symmetry. rewrite <- (take_drop_id off f) at 1.
  rewrite drop_app_le by lia. rewrite take_app_le by (rewrite blen_drop; lia). reflexivity.
Qed.

Lemma drop_write_at_at f off data : off <= blen f ->
  drop off (write_at f off data) = data ++ drop (off + blen data) f.
Proof.
  intros Hoff. rewrite write_at_inb by exact Hoff.
  assert (Hl : blen (take off f) = off) by (rewrite blen_take; lia).
  rewrite <- Hl at 1. apply drop_app.
Qed.

(* the destination path is only a way to reach a file: every alias of the source is the source *)
Lemma resolve_alias p : (forall d, p <> POther d) -> resolve_dest p = DSame.
Proof. destruct p; intros H; try reflexivity. exfalso. exact (H d eq_refl). Qed.

(* ---- the CARv2 header ------------------------------------------------------------------------ *)
Lemma le_dec_lt (bs : bytes) : le_dec bs < 256 ^ blen bs.
Proof.
  induction bs as [|b t IH].
  - cbn. lia.
  - cbn [le_dec]. rewrite blen_cons. pose proof (b2n_lt b).
    replace (1 + blen t) with (N.succ (blen t)) by lia. rewrite N.pow_succ_r'. lia.
Qed.

Lemma le_dec_take8_lt (bs : bytes) : le_dec (take 8 bs) < two64.
Proof.
  pose proof (le_dec_lt (take 8 bs)) as H. rewrite blen_take in H.
  assert (256 ^ N.min 8 (blen bs) <= 256 ^ 8) by (apply N.pow_le_mono_r; lia).
  change (256 ^ 8) with two64 in H0. lia.
Qed.

(* what Header.ReadFrom guarantees about an accepted header *)
Lemma read_v2hdr_ok rest h rest2 : read_v2hdr rest = Ok (h, rest2) ->
  51 <= h_doff h < two63 /\ 0 < h_dsize h < two63 /\ h_ioff h < two63 /\
  40 <= blen rest /\ rest2 = drop 40 rest.
Proof.
  unfold read_v2hdr.
  destruct (blen rest <? 16) eqn:E16; [discriminate|].
  destruct (blen rest <? 40) eqn:E40; [discriminate|].
  pose proof (le_dec_take8_lt (drop 16 rest)) as B1.
  pose proof (le_dec_take8_lt (drop 24 rest)) as B2.
  pose proof (le_dec_take8_lt (drop 32 rest)) as B3.
  set (doff := le_dec (take 8 (drop 16 rest))) in *.
  set (dsize := le_dec (take 8 (drop 24 rest))) in *.
  set (ioff := le_dec (take 8 (drop 32 rest))) in *.
  unfold as_int64.
  destruct (doff <? two63) eqn:Ed; destruct (dsize <? two63) eqn:Es; destruct (ioff <? two63) eqn:Ei;
    repeat match goal with |- context [if ?c then _ else _] => destruct c eqn:? end;
    intros H; try discriminate; inversion H; subst; cbn [h_doff h_dsize h_ioff];
    unfold two63, two64 in *; repeat split; try lia.
Qed.

(* ---- the copy loop --------------------------------------------------------------------------- *)
Definition csz_pos (csz : N -> N) : Prop := forall k, 0 < csz k.

(* splitting what is available into the first chunk and the rest *)
Lemma avail_split (c n : N) (rest : bytes) : 0 < c -> 0 < n ->
  let chunk := take (N.min c n) rest in
  take n rest = chunk ++ take (n - blen chunk) (drop (blen chunk) rest) /\ blen chunk <= n.
Proof.
  intros Hc Hn chunk.
  assert (Hm : blen chunk <= n) by (unfold chunk; rewrite blen_take; lia).
  split; [|exact Hm].
  replace n with (blen chunk + (n - blen chunk)) at 1 by lia.
  rewrite take_add. f_equal. unfold chunk. apply take_blen_take.
Qed.

Theorem copy_loop_same csz : csz_pos csz -> forall fuel s d base k n,
  blen (take n (drop (base + k) s)) < N.of_nat fuel -> k <= blen s ->
  copy_loop fuel csz true s d base k n
  = CopyEnd (write_at s k (take n (drop (base + k) s))) d (n - blen (take n (drop (base + k) s))).
Proof.
  intros Hcsz. induction fuel as [|f IH]; intros s d base k n Hf Hk; [lia|].
  cbn [copy_loop]. destruct (n =? 0) eqn:En.
  - assert (n = 0) by lia. subst n. rewrite take_0, write_at_nil by exact Hk. reflexivity.
  - set (rest := drop (base + k) s) in *.
    destruct (avail_split (csz k) n rest (Hcsz k) ltac:(lia)) as [Hsplit Hm].
    destruct (take (N.min (csz k) n) rest) as [|b t] eqn:Echunk.
    + apply take_pos_nonempty in Echunk; [|specialize (Hcsz k); lia].
      rewrite Echunk, take_nil, write_at_nil by exact Hk. rewrite blen_nil, N.sub_0_r. reflexivity.
    + set (chunk := b :: t) in *. set (m := blen chunk) in *.
      assert (Hm1 : 1 <= m) by apply blen_pos_cons.
      (* the chunk lies inside s *)
      assert (Hin : base + k + m <= blen s).
      { assert (Hc : m <= blen rest) by (unfold m; rewrite <- Echunk, blen_take; lia).
        unfold rest in Hc. rewrite blen_drop in Hc. lia. }
      assert (Hrest' : drop (base + (k + m)) (write_at s k chunk) = drop m rest).
      { rewrite drop_write_at_after by (fold m; lia). unfold rest. rewrite drop_drop. f_equal. lia. }
      rewrite IH.
      * rewrite Hrest'. rewrite write_at_compose by exact Hk. rewrite Hsplit.
        rewrite blen_app. fold m. f_equal. lia.
      * rewrite Hrest'. rewrite Hsplit, blen_app in Hf. fold m in Hf. lia.
      * rewrite blen_write_at_inb by (fold m; lia). lia.
Qed.

Theorem copy_loop_other csz : csz_pos csz -> forall fuel s d base k n,
  blen (take n (drop (base + k) s)) < N.of_nat fuel -> k <= blen d ->
  copy_loop fuel csz false s d base k n
  = CopyEnd s (write_at d k (take n (drop (base + k) s))) (n - blen (take n (drop (base + k) s))).
Proof.
  intros Hcsz. induction fuel as [|f IH]; intros s d base k n Hf Hk; [lia|].
  cbn [copy_loop]. destruct (n =? 0) eqn:En.
  - assert (n = 0) by lia. subst n. rewrite take_0, write_at_nil by exact Hk. reflexivity.
  - set (rest := drop (base + k) s) in *.
    destruct (avail_split (csz k) n rest (Hcsz k) ltac:(lia)) as [Hsplit Hm].
    destruct (take (N.min (csz k) n) rest) as [|b t] eqn:Echunk.
    + apply take_pos_nonempty in Echunk; [|specialize (Hcsz k); lia].
      rewrite Echunk, take_nil, write_at_nil by exact Hk. rewrite blen_nil, N.sub_0_r. reflexivity.
    + set (chunk := b :: t) in *. set (m := blen chunk) in *.
      assert (Hm1 : 1 <= m) by apply blen_pos_cons.
      assert (Hrest' : drop (base + (k + m)) s = drop m rest).
      { unfold rest. rewrite drop_drop. f_equal. lia. }
      rewrite IH.
      * rewrite Hrest'. rewrite write_at_compose by exact Hk. rewrite Hsplit.
        rewrite blen_app. fold m. f_equal. lia.
      * rewrite Hrest'. rewrite Hsplit, blen_app in Hf. fold m in Hf. lia.
      * pose proof (blen_write_at_ge d k chunk Hk). fold m in H. lia.
Qed.

(* fuel S (length s) always suffices when the copy starts at destination offset 0 *)
Lemma avail_lt_fuel n p (s : bytes) : blen (take n (drop p s)) < N.of_nat (S (length s)).
Proof. rewrite blen_take, blen_drop. unfold blen. lia. Qed.

(* ---- ExtractV1File: closed form -------------------------------------------------------------- *)
Section Extract.
  Variable hdrdec : bytes -> option (list bytes * N).

  (* layer B: no loop, no chunk size *)
  Definition extract_spec (o : xopts) (s : fs2) : xres * fs2 :=
    match f_src s with
    | None => (XErr EOther, s)
    | Some a =>
      match read_header hdrdec (x_maxh o) a with
      | Err e => (XErr e, s)
      | Ok (_, v, rest, _) =>
        if v =? 1 then (XAlreadyV1, s)
        else if negb (v =? 2) then (XErr EOther, s)
        else
          match read_v2hdr rest with
          | Err e => (XErr e, s)
          | Ok (h, _) =>
            if negb (seek_ok o (h_doff h)) then (XErr EOther, s)
            else
              let d0 := match dst_content s with Some d => d | None => [] end in
              let w := payload_window h a in
              let out := w ++ drop (blen w) d0 in
              if blen w <? h_dsize h then (XErr EEof, set_dst s out)
              else (XOk, set_dst s w)
          end
      end
    end.

  Lemma dst_content_same a : dst_content (mkfs (Some a) DSame) = Some a.
  Proof. reflexivity. Qed.

  Theorem extract_file_closed csz o s : csz_pos csz ->
    extract_file hdrdec csz o s = extract_spec o s.
  Proof.
    intros Hcsz. unfold extract_file, extract_spec.
    destruct (f_src s) as [a|] eqn:Esrc; [|reflexivity].
    destruct (read_header hdrdec (x_maxh o) a) as [[[[roots v] rest] used]|e]; [|reflexivity].
    destruct (v =? 1); [reflexivity|]. destruct (negb (v =? 2)); [reflexivity|].
    destruct (read_v2hdr rest) as [[h rest2]|e]; [|reflexivity].
    destruct (negb (seek_ok o (h_doff h))); [reflexivity|].
    set (d0 := match dst_content s with Some d => d | None => [] end).
    unfold payload_window. set (w := take (h_dsize h) (drop (h_doff h) a)).
    assert (Hw : w = take (h_dsize h) (drop (h_doff h + 0) a)) by (rewrite N.add_0_r; reflexivity).
    assert (Hwl : blen w <= h_dsize h) by (unfold w; rewrite blen_take; lia).
    destruct (is_same (f_dst s)) eqn:Esame.
    - (* in place *)
      assert (Hd0 : d0 = a).
      { unfold d0, dst_content. destruct (f_dst s); [rewrite Esrc; reflexivity|discriminate]. }
      rewrite copy_loop_same; [|exact Hcsz|apply avail_lt_fuel|lia].
      rewrite <- Hw. rewrite write_at_0. rewrite Hd0.
      destruct (blen w <? h_dsize h) eqn:Eshort.
      + replace (negb (h_dsize h - blen w =? 0)) with true by lia. reflexivity.
      + replace (negb (h_dsize h - blen w =? 0)) with false by lia.
        destruct (h_dsize h <? blen (w ++ drop (blen w) a)) eqn:Etr.
        * f_equal. f_equal. assert (h_dsize h = blen w) by lia.
          rewrite H. apply take_app.
        * f_equal. f_equal. rewrite blen_app in Etr.
          assert (Hz : blen (drop (blen w) a) = 0) by lia.
          apply blen_zero_nil in Hz. rewrite Hz. apply app_nil_r.
    - rewrite copy_loop_other; [|exact Hcsz|apply avail_lt_fuel|lia].
      rewrite <- Hw. rewrite write_at_0.
      destruct (blen w <? h_dsize h) eqn:Eshort.
      + replace (negb (h_dsize h - blen w =? 0)) with true by lia. reflexivity.
      + replace (negb (h_dsize h - blen w =? 0)) with false by lia.
        destruct (h_dsize h <? blen (w ++ drop (blen w) d0)) eqn:Etr.
        * f_equal. f_equal. assert (h_dsize h = blen w) by lia.
          rewrite H. apply take_app.
        * f_equal. f_equal. rewrite blen_app in Etr.
          assert (Hz : blen (drop (blen w) d0) = 0) by lia.
          apply blen_zero_nil in Hz. rewrite Hz. apply app_nil_r.
  Qed.

  (* the loop never runs out of fuel *)
  Lemma read_header_not_fuel maxh a : read_header hdrdec maxh a <> Err EFuel.
  Proof.
    unfold read_header, ld_read, ld_read_size. destruct (read_uv a); try discriminate.
    repeat match goal with |- context [if ?c then _ else _] => destruct c end; try discriminate.
    destruct (hdrdec _) as [[? ?]|]; discriminate.
  Qed.
  Lemma read_v2hdr_not_fuel rest : read_v2hdr rest <> Err EFuel.
  Proof.
    unfold read_v2hdr.
    repeat match goal with |- context [if ?c then _ else _] => destruct c end; discriminate.
  Qed.

  Corollary extract_file_fuel_enough csz o s : csz_pos csz ->
    fst (extract_file hdrdec csz o s) <> XErr EFuel.
  Proof.
    intros Hcsz. rewrite extract_file_closed by exact Hcsz. unfold extract_spec.
    destruct (f_src s) as [a|]; [|discriminate].
    pose proof (read_header_not_fuel (x_maxh o) a) as Hrh.
    destruct (read_header hdrdec (x_maxh o) a) as [[[[roots v] rest] used]|e].
    - destruct (v =? 1); [discriminate|]. destruct (negb (v =? 2)); [discriminate|].
      pose proof (read_v2hdr_not_fuel rest) as Hv2.
      destruct (read_v2hdr rest) as [[h rest2]|e].
      + destruct (negb (seek_ok o (h_doff h))); [discriminate|].
        cbv zeta. destruct (_ <? _); discriminate.
      + cbn [fst]. congruence.
    - cbn [fst]. congruence.
  Qed.

  (* independence of the chunk schedule: any two positive schedules give the same result *)
  Theorem extract_chunk_independent csz1 csz2 o s : csz_pos csz1 -> csz_pos csz2 ->
    extract_file hdrdec csz1 o s = extract_file hdrdec csz2 o s.
  Proof. intros H1 H2. rewrite !extract_file_closed by assumption. reflexivity. Qed.

  (* exactness: the header passes ReadFrom and the file holds the declared window *)
  Theorem extract_exact csz o a dst roots rest used h rest2 : csz_pos csz ->
    read_header hdrdec (x_maxh o) a = Ok (roots, 2, rest, used) ->
    read_v2hdr rest = Ok (h, rest2) ->
    seek_ok o (h_doff h) = true ->
    h_doff h + h_dsize h <= blen a ->
    let '(r, s') := extract_file hdrdec csz o (mkfs (Some a) dst) in
    r = XOk /\
    dst_content s' = Some (take (h_dsize h) (drop (h_doff h) a)) /\
    (dst <> DSame -> f_src s' = Some a).
  Proof.
    intros Hcsz Hrh Hv2 Hseek Hlen.
    rewrite extract_file_closed by exact Hcsz. unfold extract_spec. cbn [f_src].
    rewrite Hrh. cbn [N.eqb Pos.eqb negb]. rewrite Hv2, Hseek. cbn [negb]. cbv zeta.
    unfold payload_window.
    assert (Hw : blen (take (h_dsize h) (drop (h_doff h) a)) = h_dsize h).
    { rewrite blen_take, blen_drop. lia. }
    rewrite Hw. replace (h_dsize h <? h_dsize h) with false by lia.
    split; [reflexivity|]. destruct dst as [|d]; cbn; (split; [reflexivity|]); intros H; [congruence|reflexivity].
  Qed.

  (* the file is shorter than the declared window: io.EOF, and what could be copied has been
     written over the front of the destination (no truncation) *)
  Theorem extract_short csz o a dst roots rest used h rest2 : csz_pos csz ->
    read_header hdrdec (x_maxh o) a = Ok (roots, 2, rest, used) ->
    read_v2hdr rest = Ok (h, rest2) ->
    seek_ok o (h_doff h) = true ->
    blen a < h_doff h + h_dsize h ->
    let d0 := match dst_content (mkfs (Some a) dst) with Some d => d | None => [] end in
    extract_file hdrdec csz o (mkfs (Some a) dst)
    = (XErr EEof, set_dst (mkfs (Some a) dst) (drop (h_doff h) a ++ drop (blen a - h_doff h) d0)).
  Proof.
    intros Hcsz Hrh Hv2 Hseek Hlen d0.
    destruct (read_v2hdr_ok _ _ _ Hv2) as (_ & Hds & _).
    rewrite extract_file_closed by exact Hcsz. unfold extract_spec. cbn [f_src].
    rewrite Hrh. cbn [N.eqb Pos.eqb negb]. rewrite Hv2, Hseek. cbn [negb]. cbv zeta.
    unfold payload_window.
    assert (Hw : take (h_dsize h) (drop (h_doff h) a) = drop (h_doff h) a).
    { apply take_ge. rewrite blen_drop. lia. }
    rewrite Hw. rewrite blen_drop.
    replace (blen a - h_doff h <? h_dsize h) with true by lia. reflexivity.
  Qed.

  (* the source does not pass the checks made before the destination is opened (unreadable
     pragma, version other than 2, Header.ReadFrom refuses, Seek refuses): an error, and both
     paths are as they were -- in particular no destination file is created *)
  Definition extract_accepts (o : xopts) (a : bytes) : Prop :=
    exists roots rest used h rest2,
      read_header hdrdec (x_maxh o) a = Ok (roots, 2, rest, used) /\
      read_v2hdr rest = Ok (h, rest2) /\ seek_ok o (h_doff h) = true.

  Theorem extract_rejects_untouched csz o a dst : csz_pos csz ->
    ~ extract_accepts o a ->
    exists r, r <> XOk /\ extract_file hdrdec csz o (mkfs (Some a) dst) = (r, mkfs (Some a) dst).
  Proof.
    intros Hcsz Hno. rewrite extract_file_closed by exact Hcsz. unfold extract_spec. cbn [f_src].
    destruct (read_header hdrdec (x_maxh o) a) as [[[[roots v] rest] used]|e] eqn:Erh;
      [|eexists; split; [|reflexivity]; discriminate].
    destruct (v =? 1) eqn:E1; [eexists; split; [|reflexivity]; discriminate|].
    destruct (v =? 2) eqn:E2; cbn [negb]; [|eexists; split; [|reflexivity]; discriminate].
    assert (v = 2) by lia. subst v.
    destruct (read_v2hdr rest) as [[h rest2]|e] eqn:Ev2; [|eexists; split; [|reflexivity]; discriminate].
    destruct (seek_ok o (h_doff h)) eqn:Es; cbn [negb]; [|eexists; split; [|reflexivity]; discriminate].
    exfalso. apply Hno. exists roots, rest, used, h, rest2. auto.
  Qed.
End Extract.
