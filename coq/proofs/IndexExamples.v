(* Non-vacuity: concrete instances satisfying the hypotheses of the C11 theorems (also replayed
   against the real code: corpus/C11/example-*.case carry the same records). *)
From Coq Require Import Permutation Sorting.Sorted.
From GoCar Require Import Bytes Varint Cid Index.
From GoCarProofs Require Import BytesFacts VarintFacts IndexKv IndexSort IndexCompact IndexSearch
  IndexRoundtrip IndexLoad IndexCanon.

(* CIDv1 raw, multihash (code, 4-byte digest) *)
Definition ex_cid (code : N) (d : bytes) : bytes := [x01; x55] ++ put_uv code ++ [x04] ++ d.
Definition ex_rec (code : N) (d : bytes) (off : N) : irec := mkrec (ex_cid code d) code d off.

(* two records share the digest aabbccdd under sha2-256 (offsets 300 and 7), a third carries it under
   sha2-512; one record of another width (identity, empty digest) *)
Definition ex_recs : list irec :=
  [ ex_rec 18 [xaa; xbb; xcc; xdd] 300;
    ex_rec 18 [x00; xff; x10; x20] 59;
    ex_rec 18 [xaa; xbb; xcc; xdd] 7;
    ex_rec 19 [xaa; xbb; xcc; xdd] 18446744073709551615;
    mkrec [x01; x55; x00; x00] 0 [] 1024 ].

Example ex_recs_parse : map (fun r => rec_of_cid (r_cid r) (r_off r)) ex_recs = map Some ex_recs.
Proof. vm_compute. reflexivity. Qed.

Example ex_recs_ok : Forall rec_ok ex_recs.
Proof. repeat constructor; cbv; congruence. Qed.

Example ex_recs_fit : fits codec_mh_sorted ex_recs /\ fits codec_sorted ex_recs.
Proof.
  unfold fits, recs_fit, codes_fit. repeat split; try (vm_compute; congruence); intros _; vm_compute; reflexivity.
Qed.

(* the round trip, with trailing bytes left untouched *)
Example ex_roundtrip_mh :
  idx_read (idx_write (idx_load ex_recs (IdxMh [])) ++ [x99; x98])
  = Ok (idx_load ex_recs (IdxMh []), [x99; x98]).
Proof. vm_compute. reflexivity. Qed.
Example ex_roundtrip_sorted :
  idx_read (idx_write (idx_load ex_recs (IdxSorted [])) ++ [x99])
  = Ok (idx_load ex_recs (IdxSorted []), [x99]).
Proof. vm_compute. reflexivity. Qed.

Example ex_length : idx_write_len (idx_load ex_recs (IdxMh [])) = 134
                    /\ blen (idx_write (idx_load ex_recs (IdxMh []))) = 134.
Proof. vm_compute. split; reflexivity. Qed.

(* lookups: digest-only codec sees all three offsets, the multihash codec separates the codes *)
Example ex_getall_sorted :
  idx_getall (idx_load ex_recs (IdxSorted [])) 18 [xaa; xbb; xcc; xdd] = [300; 7; 18446744073709551615].
Proof. vm_compute. reflexivity. Qed.
Example ex_getall_mh :
  idx_getall (idx_load ex_recs (IdxMh [])) 18 [xaa; xbb; xcc; xdd] = [300; 7]
  /\ idx_getall (idx_load ex_recs (IdxMh [])) 19 [xaa; xbb; xcc; xdd] = [18446744073709551615]
  /\ idx_getall (idx_load ex_recs (IdxMh [])) 18 [xaa; xbb; xcc; xde] = [].
Proof. vm_compute. repeat split; reflexivity. Qed.

(* load order shows in the raw bytes (equal digests), not in the canonical form *)
Example ex_order_raw_differs :
  idx_write (idx_load ex_recs (IdxMh [])) <> idx_write (idx_load (rev ex_recs) (IdxMh [])).
Proof. vm_compute. congruence. Qed.
Example ex_order_canon_equal :
  Permutation ex_recs (rev ex_recs) /\
  idx_write (idx_canon (idx_load ex_recs (IdxMh []))) = idx_write (idx_canon (idx_load (rev ex_recs) (IdxMh []))).
Proof. split; [apply Permutation_rev|vm_compute; reflexivity]. Qed.

Example ex_sortedb : idx_sortedb (idx_load ex_recs (IdxMh [])) = true
                     /\ idx_sortedb (idx_load ex_recs (IdxSorted [])) = true.
Proof. vm_compute. split; reflexivity. Qed.

(* no shared keys: bytes equal without canon *)
Definition ex_recs_distinct : list irec :=
  [ ex_rec 18 [xaa; xbb; xcc; xdd] 300;
    ex_rec 18 [x00; xff; x10; x20] 59;
    ex_rec 19 [xaa; xbb; xcc; xdd] 5;
    mkrec [x01; x55; x00; x00] 0 [] 1024 ].
Example ex_distinct_keys : NoDup (map (rec_key codec_mh_sorted) ex_recs_distinct).
Proof.
  vm_compute. repeat constructor; cbn [In]; intros H; repeat (destruct H as [H|H]; [discriminate|]); exact H.
Qed.
Example ex_distinct_bytes_equal :
  idx_write (idx_load ex_recs_distinct (IdxMh [])) = idx_write (idx_load (rev ex_recs_distinct) (IdxMh [])).
Proof. vm_compute. reflexivity. Qed.
(* ... but under the digest-only codec the same records DO share a key (aabbccdd under 18 and 19) *)
Example ex_distinct_not_for_sorted : ~ NoDup (map (rec_key codec_sorted) ex_recs_distinct).
Proof.
  vm_compute. intros H. inversion H as [|? ? Hn _]; subst. apply Hn. right. left. reflexivity.
Qed.

(* flatten of the insertion index vs direct load *)
Example ex_flatten :
  option_map (fun i => idx_write (idx_canon i)) (ii_flatten codec_mh_sorted (ii_load ex_recs []))
  = Some (idx_write (idx_canon (idx_load ex_recs (IdxMh [])))).
Proof. vm_compute. reflexivity. Qed.
Example ex_insertion_order :
  ii_getall [xaa; xbb; xcc; xdd] (ii_load ex_recs []) = [300; 7; 18446744073709551615].
Proof. vm_compute. reflexivity. Qed.

(* what ReadFrom rejects: width below 8, truncated bucket *)
Example ex_read_rejects :
  idx_read ([x80; x08] ++ le_enc 4 1 ++ le_enc 4 7 ++ le_enc 8 0) = Err EOther /\
  idx_read ([x80; x08] ++ le_enc 4 1 ++ le_enc 4 12 ++ le_enc 8 24 ++ [x01]) = Err EUnexpectedEof /\
  idx_read ([x80; x08] ++ le_enc 4 1 ++ le_enc 4 12 ++ le_enc 8 24) = Err EEof /\
  idx_read ([x82; x08] ++ le_enc 4 0) = Err EOther.
Proof. vm_compute. repeat split; reflexivity. Qed.
