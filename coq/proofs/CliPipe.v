(* C19 round 6:
   - the commands that read the archive from standard input when no file is named, run with a PIPE
     on stdin: with the delivered fix what the file argument gives; before it a CARv1 only, every CARv2
     was refused (the BlockReader seeks over the CARv2 header's padding on the *os.File, and a pipe
     cannot seek);
   - car debug | car compile: whatever order compile's Go map yields, the output is the CARv1 of the
     roots and the distinct blocks, accepted by the BlockReader, inspect --full and verify;
   - car list --unixfs over a DAG without missing or undecodable nodes lists every entry once. *)
From Coq Require Import Sorting.Permutation.
From GoCar Require Import Bytes Varint Cid Header Frame V2Header Scan Index Store Traversal ExtractFs CliCmds.
From GoCarProofs Require Import BytesFacts VarintFacts CidFacts HeaderFacts ScanFacts ScanTrunc ScanTruncV2 StoreInv
  CliBase CliWalk CliProducers CliClosure CliGetDag.

(* ---- the canonical order of the executable model is one of the orders ------------------------------------- *)
Lemma ins_block_perm b : forall l, Permutation (ins_block b l) (b :: l).
Proof.
  induction l as [|x t IH]; [apply Permutation_refl|]. cbn [ins_block].
  destruct (bytes_ltb (fst b) (fst x)); [apply Permutation_refl|].
  eapply Permutation_trans; [apply perm_skip; exact IH|apply perm_swap].
Qed.

Lemma sort_blocks_perm_gen : forall l acc,
  Permutation (fold_left (fun a b => ins_block b a) l acc) (acc ++ l).
Proof.
  induction l as [|b t IH]; intros acc; cbn [fold_left]; [rewrite app_nil_r; apply Permutation_refl|].
  eapply Permutation_trans; [apply IH|].
  eapply Permutation_trans; [apply Permutation_app_tail; apply ins_block_perm|].
  cbn [app]. apply Permutation_middle.
Qed.

Theorem sort_blocks_perm l : Permutation (sort_blocks l) l.
Proof. unfold sort_blocks. apply (sort_blocks_perm_gen l []). Qed.

(* every CID of the input is a CID of its first occurrences *)
Lemma first_occ_from_cids : forall l seen c, In c (map fst l) ->
  mem c seen = true \/ In c (map fst (first_occ_from seen l)).
Proof.
  induction l as [|b t IH]; intros seen c H; [destruct H|]. cbn [first_occ_from].
  destruct H as [<-|H].
  - destruct (mem (fst b) seen) eqn:E; [left; reflexivity|right; left; reflexivity].
  - destruct (mem (fst b) seen) eqn:E; [apply IH; exact H|].
    destruct (IH (fst b :: seen) c H) as [Hm|Hi]; [|right; right; exact Hi].
    cbn [mem] in Hm. apply orb_true_iff in Hm. destruct Hm as [Hm|Hm]; [|left; exact Hm].
    apply bytes_eqb_eq in Hm. subst c. right; left; reflexivity.
Qed.

Lemma cid_in_In l c : cid_in l c = true <-> In c l.
Proof.
  unfold cid_in. rewrite existsb_exists. split.
  - intros (x & Hx & He). apply bytes_eqb_eq in He. subst x. exact Hx.
  - intros H. exists c. split; [exact H|apply bytes_eqb_eq; reflexivity].
Qed.

Theorem roots_present_compiled roots (bs order : list block) :
  Permutation order (first_occ bs) ->
  roots_present roots bs = true -> roots_present roots order = true.
Proof.
  intros Hp H. unfold roots_present in *. rewrite forallb_forall in *. intros r Hr.
  specialize (H r Hr). apply cid_in_In in H. apply cid_in_In.
  destruct (first_occ_from_cids bs [] r H) as [Hm|Hi]; [discriminate|].
  eapply Permutation_in; [apply Permutation_map; apply Permutation_sym; exact Hp|exact Hi].
Qed.

Set Default Proof Using "All".
Section Pipe.
  Variable hok : bytes -> bytes -> option bool.
  Variable hdrdec : bytes -> option (list bytes * N).
  Hypothesis pragma_ok : hdrdec pragma_body = Some ([], 2).

  (* ---- stdin from a pipe ------------------------------------------------------------------------------ *)
  (* with the fix: whatever the bytes, the pipe gives what the file argument gives *)
  Theorem list_stdin_fixed file : list_car_stdin true hok hdrdec file = list_car hok hdrdec file.
  Proof. reflexivity. Qed.
  Theorem root_stdin_fixed file : root_car_stdin true hdrdec file = root_car hdrdec file.
  Proof. reflexivity. Qed.

  Theorem list_stdin_valid hb roots bs file :
    hdr_ok hdrdec hb roots -> blocks_ok bs -> hashes_ok hok bs -> valid_input hb bs file ->
    list_car_stdin true hok hdrdec file = (true, map fst bs) /\
    root_car_stdin true hdrdec file = (true, roots).
  Proof.
    intros Hh Hb Hg Hv. split.
    - apply (list_car_valid hok hdrdec pragma_ok hb roots bs _ Hh Hb Hg Hv).
    - apply (root_car_valid hok hdrdec pragma_ok hb roots bs _ Hh Hv).
  Qed.

  (* before the fix *)
  Lemma stdin_version_v1 hb roots bs : hdr_ok hdrdec hb roots ->
    stdin_version_ok false hdrdec (payload_hb hb bs) = true.
  Proof.
    intros Hh. unfold stdin_version_ok, br_open, payload_hb. cbn [o_maxh default_ropts orb].
    rewrite (read_header_hb hok hdrdec pragma_ok hb roots 1)
      by (try apply Hh; eapply (hdr_ok_63 hok hdrdec pragma_ok); exact Hh).
    reflexivity.
  Qed.

  Lemma stdin_version_v2 hb roots bs hi lo dpad ioff trailer : hdr_ok hdrdec hb roots ->
    hi < two64 -> lo < two64 -> ioff < two63 ->
    51 + dpad + blen (payload_hb hb bs) + blen trailer < two63 ->
    stdin_version_ok false hdrdec (v2file hi lo dpad ioff (payload_hb hb bs) trailer) = false.
  Proof.
    intros Hh H1 H2 H3 H4.
    pose proof (payload_nonempty hb bs) as Hp.
    assert (Hok : v2hdr_ok (mkv2 hi lo (51 + dpad) (blen (payload_hb hb bs)) ioff))
      by (apply (v2file_hdr_ok hi lo dpad ioff _ trailer); assumption).
    unfold stdin_version_ok, br_open, v2file. cbn [o_maxh default_ropts orb].
    rewrite (read_header_pragma hok hdrdec pragma_ok) by lia. cbn [N.eqb Pos.eqb].
    rewrite read_v2hdr_enc by exact Hok. cbn [h_doff h_dsize].
    replace (51 + dpad - 51) with dpad by lia.
    rewrite <- (blen_zerosN dpad) at 1. rewrite drop_app, take_app.
    unfold payload_hb at 1.
    rewrite (read_header_hb hok hdrdec pragma_ok hb roots 1)
      by (try apply Hh; eapply (hdr_ok_63 hok hdrdec pragma_ok); exact Hh).
    reflexivity.
  Qed.

  (* a CARv1 through a pipe was already what the file argument gives *)
  Theorem list_stdin_v1 hb roots bs :
    hdr_ok hdrdec hb roots -> blocks_ok bs -> hashes_ok hok bs -> blen (payload_hb hb bs) < two63 ->
    list_car_stdin false hok hdrdec (payload_hb hb bs) = (true, map fst bs) /\
    root_car_stdin false hdrdec (payload_hb hb bs) = (true, roots).
  Proof.
    intros Hh Hb Hg H63. unfold list_car_stdin, root_car_stdin. rewrite (stdin_version_v1 hb roots bs Hh).
    split.
    - apply (list_car_valid hok hdrdec pragma_ok hb roots bs _ Hh Hb Hg). apply VI_v1. exact H63.
    - apply (root_car_valid hok hdrdec pragma_ok hb roots bs _ Hh). apply VI_v1. exact H63.
  Qed.

  (* every CARv2 through a pipe was refused, although the same bytes named as a file are listed *)
  Theorem list_stdin_v2_refused hb roots bs hi lo dpad ioff trailer :
    hdr_ok hdrdec hb roots -> blocks_ok bs -> hashes_ok hok bs ->
    hi < two64 -> lo < two64 -> ioff < two63 ->
    51 + dpad + blen (payload_hb hb bs) + blen trailer < two63 ->
    let file := v2file hi lo dpad ioff (payload_hb hb bs) trailer in
    list_car hok hdrdec file = (true, map fst bs) /\ root_car hdrdec file = (true, roots) /\
    list_car_stdin false hok hdrdec file = (false, []) /\ root_car_stdin false hdrdec file = (false, []).
  Proof.
    intros Hh Hb Hg H1 H2 H3 H4 file.
    assert (Hv : valid_input hb bs file) by (apply VI_v2; assumption).
    split; [apply (list_car_valid hok hdrdec pragma_ok hb roots bs _ Hh Hb Hg Hv)|].
    split; [apply (root_car_valid hok hdrdec pragma_ok hb roots bs _ Hh Hv)|].
    unfold list_car_stdin, root_car_stdin, file.
    rewrite (stdin_version_v2 hb roots bs hi lo dpad ioff trailer Hh H1 H2 H3 H4). split; reflexivity.
  Qed.

  (* ---- car list verifies what it lists ------------------------------------------------------------------ *)
  (* a section whose bytes do not hash to its CID ends the listing with an error (exit status 1), after
     the CIDs in front of it; from a pipe as from a file *)
  Theorem list_car_corrupt hb roots pre c d rest :
    hdr_ok hdrdec hb roots -> blocks_ok pre -> hashes_ok hok pre ->
    blk_ok default_maxs (c, d) -> hash_bad hok (c, d) ->
    let file := ld hb ++ enc_sections pre ++ enc_section c d ++ rest in
    list_car hok hdrdec file = (false, map fst pre) /\
    list_car_stdin true hok hdrdec file = (false, map fst pre).
  Proof.
    intros Hh Hb Hg Hc Hbad file.
    assert (H : list_car hok hdrdec file = (false, map fst pre)).
    { unfold list_car, br_read_all, br_open, file. cbn [o_maxh default_ropts].
      rewrite (read_header_hb hok hdrdec pragma_ok hb roots 1)
        by (try apply Hh; eapply (hdr_ok_63 hok hdrdec pragma_ok); exact Hh).
      cbn [N.eqb Pos.eqb]. fold default_ropts.
      rewrite (scan_all_corrupt hok hdrdec default_ropts pre c d rest eq_refl).
      - reflexivity.
      - cbn [o_maxs default_ropts]. eapply Forall_impl; [|exact Hb]. intros b. apply blk_ok_block_ok.
      - exact Hg.
      - cbn [o_maxs default_ropts]. apply blk_ok_block_ok. exact Hc.
      - exact Hbad. }
    split; [exact H|exact H].
  Qed.

  (* ---- car debug | car compile ---------------------------------------------------------------------- *)
  Theorem compile_any_order roots (bs order : list block) :
    hdr_ok hdrdec (enc_header (Some roots) 1) roots ->
    blocks_ok bs -> hashes_ok hok bs ->
    Permutation order (first_occ bs) ->
    let out := compile_out roots order in
    br_read_all hok hdrdec default_ropts out = Ok (1, roots, mkscan order EEof) /\
    (exists st, inspect_car hok hdrdec true out = Ok st /\ is_roots st = roots /\
                is_count st = N.of_nat (length (first_occ bs))) /\
    (roots <> [] -> roots_present roots bs = true -> verify_car hok hdrdec out = Ok tt).
  Proof.
    intros Hh Hb Hg Hp out.
    assert (Hb' : blocks_ok order).
    { eapply Permutation_Forall; [apply Permutation_sym; exact Hp|]. apply first_occ_forall. exact Hb. }
    assert (Hg' : hashes_ok hok order).
    { eapply Permutation_Forall; [apply Permutation_sym; exact Hp|]. apply first_occ_forall. exact Hg. }
    change out with (payload_hb (enc_header (Some roots) 1) order).
    split; [apply (br_read_all_payload hok hdrdec pragma_ok _ _ _ Hh Hb' Hg')|]. split.
    - eexists. split; [apply (inspect_full_v1 hok hdrdec pragma_ok _ _ _ Hh Hb' Hg')|].
      split; [reflexivity|]. unfold is_count. cbn [is_secs]. rewrite map_length.
      rewrite (Permutation_length Hp). reflexivity.
    - intros Hne Hrp. apply (verify_v1 hok hdrdec pragma_ok _ _ _ Hh Hb' Hg' Hne).
      apply (roots_present_compiled roots bs order Hp Hrp).
  Qed.
End Pipe.

(* ---- car list --unixfs --------------------------------------------------------------------------------- *)
(* a DAG in which every node is present and decodable *)
Fixpoint uwhole (t : utree) : bool :=
  match t with
  | UDir es => (fix go (l : list (name * utree)) : bool :=
                  match l with [] => true | (_, c) :: r => uwhole c && go r end) es
  | UMissing => false
  | UBad => false
  | _ => true
  end.
(* its number of named entries *)
Fixpoint ucount (t : utree) : nat :=
  match t with
  | UDir es => (fix go (l : list (name * utree)) : nat :=
                  match l with [] => O | (_, c) :: r => S (ucount c + go r) end) es
  | _ => O
  end.

Theorem ulist_whole : forall t prefix, uwhole t = true ->
  snd (ulist_tree prefix t) = true /\ length (fst (ulist_tree prefix t)) = ucount t.
Proof.
  fix IH 1. intros [d|d|l|es| |] prefix H; try (split; reflexivity); try discriminate.
  cbn [ulist_tree uwhole ucount] in *. revert H.
  induction es as [|[n c] r IHr]; intros H; [split; reflexivity|].
  apply andb_true_iff in H. destruct H as [Hc Hr].
  destruct (IH c (ujoin prefix n) Hc) as [Hs Hl].
  destruct (ulist_tree (ujoin prefix n) c) as [sub ok] eqn:E. cbn [fst snd] in Hs, Hl. subst ok.
  destruct (IHr Hr) as [Hs2 Hl2].
  match goal with |- context [let '(rest, ok2) := ?g in _] => destruct g as [rest ok2] eqn:E2 end.
  cbn [fst snd] in *. split; [exact Hs2|].
  cbn [length]. rewrite app_length, Hl, Hl2. reflexivity.
Qed.

(* a missing or undecodable node stops the listing: the command fails after the paths before it *)
Theorem ulist_stops_at_missing prefix n rest :
  ulist_tree prefix (UDir ((n, UMissing) :: rest)) = ([ujoin prefix n], false).
Proof. reflexivity. Qed.
