(* C06: from the state equality of C06_partial to the property's own clauses, for the guarded
   crash points: acknowledged blocks are found with their exact bytes, nothing is indexed that was not
   put, and the continued, finalized file is well formed (C05) and holds them.
   The per-state lemmas of the C04 development (StoreSpecFacts: ShouldPut / Has / FindCid against the
   stored list) are applied to the states of this development through the layout invariant. *)
From Coq Require Import Permutation.
From GoCar Require Import Bytes Varint Cid Header Frame V2Header Index Scan Store Crash StoreSpec Wf.
From GoCarProofs Require StoreInv StoreSpecFacts StoreSpecCor FinalMain.
From GoCarProofs Require Import BytesFacts VarintFacts CidFacts HeaderFacts ResumeFacts ResumeInv ResumeReject
     CrashImage CrashScan CrashResume CrashPut CrashDev CrashPartial CrashResumePhase CrashTheorems.

Lemma m_present_app o a b c : m_present o (a ++ b) c = m_present o a c || m_present o b c.
Proof. unfold m_present. apply existsb_app. Qed.

Lemma m_lookup_present o st c : m_present o st c = true ->
  exists b', m_lookup o st c = Some b' /\ In b' st /\ same_key (w_whole o) (fst b') c = true.
Proof.
  unfold m_present, m_lookup. intros H.
  destruct (find (fun b => same_key (w_whole o) (fst b) c) st) as [b'|] eqn:Ef.
  - exists b'. apply find_some in Ef. destruct Ef. auto.
  - apply existsb_exists in H. destruct H as (y & Hy & Hk). pose proof (find_none _ _ Ef y Hy) as Hn. cbn beta in Hn. congruence.
Qed.

Section G.
  Variable hdrdec : bytes -> option (list bytes * N).
  Variables (k : skind) (o : wopts) (nilroots : bool) (roots : list bytes).
  Hypothesis Hpar : params_ok hdrdec o nilroots roots.

  Notation Inv := (ResumeInv.Inv k o nilroots roots).
  Notation abs_put := (abs_put o nilroots roots).
  Notation abs_puts := (abs_puts o nilroots roots).
  Notation budget := (budget o nilroots roots).
  Notation fits := (ResumeInv.fits o nilroots roots).
  Notation hdr := (hdr nilroots roots).

  (* the layout invariant of this development is an instance of the C04/C05 one *)
  Lemma inv_store_inv s st : Inv s st -> StoreInv.Inv s hdr st.
  Proof.
    intros [Hfile Hidx Hpos Hcl Hfin Hroots Hopts Hkind Hfaults Hcids Hfits].
    assert (H64 : 51 + w_dpad o < two64) by (unfold ResumeInv.fits, two63, two64 in *; lia).
    constructor.
    - exists (if w_v1 o then [] else v2_prefix o), []. rewrite Hfile, Hopts. split.
      + unfold base_file, StoreInv.sections. rewrite app_nil_r, <- !app_assoc. reflexivity.
      + destruct (w_v1 o) eqn:Ev; [rewrite data_base_v1 by exact Ev; reflexivity|].
        rewrite data_base_v2 by assumption. unfold v2_prefix. rewrite blen_app, blen_pragma, blen_zerosN. lia.
    - rewrite Hpos. unfold StoreInv.sections. rewrite blen_app, blen_ld_eq. reflexivity.
    - rewrite Hidx. unfold idx_of, hsz. rewrite blen_ld_eq. reflexivity.
  Qed.

  Lemma stored_ok_parses st : Forall stored_ok st -> Forall StoreSpecFacts.parses st.
  Proof.
    intros H. eapply Forall_impl; [|exact H]. intros b (p & Hp & _). unfold StoreSpecFacts.parses. congruence.
  Qed.

  (* what a history may put (as in C04): a key that parses at all is a CID go-cid produces and the
     section fits MaxAllowedSectionSize *)
  Definition hyg (b : block) : Prop := cid_parse (fst b) <> None -> StoreInv.blk_ok (w_maxs o) b.

  Lemma hyg_blk_ok st L : Forall stored_ok st -> incl st L -> Forall hyg L -> Forall (StoreInv.blk_ok (w_maxs o)) st.
  Proof.
    intros Hs Hi Hh. apply Forall_forall. intros b Hb.
    rewrite Forall_forall in Hs, Hh. destruct (Hs b Hb) as (p & Hp & _).
    apply (Hh b (Hi b Hb)). congruence.
  Qed.

  Definition idskip (p : cidp) : bool := negb (w_storeid o) && is_identity p.

  (* Has and Get of a state with the invariant, in terms of the stored list *)
  Lemma has_get_inv s st c p :
    Inv s st -> Forall (StoreInv.blk_ok (w_maxs o)) st -> cid_parse c = Some p ->
    fe_has s c = OBool (if idskip p then true else m_present o st c) /\
    fe_get s c = (if idskip p then OBytes (c_digest p)
                  else match m_lookup o st c with Some b => OBytes (snd b) | None => OErr ENotFound end).
  Proof.
    intros HI Hok Hp. pose proof (inv_store_inv s st HI) as HS.
    pose proof (stored_ok_parses st (inv_cids _ _ _ _ _ _ HI)) as Hpar'.
    pose proof (inv_opts _ _ _ _ _ _ HI) as Ho. pose proof (inv_closed _ _ _ _ _ _ HI) as Hcl.
    unfold fe_has, fe_get, idskip. split.
    - assert (Hh : store_has (ws_opts s) (ws_idx s) c p = if negb (w_storeid o) && is_identity p then true else m_present o st c)
        by (rewrite Ho; apply (StoreSpecFacts.store_has_spec o s hdr st c p HS Hpar' Hp)).
      destruct (ws_kind s); [unfold bs_has|unfold st_has]; rewrite Hp, Hcl, Hh; reflexivity.
    - destruct (ws_kind s).
      + unfold bs_get. rewrite Hp, Ho, Hcl. destruct (negb (w_storeid o) && is_identity p); [reflexivity|].
        rewrite (StoreSpecFacts.ws_find_rb o s hdr st c p HS Ho Hok Hp).
        destruct (m_lookup o st c); reflexivity.
      + unfold st_get. cbn [negb]. rewrite Hp, Ho, Hcl. destruct (negb (w_storeid o) && is_identity p); [reflexivity|].
        pose proof (StoreSpecFacts.ws_find_sz o s hdr st c p HS Ho Hok Hp) as Hsz.
        destruct (m_lookup o st c) as [b|].
        * destruct Hsz as (off & -> & Ht).
          replace (Z.of_N (blen (snd b)) <? 0)%Z with false by lia.
          rewrite N2Z.id, Ht. reflexivity.
        * rewrite Hsz. reflexivity.
  Qed.

  (* ---- what a Put that returned nil means for the stored list -------------------------------------- *)
  Definition held (st : list block) (b : block) : Prop :=
    exists p, cid_parse (fst b) = Some p /\ (idskip p = true \/ m_present o st (fst b) = true).

  Lemma held_mono st ext b : held st b -> held (st ++ ext) b.
  Proof.
    intros (p & Hp & [H|H]); exists p; (split; [exact Hp|]); [left; exact H|right].
    rewrite m_present_app, H. reflexivity.
  Qed.

  Lemma abs_puts_ext L : forall st, exists ext, abs_puts st L = st ++ ext /\ incl ext L.
  Proof.
    induction L as [|b r IH]; intros st.
    - exists []. split; [unfold ResumeInv.abs_puts; cbn; rewrite app_nil_r; reflexivity|apply incl_refl].
    - unfold ResumeInv.abs_puts. cbn [fold_left]. fold (abs_puts (abs_put st b) r).
      destruct (IH (abs_put st b)) as (ext & He & Hi). rewrite He.
      destruct (abs_put_cases o nilroots roots st b) as [->|[-> _]].
      + exists ext. split; [reflexivity|apply incl_tl; exact Hi].
      + exists (b :: ext). split; [rewrite <- app_assoc; reflexivity|].
        intros y [<-|Hy]; [left; reflexivity|right; apply Hi; exact Hy].
  Qed.

  Lemma abs_puts_incl st L : incl (abs_puts st L) (st ++ L).
  Proof.
    destruct (abs_puts_ext L st) as (ext & -> & Hi). apply incl_app; [apply incl_appl, incl_refl|apply incl_appr; exact Hi].
  Qed.

  Lemma put_nil_held s st b :
    Inv s st -> snd (fe_put s b) = ONil -> held (abs_put st b) b.
  Proof.
    intros HI Hnil. destruct b as [c d]. cbn [fst] in *.
    pose proof (inv_store_inv s st HI) as HS.
    pose proof (stored_ok_parses st (inv_cids _ _ _ _ _ _ HI)) as Hpar'.
    assert (Hone : forall p, cid_parse c = Some p -> snd (put_one s c d p) = ONil -> held (abs_put st (c, d)) (c, d)).
    { intros p Hp H1. exists p. split; [exact Hp|]. unfold ResumeInv.abs_put. cbn [fst]. rewrite Hp.
      unfold put_one in H1. rewrite (inv_opts _ _ _ _ _ _ HI), (inv_idx _ _ _ _ _ _ HI) in H1.
      pose proof (StoreSpecFacts.should_put_spec o s hdr st c p HS Hpar' Hp) as Hsp.
      rewrite (inv_idx _ _ _ _ _ _ HI) in Hsp. rewrite Hsp in *. unfold idskip.
      destruct (negb (w_storeid o) && is_identity p); [left; reflexivity|].
      destruct (w_maxcid o <? blen c); [discriminate|].
      destruct (negb (w_dups o) && m_present o st c) eqn:Epres.
      - right. apply andb_true_iff in Epres. apply Epres.
      - right. rewrite m_present_app. unfold m_present at 2. cbn [existsb fst].
        rewrite (StoreSpecCor.same_key_refl (w_whole o) c p Hp). rewrite orb_true_r. reflexivity. }
    unfold fe_put in Hnil. destruct (ws_kind s).
    - unfold bs_put_many in Hnil. rewrite (inv_closed _ _ _ _ _ _ HI), (inv_fin _ _ _ _ _ _ HI) in Hnil. cbn [put_many_loop] in Hnil.
      destruct (cid_parse c) as [p|] eqn:Ep; [|discriminate]. apply (Hone p eq_refl).
      destruct (put_one s c d p) as [s' [| | | | |]]; cbn [snd] in *; try discriminate; reflexivity.
    - unfold st_put in Hnil. cbn [fst snd] in Hnil. destruct (cid_parse c) as [p|] eqn:Ep; [|discriminate].
      rewrite (inv_closed _ _ _ _ _ _ HI), (inv_fin _ _ _ _ _ _ HI) in Hnil. apply (Hone p eq_refl Hnil).
  Qed.

  Lemma puts_acked_held L : forall s st b,
    Inv s st -> budget st L -> In b (puts_acked s L) -> held (abs_puts st L) b /\ In b L.
  Proof.
    induction L as [|x r IH]; intros s st b HI Hb Hin; [destruct Hin|].
    cbn [puts_acked] in Hin. unfold ResumeInv.abs_puts. cbn [fold_left]. fold (abs_puts (abs_put st x) r).
    unfold ResumeInv.budget in Hb. change (x :: r) with ([x] ++ r) in Hb. rewrite enc_sections_app, blen_app in Hb.
    pose proof (abs_put_size o nilroots roots st x) as Hsz.
    assert (Hfit : fits (abs_put st x)) by (unfold ResumeInv.fits; unfold block in *; lia).
    pose proof (fe_put_inv hdrdec k o nilroots roots Hpar s st x HI Hfit) as HI'.
    assert (Hb' : budget (abs_put st x) r) by (unfold ResumeInv.budget; unfold block in *; lia).
    destruct (fe_put s x) as [s' ro] eqn:Efp. cbn [fst] in HI'.
    destruct (is_onil ro) eqn:Eo.
    - destruct Hin as [<-|Hin].
      + split; [|left; reflexivity].
        destruct (abs_puts_ext r (abs_put st x)) as (ext & -> & _). apply held_mono.
        apply (put_nil_held s st x HI). rewrite Efp. cbn [snd]. destruct ro; try discriminate; reflexivity.
      + destruct (IH s' _ b HI' Hb' Hin) as [H1 H2]. split; [exact H1|right; exact H2].
    - destruct (IH s' _ b HI' Hb' Hin) as [H1 H2]. split; [exact H1|right; exact H2].
  Qed.

  Lemma records_from_cids st : forall pos r, In r (records_from pos st) -> exists b, In b st /\ r_cid r = fst b.
  Proof.
    induction st as [|[c d] t IH]; intros pos r Hin; [destruct Hin|]. cbn [records_from] in Hin.
    destruct (cid_parse c).
    - destruct Hin as [<-|Hin]; [exists (c, d); split; [left; reflexivity|reflexivity]|].
      destruct (IH _ _ Hin) as (b & Hb & He). exists b. split; [right; exact Hb|exact He].
    - destruct (IH _ _ Hin) as (b & Hb & He). exists b. split; [right; exact Hb|exact He].
  Qed.

  Lemma idx_of_cids st r : In r (idx_of nilroots roots st) -> exists b, In b st /\ r_cid r = fst b.
  Proof.
    unfold idx_of. intros Hin.
    apply (Permutation_in _ (StoreInv.ii_load_perm (records_from (hsz nilroots roots) st) [])) in Hin.
    cbn [app] in Hin. apply (records_from_cids st _ r Hin).
  Qed.

  (* ---- blocks acknowledged by the earlier processes of a session ----------------------------------- *)
  Hypothesis Hkind : kind_ok k o.

  Lemma run_segs_f_held segs : forall s st f0 acked f0' start acked',
    Inv s st -> budget st (concat (map fst segs)) ->
    (forall b, In b acked -> held st b) ->
    run_segs_f hdrdec nilroots f0 s acked segs = Some (f0', start, acked') ->
    (forall b, In b acked' -> held (abs_puts st (concat (map fst segs))) b) /\
    incl acked' (acked ++ concat (map fst segs)).
  Proof.
    induction segs as [|[bs c] r IH]; intros s st f0 acked f0' start acked' HI Hb Hacked H.
    - cbn [run_segs_f] in H. injection H as _ _ <-. cbn [map concat]. unfold ResumeInv.abs_puts. cbn [fold_left].
      split; [exact Hacked|rewrite app_nil_r; apply incl_refl].
    - cbn [run_segs_f map concat fst] in *. unfold ResumeInv.budget in Hb.
      rewrite enc_sections_app, blen_app in Hb.
      assert (Hb1 : budget st bs) by (unfold ResumeInv.budget; lia).
      assert (HI1 : Inv (run_puts s bs) (abs_puts st bs)) by (apply (run_puts_inv hdrdec k o nilroots roots Hpar); [exact HI|exact Hb1]).
      rewrite (end_seg_file k o nilroots roots _ _ c HI1) in H.
      rewrite (inv_kind _ _ _ _ _ _ HI), (inv_opts _ _ _ _ _ _ HI), (inv_roots _ _ _ _ _ _ HI) in H.
      pose proof (abs_puts_size o nilroots roots bs st) as Hsz.
      pose proof (inv_cids _ _ _ _ _ _ HI1) as Hc1. pose proof (inv_fits _ _ _ _ _ _ HI1) as Hf1.
      assert (Hre : exists log, reopen hdrdec k o nilroots roots (cut_file o nilroots roots c (abs_puts st bs))
                                = inl (resumed_state k o nilroots roots log (abs_puts st bs))).
      { destruct (reopen_cut_forms hdrdec k o nilroots roots Hpar c (abs_puts st bs) Hc1 Hf1) as [[_ Hre]|(_ & fi & _ & Hre)];
          eexists; exact Hre. }
      destruct Hre as (log & Hre). rewrite Hre in H.
      destruct (abs_puts_ext bs st) as (ext & Hext & _).
      assert (Hacc : forall b, In b (acked ++ puts_acked s bs) -> held (abs_puts st bs) b).
      { intros b Hin. apply in_app_or in Hin. destruct Hin as [Hin|Hin].
        - rewrite Hext. apply held_mono. apply Hacked. exact Hin.
        - apply (puts_acked_held bs s st b HI Hb1 Hin). }
      assert (Hbr : budget (abs_puts st bs) (concat (map fst r))) by (unfold ResumeInv.budget; lia).
      destruct (IH _ (abs_puts st bs) _ _ _ _ _ (resumed_state_inv k o nilroots roots log _ Hc1 Hf1) Hbr Hacc H)
        as (Hheld & Hincl).
      rewrite abs_puts_app. split; [exact Hheld|].
      intros y Hy. apply Hincl in Hy. apply in_app_or in Hy. destruct Hy as [Hy|Hy].
      + apply in_app_or in Hy. destruct Hy as [Hy|Hy]; [apply in_or_app; left; exact Hy|].
        apply in_or_app. right. apply in_or_app. left.
        exact (proj2 (puts_acked_held bs s st y HI Hb1 Hy)).
      + apply in_or_app. right. apply in_or_app. right. exact Hy.
  Qed.

  (* ---- Finalize answers nil on an invariant state when the codec is known ---------------------------- *)
  Lemma fe_finalize_nil s st : Inv s st -> w_v1 o = true \/ idx_new (w_codec o) <> None ->
    snd (fe_finalize s) = ONil.
  Proof.
    intros HI Hc. destruct HI as [Hfile Hidx Hpos Hcl Hfin Hroots Hopts Hkind' Hfaults Hcids Hfits].
    assert (Hsf : w_v1 o = false -> forall a b0, snd (store_finalize (set_flags s a b0)) = ONil /\
                   ws_finalized (fst (store_finalize (set_flags s a b0))) = b0 /\
                   ws_closed (fst (store_finalize (set_flags s a b0))) = a /\
                   ws_opts (fst (store_finalize (set_flags s a b0))) = o).
    { intros Ev a b0. destruct Hc as [Hc|Hc]; [congruence|].
      destruct (ii_flatten (w_codec o) (idx_of nilroots roots st)) as [fi|] eqn:Efl.
      2:{ exfalso. apply Hc. apply StoreInv.ii_flatten_some in Efl. exact Efl. }
      rewrite (store_finalize_eq o nilroots roots (set_flags s a b0) st fi); try assumption;
        [|cbn [set_flags ws_idx]; rewrite Hidx; exact Efl].
      cbn [fst snd set_dev set_flags ws_finalized ws_closed ws_opts]. repeat split; assumption. }
    unfold fe_finalize. destruct (ws_kind s).
    - unfold bs_finalize, bs_finalize_ro. rewrite Hopts, Hcl, Hfin. destruct (w_v1 o) eqn:Ev.
      + unfold bs_close. cbn [set_flags ws_opts ws_finalized ws_closed]. rewrite Hopts, Ev. reflexivity.
      + destruct (Hsf eq_refl false true) as (H1 & H2 & H3 & H4).
        destruct (store_finalize (set_flags s false true)) as [s1 r1]. cbn [fst snd] in *. subst r1.
        unfold bs_close. rewrite H4, Ev, H2, H3. reflexivity.
    - unfold st_finalize. rewrite Hfin, Hcl, Hopts. destruct (w_v1 o) eqn:Ev; [reflexivity|].
      apply (Hsf eq_refl).
  Qed.

  (* ---- the crash-free session of C05 over singleton batches ------------------------------------------ *)
  Definition singles (L : list block) : list batch := map (fun b => [b]) L.

  Lemma put_batch_single s b : fst (put_batch s [b]) = fst (fe_put s b).
  Proof.
    unfold put_batch, fe_put. destruct (ws_kind s).
    - destruct (bs_put_many s [b]); reflexivity.
    - destruct b as [c d]. cbn [st_puts fst snd]. destruct (st_put s c d); reflexivity.
  Qed.
  Lemma put_batches_singles L : forall s acc, fst (put_batches s (singles L) acc) = run_puts s L.
  Proof.
    induction L as [|b r IH]; intros s acc; [reflexivity|].
    cbn [singles map put_batches]. fold (singles r).
    destruct (put_batch s [b]) as [s' ob] eqn:E. rewrite IH.
    replace s' with (fst (put_batch s [b])) by (rewrite E; reflexivity).
    rewrite put_batch_single. unfold run_puts. reflexivity.
  Qed.

  Lemma session_singles L s0 : open_new k o nilroots roots [] = Ok s0 ->
    exists outs, session k o nilroots roots (singles L) =
                 Ok (fst (fe_finalize (run_puts s0 L)), outs, snd (fe_finalize (run_puts s0 L))).
  Proof.
    intros Ho. unfold session. rewrite Ho.
    pose proof (put_batches_singles L s0 []) as H.
    destruct (put_batches s0 (singles L) []) as [s1 outs]. cbn [fst] in H. subst s1.
    change (finalize (run_puts s0 L)) with (fe_finalize (run_puts s0 L)).
    destruct (fe_finalize (run_puts s0 L)) as [s2 fo]. exists outs. reflexivity.
  Qed.

  Lemma spec_stored_singles L : forall st,
    fold_left (spec_batch (stops k) o (roots_opt nilroots roots)) (singles L) st = abs_puts st L.
  Proof.
    induction L as [|b r IH]; intros st; [reflexivity|].
    cbn [singles map fold_left]. fold (singles r). rewrite IH.
    unfold ResumeInv.abs_puts at 2. cbn [fold_left]. fold (abs_puts (abs_put st b) r). f_equal.
    cbn [spec_batch]. unfold spec_put, ResumeInv.abs_put.
    change (Wf.idx_of (roots_opt nilroots roots) st) with (ResumeInv.idx_of nilroots roots st).
    destruct (cid_parse (fst b)); [|destruct (stops k); reflexivity].
    destruct (should_put o (ResumeInv.idx_of nilroots roots st) (fst b) c) as [[|]|e]; cbn [andb]; try reflexivity.
    destruct (stops k); reflexivity.
  Qed.

  (* ---- fewer hash codes than blocks ---------------------------------------------------------------- *)
  Lemma kv_put_length {A} (kk : N) (v : A) m : (length (kv_put kk v m) <= S (length m))%nat.
  Proof.
    induction m as [|[k' v'] t IH]; cbn [kv_put length]; [lia|].
    destruct (kk <? k'); [cbn [length]; lia|]. destruct (kk =? k'); cbn [length]; lia.
  Qed.
  Lemma group_by_length {A} (key : A -> N) xs : (length (group_by key xs) <= length xs)%nat.
  Proof.
    unfold group_by.
    assert (H : forall acc, (length (fold_left (fun m x => kv_snoc (key x) x m) xs acc) <= length acc + length xs)%nat).
    { induction xs as [|x t IH]; intros acc; cbn [fold_left length]; [lia|].
      specialize (IH (kv_snoc (key x) x acc)).
      assert (length (kv_snoc (key x) x acc) <= S (length acc))%nat
        by (unfold kv_snoc; destruct (kv_get (key x) acc); apply kv_put_length).
      lia. }
    specialize (H []). cbn [length] in H. lia.
  Qed.
  Lemma records_from_length st : forall pos, (length (records_from pos st) <= length st)%nat.
  Proof.
    induction st as [|[c d] t IH]; intros pos; cbn [records_from length]; [lia|].
    destruct (cid_parse c); cbn [length]; specialize (IH (pos + section_size c d)); lia.
  Qed.
  Lemma abs_puts_length L : forall st, (length (abs_puts st L) <= length st + length L)%nat.
  Proof.
    induction L as [|b r IH]; intros st; [unfold ResumeInv.abs_puts; cbn; lia|].
    unfold ResumeInv.abs_puts. cbn [fold_left]. fold (abs_puts (abs_put st b) r).
    specialize (IH (abs_put st b)). cbn [length].
    destruct (abs_put_cases o nilroots roots st b) as [E|[E _]]; rewrite E in *; [unfold block in *; lia|].
    rewrite app_length in IH. cbn [length] in IH. unfold block in *. lia.
  Qed.
End G.

Lemma firstn_le_app {A} (l : list A) : forall a b, (a <= b)%nat -> firstn b l = firstn a l ++ firstn (b - a) (skipn a l).
Proof.
  induction l as [|x t IH]; intros a b Hab.
  - rewrite !firstn_nil, skipn_nil, firstn_nil. reflexivity.
  - destruct a as [|a']; [cbn [firstn skipn app]; rewrite Nat.sub_0_r; reflexivity|].
    destruct b as [|b']; [lia|]. cbn [firstn skipn app Nat.sub]. rewrite (IH a' b') by lia. reflexivity.
Qed.

Lemma in_firstn {A} (l : list A) n y : In y (firstn n l) -> In y l.
Proof. intros H. rewrite <- (firstn_skipn n l). apply in_or_app. left. exact H. Qed.

(* ---- C06_crash_safe_guarded ---------------------------------------------------------------------------- *)
Section Main.
  Variable hdrdec : bytes -> option (list bytes * N).
  Variable x : csess.
  Let k := cs_kind x.
  Let o := cs_opts x.
  Let nilroots := cs_nil x.
  Let roots := cs_roots x.
  Hypothesis Hpar : params_ok hdrdec o nilroots roots.
  Hypothesis Hkind : kind_ok k o.
  Hypothesis Hbud : budget o nilroots roots [] (concat (map fst (cs_pre x)) ++ cs_puts x).
  (* what the session puts: as in C04 *)
  Hypothesis Hhyg : Forall (hyg o) (cs_attempted x).

  Definition content_addressed (all : list block) : Prop :=
    (forall b1 b2, In b1 all -> In b2 all -> same_key (w_whole o) (fst b1) (fst b2) = true -> snd b1 = snd b2) /\
    (forall b p, In b all -> cid_parse (fst b) = Some p -> is_identity p = true -> snd b = c_digest p).

  Notation st0 := (abs_puts o nilroots roots [] (concat (map fst (cs_pre x)))).

  Lemma idskip_skipped b p : cid_parse (fst b) = Some p -> idskip o p = true -> skipped_identity o b = true.
  Proof. intros Hp H. unfold skipped_identity, idskip in *. rewrite Hp. exact H. Qed.

  Theorem guarded_thm f0 start acked_pre kk t :
    content_addressed (cs_attempted x) ->
    cs_start hdrdec x = Some (f0, start, acked_pre) ->
    crash_guard x start kk t = true ->
    let img := image f0 (cs_writes x start) kk t in
    refused_untouched hdrdec k o nilroots roots img \/
    exists s1, reopen hdrdec k o nilroots roots img = inl s1 /\
      (forall b, In b (cs_acked x start acked_pre kk) ->
                 fe_has s1 (fst b) = OBool true /\ fe_get s1 (fst b) = OBytes (snd b)) /\
      (forall b, In b (cs_attempted x) -> fe_has s1 (fst b) = OBool true -> fe_get s1 (fst b) = OBytes (snd b)) /\
      (forall r, In r (ws_idx s1) -> exists b, In b (cs_attempted x) /\ r_cid r = fst b) /\
      (forall more,
         51 + w_dpad o + w_ipad o + ld_size (blen (enc_header (roots_opt nilroots roots) 1))
           + blen (enc_sections (cs_attempted x)) + blen (enc_sections more) < two63 ->
         Forall (hyg o) more -> content_addressed (cs_attempted x ++ more) ->
         w_v1 o = true \/ idx_new (w_codec o) <> None ->
         w_maxcid o + 8 <= max_width -> roots_ok roots ->
         Forall (fun b : block => blen (fst b) + blen (snd b) < 2 ^ 56) (cs_attempted x ++ more) ->
         N.of_nat (length (cs_attempted x ++ more)) < two31 ->
         blen (ws_file (fst (fe_finalize (run_puts s1 more)))) < two63 ->
         snd (fe_finalize (run_puts s1 more)) = ONil /\
         exists stored',
           wf_parse o (ws_file (fst (fe_finalize (run_puts s1 more)))) = Some (roots, stored') /\
           wf_car o (ws_file (fst (fe_finalize (run_puts s1 more)))) = true /\
           incl stored' (cs_attempted x ++ more) /\
           (forall b, In b (cs_acked x start acked_pre kk) \/ In b (puts_acked s1 more) ->
              skipped_identity o b = true \/
              exists b', In b' stored' /\ same_key (w_whole o) (fst b') (fst b) = true /\ snd b' = snd b)).
  Proof.
    intros [Hca Hid] Hst Hg. cbv zeta.
    destruct (partial_thm hdrdec k o nilroots roots Hpar Hkind x eq_refl eq_refl eq_refl eq_refl Hbud
                          f0 start acked_pre kk t Hst Hg) as [Hl|(log & j & Hj & Hre)]; [left; exact Hl|right].
    destruct (cs_start_inv hdrdec k o nilroots roots Hpar Hkind x eq_refl eq_refl eq_refl eq_refl Hbud
                           f0 start acked_pre Hst) as (HI & _ & Hb0 & _).
    set (stj := abs_puts o nilroots roots st0 (firstn j (cs_puts x))) in *.
    pose proof (firstn_enc_sections_le (cs_puts x) j) as Hlej.
    assert (HIj : Inv k o nilroots roots (run_puts start (firstn j (cs_puts x))) stj).
    { apply (run_puts_inv hdrdec k o nilroots roots Hpar); [exact HI|]. unfold ResumeInv.budget in Hb0. unfold block in *. unfold block in *; lia. }
    pose proof (inv_cids _ _ _ _ _ _ HIj) as Hcj. pose proof (inv_fits _ _ _ _ _ _ HIj) as Hfj.
    pose proof (resumed_state_inv k o nilroots roots log stj Hcj Hfj) as HI1.
    set (s1 := resumed_state k o nilroots roots log stj) in *.
    (* the stored blocks come from the puts *)
    assert (Hst0 : incl st0 (concat (map fst (cs_pre x)))) by (intros y Hy; apply (abs_puts_incl o nilroots roots [] _ y Hy)).
    assert (Hstj : incl stj (cs_attempted x)).
    { intros y Hy. apply (abs_puts_incl o nilroots roots st0 _) in Hy. unfold cs_attempted.
      apply in_app_or in Hy. destruct Hy as [Hy|Hy]; [apply in_or_app; left; apply Hst0; exact Hy|].
      apply in_or_app. right. apply (in_firstn _ _ _ Hy). }
    assert (Hokj : Forall (StoreInv.blk_ok (w_maxs o)) stj) by (apply (hyg_blk_ok o stj (cs_attempted x) Hcj Hstj Hhyg)).
    (* every acknowledged block is held by the stored list stj, and was put *)
    assert (Hack : forall b, In b (cs_acked x start acked_pre kk) -> held o stj b /\ In b (cs_attempted x)).
    { intros b Hin. unfold cs_acked in Hin. apply in_app_or in Hin. destruct Hin as [Hin|Hin].
      - (* acknowledged by an earlier process *)
        unfold cs_start in Hst. fold k o nilroots roots in Hst.
        destruct (open_new k o nilroots roots []) as [s0|e] eqn:Eo; [|discriminate].
        assert (Hfit0 : fits o nilroots roots []).
        { unfold ResumeInv.budget in Hbud. unfold fits. change (enc_sections []) with (@nil byte) in *. rewrite blen_nil in *. unfold block in *; lia. }
        rewrite (open_new_eq k o nilroots roots Hkind Hfit0) in Eo. injection Eo as <-.
        destruct (run_segs_f_held hdrdec k o nilroots roots Hpar (cs_pre x) _ [] [] [] f0 start acked_pre
                    (open_state_inv k o nilroots roots Hfit0)) with (3 := Hst) as (Hh & Hi).
        + unfold ResumeInv.budget in *. rewrite enc_sections_app, blen_app in Hbud. unfold block in *. lia.
        + intros y [].
        + split.
          * destruct (abs_puts_ext o nilroots roots (firstn j (cs_puts x)) st0) as (ext & He & _).
            unfold stj. rewrite He. apply held_mono. apply Hh. exact Hin.
          * unfold cs_attempted. apply in_or_app. left. apply Hi in Hin. exact Hin.
      - (* acknowledged by the crashing process *)
        set (dn := cs_done x start kk) in *.
        assert (Hb1 : budget o nilroots roots st0 (firstn dn (cs_puts x))).
        { pose proof (firstn_enc_sections_le (cs_puts x) dn). unfold ResumeInv.budget in *. unfold block in *. unfold block in *; lia. }
        destruct (puts_acked_held hdrdec k o nilroots roots Hpar (firstn dn (cs_puts x)) start st0 b HI Hb1 Hin) as [Hh Hi].
        split.
        + unfold stj. rewrite (firstn_le_app (cs_puts x) dn j) by (destruct Hj; assumption).
          rewrite abs_puts_app.
          destruct (abs_puts_ext o nilroots roots (firstn (j - dn) (skipn dn (cs_puts x)))
                      (abs_puts o nilroots roots st0 (firstn dn (cs_puts x)))) as (ext & -> & _).
          apply held_mono. exact Hh.
        + unfold cs_attempted. apply in_or_app. right. apply (in_firstn _ _ _ Hi). }
    (* a held block that was put comes back with its bytes from any state with the invariant *)
    assert (Hback : forall (all st : list block) s b,
              (forall b1 b2, In b1 all -> In b2 all -> same_key (w_whole o) (fst b1) (fst b2) = true -> snd b1 = snd b2) ->
              (forall b p, In b all -> cid_parse (fst b) = Some p -> is_identity p = true -> snd b = c_digest p) ->
              Inv k o nilroots roots s st -> Forall (StoreInv.blk_ok (w_maxs o)) st -> incl st all -> In b all ->
              held o st b -> fe_has s (fst b) = OBool true /\ fe_get s (fst b) = OBytes (snd b)).
    { intros all st s b Hca' Hid' HIs Hoks Hinc Hb (p & Hp & Hh).
      destruct (has_get_inv k o nilroots roots s st (fst b) p HIs Hoks Hp) as [Hhas Hget].
      rewrite Hhas, Hget. destruct (idskip o p) eqn:Ei.
      - split; [reflexivity|]. f_equal. symmetry. apply (Hid' b p Hb Hp).
        unfold idskip in Ei. apply andb_true_iff in Ei. apply Ei.
      - destruct Hh as [Hh|Hh]; [discriminate|]. rewrite Hh. split; [reflexivity|].
        destruct (m_lookup_present o st (fst b) Hh) as (b' & -> & Hb' & Hk).
        f_equal. apply (Hca' b' b (Hinc _ Hb') Hb Hk). }
    exists s1. split; [exact Hre|].
    split; [|split; [|split]].
    - intros b Hin. destruct (Hack b Hin) as [Hh Hb].
      apply (Hback (cs_attempted x) stj s1 b Hca Hid HI1 Hokj Hstj Hb Hh).
    - intros b Hb Hhas.
      destruct (cid_parse (fst b)) as [p|] eqn:Hp.
      + destruct (has_get_inv k o nilroots roots s1 stj (fst b) p HI1 Hokj Hp) as [Hhas' _].
        apply (Hback (cs_attempted x) stj s1 b Hca Hid HI1 Hokj Hstj Hb).
        exists p. split; [exact Hp|]. rewrite Hhas' in Hhas.
        destruct (idskip o p); [left; reflexivity|right]. injection Hhas as Hh. exact Hh.
      + exfalso. unfold fe_has in Hhas. destruct (ws_kind s1); [unfold bs_has in Hhas|unfold st_has in Hhas];
          rewrite Hp in Hhas; discriminate.
    - intros r Hr. destruct (idx_of_cids nilroots roots stj r Hr) as (b & Hb & He).
      exists b. split; [apply Hstj; exact Hb|exact He].
    - (* the continuation *)
      intros more Hbm Hhm [Hca2 Hid2] Hcodec Hmc Hroots H56 Hcount Hflen.
      set (stF := abs_puts o nilroots roots stj more).
      set (Lpre := concat (map fst (cs_pre x))) in *.
      set (Lall := Lpre ++ firstn j (cs_puts x) ++ more).
      assert (HstF : abs_puts o nilroots roots [] Lall = stF).
      { unfold Lall, stF, stj. rewrite !abs_puts_app. reflexivity. }
      assert (Hsz1 : blen (enc_sections (Lpre ++ firstn j (cs_puts x))) <= blen (enc_sections (cs_attempted x))).
      { unfold cs_attempted. fold Lpre. rewrite !enc_sections_app, !blen_app. unfold block in *; lia. }
      assert (Hszj : blen (enc_sections stj) <= blen (enc_sections (cs_attempted x))).
      { pose proof (abs_puts_size o nilroots roots (Lpre ++ firstn j (cs_puts x)) []) as H.
        rewrite abs_puts_app in H. fold stj in H. change (enc_sections []) with (@nil byte) in H. rewrite blen_nil in H. unfold block in *; lia. }
      assert (Hbj : budget o nilroots roots stj more).
      { unfold ResumeInv.budget, hsz, ResumeInv.hdr. unfold block in *; lia. }
      assert (HIF : Inv k o nilroots roots (run_puts s1 more) stF)
        by (apply (run_puts_inv hdrdec k o nilroots roots Hpar); [exact HI1|exact Hbj]).
      assert (Hnil : snd (fe_finalize (run_puts s1 more)) = ONil)
        by (apply (fe_finalize_nil k o nilroots roots (run_puts s1 more) stF HIF Hcodec)).
      split; [exact Hnil|].
      (* the crash-free session over the same puts *)
      assert (Hfit0 : fits o nilroots roots []).
      { unfold ResumeInv.budget in Hbud. unfold fits. change (enc_sections []) with (@nil byte) in *. rewrite blen_nil in *. unfold block in *; lia. }
      pose proof (open_new_eq k o nilroots roots Hkind Hfit0) as Hopen.
      assert (HballL : budget o nilroots roots [] Lall).
      { unfold ResumeInv.budget, Lall, hsz, ResumeInv.hdr. change (enc_sections []) with (@nil byte). rewrite blen_nil.
        rewrite app_assoc, enc_sections_app, blen_app. unfold block in *; lia. }
      assert (HIfresh : Inv k o nilroots roots (run_puts (open_state k o nilroots roots) Lall) stF).
      { rewrite <- HstF. apply (run_puts_inv hdrdec k o nilroots roots Hpar); [apply open_state_inv; exact Hfit0|exact HballL]. }
      destruct (session_singles k o nilroots roots Lall _ Hopen) as (outs & Hsess).
      rewrite (fe_finalize_nil k o nilroots roots _ stF HIfresh Hcodec) in Hsess.
      assert (Hfile : ws_file (fst (fe_finalize (run_puts (open_state k o nilroots roots) Lall))) =
                      ws_file (fst (fe_finalize (run_puts s1 more)))).
      { change (fst (fe_finalize ?s)) with (end_seg CFinalize s).
        rewrite (end_seg_file k o nilroots roots _ _ CFinalize HIfresh), (end_seg_file k o nilroots roots _ _ CFinalize HIF).
        reflexivity. }
      assert (HLall : incl Lall (cs_attempted x ++ more)).
      { unfold Lall, cs_attempted. fold Lpre. intros y Hy. apply in_app_or in Hy. destruct Hy as [Hy|Hy].
        - apply in_or_app. left. apply in_or_app. left. exact Hy.
        - apply in_app_or in Hy. destruct Hy as [Hy|Hy].
          + apply in_or_app. left. apply in_or_app. right. apply (in_firstn _ _ _ Hy).
          + apply in_or_app. right. exact Hy. }
      assert (HstFi : incl stF (cs_attempted x ++ more)).
      { rewrite <- HstF. intros y Hy. apply (abs_puts_incl o nilroots roots [] Lall) in Hy. apply HLall. exact Hy. }
      pose proof (FinalMain.c05_wf k o nilroots roots (singles Lall) _ outs Hsess) as Hwf.
      cbv zeta in Hwf. unfold spec_stored in Hwf.
      rewrite (spec_stored_singles k o nilroots roots Lall []), HstF in Hwf.
      rewrite Hfile in Hwf.
      destruct Hwf as [Hwp Hwc].
      + unfold ResumeInv.budget in Hbud. unfold two63, two64 in *. lia.
      + unfold ResumeInv.budget in Hbud. lia.
      + exact Hmc.
      + exact Hroots.
      + unfold singles. apply Forall_forall. intros bb Hbb. apply in_map_iff in Hbb. destruct Hbb as (y & <- & Hy).
        constructor; [|constructor]. rewrite Forall_forall in H56. apply H56. apply HLall. exact Hy.
      + exact Hflen.
      + intros _ _.
        pose proof (group_by_length r_code (ii_load (records_from (ld_size (blen (enc_header (roots_opt nilroots roots) 1))) stF) [])) as G1.
        pose proof (Permutation_length (StoreInv.ii_load_perm (records_from (ld_size (blen (enc_header (roots_opt nilroots roots) 1))) stF) [])) as G2.
        cbn [app] in G2.
        pose proof (records_from_length stF (ld_size (blen (enc_header (roots_opt nilroots roots) 1)))) as G3.
        pose proof (abs_puts_length o nilroots roots Lall []) as G4. rewrite HstF in G4. cbn [length] in G4.
        pose proof (NoDup_incl_length) as _.
        assert (G5 : (length Lall <= length (cs_attempted x ++ more))%nat).
        { unfold Lall, cs_attempted. fold Lpre. rewrite !app_length. pose proof (firstn_le_length j (cs_puts x)). unfold block in *; lia. }
        unfold block in *. lia.
      + exists stF. split; [exact Hwp|]. split; [exact Hwc|]. split; [exact HstFi|].
        intros b Hb.
        assert (Hheld : held o stF b /\ In b (cs_attempted x ++ more)).
        { destruct Hb as [Hb|Hb].
          - destruct (Hack b Hb) as [Hh Hi]. split; [|apply in_or_app; left; exact Hi].
            destruct (abs_puts_ext o nilroots roots more stj) as (ext & He & _). unfold stF. rewrite He. apply held_mono. exact Hh.
          - destruct (puts_acked_held hdrdec k o nilroots roots Hpar more s1 stj b HI1 Hbj Hb) as [Hh Hi].
            split; [exact Hh|apply in_or_app; right; exact Hi]. }
        destruct Hheld as [(p & Hp & [Hh|Hh]) Hin]; [left; apply (idskip_skipped b p Hp Hh)|right].
        destruct (m_lookup_present o stF (fst b) Hh) as (b' & _ & Hb' & Hk).
        exists b'. split; [exact Hb'|]. split; [exact Hk|]. apply (Hca2 b' b (HstFi _ Hb') Hin Hk).
  Qed.
End Main.

(* the statement in the form props/C06.v spells out *)
Theorem C06_crash_safe_guarded_thm :
  forall (hdrdec : bytes -> option (list bytes * N)) (x : csess) (f0 : bytes) (start : wstate)
         (acked_pre : list (bytes * bytes)) (k : nat) (t : N),
    let o := cs_opts x in
    let hdr := enc_header (roots_opt (cs_nil x) (cs_roots x)) 1 in
    let ca (all : list (bytes * bytes)) :=
      (forall b1 b2, In b1 all -> In b2 all -> same_key (w_whole o) (fst b1) (fst b2) = true -> snd b1 = snd b2) /\
      (forall b p, In b all -> cid_parse (fst b) = Some p -> is_identity p = true -> snd b = c_digest p) in
    let wellformed_put (b : bytes * bytes) :=
      cid_parse (fst b) <> None ->
      (exists p, cid_ok p /\ fst b = cid_enc p /\ blen (c_digest p) <= max_digest_alloc) /\
      blen (fst b) + blen (snd b) <= w_maxs o /\ blen (fst b) + blen (snd b) < two63 in
    hdrdec hdr = Some (cs_roots x, 1) ->
    (exists r, hdrdec pragma_body = Some (r, 2)) ->
    blen hdr <= w_maxh o -> w_maxcid o <= max_digest_alloc ->
    match cs_kind x with KStorage false => negb (w_v1 o) | _ => false end = false ->
    51 + w_dpad o + w_ipad o + ld_size (blen hdr)
      + blen (enc_sections (concat (map fst (cs_pre x)) ++ cs_puts x)) < two63 ->
    Forall wellformed_put (cs_attempted x) ->
    ca (cs_attempted x) ->
    cs_start hdrdec x = Some (f0, start, acked_pre) ->
    crash_guard x start k t = true ->
    let img := image f0 (cs_writes x start) k t in
    (exists e dv, reopen hdrdec (cs_kind x) o (cs_nil x) (cs_roots x) img = inr (e, dv) /\ d_file dv = img)
    \/
    (exists s1, reopen hdrdec (cs_kind x) o (cs_nil x) (cs_roots x) img = inl s1 /\
      (forall b, In b (cs_acked x start acked_pre k) ->
                 fe_has s1 (fst b) = OBool true /\ fe_get s1 (fst b) = OBytes (snd b)) /\
      (forall b, In b (cs_attempted x) -> fe_has s1 (fst b) = OBool true -> fe_get s1 (fst b) = OBytes (snd b)) /\
      (forall r, In r (ws_idx s1) -> exists b, In b (cs_attempted x) /\ r_cid r = fst b) /\
      (forall more,
         51 + w_dpad o + w_ipad o + ld_size (blen hdr)
           + blen (enc_sections (cs_attempted x)) + blen (enc_sections more) < two63 ->
         Forall wellformed_put more -> ca (cs_attempted x ++ more) ->
         w_v1 o = true \/ idx_new (w_codec o) <> None ->
         w_maxcid o + 8 <= max_width -> roots_ok (cs_roots x) ->
         Forall (fun b : block => blen (fst b) + blen (snd b) < 2 ^ 56) (cs_attempted x ++ more) ->
         N.of_nat (length (cs_attempted x ++ more)) < two31 ->
         blen (ws_file (fst (fe_finalize (run_puts s1 more)))) < two63 ->
         snd (fe_finalize (run_puts s1 more)) = ONil /\
         exists stored',
           wf_parse o (ws_file (fst (fe_finalize (run_puts s1 more)))) = Some (cs_roots x, stored') /\
           wf_car o (ws_file (fst (fe_finalize (run_puts s1 more)))) = true /\
           incl stored' (cs_attempted x ++ more) /\
           (forall b, In b (cs_acked x start acked_pre k) \/ In b (puts_acked s1 more) ->
              skipped_identity o b = true \/
              exists b', In b' stored' /\ same_key (w_whole o) (fst b') (fst b) = true /\ snd b' = snd b))).
Proof.
  intros hdrdec x f0 start acked_pre k t o hdr ca wellformed_put H1 H2 H3 H5 H6 H7 Hwf Hca Hst Hg.
  assert (Hpar : params_ok hdrdec o (cs_nil x) (cs_roots x)) by (constructor; assumption).
  assert (Hb : budget o (cs_nil x) (cs_roots x) [] (concat (map fst (cs_pre x)) ++ cs_puts x)).
  { unfold budget. change (enc_sections []) with (@nil byte). rewrite blen_nil. unfold hsz, ResumeInv.hdr. fold hdr. lia. }
  exact (guarded_thm hdrdec x Hpar H6 Hb Hwf f0 start acked_pre k t Hca Hst Hg).
Qed.

(* ---- non-vacuity: the hypotheses of C06_crash_safe_guarded hold on the witness session ------------- *)
From GoCarProofs Require Import ResumeRefuted CrashRefuted.

Example guarded_example :
  let o := cs_opts c6_sess in
  Forall (fun b : bytes * bytes =>
            cid_parse (fst b) <> None ->
            (exists p, cid_ok p /\ fst b = cid_enc p /\ blen (c_digest p) <= max_digest_alloc) /\
            blen (fst b) + blen (snd b) <= w_maxs o /\ blen (fst b) + blen (snd b) < two63) (cs_attempted c6_sess) /\
  (forall b1 b2, In b1 (cs_attempted c6_sess) -> In b2 (cs_attempted c6_sess) ->
                 same_key (w_whole o) (fst b1) (fst b2) = true -> snd b1 = snd b2) /\
  (forall b p, In b (cs_attempted c6_sess) -> cid_parse (fst b) = Some p -> is_identity p = true -> snd b = c_digest p) /\
  roots_ok (cs_roots c6_sess) /\ w_maxcid o + 8 <= max_width /\ idx_new (w_codec o) <> None /\
  exists f0 start acked, cs_start dec_header_canon c6_sess = Some (f0, start, acked) /\
    crash_guard c6_sess start 6 0 = true /\ cs_acked c6_sess start acked 6 = [(c6_c1, c6_d1)].
Proof.
  cbv zeta.
  assert (Hcid : forall c, c = c6_c1 \/ c = c6_c2 \/ c = c6_root ->
            exists p, cid_ok p /\ c = cid_enc p /\ blen (c_digest p) <= max_digest_alloc).
  { intros c Hc. destruct (cid_parse c) as [p|] eqn:Ep; [|destruct Hc as [->|[->| ->]]; vm_compute in Ep; discriminate].
    exists p. destruct Hc as [->|[->| ->]]; vm_compute in Ep; injection Ep as <-;
      (split; [right; repeat split; apply N.leb_le || apply N.ltb_lt; vm_compute; reflexivity|]);
      (split; [vm_compute; reflexivity|apply N.leb_le; vm_compute; reflexivity]). }
  split.
  { change (cs_attempted c6_sess) with [(c6_c1, c6_d1); (c6_c2, c6_d2)].
    apply Forall_cons; [|apply Forall_cons; [|apply Forall_nil]]; intros _;
      (split; [apply Hcid; cbn [fst]; auto|]);
      (split; [apply N.leb_le|apply N.ltb_lt]); vm_compute; reflexivity. }
  split.
  { intros b1 b2 [<-|[<-|[]]] [<-|[<-|[]]] Hk; try reflexivity; vm_compute in Hk; discriminate. }
  split.
  { intros b p [<-|[<-|[]]] Hp Hi; vm_compute in Hp; injection Hp as <-; vm_compute in Hi; discriminate. }
  split.
  { split; [|vm_compute; reflexivity]. change (cs_roots c6_sess) with [c6_root].
    apply Forall_cons; [|apply Forall_nil]. split; [|apply N.ltb_lt; vm_compute; reflexivity].
    destruct (Hcid c6_root) as (p & H1 & H2 & _); [auto|]. exists p. split; assumption. }
  split; [apply N.leb_le; vm_compute; reflexivity|].
  split; [vm_compute; discriminate|].
  eexists. eexists. eexists. split; [vm_compute; reflexivity|]. split; vm_compute; reflexivity.
Qed.
