(* Containment of the whole extraction walk (C17). *)
From GoCar Require Import Bytes ExtractFs.
From GoCarProofs Require Import BytesFacts ExtractFsFacts ExtractFsEval ExtractFsOps.

Local Open Scope nat_scope.

(* ------------------------------------------------------------------------------------ *)
(* how the file system may evolve                                                        *)

Definition same_kind (a b : node) : Prop :=
  match a, b with
  | NDir, NDir => True
  | NFile _, NFile _ => True
  | NLink x, NLink y => x = y
  | _, _ => False
  end.

(* nothing disappears or changes its kind or link target *)
Definition ext (fs fs' : fsmap) : Prop :=
  forall p n, look fs p = Some n -> exists n', look fs' p = Some n' /\ same_kind n n'.

Definition same_outside (r : phys) (fs fs' : fsmap) : Prop :=
  forall p, ~ under r p -> look fs' p = look fs p.

Definition contained (r : phys) (fs fs' : fsmap) : Prop := same_outside r fs fs' /\ ext fs fs'.

Lemma same_kind_refl n : same_kind n n.
Proof. destruct n; cbn; auto. Qed.

Lemma same_kind_trans a b c : same_kind a b -> same_kind b c -> same_kind a c.
Proof. destruct a, b, c; cbn; intros; try contradiction; auto; congruence. Qed.

Lemma contained_refl r fs : contained r fs fs.
Proof.
  split; [intros p _; reflexivity|]. intros p n H. exists n. split; [exact H|apply same_kind_refl].
Qed.

Lemma contained_trans r a b c : contained r a b -> contained r b c -> contained r a c.
Proof.
  intros [S1 E1] [S2 E2]. split.
  - intros p Hp. rewrite S2 by exact Hp. apply S1. exact Hp.
  - intros p n H. destruct (E1 _ _ H) as [n1 [H1 K1]]. destruct (E2 _ _ H1) as [n2 [H2 K2]].
    exists n2. split; [exact H2|eapply same_kind_trans; eassumption].
Qed.

Lemma step_contained r fs p fs' : under r p -> step_at fs p fs' -> contained r fs fs'.
Proof.
  intros Hu [E|[n [E Hc]]]; subst; [apply contained_refl|]. split.
  - intros q Hq. apply look_set_other. intro; subst. contradiction.
  - intros q n0 Hl. destruct (list_eq_dec (list_eq_dec Byte.byte_eq_dec) q p) as [->|Hne].
    + rewrite Hl in Hc. destruct n0 as [|d0|t0]; cbn in Hc; try contradiction.
      destruct n as [|d|t]; try contradiction.
      assert (p <> []) by (intro; subst; cbn in Hl; discriminate).
      exists (NFile d). split; [apply look_set_same; assumption|exact I].
    + exists n0. split; [rewrite look_set_other by exact Hne; exact Hl|apply same_kind_refl].
Qed.

Lemma dirchain_ext fs fs' cur names : ext fs fs' -> dirchain fs cur names -> dirchain fs' cur names.
Proof.
  intros He H; induction H as [cur|cur c rest Hok Hl Hd IH]; constructor; try assumption.
  destruct (He _ _ Hl) as [n' [Hl' K]]. destruct n'; cbn in K; try contradiction. exact Hl'.
Qed.

Lemma good_ext fs fs' cwd g : ext fs fs' -> good fs cwd g -> good fs' cwd g.
Proof.
  intros He [E|[init [last [n [E [Hd [Hok [Hl Hn]]]]]]]]; [left; exact E|right].
  destruct (He _ _ Hl) as [n' [Hl' K]]. exists init, last, n'.
  split; [exact E|]. split; [eapply dirchain_ext; eassumption|]. split; [exact Hok|].
  split; [exact Hl'|]. destruct n, n'; cbn in *; auto.
Qed.

Lemma cwd_ok_ext fs fs' cwd : ext fs fs' -> cwd_ok fs cwd -> cwd_ok fs' cwd.
Proof.
  intros He Hc k. destruct (He _ _ (Hc k)) as [n' [Hl K]]. destruct n'; cbn in K; try contradiction.
  exact Hl.
Qed.

(* ------------------------------------------------------------------------------------ *)
(* resolvePath                                                                            *)

Lemma phys_of_apply cwd root names :
  Forall (fun c => normalb c = true) names ->
  phys_of cwd (n_apply root names) = phys_of cwd root ++ names.
Proof.
  intro H. rewrite n_apply_normal by exact H. rewrite !phys_of_nbase. cbn [n_names].
  rewrite app_assoc. reflexivity.
Qed.

Lemma resolve_path_ok fs cwd root pth next :
  names_normal root -> names_normal pth ->
  resolve_path fs cwd root pth = Some next ->
  names_normal next /\ good fs cwd (ndir next) /\ under (phys_of cwd root) (phys_of cwd next).
Proof.
  intros Hr Hp H. unfold resolve_path in H.
  destruct (eval_symlinks fs cwd _ _) as [final|] eqn:E; [|discriminate].
  destruct (npath_eqb final _) eqn:Q; [|discriminate]. inversion H; subst next. clear H.
  apply npath_eqb_eq in Q. subst final. apply eval_symlinks_good in E.
  split; [apply n_apply_names_normal; exact Hr|]. split; [exact E|].
  exists (n_names pth). apply phys_of_apply. exact Hp.
Qed.

(* ------------------------------------------------------------------------------------ *)
(* the walk                                                                               *)

Section utree_induction.
  Variable P : utree -> Prop.
  Hypothesis Hfile : forall d, P (UFile d).
  Hypothesis Hfileerr : forall d, P (UFileErr d).
  Hypothesis Hlink : forall t, P (ULink t).
  Hypothesis Hdir : forall es, Forall (fun e => P (snd e)) es -> P (UDir es).
  Hypothesis Hmissing : P UMissing.
  Hypothesis Hbad : P UBad.
  Fixpoint utree_ind2 (t : utree) : P t :=
    match t with
    | UFile d => Hfile d
    | UFileErr d => Hfileerr d
    | ULink t => Hlink t
    | UDir es =>
      Hdir es ((fix go (es : list (name * utree)) : Forall (fun e => P (snd e)) es :=
                  match es with
                  | [] => Forall_nil _
                  | e :: r => Forall_cons e (utree_ind2 (snd e)) (go r)
                  end) es)
    | UMissing => Hmissing
    | UBad => Hbad
    end.
End utree_induction.

(* the two inner loops of extractDir as stand-alone functions *)
Fixpoint find_spec (f : name -> utree -> fsmap * xres) (dflt : fsmap * xres) (m : name)
  (es : list (name * utree)) : fsmap * xres :=
  match es with
  | [] => dflt
  | (nm, t') :: rest => if bytes_eqb nm m then f nm t' else find_spec f dflt m rest
  end.

Fixpoint loop_spec (f : fsmap -> name -> utree -> fsmap * xres) (es : list (name * utree))
  (fs : fsmap) (cnt : N) : fsmap * xres :=
  match es with
  | [] => (fs, XOk cnt)
  | (nm, t') :: rest =>
    match f fs nm t' with
    | (fs', XOk c) => loop_spec f rest fs' (cnt + c)%N
    | (fs', XErr) => (fs', XErr)
    end
  end.

Lemma extract_dir_eq guard cwd root es fs outpath mp :
  extract_dir guard cwd root (UDir es) fs outpath mp =
  match resolve_path fs cwd root outpath with
  | None => (fs, XErr)
  | Some dirp =>
    match mkdir_all fs cwd dirp with
    | (fs1, false) => (fs1, XErr)
    | (fs1, true) =>
      match mp with
      | m :: sub =>
        find_spec (fun nm t' => extract_element guard cwd root fs1 outpath nm t'
                                  (fun f p => extract_dir guard cwd root t' f p sub))
                  (fs1, XErr) m es
      | [] =>
        loop_spec (fun fs nm t' => extract_element guard cwd root fs outpath nm t'
                                     (fun f p => extract_dir guard cwd root t' f p []))
                  es fs1 0%N
      end
    end
  end.
Proof.
  cbn [extract_dir]. destruct (resolve_path fs cwd root outpath) as [dirp|]; [|reflexivity].
  destruct (mkdir_all fs cwd dirp) as [fs1 [|]]; [|reflexivity].
  destruct mp as [|m sub].
  - generalize 0%N. generalize fs1. induction es as [|[nm t'] rest IH]; intros f c; [reflexivity|].
    cbn [loop_spec]. destruct (extract_element _ _ _ _ _ _ _) as [fs' [c'|]]; [apply IH|reflexivity].
  - induction es as [|[nm t'] rest IH]; [reflexivity|].
    cbn [find_spec]. destruct (bytes_eqb nm m); [reflexivity|apply IH].
Qed.

Section Walk.
  Variable cwd : phys.
  Variable root : npath.
  Hypothesis Hroot : names_normal root.
  Let R := phys_of cwd root.

  Lemma extract_leaf_contained fs next t fs' r :
    names_normal next -> good fs cwd (ndir next) -> under R (phys_of cwd next) ->
    extract_leaf true cwd fs next t = (fs', r) -> contained R fs fs'.
  Proof.
    intros Hn Hg Hu H. destruct t as [d|d|tg|es| |]; cbn [extract_leaf] in H.
    - destruct (extract_file true fs cwd next d true) as [fs1 ok] eqn:F. inversion H; subst.
      eapply step_contained; [exact Hu|]. eapply extract_file_step; eassumption.
    - destruct (extract_file true fs cwd next d false) as [fs1 ok] eqn:F. inversion H; subst.
      eapply step_contained; [exact Hu|]. eapply extract_file_step; eassumption.
    - destruct (k_symlink fs tg _ _) as [fs1 ok] eqn:F. inversion H; subst.
      eapply step_contained; [exact Hu|]. eapply k_symlink_step; eassumption.
    - inversion H; apply contained_refl.
    - inversion H; apply contained_refl.
    - inversion H; apply contained_refl.
  Qed.

  Lemma extract_element_contained fs outpath nm t recdir fs' r :
    names_normal outpath ->
    (forall f p f' r', cwd_ok f cwd -> names_normal p -> recdir f p = (f', r') -> contained R f f') ->
    cwd_ok fs cwd ->
    extract_element true cwd root fs outpath nm t recdir = (fs', r) -> contained R fs fs'.
  Proof.
    intros Ho Hrec Hc H. unfold extract_element in H.
    assert (Hp : names_normal (join outpath nm)) by (apply n_apply_names_normal; exact Ho).
    destruct (resolve_path fs cwd root (join outpath nm)) as [next|] eqn:RP.
    2: inversion H; apply contained_refl.
    apply resolve_path_ok in RP; [|exact Hroot|exact Hp]. destruct RP as [Hn [Hg Hu]].
    destruct (is_udir t).
    - eapply Hrec; eassumption.
    - exact (extract_leaf_contained fs next t fs' r Hn Hg Hu H).
  Qed.

  Lemma extract_dir_contained : forall t fs outpath mp fs' r,
    cwd_ok fs cwd -> names_normal outpath ->
    extract_dir true cwd root t fs outpath mp = (fs', r) -> contained R fs fs'.
  Proof.
    induction t as [d|d|tg|es IH| |] using utree_ind2; intros fs outpath mp fs' r Hc Ho H;
      try (cbn [extract_dir] in H; inversion H; apply contained_refl).
    rewrite extract_dir_eq in H.
    destruct (resolve_path fs cwd root outpath) as [dirp|] eqn:RP.
    2: inversion H; apply contained_refl.
    apply resolve_path_ok in RP; [|exact Hroot|exact Ho]. destruct RP as [Hn [Hg Hu]].
    destruct (mkdir_all fs cwd dirp) as [fs1 ok] eqn:M.
    assert (C1 : contained R fs fs1).
    { eapply step_contained; [exact Hu|]. eapply mkdir_all_step; eassumption. }
    assert (Hc1 : cwd_ok fs1 cwd) by (eapply cwd_ok_ext; [apply C1|exact Hc]).
    destruct ok; [|inversion H; subst; exact C1].
    eapply contained_trans; [exact C1|]. clear M C1 Hg Hu Hn Hc.
    destruct mp as [|m sub].
    - (* everything *)
      revert H. generalize 0%N. revert Hc1. generalize fs1.
      induction IH as [|[nm t'] rest IHt _ IHrest]; intros f Hcf c H; cbn [loop_spec] in H.
      + inversion H; apply contained_refl.
      + destruct (extract_element _ _ _ _ _ _ _) as [f1 r1] eqn:EE.
        assert (C : contained R f f1).
        { eapply extract_element_contained; [exact Ho| |exact Hcf|exact EE].
          intros f0 p f0' r0 Hc0 Hp0 Hr0. exact (IHt _ _ _ _ _ Hc0 Hp0 Hr0). }
        destruct r1 as [c1|]; [|inversion H; subst; exact C].
        eapply contained_trans; [exact C|]. eapply IHrest; [|exact H].
        eapply cwd_ok_ext; [apply C|exact Hcf].
    - (* one path segment *)
      induction IH as [|[nm t'] rest IHt _ IHrest]; cbn [find_spec] in H.
      + inversion H; apply contained_refl.
      + destruct (bytes_eqb nm m); [|exact (IHrest H)].
        eapply extract_element_contained; [exact Ho| |exact Hc1|exact H].
        intros f0 p f0' r0 Hc0 Hp0 Hr0. exact (IHt _ _ _ _ _ Hc0 Hp0 Hr0).
  Qed.
End Walk.
