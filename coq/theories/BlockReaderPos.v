(* Position-tracking model of v2/block_reader.go: NewBlockReader, Next, SkipNext (seek path
   and discard path), the io.LimitReader of a CARv2, br.offset / br.v1offset / br.readerSize,
   and the high-water mark of bytes consumed from the underlying source.

   The underlying source is the whole byte string [p_all] with a read position; the stream
   BlockReader.r sees is derived from it ([vis]).  Next is Scan.next_block on that stream, so
   everything proved about next_block / scan_all applies to this reader. *)
From GoCar Require Import Bytes Varint Cid Header Frame V2Header Scan.

Record brp := mkbrp {
  p_all : bytes;        (* the underlying source, from its first byte *)
  p_seek : bool;        (* the source is an io.ReadSeeker (bytes.Reader, *os.File) *)
  p_pos : N;            (* read position of the source *)
  p_hw : N;             (* high-water mark: largest source offset a Read has delivered *)
  p_lim : option N;     (* Some n: br.r = io.LimitReader(source, n left) (CARv2); None: br.r = source *)
  p_off : N;            (* br.offset *)
  p_v1off : N;          (* br.v1offset *)
  p_rsize : option N    (* br.readerSize; None = -1 (not known yet) *)
}.

(* what br.r still delivers *)
Definition vis (st : brp) : bytes :=
  match p_lim st with
  | None => drop (p_pos st) (p_all st)
  | Some n => take n (drop (p_pos st) (p_all st))
  end.

(* k bytes were read through br.r (k <= |vis st|) *)
Definition adv (k : N) (st : brp) : brp :=
  mkbrp (p_all st) (p_seek st) (p_pos st + k)
        (if k =? 0 then p_hw st else N.max (p_hw st) (p_pos st + k))
        (match p_lim st with None => None | Some n => Some (n - k) end)
        (p_off st) (p_v1off st) (p_rsize st).
Definition set_off (off : N) (st : brp) : brp :=
  mkbrp (p_all st) (p_seek st) (p_pos st) (p_hw st) (p_lim st) off (p_v1off st) (p_rsize st).
(* Seek on the source itself: position only, nothing is read *)
Definition seek_to (pos : N) (rsize : option N) (st : brp) : brp :=
  mkbrp (p_all st) (p_seek st) pos (p_hw st) (p_lim st) (p_off st) (p_v1off st) rsize.

(* BlockMetadata *)
Record meta := mkmeta { m_cid : bytes; m_off : N; m_soff : N; m_size : N }.

(* carv1.HeaderSize: the header is re-encoded (cbor.DumpObject) and measured; equal to the
   bytes consumed only when the header in the file was canonical *)
Definition header_size (roots : list bytes) (v : N) : N :=
  ld_size (blen (enc_header (Some roots) v)).

(* one step of a walk, with the source position and high-water mark after it *)
Inductive step :=
| StN (c d : bytes) (pos hw : N)
| StS (m : meta) (pos hw : N).

Section Oracles.
  Variable hok : bytes -> bytes -> option bool.
  Variable hdrdec : bytes -> option (list bytes * N).

  (* NewBlockReader over a source positioned at its first byte: (version, roots, state) *)
  Definition brp_open (o : ropts) (seek : bool) (file : bytes) : res (N * list bytes * brp) :=
    match read_header hdrdec (o_maxh o) file with
    | Err e => Err e
    | Ok (roots, v, rest, used) =>
      if v =? 1 then
        Ok (1, roots, mkbrp file seek used used None (header_size roots v) 0 None)
      else if v =? 2 then
        match read_v2hdr rest with
        | Err e => Err e
        | Ok (h, rest2) =>
          let pos1 := used + 40 in
          let skip := h_doff h - 51 in
          (* rs.Seek(DataOffset-51, SeekCurrent): a real seek (possibly beyond the end) for a
             seekable source, io.CopyN(io.Discard, ..) for a plain one (io.EOF if it runs dry) *)
          if negb seek && (blen rest2 <? skip) then Err EEof
          else
            let st0 := mkbrp file seek (pos1 + skip)
                             (if seek then pos1 else pos1 + skip)
                             (Some (h_dsize h)) (h_doff h) (h_doff h)
                             (Some (wrap64 (h_doff h + h_dsize h))) in
            match read_header hdrdec (o_maxh o) (vis st0) with
            | Err e => Err e
            | Ok (roots1, v1, _, used1) =>
              if v1 =? 1
              then Ok (2, roots1, set_off (h_doff h + header_size roots1 v1) (adv used1 st0))
              else Err EOther
            end
        end
      else Err EOther
    end.

  (* BlockReader.Next *)
  Definition brp_next (o : ropts) (st : brp) : res (block * brp) :=
    match next_block hok o (vis st) with
    | Err e => Err e
    | Ok ((c, d), rest) =>
        let used := blen (vis st) - blen rest in
        let ss := blen c + blen d in
        Ok ((c, d), set_off (p_off st + (uv_size ss + ss)) (adv used st))
    end.

  (* BlockReader.SkipNext *)
  Definition brp_skip (o : ropts) (st : brp) : res (meta * brp) :=
    match ld_read_size (o_zeof o) (o_maxs o) (vis st) with
    | Err e => Err e
    | Ok (l, rest, n) =>
      if l =? 0 then Err EOther             (* the zero-byte CID error *)
      else
        match cid_from_reader (take l rest) with   (* CidFromReader(io.LimitReader(br.r, l)) *)
        | CfrEof => Err EUnexpectedEof      (* stream ended right after the varint (repaired:
                                               the bare io.EOF of CidFromReader is mapped) *)
        | CfrErr _ => Err EOther
        | CfrOk cn c _ _ =>
          let bsz := l - cn in
          let lsz := uv_size l in
          let st1 := adv (n + cn) st in
          let md := mkmeta c (p_off st - p_v1off st) (p_off st) bsz in
          let off' := p_off st + lsz + cn + bsz in
          match p_lim st, p_seek st with
          | None, true =>
            (* br.r is an io.ReadSeeker: learn the size once, seek over the data *)
            let rsize := match p_rsize st with None => blen (p_all st) | Some r => r end in
            let final := p_pos st1 + bsz in
            if negb (final =? p_off st + lsz + l) then Err EOther      (* "unexpected length" *)
            else if rsize <? final then Err EUnexpectedEof
            else Ok (md, set_off off' (seek_to final (Some rsize) st1))
          | _, _ =>
            (* io.CopyN(io.Discard, br.r, blockSize) *)
            if blen (vis st1) <? bsz then Err EUnexpectedEof
            else Ok (md, set_off off' (adv bsz st1))
          end
        end
    end.

  (* the source after a call that failed with [e].  Only the clean-EOF case is tracked: an
     io.EOF of Next/SkipNext comes either from an exhausted stream (nothing consumed) or from a
     zero-length section under ZeroLengthSectionAsEOF, whose one-byte varint has been consumed. *)
  Definition end_state (e : err) (st : brp) : brp :=
    match e with
    | EEof => match read_uv (vis st) with VOk _ _ n => adv n st | _ => st end
    | _ => st
    end.

  (* drive the reader with a choice string: true = Next, false = SkipNext.  Stops at the first
     error (EEof is the normal end) or when the choices run out (None). *)
  Fixpoint brp_walk (o : ropts) (w : list bool) (st : brp) : list step * (option err * brp) :=
    match w with
    | [] => ([], (None, st))
    | true :: w' =>
      match brp_next o st with
      | Err e => ([], (Some e, end_state e st))
      | Ok ((c, d), st') =>
        let r := brp_walk o w' st' in
        (StN c d (p_pos st') (p_hw st') :: fst r, snd r)
      end
    | false :: w' =>
      match brp_skip o st with
      | Err e => ([], (Some e, end_state e st))
      | Ok (m, st') =>
        let r := brp_walk o w' st' in
        (StS m (p_pos st') (p_hw st') :: fst r, snd r)
      end
    end.

  (* NewBlockReader + the walk *)
  Definition brp_run (o : ropts) (seek : bool) (file : bytes) (w : list bool)
    : res (N * list bytes * brp * (list step * (option err * brp))) :=
    match brp_open o seek file with
    | Err e => Err e
    | Ok (v, roots, st0) => Ok (v, roots, st0, brp_walk o w st0)
    end.
End Oracles.

Definition step_cid (s : step) : bytes :=
  match s with StN c _ _ _ => c | StS m _ _ => m_cid m end.
Definition step_pos (s : step) : N :=
  match s with StN _ _ p _ => p | StS _ p _ => p end.
Definition step_hw (s : step) : N :=
  match s with StN _ _ _ h => h | StS _ _ h => h end.

(* ---- layer B: constructed CARv2 containers and the expected walk ------------------- *)

(* pragma, 40-byte header, arbitrary padding bytes, the CARv1 payload, anything after it
   (index padding, index, junk) *)
Definition v2_file (hi lo ioff : N) (pad payload trailer : bytes) : bytes :=
  pragma ++ enc_v2hdr (mkv2 hi lo (51 + blen pad) (blen payload) ioff) ++ pad ++ payload ++ trailer.

(* offset of section i of a payload, and of its end *)
Definition sec_start (roots : list bytes) (bs : list block) (i : nat) : N :=
  blen (ld (enc_header (Some roots) 1) ++ enc_sections (firstn i bs)).

(* what a walk over the sections [bs] must produce, starting at source offset [off] with
   payload base [base]: the reference the model is proved equal to *)
Fixpoint exp_walk (seekpath : bool) (base : N) (w : list bool) (bs : list block) (off hw : N)
  : list step * option err :=
  match w with
  | [] => ([], None)
  | ch :: w' =>
    match bs with
    | [] => ([], Some EEof)
    | (c, d) :: bs' =>
      let ss := blen c + blen d in
      let off' := off + (uv_size ss + ss) in
      let hw' := if ch || negb seekpath then N.max hw off'
                 else N.max hw (off + uv_size ss + blen c) in
      let s := if ch then StN c d off' hw'
               else StS (mkmeta c (off - base) off (blen d)) off' hw' in
      let r := exp_walk seekpath base w' bs' off' hw' in
      (s :: fst r, snd r)
    end
  end.

(* ---- br.offset as the uint64 it is -------------------------------------------------------------
   The functions above keep br.offset unbounded.  Here every assignment to br.offset is reduced
   modulo 2^64 (NewBlockReader's `br.offset = ...; br.offset += hs`, Next's `br.offset += ...`,
   SkipNext's `br.offset = br.offset + lenSize + cidSize + blockSize`); the comparisons and the
   metadata then see the wrapped value, exactly as in the Go code.  These are the functions the
   harness runs; BlockReaderPosWrap.v proves they coincide with the unbounded ones whenever the
   source is shorter than 2^64 bytes (more precisely: offset slack + size < 2^64). *)
Definition wrap_off (st : brp) : brp := set_off (wrap64 (p_off st)) st.

Section Oracles64.
  Variable hok : bytes -> bytes -> option bool.
  Variable hdrdec : bytes -> option (list bytes * N).

  Definition brp_open64 (o : ropts) (seek : bool) (file : bytes) : res (N * list bytes * brp) :=
    match brp_open hdrdec o seek file with
    | Err e => Err e
    | Ok (v, roots, st) => Ok (v, roots, wrap_off st)
    end.
  Definition brp_next64 (o : ropts) (st : brp) : res (block * brp) :=
    match brp_next hok o st with
    | Err e => Err e
    | Ok (b, st') => Ok (b, wrap_off st')
    end.
  Definition brp_skip64 (o : ropts) (st : brp) : res (meta * brp) :=
    match brp_skip o st with
    | Err e => Err e
    | Ok (m, st') => Ok (m, wrap_off st')
    end.
  Fixpoint brp_walk64 (o : ropts) (w : list bool) (st : brp) : list step * (option err * brp) :=
    match w with
    | [] => ([], (None, st))
    | true :: w' =>
      match brp_next64 o st with
      | Err e => ([], (Some e, end_state e st))
      | Ok ((c, d), st') =>
        let r := brp_walk64 o w' st' in
        (StN c d (p_pos st') (p_hw st') :: fst r, snd r)
      end
    | false :: w' =>
      match brp_skip64 o st with
      | Err e => ([], (Some e, end_state e st))
      | Ok (m, st') =>
        let r := brp_walk64 o w' st' in
        (StS m (p_pos st') (p_hw st') :: fst r, snd r)
      end
    end.
  Definition brp_run64 (o : ropts) (seek : bool) (file : bytes) (w : list bool)
    : res (N * list bytes * brp * (list step * (option err * brp))) :=
    match brp_open64 o seek file with
    | Err e => Err e
    | Ok (v, roots, st0) => Ok (v, roots, st0, brp_walk64 o w st0)
    end.
End Oracles64.
