(* Small library entry points around the readers that no other model covers (found by bin/coverage):
   - legacy util.ReadCid (root module): a CID at the front of a byte slice and the bytes it took;
   - carv1.ReadHeaderAt: the CARv1 header read through an io.ReaderAt;
   - internal io.offsetReadSeeker: Read / ReadByte / ReadAt / Seek with its Offset and Position. *)
From GoCar Require Import Bytes Varint Cid Header Frame.

(* util.ReadCid(buf):
     buf starts with 12 20: cid.Cast(buf[:min 34 |buf|]) -- a CIDv0 iff at least 34 bytes are there;
     otherwise binary.ReadUvarint version (must be 1) and codec (non-minimal accepted), then
     multihash.NewReader(..).ReadMultihash(): go-varint code and length (length <= MaxInt32), the
     digest by io.ReadFull; the CID is RE-ENCODED by cid.NewCidV1 (canonical varints) and the count
     is what was consumed from buf.
   Error classes as the harness sees them: io.EOF where a read hit the end of buf at a value
   boundary (EEof), everything else EOther. *)
Definition uv_err (v : vres) : err :=
  match v with VEof => EEof | _ => EOther end.

Definition read_cid_legacy (buf : bytes) : res (bytes * N) :=
  match buf with
  | b0 :: b1 :: _ =>
    if (b2n b0 =? 18) && (b2n b1 =? 32) then
      if blen buf <? 34 then Err EOther else Ok (take 34 buf, 34)
    else
      match read_uv_std buf with
      | VOk vers r1 n1 =>
        if negb (wrap64 vers =? 1) then Err EOther else
        match read_uv_std r1 with
        | VOk codec r2 n2 =>
          match read_uv r2 with
          | VOk code r3 n3 =>
            match read_uv r3 with
            | VOk len r4 n4 =>
              if max_int32 <? len then Err EOther
              else if blen r4 <? len then Err (if (blen r4 =? 0) then EEof else EOther)
              else Ok (put_uv 1 ++ put_uv (wrap64 codec) ++ put_uv code ++ put_uv len ++ take len r4,
                       n1 + n2 + n3 + n4 + len)
            | v => Err (uv_err v)
            end
          | v => Err (uv_err v)
          end
        | v => Err (uv_err v)
        end
      | v => Err (uv_err v)
      end
  | _ =>
    (* fewer than two bytes: the varint path *)
    match read_uv_std buf with
    | VOk vers r1 n1 =>
      if negb (wrap64 vers =? 1) then Err EOther else Err (uv_err (read_uv_std r1))
    | v => Err (uv_err v)
    end
  end.

Section Oracles.
  Variable hdrdec : bytes -> option (list bytes * N).
  (* carv1.ReadHeaderAt(at, max): a source that is also an io.Reader is read from its current position
     [pos]; a pure io.ReaderAt from its start *)
  Definition read_header_at (is_reader : bool) (pos maxh : N) (file : bytes) : res (list bytes * N) :=
    match read_header hdrdec maxh (if is_reader then drop pos file else file) with
    | Err e => Err e
    | Ok (roots, v, _, _) => Ok (roots, v)
    end.
End Oracles.

(* internal io.offsetReadSeeker over the bytes [data] of the underlying io.ReaderAt *)
Record ors := mkors { or_base : N; or_off : N }.
Inductive ors_op :=
| OrRead (n : N) | OrReadByte | OrReadAt (n off : N) | OrSeekStart (x : N) | OrSeekFwd (x : N)
| OrSeekBack (x : N) | OrSeekEnd.

(* bytes.Reader.ReadAt(p, off): n bytes from off; io.EOF when fewer than |p| were there *)
Definition read_at (data : bytes) (n off : N) : bytes * bool :=
  let got := take n (drop off data) in (got, blen got <? n).

(* result of an op: bytes delivered, error (None = nil), new state *)
Definition ors_step (data : bytes) (st : ors) (op : ors_op) : bytes * option err * ors :=
  match op with
  | OrRead n =>
      let (got, short) := read_at data n (or_off st) in
      (got, if short then Some EEof else None, mkors (or_base st) (or_off st + blen got))
  | OrReadByte =>
      let (got, short) := read_at data 1 (or_off st) in
      (got, if short then Some EEof else None, mkors (or_base st) (or_off st + blen got))
  | OrReadAt n off =>
      let (got, short) := read_at data n (off + or_base st) in
      (got, if short then Some EEof else None, st)
  | OrSeekStart x => ([], None, mkors (or_base st) (x + or_base st))
  | OrSeekFwd x => ([], None, mkors (or_base st) (or_off st + x))
  | OrSeekBack x =>
      if or_off st <? x then ([], Some EOther, st)          (* "Seek offset underflow" *)
      else ([], None, mkors (or_base st) (or_off st - x))
  | OrSeekEnd => ([], Some EOther, st)
  end.
