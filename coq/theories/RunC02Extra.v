(* entry points of the kinds c02inspect, c02readcid, c02hdrat, c02ors (C02 producer).  Glue: val -> val. *)
From Coq Require Import Strings.String.
From GoCar Require Import Bytes Varint Cid Header Frame V2Header Scan Val RunScan BlockReaderPos Inspect RunWalk C02Extra.

(* ---- kind c02inspect: C13's kind "inspect" (same input positions 0..4 and 6, same observation) with
   C02's expectation in field 5: (tnone) | (ttrunc orig nonboundary) | (tcorrupt orig i).
   Clauses on the implementation's Inspect(true): a cut that is not on a section boundary and a block
   whose bytes or digest were flipped are never accepted. *)
Definition run_c02inspect (input : val) : val := run_inspect input.

Definition prop_c02inspect (input obs : val) : val :=
  let expect := vnth 5 input in
  let insp := vnth 0 obs in
  let accepted := is_tag (vnth 0 insp) "ok" in
  if is_tag (vnth 0 expect) "trunc" then
    if vbool (vnth 2 expect) && accepted then VL [VT "FAIL"; VT "truncation-accepted-by-full-inspection"]
    else VT "ok"
  else if is_tag (vnth 0 expect) "corrupt" then
    if accepted then VL [VT "FAIL"; VT "corruption-accepted-by-full-inspection"] else VT "ok"
  else VT "ok".

(* ---- kind c02readcid: (buf expect) -> (tok cid n) | (terr class); expect: (tnone) | (tcid c) = buf starts
   with the canonical CID c (v1, codec below 2^63) *)
Definition run_c02readcid (input : val) : val :=
  match read_cid_legacy (vB (vnth 0 input)) with
  | Ok (c, n) => VL [VT "ok"; VB c; VN n]
  | Err e => VL [VT "err"; v_err e]
  end.

Definition prop_c02readcid (input obs : val) : val :=
  let buf := vB (vnth 0 input) in
  let expect := vnth 1 input in
  let ok := is_tag (vnth 0 obs) "ok" in
  if ok && (blen buf <? vN (vnth 2 obs)) then VL [VT "FAIL"; VT "readcid-count-beyond-buffer"]
  else if is_tag (vnth 0 expect) "cid" then
    let c := vB (vnth 1 expect) in
    if ok && bytes_eqb (vB (vnth 1 obs)) c && (vN (vnth 2 obs) =? blen c) then VT "ok"
    else VL [VT "FAIL"; VT "readcid-does-not-return-the-leading-cid"]
  else VT "ok".

(* ---- kind c02hdrat: (is_reader pos maxh file hdr-table) -> (tok roots version) | (terr class) *)
Definition run_c02hdrat (input : val) : val :=
  match read_header_at (hdr_lookup (vL (vnth 4 input))) (vbool (vnth 0 input)) (vN (vnth 1 input))
                       (vN (vnth 2 input)) (vB (vnth 3 input)) with
  | Ok (roots, v) => VL [VT "ok"; v_cids roots; VN v]
  | Err e => VL [VT "err"; v_err e]
  end.
Definition prop_c02hdrat (input obs : val) : val := VT "ok".

(* ---- kind c02ors: (data base ops) -> per op (bytes err offset position-sign position-magnitude)
   ops: (tread n) (tbyte) (tat n off) (tstart x) (tfwd x) (tback x) (tend) *)
Definition v_ors_op (v : val) : ors_op :=
  let t := vnth 0 v in
  if is_tag t "read" then OrRead (vN (vnth 1 v))
  else if is_tag t "byte" then OrReadByte
  else if is_tag t "at" then OrReadAt (vN (vnth 1 v)) (vN (vnth 2 v))
  else if is_tag t "start" then OrSeekStart (vN (vnth 1 v))
  else if is_tag t "fwd" then OrSeekFwd (vN (vnth 1 v))
  else if is_tag t "back" then OrSeekBack (vN (vnth 1 v))
  else OrSeekEnd.

Fixpoint ors_run (data : bytes) (st : ors) (ops : list ors_op) : list val :=
  match ops with
  | [] => []
  | op :: ops' =>
    match ors_step data st op with
    | (got, e, st') =>
      VL [VB got; match e with None => VT "nil" | Some e => v_err e end;
          VN (or_off st');
          (* Position() = off - base as a signed number: (sign, magnitude) *)
          VN (if or_off st' <? or_base st' then 1 else 0);
          VN (if or_off st' <? or_base st' then or_base st' - or_off st' else or_off st' - or_base st')]
      :: ors_run data st' ops'
    end
  end.

Definition run_c02ors (input : val) : val :=
  let base := vN (vnth 1 input) in
  VL (ors_run (vB (vnth 0 input)) (mkors base base) (map v_ors_op (vL (vnth 2 input)))).

(* Offset = base + Position after every call; delivered bytes are a slice of the data *)
Definition prop_c02ors (input obs : val) : val :=
  let base := vN (vnth 1 input) in
  if forallb (fun r => if vN (vnth 3 r) =? 0 then vN (vnth 2 r) =? base + vN (vnth 4 r)
                       else vN (vnth 2 r) + vN (vnth 4 r) =? base) (vL obs) then VT "ok"
  else VL [VT "FAIL"; VT "offset-is-not-base-plus-position"].
