(* entry points of the kinds c02inspect, c02readcid, c02hdrat, c02ors (C02 producer).  Glue: val -> val. *)
From Coq Require Import Strings.String.
From GoCar Require Import Bytes Varint Cid Header Frame V2Header Scan Val RunScan BlockReaderPos Inspect RunWalk C02Extra.

(* ---- kind c02inspect: C13's kind "inspect" (same input positions 0..4 and 6, same observation) with
   C02's expectation in field 5: (tnone) | (ttrunc orig nonboundary) | (tcorrupt orig i).
   Clauses on the implementation's Inspect(true): a cut that is not on a section boundary and a block
   whose bytes or digest were flipped are never accepted. *)
Definition run_c02inspect (input : val) : val := run_inspect input.

Definition prop_c02inspect (input obs : val) : val :=
  let expect := vnth 5 input in
  let insp := vnth 0 obs in
  let accepted := is_tag (vnth 0 insp) "ok" in
  if is_tag (vnth 0 expect) "trunc" then
    if vbool (vnth 2 expect) && accepted then VL [VT "FAIL"; VT "truncation-accepted-by-full-inspection"]
    else VT "ok"
  else if is_tag (vnth 0 expect) "corrupt" then
    if accepted then VL [VT "FAIL"; VT "corruption-accepted-by-full-inspection"] else VT "ok"
  else VT "ok".

(* ---- kind c02readcid: (buf expect) -> (tok cid n) | (terr class); expect: (tnone) | (tcid c) = buf starts
   with the canonical CID c (v1, codec below 2^63) *)
Definition run_c02readcid (input : val) : val :=
  match read_cid_legacy (vB (vnth 0 input)) with
  | Ok (c, n) => VL [VT "ok"; VB c; VN n]
  | Err e => VL [VT "err"; v_err e]
  end.

Definition prop_c02readcid (input obs : val) : val :=
  let buf := vB (vnth 0 input) in
  let expect := vnth 1 input in
  let ok := is_tag (vnth 0 obs) "ok" in
  if ok && (blen buf <? vN (vnth 2 obs)) then VL [VT "FAIL"; VT "readcid-count-beyond-buffer"]
  else if is_tag (vnth 0 expect) "cid" then
    let c := vB (vnth 1 expect) in
    if ok && bytes_eqb (vB (vnth 1 obs)) c && (vN (vnth 2 obs) =? blen c) then VT "ok"
    else VL [VT "FAIL"; VT "readcid-does-not-return-the-leading-cid"]
  else VT "ok".

(* ---- kind c02hdrat: (is_reader pos maxh file hdr-table) -> (tok roots version) | (terr class) *)
Definition run_c02hdrat (input : val) : val :=
  match read_header_at (hdr_lookup (vL (vnth 4 input))) (vbool (vnth 0 input)) (vN (vnth 1 input))
                       (vN (vnth 2 input)) (vB (vnth 3 input)) with
  | Ok (roots, v) => VL [VT "ok"; v_cids roots; VN v]
  | Err e => VL [VT "err"; v_err e]
  end.
Definition prop_c02hdrat (input obs : val) : val := VT "ok".

(* ---- kind c02ors: (data base ops) -> per op (bytes err offset position-sign position-magnitude)
   ops: (tread n) (tbyte) (tat n off) (tstart x) (tfwd x) (tback x) (tend) *)
Definition v_ors_op (v : val) : ors_op :=
  let t := vnth 0 v in
  if is_tag t "read" then OrRead (vN (vnth 1 v))
  else if is_tag t "byte" then OrReadByte
  else if is_tag t "at" then OrReadAt (vN (vnth 1 v)) (vN (vnth 2 v))
  else if is_tag t "start" then OrSeekStart (vN (vnth 1 v))
  else if is_tag t "fwd" then OrSeekFwd (vN (vnth 1 v))
  else if is_tag t "back" then OrSeekBack (vN (vnth 1 v))
  else OrSeekEnd.

Fixpoint ors_run (data : bytes) (st : ors) (ops : list ors_op) : list val :=
  match ops with
  | [] => []
  | op :: ops' =>
    match ors_step data st op with
    | (got, e, st') =>
      VL [VB got; match e with None => VT "nil" | Some e => v_err e end;
          VN (or_off st');
          (* Position() = off - base as a signed number: (sign, magnitude) *)
          VN (if or_off st' <? or_base st' then 1 else 0);
          VN (if or_off st' <? or_base st' then or_base st' - or_off st' else or_off st' - or_base st')]
      :: ors_run data st' ops'
    end
  end.

Definition run_c02ors (input : val) : val :=
  let base := vN (vnth 1 input) in
  VL (ors_run (vB (vnth 0 input)) (mkors base base) (map v_ors_op (vL (vnth 2 input)))).

(* Offset = base + Position after every call; delivered bytes are a slice of the data *)
Definition prop_c02ors (input obs : val) : val :=
  let base := vN (vnth 1 input) in
  if forallb (fun r => if vN (vnth 3 r) =? 0 then vN (vnth 2 r) =? base + vN (vnth 4 r)
                       else vN (vnth 2 r) + vN (vnth 4 r) =? base) (vL obs) then VT "ok"
  else VL [VT "FAIL"; VT "offset-is-not-base-plus-position"].

(* ---- kind c02hist: histories over the legacy root-module reader ---------------------------------------
   input: (slot-sizes ops hok-table hdr-table)
     ops: (topen rid slot file expect) | (tnext rid n)
          slot 0 = the source is a plain reader; slot s > 0 = the caller hands NewCarReader its own
          bufio.Reader number s (size slot-sizes[s-1]), Reset onto the file; the caller reuses a slot only
          after the reader it gave it to has reported its end.  (tnext rid n) = call Next on reader rid
          up to n times, stopping at the first error; no call is made on a reader after its first error.
     expect (per open): (tnone) | (ttrunc orig nonboundary) | (tcorrupt orig i)
   observation: per op  (topenerr e) | (topened roots) | (tblocks (blocks...) end)  with end = (tmore) | (tend e)
   The model: readers are independent -- every reader returns the blocks and the terminating error of
   root_read_all on its own file, whatever else happens in the history (slots, sizes and interleaving
   are a harness dimension). *)
Definition hist_state := list (N * (list block * err)).     (* live readers: remaining blocks, end *)

Fixpoint hist_get (st : hist_state) (rid : N) : option (list block * err) :=
  match st with
  | [] => None
  | (r, x) :: t => if r =? rid then Some x else hist_get t rid
  end.
Fixpoint hist_del (st : hist_state) (rid : N) : hist_state :=
  match st with
  | [] => []
  | (r, x) :: t => if r =? rid then t else (r, x) :: hist_del t rid
  end.

Fixpoint hist_run (hok : bytes -> bytes -> option bool) (hdr : bytes -> option (list bytes * N))
         (st : hist_state) (ops : list val) : list val :=
  match ops with
  | [] => []
  | op :: ops' =>
    if is_tag (vnth 0 op) "open" then
      let rid := vN (vnth 1 op) in
      match root_read_all hok hdr (vB (vnth 3 op)) with
      | Err e => VL [VT "openerr"; v_err e] :: hist_run hok hdr st ops'
      | Ok (roots, out) =>
          VL [VT "opened"; v_cids roots]
          :: hist_run hok hdr ((rid, (s_blocks out, s_end out)) :: hist_del st rid) ops'
      end
    else
      let rid := vN (vnth 1 op) in
      let n := N.to_nat (vN (vnth 2 op)) in
      match hist_get st rid with
      | None => VL [VT "dead"] :: hist_run hok hdr st ops'
      | Some (bl, e) =>
          if (length bl <? n)%nat
          then VL [VT "blocks"; v_blocks bl; VL [VT "end"; v_err e]] :: hist_run hok hdr (hist_del st rid) ops'
          else VL [VT "blocks"; v_blocks (firstn n bl); VL [VT "more"]]
               :: hist_run hok hdr ((rid, (skipn n bl, e)) :: hist_del st rid) ops'
      end
  end.

Definition run_c02hist (input : val) : val :=
  VL (hist_run (hok_lookup (vL (vnth 2 input))) (hdr_lookup (vL (vnth 3 input))) [] (vL (vnth 1 input))).

(* what reader rid did over the whole history: its blocks in order and its end (if reported) *)
Fixpoint hist_collect (rid : N) (ops obs : list val) (live : bool) : list (bytes * bytes) * val :=
  match ops, obs with
  | op :: ops', o :: obs' =>
    if is_tag (vnth 0 op) "open" then
      if vN (vnth 1 op) =? rid then ([], VL [VT "more"])          (* the id is reused: stop *)
      else hist_collect rid ops' obs' live
    else if live && (vN (vnth 1 op) =? rid) && is_tag (vnth 0 o) "blocks" then
      let r := hist_collect rid ops' obs' (is_tag (vnth 0 (vnth 2 o)) "more") in
      (vblocks (vnth 1 o) ++ fst r, if is_tag (vnth 0 (vnth 2 o)) "more" then snd r else vnth 2 o)
    else hist_collect rid ops' obs' live
  | _, _ => ([], VL [VT "more"])
  end.

Fixpoint hist_check (hok : bytes -> bytes -> option bool) (ops obs : list val) : val :=
  match ops, obs with
  | op :: ops', o :: obs' =>
    if is_tag (vnth 0 op) "open" && is_tag (vnth 0 o) "opened" then
      let expect := vnth 4 op in
      let r := hist_collect (vN (vnth 1 op)) ops' obs' true in
      let blocks := fst r in
      let ended_eof := is_tag (vnth 0 (snd r)) "end" && is_tag (vnth 1 (snd r)) "eof" in
      if negb (forallb (block_hash_ok hok) blocks) then VL [VT "FAIL"; VT "returned-block-hash-mismatch"]
      else if is_tag (vnth 0 expect) "trunc" then
        if negb (blocks_prefix blocks (vblocks (vnth 1 expect)))
        then VL [VT "FAIL"; VT "truncation-returned-foreign-block"]
        else if vbool (vnth 2 expect) && ended_eof
        then VL [VT "FAIL"; VT "truncation-reported-as-clean-eof"; VT "reader-history"]
        else hist_check hok ops' obs'
      else if is_tag (vnth 0 expect) "corrupt" then
        if negb (blocks_prefix blocks (firstn (N.to_nat (vN (vnth 2 expect))) (vblocks (vnth 1 expect))))
        then VL [VT "FAIL"; VT "corruption-wrong-blocks-returned"]
        else if ended_eof then VL [VT "FAIL"; VT "corruption-reported-as-clean-eof"; VT "reader-history"]
        else hist_check hok ops' obs'
      else hist_check hok ops' obs'
    else hist_check hok ops' obs'
  | _, _ => VT "ok"
  end.

Definition prop_c02hist (input obs : val) : val :=
  hist_check (hok_lookup (vL (vnth 2 input))) (vL (vnth 1 input)) (vL obs).
