(* run entries of the kinds "resume" (C12) and "crash" (C06): val -> val, and the layer-B
   predicates evaluated on what the implementation did. *)
From Coq Require Import Strings.String.
From GoCar Require Import Bytes Varint Cid Header Frame V2Header Index Scan Store Crash Val RunStore.

Definition vtag (v : val) (s : string) : bool :=
  match v with VT t => String.eqb t s | _ => false end.

Definition v_cut (v : val) : cut := if vtag v "finalize" then CFinalize else CDiscard.
Definition v_segs (v : val) : list (list (bytes * bytes) * cut) :=
  map (fun sg => (vblocks (VL (tl (vL sg))), v_cut (vnth 0 sg))) (vL v).

Definition count_root (r : bytes) (rs : list bytes) : nat := length (filter (bytes_eqb r) rs).
(* the same roots, order ignored (what the property calls "the same roots") *)
Definition roots_same (a b : list bytes) : bool :=
  forallb (fun r => Nat.eqb (count_root r a) (count_root r b)) a &&
  forallb (fun r => Nat.eqb (count_root r a) (count_root r b)) b.

(* ---- kind "resume" ---------------------------------------------------------------------------
   (tsegs kind opts roots segs last hdrtab)
       segs = ((tdiscard|tfinalize (cid data) ...) ...)   last = ((cid data) ...)
       -> (tok file_interrupted file_plain) | (treopen-failed file_plain) | (topenerr)
   (tmismatch kind opts roots puts cut opts2 roots2 hdrtab)
       -> (taccepted changed) | (trejected changed) | (topenerr)              *)
Definition run_resume (input : val) : val :=
  let kn := vN (vnth 1 input) in
  let k := v_kind kn in
  let o := v_wopts (vnth 2 input) in
  let nilr := is_nil_tag (vnth 3 input) in
  let roots := vcids (vnth 3 input) in
  match open_new k o nilr roots [] with
  | Err _ => VL [VT "openerr"]
  | Ok s0 =>
    if vtag (vnth 0 input) "segs" then
      let hdrdec := hdr_lookup (vL (vnth 6 input)) in
      let segs := v_segs (vnth 4 input) in
      let last := vblocks (vnth 5 input) in
      let plain := ws_file (fst (fe_finalize (run_puts s0 (concat (map fst segs) ++ last)))) in
      match run_segs hdrdec nilr s0 segs with
      | Some sN => VL [VT "ok"; VB (ws_file (fst (fe_finalize (run_puts sN last)))); VB plain]
      | None => VL [VT "reopen-failed"; VB plain]
      end
    else
      let hdrdec := hdr_lookup (vL (vnth 8 input)) in
      let s1 := end_seg (v_cut (vnth 5 input)) (run_puts s0 (vblocks (vnth 4 input))) in
      let file := ws_file s1 in
      let o2 := v_wopts (vnth 6 input) in
      match reopen hdrdec k o2 (is_nil_tag (vnth 7 input)) (vcids (vnth 7 input)) file with
      | inl s2 => VL [VT "accepted"; v_of_bool (negb (bytes_eqb file (ws_file s2)))]
      | inr (e, dv) => VL [VT "rejected"; v_of_bool (negb (bytes_eqb file (d_file dv)))]
      end
  end.

Definition fail (clause klass : string) : val := VL [VT "FAIL"; VT clause; VT klass].

(* C12 evaluated on the implementation's observation *)
Definition prop_resume (input obs : val) : val :=
  if vtag (vnth 0 input) "segs" then
    if vtag (vnth 0 obs) "openerr" then VT "ok"
    else if negb (vtag (vnth 0 obs) "ok") then fail "not-transparent" "reopen-failed"
    else if bytes_eqb (vB (vnth 1 obs)) (vB (vnth 2 obs)) then VT "ok"
    else fail "not-transparent" "bytes-differ"
  else
    let kn := vN (vnth 1 input) in
    let o := v_wopts (vnth 2 input) in
    let roots := vcids (vnth 3 input) in
    let o2 := v_wopts (vnth 6 input) in
    let roots2 := vcids (vnth 7 input) in
    let hdrdec := hdr_lookup (vL (vnth 8 input)) in
    let vdiff := negb (Bool.eqb (w_v1 o) (w_v1 o2)) in
    let rdiff := negb (roots_same roots roots2) in
    let pdiff := negb (w_v1 o) && negb (w_v1 o2) && negb (w_dpad o =? w_dpad o2) in
    if vtag (vnth 0 obs) "openerr" then VT "ok"
    else if negb (vdiff || rdiff || pdiff) then VT "ok"       (* nothing the property speaks about *)
    else if vtag (vnth 0 obs) "accepted" then
      (* class of the accepted mismatch, computed from the case *)
      match open_new (v_kind kn) o (is_nil_tag (vnth 3 input)) roots [] with
      | Err _ => fail "mismatch-accepted" "other"
      | Ok s0 =>
        let file := ws_file (end_seg (v_cut (vnth 5 input)) (run_puts s0 (vblocks (vnth 4 input)))) in
        if pdiff && negb vdiff && negb rdiff && negb (finalized_file file) && header_at hdrdec o2 roots2 file
        then fail "mismatch-accepted" "unfinalized-padding-adversarial-data"
        else fail "mismatch-accepted" "other"
      end
    else if vbool (vnth 1 obs) then fail "rejected-but-file-modified" "other"
    else VT "ok".
