(* run entries of the kinds "resume" (C12) and "crash" (C06): val -> val, and the layer-B
   predicates evaluated on what the implementation did. *)
From Coq Require Import Strings.String.
From GoCar Require Import Bytes Varint Cid Header Frame V2Header Index Scan Store Crash Val RunStore.

Definition vtag (v : val) (s : string) : bool :=
  match v with VT t => String.eqb t s | _ => false end.

Definition v_cut (v : val) : cut := if vtag v "finalize" then CFinalize else CDiscard.
Definition v_segs (v : val) : list (list (bytes * bytes) * cut) :=
  map (fun sg => (vblocks (VL (tl (vL sg))), v_cut (vnth 0 sg))) (vL v).

Definition count_root (r : bytes) (rs : list bytes) : nat := length (filter (bytes_eqb r) rs).
(* the same roots, order ignored (what the property calls "the same roots") *)
Definition roots_same (a b : list bytes) : bool :=
  forallb (fun r => Nat.eqb (count_root r a) (count_root r b)) a &&
  forallb (fun r => Nat.eqb (count_root r a) (count_root r b)) b.

(* ---- kind "resume" ---------------------------------------------------------------------------
   (tsegs kind opts roots segs last hdrtab)
       segs = ((tdiscard|tfinalize (cid data) ...) ...)   last = ((cid data) ...)
       -> (tok file_interrupted file_plain) | (treopen-failed file_plain) | (topenerr)
   (tmismatch kind opts roots puts cut opts2 roots2 hdrtab)
       -> (taccepted changed) | (trejected errclass refusal changed) | (topenerr)              *)
Definition refusal_name (r : option refusal) : string :=
  match r with
  | Some (RFirstHeader _) => "first-header" | Some RVersion => "version"
  | Some RNoTruncate => "no-truncate" | Some RDataOffset => "data-offset"
  | Some (RDataHeader _) => "data-header" | Some RMismatch => "mismatch"
  | None => "later"      (* no check refuses: an error of the un-finalize writes or of the scan *)
  end.

(* front-ends of the kind "resume": 5 / 6 = blockstore.OpenReadWriteFile on ONE caller-owned handle
   reused for every reopen (6: the caller moves its cursor in between).  The model has no handle and
   no cursor: same as the blockstore opened by path. *)
Definition v_kind_r (n : N) : skind := if (n =? 5) || (n =? 6) then KBlockstore else v_kind n.

Definition run_resume (input : val) : val :=
  let kn := vN (vnth 1 input) in
  let k := v_kind_r kn in
  let o := v_wopts (vnth 2 input) in
  let nilr := is_nil_tag (vnth 3 input) in
  let roots := vcids (vnth 3 input) in
  match open_new k o nilr roots [] with
  | Err _ => VL [VT "openerr"]
  | Ok s0 =>
    if vtag (vnth 0 input) "segs" then
      let hdrdec := hdr_lookup (vL (vnth 6 input)) in
      let segs := v_segs (vnth 4 input) in
      let last := vblocks (vnth 5 input) in
      let plain := ws_file (fst (fe_finalize (run_puts s0 (concat (map fst segs) ++ last)))) in
      match run_segs hdrdec nilr s0 segs with
      | Some sN => VL [VT "ok"; VB (ws_file (fst (fe_finalize (run_puts sN last)))); VB plain]
      | None => VL [VT "reopen-failed"; VB plain]
      end
    else
      let hdrdec := hdr_lookup (vL (vnth 8 input)) in
      let s1 := end_seg (v_cut (vnth 5 input)) (run_puts s0 (vblocks (vnth 4 input))) in
      let file := ws_file s1 in
      let o2 := v_wopts (vnth 6 input) in
      match reopen hdrdec k o2 (is_nil_tag (vnth 7 input)) (vcids (vnth 7 input)) file with
      | inl s2 => VL [VT "accepted"; v_of_bool (negb (bytes_eqb file (ws_file s2)))]
      | inr (e, dv) =>
        VL [VT "rejected"; v_err e;
            VT (match k, file with
                | KBlockstore, [] => "open-new"
                | _, _ => refusal_name (reopen_refusal hdrdec o2 (vcids (vnth 7 input)) file)
                end);
            v_of_bool (negb (bytes_eqb file (d_file dv)))]
      end
  end.

Definition fail (clause klass : string) : val := VL [VT "FAIL"; VT clause; VT klass].

(* C12 evaluated on the implementation's observation *)
Definition prop_resume (input obs : val) : val :=
  if vtag (vnth 0 input) "segs" then
    let o := v_wopts (vnth 2 input) in
    let hlen := blen (enc_header (roots_opt (is_nil_tag (vnth 3 input)) (vcids (vnth 3 input))) 1) in
    if vtag (vnth 0 obs) "openerr" then VT "ok"
    else if w_maxh o <? hlen then VT "ok"
         (* the session wrote a header larger than its own MaxAllowedHeaderSize: outside
            C12_transparent's hypotheses; only model = code is checked *)
    else if negb (vtag (vnth 0 obs) "ok") then fail "not-transparent" "reopen-failed"
    else if bytes_eqb (vB (vnth 1 obs)) (vB (vnth 2 obs)) then VT "ok"
    else fail "not-transparent" "bytes-differ"
  else
    let kn := vN (vnth 1 input) in
    let o := v_wopts (vnth 2 input) in
    let roots := vcids (vnth 3 input) in
    let o2 := v_wopts (vnth 6 input) in
    let roots2 := vcids (vnth 7 input) in
    let hdrdec := hdr_lookup (vL (vnth 8 input)) in
    let vdiff := negb (Bool.eqb (w_v1 o) (w_v1 o2)) in
    let rdiff := negb (roots_same roots roots2) in
    let pdiff := negb (w_v1 o) && negb (w_v1 o2) && negb (w_dpad o =? w_dpad o2) in
    let hlen0 := blen (enc_header (roots_opt (is_nil_tag (vnth 3 input)) roots) 1) in
    if vtag (vnth 0 obs) "openerr" then VT "ok"
    else if (w_maxh o2 <? hlen0) && negb vdiff && negb pdiff then
      (* the header in the file is above the reopening caller's MaxAllowedHeaderSize: outside the
         hypotheses of (1), (3)-(5); C12_oversized_header_refused: refused, not as a root mismatch,
         untouched; version and padding match, so the refusal is the header read itself *)
      (if vtag (vnth 0 obs) "accepted" then fail "oversized-header-accepted" "other"
       else if vbool (vnth 3 obs) then fail "rejected-but-file-modified" "other"
       else if vtag (vnth 2 obs) "mismatch" then fail "wrong-refusal" "oversized-header"
       else if negb (vtag (vnth 1 obs) "hdr2big" &&
                        vtag (vnth 2 obs) (if w_v1 o2 then "first-header" else "data-header"))
               (* CARv1: the file starts with the oversized header, ResumableVersion's ReadVersion
                  meets it first; CARv2: the first header is the 11-byte pragma *)
       then fail "wrong-refusal" "oversized-header"
       else VT "ok")
    else if negb (vdiff || rdiff || pdiff) then
      (* the same roots (order ignored), version and padding: the reopen must go through *)
      (if vtag (vnth 0 obs) "rejected" then fail "same-roots-rejected" "other" else VT "ok")
    else if vtag (vnth 0 obs) "accepted" then
      (* class of the accepted mismatch, computed from the case *)
      match open_new (v_kind_r kn) o (is_nil_tag (vnth 3 input)) roots [] with
      | Err _ => fail "mismatch-accepted" "other"
      | Ok s0 =>
        let file := ws_file (end_seg (v_cut (vnth 5 input)) (run_puts s0 (vblocks (vnth 4 input)))) in
        if pdiff && negb vdiff && negb rdiff && negb (finalized_file file) && header_at hdrdec o2 roots2 file
        then fail "mismatch-accepted" "unfinalized-padding-adversarial-data"
        else fail "mismatch-accepted" "other"
      end
    else if vbool (vnth 3 obs) then fail "rejected-but-file-modified" "other"
    else
      (* which refusal (C12_reject_version / C12_reject_roots): the version check comes first, a
         root mismatch alone is the "mismatching data header" refusal *)
      let hlen := blen (enc_header (roots_opt (is_nil_tag (vnth 3 input)) roots) 1) in
      let same_limit := (w_maxh o =? w_maxh o2) && (hlen <=? w_maxh o) in
      if same_limit && vdiff && negb (vtag (vnth 2 obs) "version") then fail "wrong-refusal" "version"
      else if same_limit && rdiff && negb vdiff && negb pdiff && negb (vtag (vnth 2 obs) "mismatch")
      then fail "wrong-refusal" "roots"
      else VT "ok".

(* ---- kind "crash" (C06) ------------------------------------------------------------------------
   session = (kind opts roots pre puts fin)      pre as in kind "resume", fin = n0|n1
   (twrites session)
       -> (tsesserr) | ((w ...) ...)   one list per operation of the crashing process (open or
          resume, each Put, Finalize), contiguous writes merged; w = (tat off bytes) | (ttrunc n)
   (timage session units image x inspect hdrtab)
       units: crash point = that many units of the write stream (1 per byte, 1 per truncation)
       image: the crash image built from the OBSERVED writes; x = (cid data) put after the reopen
       inspect: the real Reader.Inspect(true) verdict on the continued, finalized file (oracle: echoed)
       -> (tsesserr) | (imgeq (terr fileafter))
        | (imgeq (tok fileafter keys ((has get) ...) contput contfin final inspect))
          imgeq = 1 iff the image equals the model's own image at that crash point              *)
Definition v_csess (v : val) : csess :=
  mkcs (v_kind (vN (vnth 0 v))) (v_wopts (vnth 1 v)) (is_nil_tag (vnth 2 v)) (vcids (vnth 2 v))
       (v_segs (vnth 3 v)) (vblocks (vnth 4 v)) (vbool (vnth 5 v)).

Definition v_wr (w : wr) : val :=
  match w with WrAt off d => VL [VT "at"; VN off; VB d] | Trunc n => VL [VT "trunc"; VN n] end.

(* writes of the operations of the crashing process: slices of the final log *)
Fixpoint op_slices (ws : list wr) (from : nat) (lens : list nat) : list (list wr) :=
  match lens with
  | [] => []
  | l :: r => firstn (l - from) (skipn from ws) :: op_slices ws l r
  end.
Fixpoint put_loglens (s : wstate) (bs : list (bytes * bytes)) : list nat :=
  match bs with
  | [] => []
  | b :: r => let s' := fst (fe_put s b) in loglen s' :: put_loglens s' r
  end.

Definition class_name (c : cclass) : string :=
  match c with
  | COpen => "open" | CResume => "resume-phase" | CBoundary => "boundary" | CHead => "head"
  | CData => "torn-data" | CIndex => "index-before-header" | CHeader => "torn-header"
  | CComplete => "complete"
  end.

Definition v_hasget (readable_kind : bool) (s : wstate) (b : bytes * bytes) : val :=
  let c := fst b in
  let has := fe_has s c in
  let get := fe_get s c in
  VL [match has with OBool h => v_of_bool h | _ => VT "err" end;
      match get with OBytes d => VB d | _ => VT "err" end].

Definition run_crash (input : val) : val :=
  let x := v_csess (vnth 1 input) in
  if vtag (vnth 0 input) "writes" then
    match cs_start (hdr_lookup []) x with
    | None => VL [VT "sesserr"]
    | Some (f0, start, _) =>
      let ws := cs_writes x start in
      let lens := loglen start :: put_loglens start (cs_puts x) ++
                  (if cs_fin x then [loglen (cs_end x start)] else []) in
      VL (map (fun sl => VL (map v_wr (merge_writes sl))) (op_slices ws 0 lens))
    end
  else
    let hdrdec := hdr_lookup (vL (vnth 6 input)) in
    match cs_start hdrdec x with
    | None => VL [VT "sesserr"]
    | Some (f0, start, _) =>
      let ws := cs_writes x start in
      let '(k, t) := pt_of_units ws (vN (vnth 2 input)) in
      let img := vB (vnth 3 input) in
      let imgeq := v_of_bool (bytes_eqb img (image f0 ws k t)) in
      let isbs := match cs_kind x with KBlockstore => true | _ => false end in
      match reopen hdrdec (cs_kind x) (cs_opts x) (cs_nil x) (cs_roots x) img with
      | inr (_, dv) => VL [imgeq; VL [VT "err"; VB (d_file dv)]]
      | inl s1 =>
        let keys := if isbs then (match bs_allkeys s1 with OKeys ks => v_cids ks | _ => VT "err" end)
                    else VT "nokeys" in
        let xb := (vB (vnth 0 (vnth 4 input)), vB (vnth 1 (vnth 4 input))) in
        let '(s2, r2) := fe_put s1 xb in
        let '(s3, r3) := fe_finalize s2 in
        VL [imgeq; VL [VT "ok"; VB (ws_file s1); keys;
                       VL (map (v_hasget isbs s1) (cs_attempted x));
                       VT (if is_onil r2 then "nil" else "err"); VT (if is_onil r3 then "nil" else "err");
                       VB (ws_file s3); vnth 5 input]]
      end
    end.

(* C06 evaluated on what the implementation did with the crash image *)
Definition prop_crash (input obs : val) : val :=
  if vtag (vnth 0 input) "writes" then VT "ok" else
  let x := v_csess (vnth 1 input) in
  let hdrdec := hdr_lookup (vL (vnth 6 input)) in
  match cs_start hdrdec x with
  | None => VT "ok"
  | Some (f0, start, acked_pre) =>
    if vtag (vnth 0 obs) "sesserr" then VT "ok" else
    let ws := cs_writes x start in
    let '(k, t) := pt_of_units ws (vN (vnth 2 input)) in
    let cl := class_name (crash_class x start k t) in
    let o := cs_opts x in
    let img := vB (vnth 3 input) in
    let acked := cs_acked x start acked_pre k in
    let attempted := cs_attempted x in
    let out := vnth 1 obs in
    if vtag (vnth 0 out) "err" then
      (* refused: every acknowledged section must still be in the file *)
      let sdone := run_puts start (firstn (cs_done x start k) (cs_puts x)) in
      let lim := data_base o + ws_pos sdone in
      let after := vB (vnth 1 out) in
      if bytes_eqb (drop (data_base o) (take lim after)) (drop (data_base o) (take lim img))
      then VT "ok" else fail "error-destroyed-acked-blocks" cl
    else
      let hg := vL (vnth 3 out) in
      let pairs := combine attempted hg in
      let has_of (v : val) := match vnth 0 v with VN n => negb (n =? 0) | _ => false end in
      let get_is (v : val) (d : bytes) := match vnth 1 v with VB g => bytes_eqb g d | _ => false end in
      let lookup (b : bytes * bytes) : val :=
        match find (fun pr => block_eqb b (fst pr)) pairs with Some pr => snd pr | None => VL [] end in
      (* a section above MaxAllowedSectionSize can be put but Get refuses to read it back: outside
         C06_crash_safe_guarded's hypothesis on what is put (as in C04); only Has is required *)
      let over (b : bytes * bytes) := w_maxs o <? blen (fst b) + blen (snd b) in
      if negb (forallb (fun b => has_of (lookup b)) acked) then fail "acked-block-missing" cl
      else if negb (forallb (fun b => over b || get_is (lookup b) (snd b)) acked) then fail "acked-block-corrupt" cl
      else if negb (forallb (fun pr => negb (has_of (snd pr)) || over (fst pr) || get_is (snd pr) (snd (fst pr))) pairs)
      then fail "stored-block-corrupt" cl
      else if (match vnth 2 out with
               | VL ks => negb (forallb (fun kc =>
                              existsb (fun b => match cid_parse (fst b) with
                                                | Some p => bytes_eqb (vB kc) (if w_whole o then fst b else raw_cid p)
                                                | None => false end) attempted) ks)
               | _ => false end)
      then fail "foreign-key" cl
      else
        let xb := (vB (vnth 0 (vnth 4 input)), vB (vnth 1 (vnth 4 input))) in
        if negb (vtag (vnth 4 out) "nil" && vtag (vnth 5 out) "nil") then fail "continuation-failed" cl
        else if negb (wf_final hdrdec o (cs_roots x) (xb :: attempted)
                              (filter (fun b => negb (skipped_identity o b)) (xb :: acked)) (vB (vnth 6 out)))
        then fail "continuation-not-wellformed" cl
        else if negb (vbool (vnth 7 out)) then fail "continuation-rejected-by-inspect" cl
        else VT "ok"
  end.
