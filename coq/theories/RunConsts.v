(* kind "consts": the numeric and byte-string constants the model hard-codes, printed in a fixed
   order so that the harness can compare them with what the library exports today (pragma bytes,
   sizes, default limits, codec numbers).  A change of any of them in the library breaks this
   correspondence on every check (corpus/_common/consts.case is replayed by every check). *)
From Coq Require Import Strings.String.
From GoCar Require Import Bytes Varint Cid Header Frame V2Header Index Store Val.

Definition run_consts (_ : val) : val :=
  VL [ VB pragma;                          (* carv2.Pragma *)
       VN pragma_size;                     (* carv2.PragmaSize *)
       VN v2hdr_size;                      (* carv2.HeaderSize *)
       VN 16;                              (* carv2.CharacteristicsSize *)
       VN default_maxh;                    (* carv2.DefaultMaxAllowedHeaderSize *)
       VN default_maxs;                    (* carv2.DefaultMaxAllowedSectionSize *)
       VN 2048;                            (* carv2.DefaultMaxIndexCidSize *)
       VN root_max_section;                (* util.MaxAllowedSectionSize (root module) *)
       VN codec_sorted;                    (* multicodec.CarIndexSorted *)
       VN codec_mh_sorted;                 (* multicodec.CarMultihashIndexSorted *)
       VN 3145728;                         (* index.CarIndexNone = 0x300000 *)
       VN (h_doff (new_header 0));         (* NewHeader(0).DataOffset *)
       VN (h_ioff (new_header 7));         (* NewHeader(7).IndexOffset *)
       VB (enc_v2hdr (with_data_padding 5 (new_header 9)));  (* header bytes as WriteTo emits them *)
       VB (ld (enc_header (Some []) 1));   (* WriteHeader of an empty (non-nil) root list *)
       VN (uv_size 127); VN (uv_size 128); VN (uv_size 16384); (* varint.UvarintSize *)
       VN codec_insertion;                 (* InsertionIndex.Codec = 0x300003 *)
       VB (enc_v2hdr (set_fully_indexed true (new_header 9)));   (* Characteristics.SetFullyIndexed(true), header bytes *)
       VN (if is_fully_indexed (set_fully_indexed true (new_header 9)) then 1 else 0);                              (* IsFullyIndexed after it *)
       VN (if is_fully_indexed (set_fully_indexed false (set_fully_indexed true (new_header 9))) then 1 else 0)     (* and after SetFullyIndexed(false) *)
     ].
Definition prop_consts (_ _ : val) : val := VT "ok".
