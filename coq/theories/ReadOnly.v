(* Read-only random access: v2/blockstore/readonly.go (NewReadOnly, Has/Get/GetSize/AllKeysChan/
   Roots), v2/storage/storage.go (OpenReadable, Has/Get/GetStream/Roots), the parts of
   v2/reader.go they use (NewReader, DataReader, IndexReader, Roots) and v2/index_gen.go
   (LoadIndex/GenerateIndex over a seekable source).  The backing io.ReaderAt is a byte string;
   the kind of backing (bytes.Reader, ReaderAt-only wrapper, *os.File, mmap) does not appear in
   the model -- the harness varies it and the answers must not depend on it.
   Executable; proofs are in proofs/ReadOnly*.v.  FindCid itself is Store.find_cid. *)
From GoCar Require Import Bytes Varint Cid Header Frame V2Header Scan Index Store.

(* read options that matter here (carv2.Options) *)
Record qopts := mkq {
  q_whole : bool;      (* UseWholeCIDs *)
  q_storeid : bool;    (* StoreIdentityCIDs *)
  q_zeof : bool;       (* ZeroLengthSectionAsEOF *)
  q_maxh : N; q_maxs : N;   (* MaxAllowedHeaderSize / MaxAllowedSectionSize *)
  q_maxcid : N;        (* MaxIndexCidSize (index generation) *)
  q_codec : N }.       (* IndexCodec (index generation by NewReadOnly) *)

(* the index a store holds: a flat index (0x0400 / 0x0401) or an insertion index (storage) *)
Inductive ridx := RFlat (i : index) | RIns (ii : iidx).

(* Index.GetAll(key, fn) with fn never stopping: candidate offsets in index order *)
Definition ridx_getall (x : ridx) (kp : cidp) : list N :=
  match x with
  | RFlat i => idx_getall i (c_mhcode kp) (c_digest kp)
  | RIns ii => ii_getall (c_digest kp) ii
  end.

(* fmt.Errorf("error reading car header: %w", err): io.EOF is no longer io.EOF *)
Definition wrap_hdr_err (e : err) : err :=
  match e with EEof => EOther | e => e end.

Section Oracle.
  Variable hdrdec : bytes -> option (list bytes * N).

  (* ---- carv2.LoadIndex over a seekable source ------------------------------------------- *)
  (* the section loop.  [src] is everything the source shows, [pos] the absolute position in it,
     [base] where src starts in the underlying ReaderAt (io.SectionReader adds it before its
     overflow test), [doff]/[dsize] the CARv2 window when the source itself is a CARv2 (else 0/0).
     Records carry pos - doff. *)
  Fixpoint li_scan (fuel : nat) (o : qopts) (base : N) (src : bytes) (doff dsize : N)
           (pos : N) (acc : list irec) : res (list irec) :=
    match fuel with
    | O => Err EFuel
    | S f =>
      match read_uv (drop pos src) with
      | VEof => Ok (rev acc)
      | VUnexpectedEof => Err EUnexpectedEof
      | VOverflow | VNotMinimal => Err EOther
      | VOk len r1 n1 =>
        if len =? 0 then (if q_zeof o then Ok (rev acc) else Err EOther) else
        match cid_from_reader r1 with
        | CfrEof => Err EEof                       (* CidFromReader's bare io.EOF *)
        | CfrErr _ => Err EOther
        | CfrOk n c p _ =>
          let keep := q_storeid o || negb (is_identity p) in
          if keep && (q_maxcid o <? n) then Err ECidTooLarge else
          let acc' := if keep then mkrec c (c_mhcode p) (c_digest p) (pos - doff) :: acc else acc in
          (* Seek(len - n, SeekCurrent): may go backwards; overflow of the int64 offset errors *)
          let npos := pos + n1 + len in
          if two63 <=? base + npos then Err EOther
          else if negb (dsize =? 0) && (dsize <=? npos - doff) then Ok (rev acc')
          else li_scan f o base src doff dsize npos acc'
        end
      end
    end.

  (* LoadIndex up to (not including) idx.Load: the records, in section order *)
  Definition load_records (o : qopts) (base : N) (src : bytes) : res (list irec) :=
    match read_header hdrdec (q_maxh o) src with
    | Err e => Err (wrap_hdr_err e)
    | Ok (_, ver, rest, used) =>
      if ver =? 1 then li_scan (S (S (length src))) o base src 0 0 used []
      else if ver =? 2 then
        match read_v2hdr rest with
        | Err e => Err e
        | Ok (h, _) =>
          if two63 <=? base + h_doff h then Err EOther          (* Seek(DataOffset, SeekStart) *)
          else
            match read_header hdrdec (q_maxh o) (drop (h_doff h) src) with
            | Err e => Err e
            | Ok (_, v1, _, used1) =>
              if negb (v1 =? 1) then Err EOther
              (* repaired (library commit 5fab8e5): the end-of-payload test comes before the first section
                 is read too, so a payload without sections is not read past its end into what follows *)
              else if negb (h_dsize h =? 0) && (h_dsize h <=? used1) then Ok []
              else li_scan (S (S (length src))) o base src (h_doff h) (h_dsize h)
                           (h_doff h + used1) []
            end
        end
      else Err EOther
    end.

  (* carv2.GenerateIndex: index.New(IndexCodec) then LoadIndex *)
  Definition gen_flat (o : qopts) (base : N) (src : bytes) : res ridx :=
    match idx_new (q_codec o) with
    | None => Err EOther
    | Some i0 =>
      match load_records o base src with
      | Err e => Err e
      | Ok recs => Ok (RFlat (idx_load recs i0))
      end
    end.
  (* LoadIndex into index.NewInsertionIndex() *)
  Definition gen_ins (o : qopts) (base : N) (src : bytes) : res ridx :=
    match load_records o base src with
    | Err e => Err e
    | Ok recs => Ok (RIns (ii_load recs []))
    end.

  (* ---- carv2.NewReader / DataReader / IndexReader / Roots ------------------------------------- *)
  Record v2reader := mkrd { rd_ver : N; rd_hdr : v2hdr; rd_file : bytes }.

  Definition new_reader (maxh : N) (file : bytes) : res v2reader :=
    match read_header hdrdec maxh file with
    | Err e => Err e
    | Ok (_, ver, _, used) =>
      if ver =? 1 then Ok (mkrd 1 (mkv2 0 0 0 0 0) file)
      else if ver =? 2 then
        (* repaired (notes/fixes/C13-newreader-pragma.patch, as in Inspect.new_reader): the CARv2 header is
           read at the fixed offset 11, so a version-2 first header of any other length is refused *)
        if negb (used =? pragma_size) then Err EOther else
        (* io.NewSectionReader(r, PragmaSize, HeaderSize) *)
        match read_v2hdr (take v2hdr_size (drop pragma_size file)) with
        | Err e => Err e
        | Ok (h, _) => Ok (mkrd 2 h file)
        end
      else Err EOther
    end.

  (* what DataReader() shows: the whole backing (CARv1) or SectionReader(DataOffset, DataSize) *)
  Definition data_window (r : v2reader) : bytes :=
    if rd_ver r =? 2 then take (h_dsize (rd_hdr r)) (drop (h_doff (rd_hdr r)) (rd_file r))
    else rd_file r.
  Definition window_base (r : v2reader) : N := if rd_ver r =? 2 then h_doff (rd_hdr r) else 0.
  (* IndexReader(): None for CARv1 / no index, else everything from IndexOffset on *)
  Definition index_window (r : v2reader) : option bytes :=
    if (rd_ver r =? 1) || negb (has_index (rd_hdr r)) then None
    else Some (drop (h_ioff (rd_hdr r)) (rd_file r)).
  Definition reader_roots (maxh : N) (r : v2reader) : res (list bytes) :=
    match read_header hdrdec maxh (data_window r) with
    | Err e => Err e
    | Ok (roots, _, _, _) => Ok roots
    end.

  (* ---- the opened store ----------------------------------------------------------------------- *)
  Record rostate := mkro {
    s_view : bytes;          (* backing: what ReadAt shows from the payload start *)
    s_idx : ridx;
    s_opts : qopts;
    s_v2 : bool;             (* backing is an io.SectionReader (CARv2) rather than the caller's ReaderAt *)
    s_roots : list bytes }.  (* StorageCar.roots (unused by the blockstore) *)

  (* embedded index (HasIndex) or generate from the payload window *)
  Definition embedded_or (gen : qopts -> N -> bytes -> res ridx) (o : qopts) (r : v2reader) : res ridx :=
    match index_window r with
    | Some iw => match idx_read iw with Ok (i, _) => Ok (RFlat i) | Err e => Err e end
    | None => gen o (window_base r) (data_window r)
    end.

  (* blockstore.NewReadOnly(backing, idx, opts...) *)
  Definition ro_open (o : qopts) (file : bytes) (supplied : option ridx) : res rostate :=
    match read_header hdrdec (q_maxh o) file with                    (* readVersion *)
    | Err e => Err e
    | Ok (_, ver, _, _) =>
      if ver =? 1 then
        match (match supplied with Some i => Ok i | None => gen_flat o 0 file end) with
        | Err e => Err e
        | Ok i => Ok (mkro file i o false [])
        end
      else if ver =? 2 then
        match new_reader (q_maxh o) file with
        | Err e => Err e
        | Ok r =>
          match (match supplied with Some i => Ok i | None => embedded_or gen_flat o r end) with
          | Err e => Err e
          | Ok i => Ok (mkro (data_window r) i o true [])
          end
        end
      else Err EOther
    end.

  (* storage.OpenReadable(reader, opts...) *)
  Definition sto_open (o : qopts) (file : bytes) : res rostate :=
    match read_header hdrdec (q_maxh o) file with
    | Err e => Err e
    | Ok (roots, ver, _, _) =>
      if ver =? 1 then
        match gen_ins o 0 file with
        | Err e => Err e
        | Ok i => Ok (mkro file i o false roots)
        end
      else if ver =? 2 then
        match new_reader (q_maxh o) file with
        | Err e => Err e
        | Ok r =>
          match reader_roots (q_maxh o) r with
          | Err e => Err e
          | Ok roots1 =>
            match embedded_or gen_ins o r with
            | Err e => Err e
            | Ok i => Ok (mkro (data_window r) i o true roots1)
            end
          end
        end
      else Err EOther
    end.

  (* ---- queries --------------------------------------------------------------------------------- *)
  (* store.FindCid: the GetAll walk is Store.find_cid; "matched with fnLen = -1" ends as ErrNotFound *)
  (* candidate offsets the index may hold that are not int64: FindCid converts with int64(offset); the
     reader created at the negative offset fails on its first read -- io.EOF from the io.SectionReader
     backing of a CARv2, an error from a plain ReaderAt (bytes.Reader, *os.File, mmap).  Nothing is ever
     read from a wrapped-around position. *)
  Fixpoint int64_prefix (offs : list N) : list N * bool :=
    match offs with
    | [] => ([], false)
    | off :: t => if off <? two63 then let '(p, bad) := int64_prefix t in (off :: p, bad) else ([], true)
    end.

  Definition ro_find (s : rostate) (key : bytes) (kp : cidp) (readbytes : bool) : res (bytes * N * Z) :=
    let o := s_opts s in
    let '(offs, bad) := int64_prefix (ridx_getall (s_idx s) kp) in
    match find_cid (s_view s) offs key kp (q_whole o) (q_zeof o) (q_maxs o) readbytes with
    | Err ENotFound => if bad then Err (if s_v2 s then EEof else EOther) else Err ENotFound
    | Err e => Err e
    | Ok (d, off, n) => if (n =? -1)%Z then Err ENotFound else Ok (d, off, n)
    end.

  (* ReadOnly.Has and (readable-only) StorageCar.Has *)
  Definition ro_has (s : rostate) (key : bytes) : out :=
    match cid_parse key with
    | None => OErr EOther
    | Some kp =>
      if negb (q_storeid (s_opts s)) && is_identity kp then OBool true
      else match ro_find s key kp false with
           | Ok (_, _, n) => OBool (-1 <? n)%Z
           | Err ENotFound => OBool false
           | Err e => OErr e
           end
    end.

  (* ReadOnly.Get *)
  Definition ro_get (s : rostate) (key : bytes) : out :=
    match cid_parse key with
    | None => OErr EOther
    | Some kp =>
      if negb (q_storeid (s_opts s)) && is_identity kp then OBytes (c_digest kp)
      else match ro_find s key kp true with
           | Ok (d, _, _) => OBytes d
           | Err e => OErr e
           end
    end.

  (* ReadOnly.GetSize: identity short-circuit regardless of StoreIdentityCIDs *)
  Definition ro_getsize (s : rostate) (key : bytes) : out :=
    match cid_parse key with
    | None => OErr EOther
    | Some kp =>
      if is_identity kp then OSize (Z.of_N (blen (c_digest kp)))
      else match ro_find s key kp false with
           | Ok (_, _, n) => OSize n
           | Err e => OErr e
           end
    end.

  (* StorageCar.GetStream + io.ReadAll (= StorageCar.Get): io.NewSectionReader(reader, off, size);
     a negative size makes the section reader's limit MaxInt64, i.e. it reads to the end of the view *)
  Definition sto_get (s : rostate) (key : bytes) : out :=
    match cid_parse key with
    | None => OErr EOther
    | Some kp =>
      if negb (q_storeid (s_opts s)) && is_identity kp then OBytes (c_digest kp)
      else match ro_find s key kp false with
           | Ok (_, off, n) =>
               if (n <? 0)%Z then OBytes (drop off (s_view s))
               else OBytes (take (Z.to_N n) (drop off (s_view s)))
           | Err e => OErr e
           end
    end.

  Definition sto_roots (s : rostate) : out := OKeys (s_roots s).

  (* ReadOnly.Roots: header re-read from the backing *)
  Definition ro_roots (s : rostate) : out :=
    match read_header hdrdec (q_maxh (s_opts s)) (s_view s) with
    | Ok (roots, _, _, _) => OKeys roots
    | Err e => OErr (wrap_hdr_err e)
    end.

  (* ReadOnly.AllKeysChan: keys sent on the channel, and the error handed to the async error
     handler (None = the walk ended silently).  The walk starts at carv1.HeaderSize of the
     *re-encoded* decoded header. *)
  Definition key_of (whole : bool) (c : bytes) (p : cidp) : bytes := if whole then c else raw_cid p.

  Fixpoint keys_scan (fuel : nat) (s : rostate) (pos : N) (acc : list bytes) : list bytes * option err :=
    match fuel with
    | O => (rev acc, Some EFuel)
    | S f =>
      match read_uv (drop pos (s_view s)) with
      | VEof => (rev acc, None)
      | VUnexpectedEof => (rev acc, Some EUnexpectedEof)
      | VOverflow | VNotMinimal => (rev acc, Some EOther)
      | VOk len r1 n1 =>
        if len =? 0 then (rev acc, if q_zeof (s_opts s) then None else Some EOther) else
        match cid_from_reader r1 with
        | CfrEof => (rev acc, Some EEof)
        | CfrErr _ => (rev acc, Some EOther)
        | CfrOk n c p _ =>
          let acc' := key_of (q_whole (s_opts s)) c p :: acc in
          let npos := pos + n1 + len in
          (* Seek(thisItem + int64(length), SeekStart) never fails; a wrapped-around offset makes
             the next ReadAt fail: EOF from a SectionReader, an error from a plain ReaderAt *)
          if two63 <=? npos then (rev acc', if s_v2 s then None else Some EOther)
          else keys_scan f s npos acc'
        end
      end
    end.

  Inductive keys_out := KOpenErr (e : err) | KKeys (ks : list bytes) (e : option err).

  Definition ro_keys (s : rostate) : keys_out :=
    match read_header hdrdec (q_maxh (s_opts s)) (s_view s) with
    | Err e => KOpenErr (wrap_hdr_err e)
    | Ok (roots, ver, _, _) =>
      let start := ld_size (blen (enc_header (Some roots) ver)) in
      let '(ks, e) := keys_scan (S (S (length (s_view s)))) s start [] in
      KKeys ks e
    end.
  (* ---- ReadOnly.Close and the closed state -------------------------------------------------------
     closed is checked after the identity short cut (Has/Get: only when StoreIdentityCIDs is off; GetSize:
     always) and not at all by Roots, which re-reads the header from the backing -- that fails only when
     Close closed the backing itself (OpenReadOnly: the mmap).  A second Close is a no-op returning nil. *)
  Record rosess := mkss { ss_st : rostate; ss_closed : bool; ss_mmap : bool }.

  (* RPut / RPutMany / RDelete: the Blockstore interface's write methods, which a ReadOnly refuses with
     errReadOnly whatever its state; RHashOnRead: a no-op; RIndexGetAll key: Index().GetAll(key, ...) on the
     index in use (offsets in index order; none = ErrNotFound) *)
  Inductive roop :=
  | RHas (key : bytes) | RGet (key : bytes) | RGetSize (key : bytes) | RKeys | RRoots | RClose
  | RPut (key data : bytes) | RPutMany (blks : list (bytes * bytes)) | RDelete (key : bytes)
  | RHashOnRead (enabled : bool) | RIndexGetAll (key : bytes).
  Inductive roans := AOut (o : out) | AKeys (k : keys_out) | AReadOnly | AOffs (offs : list N).

  Definition ss_has (ss : rosess) (key : bytes) : out :=
    match cid_parse key with
    | None => OErr EOther
    | Some kp =>
      if negb (q_storeid (s_opts (ss_st ss))) && is_identity kp then OBool true
      else if ss_closed ss then OErr EClosed else ro_has (ss_st ss) key
    end.
  Definition ss_get (ss : rosess) (key : bytes) : out :=
    match cid_parse key with
    | None => OErr EOther
    | Some kp =>
      if negb (q_storeid (s_opts (ss_st ss))) && is_identity kp then OBytes (c_digest kp)
      else if ss_closed ss then OErr EClosed else ro_get (ss_st ss) key
    end.
  Definition ss_getsize (ss : rosess) (key : bytes) : out :=
    match cid_parse key with
    | None => OErr EOther
    | Some kp =>
      if is_identity kp then OSize (Z.of_N (blen (c_digest kp)))
      else if ss_closed ss then OErr EClosed else ro_getsize (ss_st ss) key
    end.

  Definition ss_step (ss : rosess) (op : roop) : rosess * roans :=
    match op with
    | RHas k => (ss, AOut (ss_has ss k))
    | RGet k => (ss, AOut (ss_get ss k))
    | RGetSize k => (ss, AOut (ss_getsize ss k))
    | RKeys => (ss, AKeys (if ss_closed ss then KOpenErr EClosed else ro_keys (ss_st ss)))
    | RRoots => (ss, AOut (if ss_closed ss && ss_mmap ss then OErr EOther else ro_roots (ss_st ss)))
    | RClose => (mkss (ss_st ss) true (ss_mmap ss), AOut ONil)
    | RPut _ _ | RPutMany _ | RDelete _ => (ss, AReadOnly)
    | RHashOnRead _ => (ss, AOut ONil)
    | RIndexGetAll k =>
        (ss, match cid_parse k with
             | Some kp => AOffs (ridx_getall (s_idx (ss_st ss)) kp)
             | None => AOut (OErr EOther)
             end)
    end.

  Fixpoint ss_run (ss : rosess) (ops : list roop) : list roans :=
    match ops with
    | [] => []
    | op :: t => let '(ss', a) := ss_step ss op in a :: ss_run ss' t
    end.
End Oracle.

(* ---- layer B: constructed archives and the reference answers -------------------------------- *)
(* how the index the store ends up with was obtained *)
Inductive idx_source :=
| SrcNone                                  (* CARv1, or CARv2 with IndexOffset = 0: generated on open *)
| SrcEmbedded (codec : N) (withid : bool)  (* CARv2 carrying index.WriteTo of an index generated from
                                              the payload with StoreIdentityCIDs(withid) *)
| SrcSupplied (codec : N) (withid : bool). (* caller-supplied, generated likewise *)

(* the CARv1 payload with optional null padding after the last section *)
(* ro = None: the writer was given a nil root slice (header carries CBOR null) *)
Definition hdr_roots (ro : option (list bytes)) : list bytes :=
  match ro with Some r => r | None => [] end.
Definition payload_np (ro : option (list bytes)) (bs : list block) (npad : N) : bytes :=
  (ld (enc_header ro 1) ++ enc_sections bs) ++ zerosN npad.

(* (cid, payload-relative offset of the section's length varint), identity skipped unless withid *)
Fixpoint sect_records (withid : bool) (pos : N) (bs : list block) : list irec :=
  match bs with
  | [] => []
  | (c, d) :: t =>
    let rest := sect_records withid (pos + section_size c d) t in
    match cid_parse c with
    | Some p => if withid || negb (is_identity p)
                then mkrec c (c_mhcode p) (c_digest p) pos :: rest else rest
    | None => rest
    end
  end.
Definition payload_records (withid : bool) (ro : option (list bytes)) (bs : list block) : list irec :=
  sect_records withid (ld_size (blen (enc_header ro 1))) bs.

Definition flat_of (codec : N) (recs : list irec) : option index :=
  match idx_new codec with Some i0 => Some (idx_load recs i0) | None => None end.

(* CARv2 container: pragma, header, data padding, payload, index padding, optional index *)
Definition v2_file (chi clo : N) (dpad ipad : N) (payload : bytes) (index_bytes : option bytes) : bytes :=
  let doff := 51 + dpad in
  let ioff := match index_bytes with Some _ => doff + blen payload + ipad | None => 0 end in
  pragma ++ enc_v2hdr (mkv2 chi clo doff (blen payload) ioff) ++ zerosN dpad ++ payload ++
  zerosN ipad ++ match index_bytes with Some ib => ib | None => [] end.

(* reference answers from the section list a front-to-back scan yields *)
Definition carries (whole : bool) (key : bytes) (kp : cidp) (b : block) : bool :=
  match cid_parse (fst b) with
  | Some p => key_matches whole key kp (fst b) p
  | None => false
  end.
Definition ref_has (o : qopts) (key : bytes) (kp : cidp) (bs : list block) : bool :=
  (negb (q_storeid o) && is_identity kp) || existsb (carries (q_whole o) key kp) bs.
Definition ref_first (o : qopts) (key : bytes) (kp : cidp) (bs : list block) : option block :=
  find (carries (q_whole o) key kp) bs.
Definition ref_keys (whole : bool) (bs : list block) : list bytes :=
  map (fun b => match cid_parse (fst b) with Some p => key_of whole (fst b) p | None => fst b end) bs.

(* the containers the theorems range over *)
Inductive container :=
| CV1
| CV2 (chi clo dpad ipad : N) (emb : option (N * bool)). (* characteristics, paddings, embedded
                                                            index: (codec, has identity entries) *)

Definition car_file (ct : container) (ro : option (list bytes)) (bs : list block) (npad : N) : option bytes :=
  let p := payload_np ro bs npad in
  match ct with
  | CV1 => Some p
  | CV2 chi clo dpad ipad None => Some (v2_file chi clo dpad ipad p None)
  | CV2 chi clo dpad ipad (Some (codec, wid)) =>
      match flat_of codec (payload_records wid ro bs) with
      | Some i => Some (v2_file chi clo dpad ipad p (Some (idx_write i)))
      | None => None
      end
  end.

(* identity setting of the index the store ends up using: the supplied index's, else the embedded
   index's, else (generated on open) the store's own StoreIdentityCIDs *)
Definition index_wid (o : qopts) (ct : container) (sup : option qopts) : bool :=
  match sup with
  | Some og => q_storeid og
  | None => match ct with CV2 _ _ _ _ (Some (_, wid)) => wid | _ => q_storeid o end
  end.

(* decidable forms of the two content conditions of the random-access read-back theorems (proofs:
   ReadOnlyReaders.consistentb_sound / id_consistentb_sound): sections with equal multihash carry equal
   bytes; identity sections carry their digest.  Both hold of hash-consistent blocks; the harness evaluates
   them on every case's stored blocks. *)
Definition consistentb (bs : list block) : bool :=
  forallb (fun b1 => forallb (fun b2 =>
    match cid_parse (fst b1), cid_parse (fst b2) with
    | Some p1, Some p2 =>
        negb ((c_mhcode p1 =? c_mhcode p2) && bytes_eqb (c_digest p1) (c_digest p2)) || bytes_eqb (snd b1) (snd b2)
    | _, _ => true
    end) bs) bs.
Definition id_consistentb (bs : list block) : bool :=
  forallb (fun b => match cid_parse (fst b) with
                    | Some p => negb (is_identity p) || bytes_eqb (snd b) (c_digest p)
                    | None => true
                    end) bs.
