(* v2/options.go: the option list every entry point takes, and ApplyOptions, which resolves it to
   the Options record: options are applied in order (a later option for a field wins), then a ZERO
   IndexCodec becomes car-multihash-index-sorted and a ZERO MaxIndexCidSize becomes 2 KiB, and
   MaxIndexCidSize is capped at what an index record can hold (32 MiB - 8).  A zero
   MaxAllowedHeaderSize / MaxAllowedSectionSize is NOT replaced: it stays zero (every header / section
   is then "too large").  WithTraversalPrototypeChooser (a function value) is left out. *)
From GoCar Require Import Bytes.

Inductive opt :=
| OZeroLengthSectionAsEOF (b : bool) | OUseDataPadding (n : N) | OUseIndexPadding (n : N)
| OUseIndexCodec (c : N) | OWithoutIndex | OStoreIdentityCIDs (b : bool) | OMaxIndexCidSize (n : N)
| OWithTrustedCAR (b : bool) | OMaxAllowedHeaderSize (n : N) | OMaxAllowedSectionSize (n : N)
| OUseWholeCIDs (b : bool) | OWriteAsCarV1 (b : bool) | OAllowDuplicatePuts (b : bool).

Record options := mkoptions {
  op_data_padding : N; op_index_padding : N; op_index_codec : N; op_zero_len_eof : bool;
  op_max_index_cid : N; op_store_identity : bool; op_allow_dup : bool; op_whole_cids : bool;
  op_max_links : N; op_as_v1 : bool; op_trusted : bool; op_max_header : N; op_max_section : N }.

Definition car_index_none : N := 3145728.            (* index.CarIndexNone *)
Definition opt_default_codec : N := 1025.             (* multicodec.CarMultihashIndexSorted *)
Definition opt_default_max_cid : N := 2048.           (* DefaultMaxIndexCidSize *)
Definition opt_max_indexable_cid : N := 33554424.     (* maxIndexableCidSize = 32<<20 - 8 *)
Definition opt_default_max_header : N := 33554432.
Definition opt_default_max_section : N := 8388608.

(* which field an option writes *)
Definition opt_field (o : opt) : N :=
  match o with
  | OUseDataPadding _ => 0 | OUseIndexPadding _ => 1 | OUseIndexCodec _ | OWithoutIndex => 2
  | OZeroLengthSectionAsEOF _ => 3 | OMaxIndexCidSize _ => 4 | OStoreIdentityCIDs _ => 5
  | OAllowDuplicatePuts _ => 6 | OUseWholeCIDs _ => 7 | OWriteAsCarV1 _ => 9 | OWithTrustedCAR _ => 10
  | OMaxAllowedHeaderSize _ => 11 | OMaxAllowedSectionSize _ => 12
  end.

Definition opt_set (o : opt) (r : options) : options :=
  let '(mkoptions dp ip ic ze mc si ad wc ml v1 tr mh ms) := r in
  match o with
  | OUseDataPadding n => mkoptions n ip ic ze mc si ad wc ml v1 tr mh ms
  | OUseIndexPadding n => mkoptions dp n ic ze mc si ad wc ml v1 tr mh ms
  | OUseIndexCodec c => mkoptions dp ip c ze mc si ad wc ml v1 tr mh ms
  | OWithoutIndex => mkoptions dp ip car_index_none ze mc si ad wc ml v1 tr mh ms
  | OZeroLengthSectionAsEOF b => mkoptions dp ip ic b mc si ad wc ml v1 tr mh ms
  | OMaxIndexCidSize n => mkoptions dp ip ic ze n si ad wc ml v1 tr mh ms
  | OStoreIdentityCIDs b => mkoptions dp ip ic ze mc b ad wc ml v1 tr mh ms
  | OAllowDuplicatePuts b => mkoptions dp ip ic ze mc si b wc ml v1 tr mh ms
  | OUseWholeCIDs b => mkoptions dp ip ic ze mc si ad b ml v1 tr mh ms
  | OWriteAsCarV1 b => mkoptions dp ip ic ze mc si ad wc ml b tr mh ms
  | OWithTrustedCAR b => mkoptions dp ip ic ze mc si ad wc ml v1 b mh ms
  | OMaxAllowedHeaderSize n => mkoptions dp ip ic ze mc si ad wc ml v1 tr n ms
  | OMaxAllowedSectionSize n => mkoptions dp ip ic ze mc si ad wc ml v1 tr mh n
  end.

Definition options_init : options :=
  mkoptions 0 0 0 false 0 false false false 9223372036854775807 false false
            opt_default_max_header opt_default_max_section.

(* zero IndexCodec / MaxIndexCidSize => default; cap *)
Definition resolve_codec (c : N) : N := if c =? 0 then opt_default_codec else c.
Definition resolve_max_cid (n : N) : N :=
  let m := if n =? 0 then opt_default_max_cid else n in
  if opt_max_indexable_cid <? m then opt_max_indexable_cid else m.

Definition options_finalize (r : options) : options :=
  let '(mkoptions dp ip ic ze mc si ad wc ml v1 tr mh ms) := r in
  mkoptions dp ip (resolve_codec ic) ze (resolve_max_cid mc) si ad wc ml v1 tr mh ms.

Definition apply_options (l : list opt) : options :=
  options_finalize (fold_left (fun r o => opt_set o r) l options_init).
