(* entry point of kind "c02load": the loaders (Loaders.v) on a case input, and the layer-B predicate of
   C02 for loaders evaluated on what the implementation did.  Glue: val -> val. *)
From Coq Require Import Strings.String.
From GoCar Require Import Bytes Varint Cid Header Frame V2Header Scan Val RunScan Loaders.

(* fail: () = the store never fails | (n<k>) = store call number k fails *)
Definition v_fail (v : val) : option N :=
  match vL v with [] => None | x :: _ => Some (vN x) end.

Definition v_load (lo : load_out) : val :=
  VL [VL (map v_blocks (l_calls lo));
      match l_res lo with
      | Ok roots => VL [VT "ok"; v_cids roots]
      | Err e => VL [VT "err"; v_err e]
      end].

(* input: (loader kind, fast, fail, file, hok table, hdr table, expect)
   loader kinds: 1 = internal carv1.LoadCar (verif hook), 2 = root-module car.LoadCar
   fast: the store has a PutMany method *)
Definition run_c02load (input : val) : val :=
  let kind := vN (vnth 0 input) in
  let fast := vbool (vnth 1 input) in
  let fail := v_fail (vnth 2 input) in
  let file := vB (vnth 3 input) in
  let hok := hok_lookup (vL (vnth 4 input)) in
  let hdr := hdr_lookup (vL (vnth 5 input)) in
  if kind =? 1 then v_load (carv1_load hok hdr fast fail file)
  else v_load (root_load hok hdr fast fail file).

(* expect (field 6) says how the file was derived from a constructed valid archive:
     (tnone) | (ttrunc origblocks nonboundary nwhole) | (tcorrupt origblocks i)
   nwhole = number of complete sections in the prefix.  Clauses, on the implementation's outcome
   (store calls with their blocks, result):
     - every block handed to the store hashes to its CID;
     - a store call failed and the loader still returned nil;
     - truncation: only original blocks, in order, reach the store; a cut that is not on a section
       boundary is never loaded with a nil error; a nil error means every complete block in front of
       the cut was stored; on the Put path without store faults nothing in front of the cut is lost;
     - corruption of block i: never a nil error; only blocks in front of block i reach the store. *)
Definition prop_c02load (input obs : val) : val :=
  let fast := vbool (vnth 1 input) in
  let fail := v_fail (vnth 2 input) in
  let hok := hok_lookup (vL (vnth 4 input)) in
  let expect := vnth 6 input in
  let calls := map vblocks (vL (vnth 0 obs)) in
  let stored := concat calls in
  let ok := is_tag (vnth 0 (vnth 1 obs)) "ok" in
  let fault_hit := match fail with Some k => k <? N.of_nat (length calls) | None => false end in
  if negb (forallb (block_hash_ok hok) stored)
  then VL [VT "FAIL"; VT "stored-block-hash-mismatch"]
  else if ok && fault_hit
  then VL [VT "FAIL"; VT "store-error-swallowed"]
  else if is_tag (vnth 0 expect) "trunc" then
    let orig := vblocks (vnth 1 expect) in
    let nwhole := N.to_nat (vN (vnth 3 expect)) in
    if negb (blocks_prefix stored orig) then VL [VT "FAIL"; VT "truncation-stored-foreign-block"]
    else if vbool (vnth 2 expect) && ok then VL [VT "FAIL"; VT "truncation-loaded-as-complete"]
    else if ok && negb (blocks_eqb stored (firstn nwhole orig))
    then VL [VT "FAIL"; VT "success-without-all-blocks-stored"]
    else if negb fast && negb fault_hit && negb (blocks_eqb stored (firstn nwhole orig))
    then VL [VT "FAIL"; VT "put-path-lost-or-added-blocks"]
    else VT "ok"
  else if is_tag (vnth 0 expect) "corrupt" then
    let orig := vblocks (vnth 1 expect) in
    let i := N.to_nat (vN (vnth 2 expect)) in
    if ok then VL [VT "FAIL"; VT "corruption-loaded-as-complete"]
    else if negb (blocks_prefix stored (firstn i orig)) then VL [VT "FAIL"; VT "corruption-wrong-blocks-stored"]
    else VT "ok"
  else VT "ok".
