(* entry points of the transform kinds (xwrap, xextract, xrtrip, xreplace): val -> val, and the
   layer-B predicates evaluated on what the implementation did.  Glue only. *)
From Coq Require Import Strings.String.
From GoCar Require Import Bytes Varint Cid Header Frame V2Header Scan Index IndexGen Val RunScan Transform.

(* (maxh zeof codec storeid maxcid maxseek) *)
Definition v_xopts (v : val) : xopts :=
  mkxopts (vN (vnth 0 v)) (vbool (vnth 1 v)) (vN (vnth 2 v)) (vbool (vnth 3 v))
          (vN (vnth 4 v)) (vN (vnth 5 v)).

(* optional fields 6, 7 of the options: UseDataPadding, UseIndexPadding as passed to WrapV1 *)
Definition v_wrapopts (v : val) : wrapopts := mkwrapopts (v_xopts v) (vN (vnth 6 v)) (vN (vnth 7 v)).

Definition v_file (f : file) : val :=
  match f with None => VL [VT "absent"] | Some b => VL [VT "file"; VB b] end.
Definition file_of_v (v : val) : file :=
  if is_tag (vnth 0 v) "file" then Some (vB (vnth 1 v)) else None.
(* (tsame) | (tabsent) | (tfile b) *)
Definition dest_of_v (v : val) : dest :=
  resolve_dest
    (if is_tag (vnth 0 v) "same" then PSame
     else if is_tag (vnth 0 v) "symlink" then PSymlink
     else if is_tag (vnth 0 v) "hardlink" then PHardlink
     else if is_tag (vnth 0 v) "unclean" then PUnclean
     else if is_tag (vnth 0 v) "relative" then PRelative
     else POther (file_of_v v)).

Definition v_res (r : res unit) : val := match r with Ok _ => VT "nil" | Err e => v_err e end.
Definition v_xres (r : xres) : val :=
  match r with XOk => VT "nil" | XAlreadyV1 => VT "alreadyv1" | XErr e => v_err e end.

(* observation of a two-path operation: (error, source file after, destination file after) *)
Definition v_fs_obs (e : val) (s : fs2) : val := VL [e; v_file (f_src s); v_file (dst_content s)].

Definition file_eqb (a b : file) : bool :=
  match a, b with
  | None, None => true
  | Some x, Some y => bytes_eqb x y
  | _, _ => false
  end.

Definition fail (clause : string) : val := VL [VT "FAIL"; VT clause].

(* multiset equality of offset lists (GetAll's order inside equal digests is sort.Sort's) *)
Fixpoint ins_n (x : N) (l : list N) : list N :=
  match l with [] => [x] | y :: t => if x <=? y then x :: l else y :: ins_n x t end.
Definition sort_n (l : list N) : list N := fold_right ins_n [] l.
Fixpoint list_n_eqb (a b : list N) : bool :=
  match a, b with
  | [], [] => true
  | x :: a', y :: b' => (x =? y) && list_n_eqb a' b'
  | _, _ => false
  end.
Definition perm_n_eqb (a b : list N) : bool := list_n_eqb (sort_n a) (sort_n b).

Definition g_of_x (o : xopts) : gopts := mkgopts (x_zeof o) (x_maxh o) (x_storeid o) (x_maxcid o).

(* the conclusion of C10_wrap_index_correct evaluated on the implementation's index bytes: they
   read back entirely, and for the key of every section GetAll answers exactly the offsets of the
   indexed sections carrying that key *)
Definition index_resolves (o : xopts) (idxbytes : bytes) (hl : N) (blocks : list block) : bool :=
  match idx_read idxbytes with
  | Ok (i, []) =>
    forallb (fun b : block =>
               match cid_parse (fst b) with
               | Some p =>
                 perm_n_eqb (idx_getall i (c_mhcode p) (c_digest p))
                            (spec_lookup (g_of_x o) (negb (x_codec o =? codec_sorted))
                                         (c_mhcode p) (c_digest p) hl blocks)
               | None => false
               end) blocks
  | _ => false
  end.

(* ---- xwrap: (opts, mode, x, hdr table, expect) --------------------------------------------
   mode 0: WrapV1(bytes.Reader, bytes.Buffer); 1: WrapV1File to an absent path; 2: WrapV1File
   over an existing file (field 5 = its content); 3: WrapV1File onto the source path.
   expect: (tvalid roots blocks) when x = enc_payload roots blocks was constructed, else (tnone) *)
Definition wrap_fs (input : val) : fs2 :=
  let mode := vN (vnth 1 input) in
  let x := vB (vnth 2 input) in
  if (mode =? 3) || (mode =? 5) || (mode =? 6) then mkfs (Some x) DSame
  else if mode =? 2 then mkfs (Some x) (DOther (Some (vB (vnth 5 input))))
  else mkfs (Some x) (DOther None).

Definition run_xwrap (input : val) : val :=
  let o := v_xopts (vnth 0 input) in
  let hdr := hdr_lookup (vL (vnth 3 input)) in
  let mode := vN (vnth 1 input) in
  if mode =? 0 then
    (* in memory: no file is created; on error nothing was written *)
    match wrap_bytes_opts hdr sort_by_digest (v_wrapopts (vnth 0 input)) (vB (vnth 2 input)) with
    | Ok w => VL [VT "nil"; v_file (Some (vB (vnth 2 input))); v_file (Some w)]
    | Err e => VL [v_err e; v_file (Some (vB (vnth 2 input))); v_file (Some [])]
    end
  else
    let '(r, s) := wrap_file hdr o (wrap_fs input) in v_fs_obs (v_res r) s.

Definition prop_xwrap (input obs : val) : val :=
  let o := v_xopts (vnth 0 input) in
  let mode := vN (vnth 1 input) in
  let x := vB (vnth 2 input) in
  let expect := vnth 4 input in
  let ok := is_tag (vnth 0 obs) "nil" in
  let out := match file_of_v (vnth 2 obs) with Some b => b | None => [] end in
  if (mode =? 3) || (mode =? 5) || (mode =? 6)
  then VT "ok"      (* the source was truncated by os.Create: nothing is claimed *)
  else if ok && negb (bytes_eqb (take (51 + blen x) out)
                                (pragma ++ enc_v2hdr (new_header (blen x)) ++ x))
  then fail "wrap-payload-not-verbatim"
  else if negb (file_eqb (file_of_v (vnth 1 obs)) (Some x))
  then fail "wrap-source-modified"
  (* whatever x and whatever was at the destination path before: after the payload comes exactly
     one serialized index and nothing else (os.Create truncated the previous file) *)
  else if ok && negb (match idx_read (drop (51 + blen x) out) with Ok (_, []) => true | _ => false end)
  then fail "wrap-destination-not-exactly-pragma-header-payload-index"
  else if is_tag (vnth 0 expect) "valid" then
    let roots := vcids (vnth 1 expect) in
    let blocks := vblocks (vnth 2 expect) in
    (* the expectation itself must describe x *)
    if negb (bytes_eqb x (enc_payload roots blocks)) then fail "harness-expectation-mismatch"
    else if negb (wrap_guard o roots blocks) then VT "ok"  (* options make LoadIndex refuse x *)
    else
      match idx_new (x_codec o) with
      | None => if ok then fail "wrap-succeeded-with-unknown-codec" else VT "ok"
      | Some i0 =>
        if negb ok then fail "wrap-of-valid-carv1-failed" else
        let recs := spec_records (x_storeid o) (blen (ld (enc_header (Some roots) 1))) blocks in
        if negb (bytes_eqb (drop (51 + blen x) out) (idx_write (idx_load recs i0))) then fail "wrap-index-wrong"
        else if index_resolves o (drop (51 + blen x) out) (blen (ld (enc_header (Some roots) 1))) blocks
        then VT "ok" else fail "wrap-index-does-not-resolve-sections"
      end
  else if is_tag (vnth 0 expect) "carv2" then
    (* x is a CARv2 built around enc_payload roots blocks: the appended index is the inner payload's *)
    let roots := vcids (vnth 1 expect) in
    let blocks := vblocks (vnth 2 expect) in
    let guard :=
      (10 <=? x_maxh o) && (blen (enc_header (Some roots) 1) <=? x_maxh o) &&
      forallb (fun b => negb (keep_cid (x_storeid o) (fst b)) || (blen (fst b) <=? x_maxcid o)) blocks &&
      seek_ok o (blen x) in
    if negb guard then VT "ok"
    else
      match idx_new (x_codec o) with
      | None => if ok then fail "wrap-succeeded-with-unknown-codec" else VT "ok"
      | Some i0 =>
        if negb ok then fail "wrap-of-valid-carv2-source-failed" else
        let recs := spec_records (x_storeid o) (blen (ld (enc_header (Some roots) 1))) blocks in
        if bytes_eqb (drop (51 + blen x) out) (idx_write (idx_load recs i0)) then VT "ok"
        else fail "wrap-index-wrong"
      end
  else VT "ok".

(* ---- xextract: (opts, a, dest, hdr table, expect, c) --------------------------------------
   expect: (twindow doff dsize) when a was built as a CARv2 holding dsize bytes at doff *)
Definition run_xextract (input : val) : val :=
  let o := v_xopts (vnth 0 input) in
  let hdr := hdr_lookup (vL (vnth 3 input)) in
  let c := vN (vnth 5 input) in
  let s := mkfs (Some (vB (vnth 1 input))) (dest_of_v (vnth 2 input)) in
  let '(r, s') := extract_file hdr (fun _ => c) o s in v_fs_obs (v_xres r) s'.

Definition prop_xextract (input obs : val) : val :=
  let o := v_xopts (vnth 0 input) in
  let hdr := hdr_lookup (vL (vnth 3 input)) in
  let a := vB (vnth 1 input) in
  let same := is_same (dest_of_v (vnth 2 input)) in
  let expect := vnth 4 input in
  let ok := is_tag (vnth 0 obs) "nil" in
  let srcf := file_of_v (vnth 1 obs) in
  let dstf := file_of_v (vnth 2 obs) in
  if negb same && negb (file_eqb srcf (Some a)) then fail "extract-source-modified"
  else if is_tag (vnth 0 expect) "window" then
    let doff := vN (vnth 1 expect) in
    let dsize := vN (vnth 2 expect) in
    if negb ok then fail "extract-of-valid-carv2-failed"
    else if file_eqb dstf (Some (take dsize (drop doff a))) then VT "ok"
    else fail "extract-not-exact-payload"
  else if is_tag (vnth 0 expect) "short" then
    (* the header declares a window that runs past the end of the file *)
    if ok then fail "extract-short-source-succeeded" else VT "ok"
  else if ok then
    (* whatever the file: success means the destination is exactly the declared window *)
    match read_header hdr (x_maxh o) a with
    | Ok (_, _, rest, _) =>
      match read_v2hdr rest with
      | Ok (h, _) =>
        if file_eqb dstf (Some (payload_window h a)) && (blen (payload_window h a) =? h_dsize h)
        then VT "ok" else fail "extract-ok-but-not-the-window"
      | Err _ => fail "extract-ok-on-bad-v2-header"
      end
    | Err _ => fail "extract-ok-on-unreadable-pragma"
    end
  else VT "ok".

(* ---- xrtrip: (opts, x, dest, hdr table, c): WrapV1File(x -> tmp); ExtractV1File(tmp -> dest),
   [same] meaning in place on tmp.  obs: (wrap error, extract error, final destination file) *)
Definition run_xrtrip (input : val) : val :=
  let o := v_xopts (vnth 0 input) in
  let hdr := hdr_lookup (vL (vnth 3 input)) in
  let c := vN (vnth 4 input) in
  let x := vB (vnth 1 input) in
  let '(rw, sw) := wrap_file hdr o (mkfs (Some x) (DOther None)) in
  match rw with
  | Err e => VL [v_err e; VT "skipped"; v_file None]
  | Ok _ =>
    let s := mkfs (dst_content sw) (dest_of_v (vnth 2 input)) in
    let '(r, s') := extract_file hdr (fun _ => c) o s in
    VL [VT "nil"; v_xres r; v_file (dst_content s')]
  end.

Definition prop_xrtrip (input obs : val) : val :=
  let x := vB (vnth 1 input) in
  if negb (is_tag (vnth 0 obs) "nil") then VT "ok"
  else if negb (is_tag (vnth 1 obs) "nil") then fail "extract-of-wrap-failed"
  else if file_eqb (file_of_v (vnth 2 obs)) (Some x) then VT "ok"
  else fail "extract-of-wrap-differs".

(* ---- xreplace: (opts, a, roots, hdr table, expect) ----------------------------------------
   roots: (tnil) | (tsome (cid ...)); expect: (thdr off len) when a holds a framed CARv1 header of
   len bytes at off (0 for a CARv1 file, the data offset for a CARv2), else (tnone) *)
Definition roots_of_v (v : val) : option (list bytes) :=
  if is_tag (vnth 0 v) "some" then Some (vcids (vnth 1 v)) else None.

Definition run_xreplace (input : val) : val :=
  let o := v_xopts (vnth 0 input) in
  let hdr := hdr_lookup (vL (vnth 3 input)) in
  let '(r, f) := replace_roots hdr o (Some (vB (vnth 1 input))) (roots_of_v (vnth 2 input)) in
  VL [v_res r; v_file f].

Definition prop_xreplace (input obs : val) : val :=
  let a := vB (vnth 1 input) in
  let nh := new_header_bytes (roots_of_v (vnth 2 input)) in
  let expect := vnth 4 input in
  let ok := is_tag (vnth 0 obs) "nil" in
  let f := file_of_v (vnth 1 obs) in
  if negb ok then
    (if file_eqb f (Some a) then
       (if is_tag (vnth 0 expect) "hdr" && (vN (vnth 2 expect) =? blen nh)
        then fail "replace-same-size-refused" else VT "ok")
     else fail "replace-failed-but-file-changed")
  else
    match f with
    | None => fail "replace-file-vanished"
    | Some b =>
      if negb (blen b =? blen a) then fail "replace-changed-file-length"
      else if is_tag (vnth 0 expect) "hdr" then
        let off := vN (vnth 1 expect) in
        let len := vN (vnth 2 expect) in
        if negb (len =? blen nh) then fail "replace-different-size-accepted"
        else if bytes_eqb b (take off a ++ nh ++ drop (off + len) a) then VT "ok"
        else fail "replace-touched-bytes-outside-header"
      else
        (* unknown structure: only a window of |nh| bytes may differ, and it holds nh *)
        let n := blen nh in
        let fix find (fuel : nat) (x y : bytes) : bool :=
          match fuel with
          | O => false
          | S k =>
            if bytes_eqb (take n y) nh && bytes_eqb (drop n x) (drop n y) then true
            else match x, y with
                 | p :: x', q :: y' => byte_eqb p q && find k x' y'
                 | _, _ => false
                 end
          end in
        if find (S (length a)) a b then VT "ok" else fail "replace-touched-bytes-outside-header"
    end.

(* ---- xwrapmany: (opts, n, seed, idEvery) -------------------------------------------------------
   a CARv1 of n distinct blocks (every idEvery-th with an identity CID) through WrapV1, judged by
   layer B only: obs = (error, sections, sections that must be indexed, how many of those the
   appended index resolves to their offset, records in the index, payload verbatim & nothing after
   the index).  The expected observation follows from the parameters alone. *)
Definition many_indexed (o : xopts) (n idevery : N) : N :=
  if x_storeid o || (idevery =? 0) then n else n - n / idevery.

Definition run_xwrapmany (input : val) : val :=
  let o := v_xopts (vnth 0 input) in
  let n := vN (vnth 1 input) in
  let k := many_indexed o n (vN (vnth 3 input)) in
  VL [VT "nil"; VN n; VN k; VN k; VN k; VN 1].

Definition prop_xwrapmany (input obs : val) : val :=
  let o := v_xopts (vnth 0 input) in
  let k := many_indexed o (vN (vnth 1 input)) (vN (vnth 3 input)) in
  if negb (is_tag (vnth 0 obs) "nil") then fail "wrap-of-valid-carv1-failed"
  else if negb (vbool (vnth 5 obs)) then fail "wrap-payload-not-verbatim"
  else if negb (vN (vnth 2 obs) =? k) then fail "harness-expectation-mismatch"
  else if negb (vN (vnth 3 obs) =? k) then fail "wrap-index-does-not-resolve-sections"
  else if negb (vN (vnth 4 obs) =? k) then fail "wrap-index-wrong"
  else VT "ok".

(* ---- xattach: (file, index bytes, offset, expect) ------------------------------------------------
   expect: (twindow doff dsize) when the file is a CARv2 holding dsize bytes at doff and the offset
   lies at or after doff+dsize *)
Definition run_xattach (input : val) : val :=
  match idx_read (vB (vnth 1 input)) with
  | Ok (i, []) =>
    let '(r, f) := attach_index (file_of_v (vnth 0 input)) i (vN (vnth 2 input)) in
    VL [v_res r; v_file f]
  | _ => VT "harness-bad-index"
  end.

Definition prop_xattach (input obs : val) : val :=
  let a := match file_of_v (vnth 0 input) with Some b => b | None => [] end in
  let ib := vB (vnth 1 input) in
  let off := vN (vnth 2 input) in
  let expect := vnth 3 input in
  let ok := is_tag (vnth 0 obs) "nil" in
  let out := match file_of_v (vnth 1 obs) with Some b => b | None => [] end in
  if negb ok then
    (if off <? two63 then fail "attach-failed" else
     if bytes_eqb out a then VT "ok" else fail "attach-failed-but-file-changed")
  else if negb (bytes_eqb (take (blen ib) (drop off out)) ib) then fail "attach-index-not-at-offset"
  else if negb (bytes_eqb (take off out) (take off a ++ zerosN (off - blen a)))
  then fail "attach-touched-bytes-before-offset"
  else if negb (bytes_eqb (drop (off + blen ib) out) (drop (off + blen ib) a))
  then fail "attach-touched-bytes-after-index"
  else if is_tag (vnth 0 expect) "window" then
    let doff := vN (vnth 1 expect) in
    let dsize := vN (vnth 2 expect) in
    if bytes_eqb (take dsize (drop doff out)) (take dsize (drop doff a)) && bytes_eqb (take 51 out) (take 51 a)
    then VT "ok" else fail "attach-changed-payload"
  else VT "ok".

(* ---- xseq: (x, ops, hdr table, c, expect) --------------------------------------------------------
   op = (twrap opts) | (textract opts) | (treplace opts roots) | (tattach indexbytes off);
   expect: (tblocks blocks) when x = enc_payload roots blocks for some roots.
   obs = ((error ...) final file) *)
Definition xop_of_v (v : val) : xop :=
  if is_tag (vnth 0 v) "wrap" then OWrap (v_xopts (vnth 1 v))
  else if is_tag (vnth 0 v) "extract" then OExtract (v_xopts (vnth 1 v))
  else if is_tag (vnth 0 v) "replace" then OReplace (v_xopts (vnth 1 v)) (roots_of_v (vnth 2 v))
  else match idx_read (vB (vnth 1 v)) with
       | Ok (i, _) => OAttach i (vN (vnth 2 v))
       | Err _ => OAttach (IdxSorted []) (vN (vnth 2 v))
       end.

Definition run_xseq (input : val) : val :=
  let hdr := hdr_lookup (vL (vnth 2 input)) in
  let c := vN (vnth 3 input) in
  let '(rs, a) := xrun hdr sort_by_digest (fun _ => c) (map xop_of_v (vL (vnth 1 input))) (vB (vnth 0 input)) in
  VL [VL (map v_xres rs); v_file (Some a)].

Definition prop_xseq (input obs : val) : val :=
  let hdr := hdr_lookup (vL (vnth 2 input)) in
  let c := vN (vnth 3 input) in
  let expect := vnth 4 input in
  let ops := map xop_of_v (vL (vnth 1 input)) in
  let x := vB (vnth 0 input) in
  if is_tag (vnth 0 expect) "blocks" then
    if negb (seq_guard hdr sort_by_digest (fun _ => c) ops x) then VT "ok"
    else
      match file_of_v (vnth 1 obs) with
      | Some out =>
        match innermost_sections hdr 8 out with
        | Some secs => if bytes_eqb secs (enc_sections (vblocks (vnth 1 expect))) then VT "ok"
                       else fail "sequence-changed-the-block-sequence"
        | None => fail "sequence-left-an-unreadable-file"
        end
      | None => fail "sequence-left-an-unreadable-file"
      end
  else VT "ok".
