(* File-system model and the extraction walk of `car extract`
   (cmd/car/lib/extract.go: ExtractToDir / resolvePath / extractDir / extractFile;
    cmd/car/extract.go: ExtractCar / pathSegments).

   Layer A.  What is transcribed:
     - a file system: finite map  physical path -> Dir | File bytes | Link target
     - kernel path resolution (namei) with ".", "..", empty components, trailing slashes,
       symbolic links in the middle and at the end, MAXSYMLINKS = 40, NAME_MAX = 255
     - lstat / stat / mkdir / symlink / open(O_CREAT|O_TRUNC) on top of it
     - Go: path.Clean / path.Join / path.Dir / filepath.Rel("/", .) on *parsed* paths
       (absolute flag + components; the string form is only produced/consumed at the
       boundary, see DESIGN notes/design/C17.md), filepath.EvalSymlinks (walkSymlinks, 255
       links), os.MkdirAll (its parent recursion with trailing slashes), os.Create, os.Symlink
     - the extraction walk over an abstract UnixFS tree (what Reify / the loaders yield is an
       oracle: the tree is given).
   No proofs here. *)
From GoCar Require Import Bytes.

(* ------------------------------------------------------------------------------------ *)
(* names, physical paths, the file system                                                *)

Definition name := bytes.
Definition phys := list name.         (* absolute physical path, components from "/" *)

Inductive node :=
| NDir
| NFile (data : bytes)
| NLink (target : bytes).

Definition fsmap := list (phys * node).

Fixpoint phys_eqb (a b : phys) : bool :=
  match a, b with
  | [], [] => true
  | x :: a', y :: b' => bytes_eqb x y && phys_eqb a' b'
  | _, _ => false
  end.

Fixpoint assoc (fs : fsmap) (p : phys) : option node :=
  match fs with
  | [] => None
  | (q, n) :: t => if phys_eqb p q then Some n else assoc t p
  end.

(* "/" always exists and is a directory *)
Definition look (fs : fsmap) (p : phys) : option node :=
  match p with
  | [] => Some NDir
  | _ => assoc fs p
  end.

Definition fs_set (fs : fsmap) (p : phys) (n : node) : fsmap := (p, n) :: fs.

(* ------------------------------------------------------------------------------------ *)
(* path strings                                                                          *)

Definition c_slash : byte := x2f.
Definition c_dot : byte := x2e.
Definition s_dot : name := [c_dot].
Definition s_dotdot : name := [c_dot; c_dot].

Definition is_empty (c : name) : bool := match c with [] => true | _ => false end.
Definition is_dot (c : name) : bool := bytes_eqb c s_dot.
Definition is_dotdot (c : name) : bool := bytes_eqb c s_dotdot.
(* a component that names a directory entry *)
Definition normalb (c : name) : bool := negb (is_empty c || is_dot c || is_dotdot c).

(* strings.Split(s, "/") : never the empty list *)
Fixpoint split_slash (s : bytes) : list name :=
  match s with
  | [] => [[]]
  | c :: t =>
    if byte_eqb c c_slash then [] :: split_slash t
    else match split_slash t with
         | h :: r => (c :: h) :: r
         | [] => [[c]]
         end
  end.

Definition is_abs (s : bytes) : bool :=
  match s with c :: _ => byte_eqb c c_slash | [] => false end.

Definition has_nul (s : bytes) : bool := existsb (fun b => byte_eqb b x00) s.

(* A *clean* path (the result of path.Clean):  "/" names | "../"^ups names | "." when all empty.
   n_ups is only meaningful for relative paths (it stays 0 for absolute ones). *)
Record npath := mknp { n_abs : bool; n_ups : nat; n_names : list name }.

Definition np_root : npath := mknp true 0 [].
Definition np_here : npath := mknp false 0 [].

(* apply one raw component lexically (what Clean does with it) *)
Definition n_push (p : npath) (c : name) : npath :=
  if is_empty c || is_dot c then p
  else if is_dotdot c then
    match n_names p with
    | [] => if n_abs p then p else mknp false (S (n_ups p)) []
    | _ => mknp (n_abs p) (n_ups p) (removelast (n_names p))
    end
  else mknp (n_abs p) (n_ups p) (n_names p ++ [c]).

Definition n_apply (p : npath) (cs : list name) : npath := fold_left n_push cs p.

(* path.Clean(s) *)
Definition clean (s : bytes) : npath :=
  n_apply (if is_abs s then np_root else np_here) (split_slash s).

(* path.Join(p, s) for a non-empty clean p : Clean(p + "/" + s) *)
Definition join (p : npath) (s : bytes) : npath := n_apply p (split_slash s).

(* path.Dir of a clean path *)
Definition ndir (p : npath) : npath :=
  match n_names p with
  | [] => if n_abs p then p else mknp false (pred (n_ups p)) []
  | _ => mknp (n_abs p) (n_ups p) (removelast (n_names p))
  end.

Fixpoint names_eqb (a b : list name) : bool :=
  match a, b with
  | [], [] => true
  | x :: a', y :: b' => bytes_eqb x y && names_eqb a' b'
  | _, _ => false
  end.

(* string equality of two clean paths *)
Definition npath_eqb (a b : npath) : bool :=
  Bool.eqb (n_abs a) (n_abs b) && Nat.eqb (n_ups a) (n_ups b) && names_eqb (n_names a) (n_names b).

(* the components the kernel sees when handed the string of a clean path *)
Definition n_comps (p : npath) : list name :=
  repeat s_dotdot (if n_abs p then O else n_ups p) ++ n_names p.

(* the string form (only used for printing) *)
Fixpoint join_slash (cs : list name) : bytes :=
  match cs with
  | [] => []
  | [c] => c
  | c :: t => c ++ c_slash :: join_slash t
  end.
Definition unparse (p : npath) : bytes :=
  if n_abs p then c_slash :: join_slash (n_names p)
  else match n_comps p with [] => s_dot | cs => join_slash cs end.

(* ------------------------------------------------------------------------------------ *)
(* the kernel                                                                            *)

Inductive kerr := ENOENT | ENOTDIR | ELOOP | ENAMETOOLONG | EINVAL | EEXIST | EISDIR.

Inductive kres :=
| KOk (p : phys) (n : option node)   (* resolved to physical path p; None: last component does
                                        not exist but its parent directory does *)
| KErr (e : kerr).

Definition name_too_long (c : name) : bool := 255 <? blen c.

(* Path resolution starting in directory [cur] (the root [] for absolute paths, the working
   directory otherwise).  [follow]: whether a symbolic link in the last component is followed
   (stat/open) or not (lstat/mkdir/symlink).  [links]: symlink expansions still allowed. *)
Fixpoint kwalk (links : nat) (fs : fsmap) (follow : bool) (cur : phys) (comps : list name)
  {struct links} : kres :=
  (fix go (cur : phys) (comps : list name) {struct comps} : kres :=
     match comps with
     | [] => KOk cur (look fs cur)
     | c :: rest =>
       if is_empty c || is_dot c then go cur rest
       else if is_dotdot c then go (removelast cur) rest
       else if name_too_long c then KErr ENAMETOOLONG
       else
         let p := cur ++ [c] in
         match look fs p with
         | None => if forallb is_empty rest then KOk p None else KErr ENOENT
         | Some NDir => go p rest
         | Some (NFile d) => match rest with [] => KOk p (Some (NFile d)) | _ => KErr ENOTDIR end
         | Some (NLink t) =>
           if (match rest with [] => negb follow | _ => false end)
           then KOk p (Some (NLink t))
           else match links with
                | O => KErr ELOOP
                | S l =>
                  match t with
                  | [] => KErr ENOENT
                  | _ => kwalk l fs follow (if is_abs t then [] else cur) (split_slash t ++ rest)
                  end
                end
         end
     end) cur comps.

Definition max_symlinks : nat := 40%nat.

(* a kernel path argument: starting directory + raw components *)
Definition k_start (cwd : phys) (abs : bool) : phys := if abs then [] else cwd.

(* Go refuses strings containing NUL before making the system call *)
Definition k_resolve (fs : fsmap) (follow : bool) (start : phys) (comps : list name) : kres :=
  if existsb has_nul comps then KErr EINVAL
  else kwalk max_symlinks fs follow start comps.

Definition k_lstat (fs : fsmap) (start : phys) (comps : list name) : kres :=
  k_resolve fs false start comps.
Definition k_stat (fs : fsmap) (start : phys) (comps : list name) : kres :=
  k_resolve fs true start comps.

(* mkdir(2): does not follow a final symlink *)
Definition k_mkdir (fs : fsmap) (start : phys) (comps : list name) : fsmap * bool :=
  match k_resolve fs false start comps with
  | KOk p None => (fs_set fs p NDir, true)
  | _ => (fs, false)
  end.

(* symlink(2) *)
Definition k_symlink (fs : fsmap) (target : bytes) (start : phys) (comps : list name)
  : fsmap * bool :=
  if is_empty target || has_nul target || (4095 <? blen target) then (fs, false)
  else match k_resolve fs false start comps with
       | KOk p None => (fs_set fs p (NLink target), true)
       | _ => (fs, false)
       end.

(* open(O_RDWR|O_CREAT|O_TRUNC) followed by writing [data]: follows a final symlink *)
Definition k_create (fs : fsmap) (start : phys) (comps : list name) (data : bytes)
  : fsmap * bool :=
  match k_resolve fs true start comps with
  | KOk p None => (fs_set fs p (NFile data), true)
  | KOk p (Some (NFile _)) => (fs_set fs p (NFile data), true)
  | _ => (fs, false)
  end.

(* ------------------------------------------------------------------------------------ *)
(* Go library functions on top of the kernel                                             *)

(* filepath.EvalSymlinks = walkSymlinks (unix).  [dest] is kept clean: where the Go code leaves
   "x/.." in dest and Cleans at the end, the model pops at once (x has just been lstat'ed as a
   non-symlink directory, so both name the same object). *)
Definition max_eval_links : nat := 255%nat.

Fixpoint eval_go (links : nat) (fs : fsmap) (cwd : phys) (dest : npath) (rem : list name)
  {struct links} : option npath :=
  (fix go (dest : npath) (rem : list name) {struct rem} : option npath :=
     match rem with
     | [] => Some dest
     | c :: rest =>
       if is_empty c || is_dot c then go dest rest
       else if is_dotdot c then go (n_push dest c) rest
       else
         let d := mknp (n_abs dest) (n_ups dest) (n_names dest ++ [c]) in
         match k_lstat fs (k_start cwd (n_abs d)) (n_comps d) with
         | KErr _ => None
         | KOk _ None => None
         | KOk _ (Some NDir) => go d rest
         | KOk _ (Some (NFile _)) => match rest with [] => go d rest | _ => None end
         | KOk _ (Some (NLink t)) =>
           match links with
           | O => None
           | S l => eval_go l fs cwd (if is_abs t then np_root else dest) (split_slash t ++ rest)
           end
         end
     end) dest rem.

Definition eval_symlinks (fs : fsmap) (cwd : phys) (abs : bool) (comps : list name)
  : option npath :=
  eval_go max_eval_links fs cwd (if abs then np_root else np_here) comps.

Definition eval_symlinks_str (fs : fsmap) (cwd : phys) (s : bytes) : option npath :=
  eval_symlinks fs cwd (is_abs s) (split_slash s).

(* os.MkdirAll.  [rcomps] = the path's components in reverse; [trailing] = the string ends in
   a slash (the parent recursion passes path[:i+1]). *)
Fixpoint mkdir_all_go (fs : fsmap) (start : phys) (abs : bool) (rcomps : list name)
  (trailing : bool) {struct rcomps} : fsmap * bool :=
  let kc := rev rcomps ++ (if trailing then [[]] else []) in
  match k_stat fs start kc with
  | KOk _ (Some NDir) => (fs, true)
  | KOk _ (Some _) => (fs, false)
  | _ =>
    let '(fs1, ok1) :=
      match rcomps with
      | [] => (fs, true)
      | _ :: par =>
        if abs || (match par with [] => false | _ => true end) then mkdir_all_go fs start abs par true else (fs, true)
      end in
    if negb ok1 then (fs1, false)
    else
      let '(fs2, ok2) := k_mkdir fs1 start kc in
      if ok2 then (fs2, true)
      else match k_lstat fs2 start kc with
           | KOk _ (Some NDir) => (fs2, true)
           | _ => (fs2, false)
           end
  end.

Definition mkdir_all (fs : fsmap) (cwd : phys) (p : npath) : fsmap * bool :=
  mkdir_all_go fs (k_start cwd (n_abs p)) (n_abs p) (rev (n_comps p)) false.

(* ------------------------------------------------------------------------------------ *)
(* cmd/car/lib/extract.go                                                                *)

(* resolvePath(root, pth): pth is the clean absolute in-archive path *)
Definition resolve_path (fs : fsmap) (cwd : phys) (root pth : npath) : option npath :=
  (* rp = filepath.Rel("/", pth) = pth without the leading slash; joined = path.Join(root, rp) *)
  let joined := n_apply root (n_names pth) in
  let basename := ndir joined in
  match eval_symlinks fs cwd (n_abs basename) (n_comps basename) with
  | None => None
  | Some final => if npath_eqb final basename then Some joined else None
  end.

(* What the loaders / go-unixfsnode present to the walk (oracle):
     UFile d     a file whose reader yields d
     UFileErr d  a file whose reader yields d and then fails (a later chunk is missing)
     ULink t     a symlink entry
     UDir es     a directory (basic or sharded) whose iterator yields es in this order
     UMissing    the block is not in the archive
     UBad        a block the walk rejects before touching the file system
                 (undecodable, no/invalid UnixFS Data, unknown type, ...) *)
Inductive utree :=
| UFile (d : bytes)
| UFileErr (d : bytes)
| ULink (t : bytes)
| UDir (es : list (name * utree))
| UMissing
| UBad.

Inductive xres := XOk (count : N) | XErr.

(* extractFile with a destination name.  [guard] = the delivered fix (Lstat, refuse a symlink);
   guard = false is the code before the fix. *)
Definition extract_file (guard : bool) (fs : fsmap) (cwd : phys) (out : npath) (d : bytes)
  (complete : bool) : fsmap * bool :=
  let start := k_start cwd (n_abs out) in
  let comps := n_comps out in
  if guard && (match k_lstat fs start comps with KOk _ (Some (NLink _)) => true | _ => false end)
  then (fs, false)
  else
    let '(fs1, ok) := k_create fs start comps d in
    (fs1, ok && complete).

Section Walk.
  Variable guard : bool.
  Variable cwd : phys.
  Variable root : npath.     (* outputResolvedDir *)

  (* extractElement once the entry has been looked at: [pth] = path.Join(outputPath, name) *)
  Definition extract_leaf (fs : fsmap) (next : npath) (t : utree) : fsmap * xres :=
    match t with
    | UMissing => (fs, XOk 0)
    | UBad => (fs, XErr)
    | UFile d =>
      let '(fs1, ok) := extract_file guard fs cwd next d true in
      (fs1, if ok then XOk 1 else XErr)
    | UFileErr d =>
      let '(fs1, _) := extract_file guard fs cwd next d false in (fs1, XErr)
    | ULink tg =>
      let '(fs1, ok) := k_symlink fs tg (k_start cwd (n_abs next)) (n_comps next) in
      (fs1, if ok then XOk 1 else XErr)
    | UDir _ => (fs, XErr)
    end.

  Definition is_udir (t : utree) : bool := match t with UDir _ => true | _ => false end.

  Definition extract_element (fs : fsmap) (outpath : npath) (nm : name) (t : utree)
    (recdir : fsmap -> npath -> fsmap * xres) : fsmap * xres :=
    let pth := join outpath nm in
    match resolve_path fs cwd root pth with
    | None => (fs, XErr)
    | Some next => if is_udir t then recdir fs pth else extract_leaf fs next t
    end.

  (* extractDir on a directory node; anything else: not called *)
  Fixpoint extract_dir (t : utree) (fs : fsmap) (outpath : npath) (mp : list name) {struct t}
    : fsmap * xres :=
    match t with
    | UDir es =>
      match resolve_path fs cwd root outpath with
      | None => (fs, XErr)
      | Some dirp =>
        match mkdir_all fs cwd dirp with
        | (fs1, false) => (fs1, XErr)
        | (fs1, true) =>
          match mp with
          | m :: sub =>
            (fix find (es : list (name * utree)) : fsmap * xres :=
               match es with
               | [] => (fs1, XErr)
               | (nm, t') :: rest =>
                 if bytes_eqb nm m
                 then extract_element fs1 outpath nm t' (fun f p => extract_dir t' f p sub)
                 else find rest
               end) es
          | [] =>
            (fix loop (es : list (name * utree)) (fs : fsmap) (cnt : N) : fsmap * xres :=
               match es with
               | [] => (fs, XOk cnt)
               | (nm, t') :: rest =>
                 match extract_element fs outpath nm t' (fun f p => extract_dir t' f p []) with
                 | (fs', XOk c) => loop rest fs' (cnt + c)
                 | (fs', XErr) => (fs', XErr)
                 end
               end) es fs1 0
          end
        end
      end
    | _ => (fs, XErr)
    end.
End Walk.

(* a root of the archive: raw-codec roots are skipped *)
Inductive uroot := RRaw | RNode (t : utree).

Definition unknown_name : name :=
  [x75; x6e; x6b; x6e; x6f; x77; x6e].   (* "unknown" *)

(* ExtractToDir for one root CID (outputDir <> "-") *)
Definition extract_root (guard : bool) (fs : fsmap) (cwd : phys) (outdir : bytes)
  (mp : list name) (r : uroot) : fsmap * xres :=
  match r with
  | RRaw => (fs, XOk 0)
  | RNode UMissing => (fs, XErr)
  | RNode UBad => (fs, XErr)
  | RNode t =>
    match eval_symlinks_str fs cwd outdir with
    | None => (fs, XErr)
    | Some root =>
      (* (the Stat/Mkdir of the resolved directory is dead code: EvalSymlinks fails on a
         missing path) *)
      match t with
      | UDir _ => extract_dir guard cwd root t fs np_root mp
      | ULink _ =>
        (* Reify gives a symlink node the default map view over its (absent) links *)
        extract_dir guard cwd root (UDir []) fs np_root mp
      | _ =>
        (* extractDir: resolvePath + MkdirAll of the root, then ErrNotDir; the file goes to
           filepath.Join(outputResolvedDir, "unknown") *)
        match resolve_path fs cwd root np_root with
        | None => (fs, XErr)
        | Some dirp =>
          match mkdir_all fs cwd dirp with
          | (fs1, false) => (fs1, XErr)
          | (fs1, true) =>
            let out := join root unknown_name in
            match t with
            | UFile d =>
              let '(fs2, ok) := extract_file guard fs1 cwd out d true in
              (fs2, if ok then XOk 1 else XErr)
            | UFileErr d =>
              let '(fs2, _) := extract_file guard fs1 cwd out d false in (fs2, XErr)
            | _ => (fs1, XErr)
            end
          end
        end
      end
    end
  end.

Fixpoint extract_roots (guard : bool) (fs : fsmap) (cwd : phys) (outdir : bytes)
  (mp : list name) (rs : list uroot) (cnt : N) : fsmap * xres :=
  match rs with
  | [] => (fs, XOk cnt)
  | r :: rest =>
    match extract_root guard fs cwd outdir mp r with
    | (fs1, XOk c) => extract_roots guard fs1 cwd outdir mp rest (cnt + c)
    | (fs1, XErr) => (fs1, XErr)
    end
  end.

(* cmd/car/extract.go pathSegments *)
Fixpoint path_segments_go (segs : list name) (first : bool) : option (list name) :=
  match segs with
  | [] => Some []
  | s :: rest =>
    let last := match rest with [] => true | _ => false end in
    if is_empty s then
      if first || last then path_segments_go rest false else None
    else if is_dot s || is_dotdot s then None
    else match path_segments_go rest false with
         | None => None
         | Some r => Some (s :: r)
         end
  end.
Definition path_segments (s : bytes) : option (list name) :=
  path_segments_go (split_slash s) true.

(* ExtractCar with an output directory argument *)
Definition extract_cmd (guard : bool) (fs : fsmap) (cwd : phys) (outdir : bytes)
  (pathflag : bytes) (roots : list uroot) : fsmap * xres :=
  match path_segments pathflag with
  | None => (fs, XErr)
  | Some mp => extract_roots guard fs cwd outdir mp roots 0
  end.

(* ------------------------------------------------------------------------------------ *)
(* layer B: containment                                                                  *)

Definition phys_of (cwd : phys) (p : npath) : phys :=
  (if n_abs p then [] else Nat.iter (n_ups p) (@removelast name) cwd) ++ n_names p.

Definition under (r p : phys) : Prop := exists s, p = r ++ s.

Fixpoint underb (r p : phys) : bool :=
  match r, p with
  | [], _ => true
  | x :: r', y :: p' => bytes_eqb x y && underb r' p'
  | _ :: _, [] => false
  end.

(* ------------------------------------------------------------------------------------ *)
(* layer B: the tree an extraction must reproduce (C18)                                   *)

(* first entry with that name: what a directory listing means as a map *)
Fixpoint assoc_u (c : name) (us : list (name * utree)) : option utree :=
  match us with
  | [] => None
  | (nm, t) :: r => if bytes_eqb nm c then Some t else assoc_u c r
  end.

(* the object at relative path s of an abstract tree *)
Fixpoint ulook (s : list name) (u : utree) : option node :=
  match s with
  | [] =>
    match u with
    | UFile d => Some (NFile d)
    | ULink t => Some (NLink t)
    | UDir _ => Some NDir
    | _ => None
    end
  | c :: s' =>
    match u with
    | UDir us => match assoc_u c us with Some u' => ulook s' u' | None => None end
    | _ => None
    end
  end.

(* number of files and symlinks: what `car extract` reports *)
Fixpoint uleaves (u : utree) : N :=
  match u with
  | UFile _ => 1
  | ULink _ => 1
  | UDir es => (fix go (es : list (name * utree)) : N :=
                  match es with [] => 0 | (_, t) :: r => uleaves t + go r end) es
  | _ => 0
  end.

(* names and targets a real directory tree can have *)
Definition no_slash (c : name) : bool := negb (existsb (fun b => byte_eqb b c_slash) c).
Definition valid_name (c : name) : bool :=
  normalb c && negb (name_too_long c) && negb (has_nul c) && no_slash c.
Definition valid_target (t : bytes) : bool :=
  negb (is_empty t) && negb (has_nul t) && negb (4095 <? blen t).

Fixpoint name_in (c : name) (l : list name) : bool :=
  match l with [] => false | x :: r => bytes_eqb x c || name_in c r end.
Fixpoint names_distinct (l : list name) : bool :=
  match l with [] => true | x :: r => negb (name_in x r) && names_distinct r end.

(* a tree of regular files, symlinks and directories with valid, pairwise distinct sibling names,
   every block present *)
Fixpoint valid_utree (u : utree) : bool :=
  match u with
  | UFile _ => true
  | ULink t => valid_target t
  | UDir es =>
    names_distinct (map fst es) &&
    (fix go (es : list (name * utree)) : bool :=
       match es with [] => true | (nm, t) :: r => valid_name nm && valid_utree t && go r end) es
  | _ => false
  end.

(* ------------------------------------------------------------------------------------ *)
(* reading the archive from standard input (cmd/car/extract.go NewStdinReadStorage ->
   car.NewBlockReader -> internalio.ToByteReadSeeker + Seek(DataOffset-51, SeekCurrent))       *)

Inductive rkind :=
| RRegular   (* *os.File on a regular file: Seek works *)
| RPipe      (* *os.File on a pipe or terminal: has a Seek method, Seek fails (ESPIPE) *)
| RPlain.    (* an io.Reader without Seek: padding is skipped by reading *)

Definition skip_padding_ok (k : rkind) : bool :=
  match k with RPipe => false | _ => true end.

(* the delivered fix wraps the reader in struct{ io.Reader } *)
Definition stdin_reader (fixed : bool) (k : rkind) : rkind := if fixed then RPlain else k.

Definition stdin_open_ok (fixed : bool) (k : rkind) (version : N) : bool :=
  if version =? 2 then skip_padding_ok (stdin_reader fixed k) else true.

(* ------------------------------------------------------------------------------------ *)
(* layer B: a directory tree on disk, and the ideal packing of it                         *)

Inductive ftree :=
| TFile (d : bytes)
| TLink (t : bytes)
| TDir (es : list (name * ftree)).

Fixpoint assoc_t (c : name) (es : list (name * ftree)) : option ftree :=
  match es with
  | [] => None
  | (nm, t) :: r => if bytes_eqb nm c then Some t else assoc_t c r
  end.

(* the object at relative path s of a tree on disk *)
Fixpoint tlook (s : list name) (t : ftree) : option node :=
  match s with
  | [] =>
    match t with
    | TFile d => Some (NFile d)
    | TLink x => Some (NLink x)
    | TDir _ => Some NDir
    end
  | c :: s' =>
    match t with
    | TDir es => match assoc_t c es with Some t' => tlook s' t' | None => None end
    | _ => None
    end
  end.

(* the reference packing: every file whole, every directory listed in the order of its entries.
   What `car create` (go-unixfsnode's builder: chunking, sharding, link sorting) and the loaders
   of `car extract` really present is an oracle related to this one by ulook/tlook equality. *)
Fixpoint u_of_t (t : ftree) : utree :=
  match t with
  | TFile d => UFile d
  | TLink x => ULink x
  | TDir es =>
    UDir ((fix go (es : list (name * ftree)) : list (name * utree) :=
             match es with [] => [] | (nm, t') :: r => (nm, u_of_t t') :: go r end) es)
  end.

(* valid sibling names (no separator, not "." or "..", not empty, at most 255 bytes, no NUL),
   pairwise distinct; valid link targets *)
Definition valid_ftree (t : ftree) : bool := valid_utree (u_of_t t).
Definition is_tdir (t : ftree) : bool := match t with TDir _ => true | _ => false end.
(* `car create` without --no-wrap packs the source below a directory entry named after it *)
Definition wrap (nm : name) (t : ftree) : ftree := TDir [(nm, t)].

(* ------------------------------------------------------------------------------------ *)
(* permission bits                                                                        *)

(* The extraction code makes no chmod/chown/utimes call: permission bits are a table next to the
   file system that no operation of the model touches.  An object that was there before keeps its
   bits (open(O_TRUNC) keeps them); an object the extraction creates gets what mkdir(0755),
   open(..., 0666) and symlink give under umask 022. *)
Definition modes := list (phys * N).

Fixpoint assoc_m (m : modes) (p : phys) : option N :=
  match m with
  | [] => None
  | (q, x) :: t => if phys_eqb p q then Some x else assoc_m t p
  end.

Definition default_mode (n : node) : N :=
  match n with
  | NDir => 493      (* 0755 *)
  | NFile _ => 420   (* 0644 *)
  | NLink _ => 511   (* 0777 *)
  end.

Definition mode_of (m : modes) (fs : fsmap) (p : phys) : option N :=
  match look fs p with
  | None => None
  | Some n => Some (match assoc_m m p with Some x => x | None => default_mode n end)
  end.

(* ------------------------------------------------------------------------------------ *)
(* output directory "-": file contents go to standard output, no file-system call is made
   (extractDir / extractFile with outputRoot = "" / outputName = "")                          *)

Definition stdout_leaf (out : bytes) (t : utree) : bytes * xres :=
  match t with
  | UMissing => (out, XOk 0)
  | UBad => (out, XErr)
  | UFile d => (out ++ d, XOk 1)
  | UFileErr d => (out ++ d, XErr)
  | ULink _ => (out, XErr)            (* "cannot extract a symlink to stdout" *)
  | UDir _ => (out, XErr)
  end.

Fixpoint stdout_dir (t : utree) (out : bytes) (mp : list name) {struct t} : bytes * xres :=
  match t with
  | UDir es =>
    match mp with
    | m :: sub =>
      (fix find (es : list (name * utree)) : bytes * xres :=
         match es with
         | [] => (out, XErr)
         | (nm, t') :: rest =>
           if bytes_eqb nm m
           then (if is_udir t' then stdout_dir t' out sub else stdout_leaf out t')
           else find rest
         end) es
    | [] =>
      (fix loop (es : list (name * utree)) (out : bytes) (cnt : N) : bytes * xres :=
         match es with
         | [] => (out, XOk cnt)
         | (nm, t') :: rest =>
           match (if is_udir t' then stdout_dir t' out [] else stdout_leaf out t') with
           | (out', XOk c) => loop rest out' (cnt + c)
           | (out', XErr) => (out', XErr)
           end
         end) es out 0
    end
  | _ => (out, XErr)
  end.

Definition stdout_root (out : bytes) (mp : list name) (r : uroot) : bytes * xres :=
  match r with
  | RRaw => (out, XOk 0)
  | RNode UMissing => (out, XErr)
  | RNode UBad => (out, XErr)
  | RNode (UDir es) => stdout_dir (UDir es) out mp
  | RNode (ULink _) => stdout_dir (UDir []) out mp
  | RNode (UFile d) => (out ++ d, XOk 1)
  | RNode (UFileErr d) => (out ++ d, XErr)
  end.

Fixpoint stdout_roots (out : bytes) (mp : list name) (rs : list uroot) (cnt : N) : bytes * xres :=
  match rs with
  | [] => (out, XOk cnt)
  | r :: rest =>
    match stdout_root out mp r with
    | (out1, XOk c) => stdout_roots out1 mp rest (cnt + c)
    | (out1, XErr) => (out1, XErr)
    end
  end.

Definition s_dash : bytes := [x2d].

(* ExtractCar, any output directory argument: (file system, standard output, result) *)
Definition extract_main (guard : bool) (fs : fsmap) (cwd : phys) (outdir : bytes)
  (pathflag : bytes) (roots : list uroot) : fsmap * bytes * xres :=
  if bytes_eqb outdir s_dash then
    match path_segments pathflag with
    | None => (fs, [], XErr)
    | Some mp => let '(out, r) := stdout_roots [] mp roots 0 in (fs, out, r)
    end
  else
    let '(fs', r) := extract_cmd guard fs cwd outdir pathflag roots in (fs', [], r).
