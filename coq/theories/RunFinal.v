(* run entries for C05 (kinds "final" and "finalfile"): val -> val.
   final:     input  = (kind opts roots batches hoktab hdrtab)
                kind : 0 blockstore.ReadWrite | 1 storage NewReadableWritable | 2 storage NewWritable on a file
                       | 3 storage NewWritable on a stream | 4 deferred writer for a path | 5 deferred writer for a stream
                roots : (cid ...) or tnil ; batches : (((cid data) ...) ...)
              output = (openresult ((out ...) ...) finalizeout file inspectverdict verifyverdict)
   finalfile: input  = (opts file hoktab hdrtab expect)   expect: 0 nothing (mutated file), 1 left by store.Finalize
                                                            (fully-indexed bit = StoreIdentityCIDs), 2 produced by WrapV1 / a
                                                            traversal writer / car index (bit never set: one-directional clause)
              output = (inspectverdict verifyverdict)
   verdicts: tok | trej | tORACLE-MISS | tFUEL *)
From Coq Require Import Strings.String.
From GoCar Require Import Bytes Varint Cid Header Frame V2Header Scan Index Store Val RunStore Wf.

Definition v_fkind (n : N) : skind :=
  if (n =? 0) || (n =? 6) then KBlockstore
  else if (n =? 3) || (n =? 5) then KStorage false
  else KStorage true.

Definition is_tagf (v : val) (s : string) : bool :=
  match v with VT t => String.eqb t s | _ => false end.

Definition v_batches (v : val) : list batch := map vblocks (vL v).

Definition v_verdict (r : res unit) : val :=
  match r with
  | Ok _ => VT "ok"
  | Err EOracleMiss => VT "ORACLE-MISS"
  | Err EFuel => VT "FUEL"
  | Err _ => VT "rej"
  end.

Definition v_roots_opt (v : val) : option (list bytes) :=
  roots_opt (is_nil_tag v) (vcids v).

Definition run_final (input : val) : val :=
  let k := v_fkind (vN (vnth 0 input)) in
  let o := apply_wopts (v_wopts (vnth 1 input)) in
  let roots := vcids (vnth 2 input) in
  let hok := hok_lookup (vL (vnth 4 input)) in
  let hdr := hdr_lookup (vL (vnth 5 input)) in
  match session k o (is_nil_tag (vnth 2 input)) roots (v_batches (vnth 3 input)) with
  | Err e => VL [VL [VT "err"; v_err e]; VL []; VL [VT "nil"]; VB []; VT "rej"; VT "rej"]
  | Ok (s, outs, fo) =>
    let file := ws_file s in
    VL [VL [VT "nil"]; VL (map (fun l => VL (map v_out l)) outs); v_out fo; VB file;
        v_verdict (inspect_check hok hdr default_ropts true file);
        v_verdict (verify_check hok hdr file)]
  end.

Definition blocks_eq (a b : list block) : bool :=
  (N.of_nat (length a) =? N.of_nat (length b)) &&
  forallb (fun xy => bytes_eqb (fst (fst xy)) (fst (snd xy)) && bytes_eqb (snd (fst xy)) (snd (snd xy))) (combine a b).
Definition cids_eq (a b : list bytes) : bool :=
  (N.of_nat (length a) =? N.of_nat (length b)) && forallb (fun xy => bytes_eqb (fst xy) (snd xy)) (combine a b).

Definition hash_good_b (hok : bytes -> bytes -> option bool) (b : block) : bool :=
  match cid_parse (fst b) with
  | None => false
  | Some p => match hash_matches hok (fst b) p (snd b) with Some true => true | _ => false end
  end.

Definition fail (clause cls : string) : val := VL [VT "FAIL"; VT clause; VT cls].

(* what the readers need of the content: every block hashes to its CID and fits the default limits *)
Definition readable_b (hok : bytes -> bytes -> option bool) (roots : list bytes) (bs : list block) : bool :=
  forallb (hash_good_b hok) bs &&
  forallb (fun b => blen (fst b) + blen (snd b) <=? o_maxs default_ropts) bs.

(* the clauses on a finished file, given what must be stored in it *)
Definition prop_finished (o : wopts) (ro : option (list bytes)) (roots : list bytes) (stored : list block)
           (hok : bytes -> bytes -> option bool) (finobs : val) (file : bytes) (inspobs verobs : val) : val :=
    match (if w_v1 o then Some (IdxSorted []) else final_index o ro stored) with
    | None => if tag_is finobs "err" then VT "ok" else fail "unknown-codec-accepted" ""
    | Some fi =>
      if negb (tag_is finobs "nil") then fail "finalize-failed" ""
      else if negb (bytes_eqb file (layout o ro stored fi)) then fail "layout-differs" ""
      else
        match wf_parse o file with
        | None => fail "not-wellformed" ""
        | Some (rs, bs) =>
          if negb (cids_eq rs roots && blocks_eq bs stored) then fail "content-differs-from-puts" ""
          else if negb (readable_b hok roots stored) then VT "ok"
          else if negb (is_tagf inspobs "ok") then fail "inspection-rejects" ""
          else if negb (forallb (has_block stored) roots) then VT "ok"
          else if is_tagf verobs "ok" then VT "ok"
          else fail "verifier-rejects" (match roots with [] => "no-roots" | _ => "" end)
        end
    end.

(* the property's clauses on what the implementation produced *)
Definition prop_final (input obs : val) : val :=
  let k := v_fkind (vN (vnth 0 input)) in
  let o := apply_wopts (v_wopts (vnth 1 input)) in
  let roots := vcids (vnth 2 input) in
  let ro := v_roots_opt (vnth 2 input) in
  let hok := hok_lookup (vL (vnth 4 input)) in
  let h := v_batches (vnth 3 input) in
  let stream_v2 := match k with KStorage false => negb (w_v1 o) | _ => false end in
  if stream_v2 then VT "ok"                       (* refused at open: nothing to finalize *)
  else if negb (tag_is (vnth 0 obs) "nil") then fail "open-failed" ""
  else
    prop_finished o ro roots (spec_stored k o ro h) hok (vnth 2 obs) (vB (vnth 3 obs)) (vnth 4 obs) (vnth 5 obs).

Definition run_finalfile (input : val) : val :=
  let file := vB (vnth 1 input) in
  let hok := hok_lookup (vL (vnth 2 input)) in
  let hdr := hdr_lookup (vL (vnth 3 input)) in
  VL [v_verdict (inspect_check hok hdr default_ropts true file); v_verdict (verify_check hok hdr file)].

Definition prop_finalfile (input obs : val) : val :=
  let o := apply_wopts (v_wopts (vnth 0 input)) in
  let file := vB (vnth 1 input) in
  let hok := hok_lookup (vL (vnth 2 input)) in
  if vN (vnth 4 input) =? 0 then VT "ok"
  else
    match wf_finished (vN (vnth 4 input) =? 1) o file with
    | None => fail "not-wellformed" ""
    | Some (roots, bs) =>
      if negb (readable_b hok roots bs) then VT "ok"
      else if negb (is_tagf (vnth 0 obs) "ok") then fail "inspection-rejects" ""
      else if negb (forallb (has_block bs) roots) then VT "ok"
      else if is_tagf (vnth 1 obs) "ok" then VT "ok"
      else fail "verifier-rejects" (match roots with [] => "no-roots" | _ => "" end)
    end.

(* kind "finalwide": one block whose CID is too large to ship as case data -- a CIDv1 (raw codec) with
   hash code [code] and a digest of [n] bytes -- put first into a new CARv2 store, then Finalize.
     input  = (kind opts n code)        kind: 0 blockstore | 1 storage
     output = (putout finalizeout indexreadable)
   The model evaluates the first-put decision on lengths (should_put_first); a finalized file has a
   readable index (C05_wf), whatever was decided. *)
Definition run_finalwide (input : val) : val :=
  let o := apply_wopts (v_wopts (vnth 1 input)) in
  let n := vN (vnth 2 input) in
  let code := vN (vnth 3 input) in
  match should_put_first o (cid_v1_len 85 code n) (code =? 0) with
  | Err e => VL [v_out (OErr e); v_out ONil; VN 1]
  | Ok _ => VL [v_out ONil; v_out ONil; VN 1]
  end.

(* the property's clause on the implementation: after a successful Finalize the index must read back *)
Definition prop_finalwide (input obs : val) : val :=
  if tag_is (vnth 1 obs) "nil" && (vN (vnth 2 obs) =? 0) then fail "index-unreadable" "wide-digest"
  else VT "ok".

(* kind "finalresume": a session interrupted before Finalize, its file possibly followed by a zero tail (null
   padding / a zero-filled crash tail), resumed (OpenReadWrite over the non-empty file / OpenReadableWritable),
   more puts, Finalize.
     input  = (kind opts1 roots batches1 tail opts2 batches2 hoktab hdrtab)    kind: 0 blockstore | 1 storage
     output = (open1 outs1 reopen outs2 finalizeout file inspectverdict verifyverdict)
   The finished file must carry the blocks of BOTH sessions: the stored list of the second session continues the
   first one's (the generator keeps every option except ZeroLengthSectionAsEOF equal across the reopen). *)
Definition run_finalresume (input : val) : val :=
  let k := v_fkind (vN (vnth 0 input)) in
  let o1 := apply_wopts (v_wopts (vnth 1 input)) in
  let roots := vcids (vnth 2 input) in
  let h1 := v_batches (vnth 3 input) in
  let tail := vN (vnth 4 input) in
  let o2 := apply_wopts (v_wopts (vnth 5 input)) in
  let h2 := v_batches (vnth 6 input) in
  let hok := hok_lookup (vL (vnth 7 input)) in
  let hdr := hdr_lookup (vL (vnth 8 input)) in
  let v_outs := fun outs : list (list out) => VL (map (fun l => VL (map v_out l)) outs) in
  match open_new k o1 (is_nil_tag (vnth 2 input)) roots [] with
  | Err e => VL [VL [VT "err"; v_err e]; VL []; VL [VT "nil"]; VL []; VL [VT "nil"]; VB []; VT "rej"; VT "rej"]
  | Ok s0 =>
    let '(s1, outs1) := put_batches s0 h1 [] in
    let f1 := ws_file s1 ++ zerosN tail in
    match resume hdr k true o2 roots f1 [] with
    | inr (e, dv) =>
      let file := d_file dv in
      VL [VL [VT "nil"]; v_outs outs1; v_out (OErr e); VL []; VL [VT "nil"]; VB file;
          v_verdict (inspect_check hok hdr default_ropts true file); v_verdict (verify_check hok hdr file)]
    | inl s2 =>
      let '(s3, outs2) := put_batches s2 h2 [] in
      let '(s4, fo) := finalize s3 in
      let file := ws_file s4 in
      VL [VL [VT "nil"]; v_outs outs1; v_out ONil; v_outs outs2; v_out fo; VB file;
          v_verdict (inspect_check hok hdr default_ropts true file); v_verdict (verify_check hok hdr file)]
    end
  end.

Definition prop_finalresume (input obs : val) : val :=
  let k := v_fkind (vN (vnth 0 input)) in
  let o1 := apply_wopts (v_wopts (vnth 1 input)) in
  let roots := vcids (vnth 2 input) in
  let ro := v_roots_opt (vnth 2 input) in
  let o2 := apply_wopts (v_wopts (vnth 5 input)) in
  let hok := hok_lookup (vL (vnth 7 input)) in
  if negb (tag_is (vnth 0 obs) "nil") then fail "open-failed" ""
  else if negb (tag_is (vnth 2 obs) "nil") then VT "ok"     (* the reopen was refused: C12's subject *)
  else
    let stored := fold_left (spec_batch (stops k) o2 ro) (v_batches (vnth 6 input))
                            (spec_stored k o1 ro (v_batches (vnth 3 input))) in
    prop_finished o2 ro roots stored hok (vnth 4 obs) (vB (vnth 5 obs)) (vnth 6 obs) (vnth 7 obs).
