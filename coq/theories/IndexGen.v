(* v2/index_gen.go: LoadIndex / GenerateIndex, including the internal/io ToByteReadSeeker wrapper
   state for seekable vs plain-reader sources, StoreIdentityCIDs, ZeroLengthSectionAsEOF and
   MaxIndexCidSize; and the NewReader(...).DataReader() path used for io.ReaderAt sources.
   Executable; proofs in proofs/IndexGen*.v. *)
From GoCar Require Import Bytes Varint Cid Header Frame V2Header Scan Index.

(* How LoadIndex's [reader := internalio.ToByteReadSeeker(r)] relates to [r]:
   SrcSeek  - r is an io.ReadSeeker (bytes.Reader, os.File, io.SectionReader, offsetReadSeeker):
              reader is r itself or a thin wrapper sharing r's position; Seek is a real seek
              (backwards allowed, beyond EOF allowed, int64 overflow is an error).
   SrcPlain - r has no Seek method (a bare io.Reader, and equally bufio.Reader / bytes.Buffer, which
              do have ReadByte): ToByteReadSeeker tests for ReadSeeker only, so reader is a
              discardingReadSeekerPlusByte with ITS OWN offset counter starting at 0.  Every byte
              taken through the wrapper -- Read, and ReadByte, which is io.ReadFull over its own
              Read -- is counted; Seek discards forward (io.CopyN: running dry is io.EOF, a negative
              count is a silent no-op, a rewind via SeekStart is an error). *)
Inductive srckind := SrcSeek | SrcPlain.

Record gopts := mkgopts {
  g_zeof : bool;        (* ZeroLengthSectionAsEOF *)
  g_maxh : N;           (* MaxAllowedHeaderSize *)
  g_store_id : bool;    (* StoreIdentityCIDs *)
  g_max_cid : N         (* MaxIndexCidSize (already defaulted to 2 KiB when 0) *)
}.

(* position of the underlying source, and the offset the wrapper reports from Seek *)
Record rstate := mkrs { rs_pos : N; rs_woff : N }.

Definition view (all : bytes) (st : rstate) : bytes := drop (rs_pos st) all.
(* n bytes consumed through [reader] *)
Definition advance (n : N) (st : rstate) : rstate := mkrs (rs_pos st + n) (rs_woff st + n).
(* n bytes consumed through [r] directly: a plain source's wrapper does not see them unless the
   read went through the wrapper ([counted]) *)
Definition advance_raw (k : srckind) (counted : bool) (n : N) (st : rstate) : rstate :=
  match k with
  | SrcSeek => advance n st
  | SrcPlain => mkrs (rs_pos st + n) (if counted then rs_woff st + n else rs_woff st)
  end.

(* reader.Seek(off, io.SeekStart) *)
Definition seek_start (k : srckind) (all : bytes) (off : N) (st : rstate) : res rstate :=
  match k with
  | SrcSeek => Ok (mkrs off off)
  | SrcPlain =>
      if off <? rs_woff st then Err EOther                      (* "unsupported rewind" *)
      else let n := off - rs_woff st in
           if blen all - rs_pos st <? n then Err EEof            (* io.CopyN ran dry *)
           else Ok (advance n st)
  end.

(* reader.Seek(n, io.SeekCurrent) *)
Definition seek_cur (k : srckind) (all : bytes) (n : Z) (st : rstate) : res rstate :=
  match k with
  | SrcSeek =>
      let np := (Z.of_N (rs_pos st) + n)%Z in
      if (np <? 0)%Z then Err EOther
      else if (Z.of_N two63 <=? np)%Z then Err EOther            (* int64 overflow *)
      else Ok (mkrs (Z.to_N np) (Z.to_N np))
  | SrcPlain =>
      if (n <=? 0)%Z then Ok st                                  (* io.CopyN with n <= 0 copies nothing *)
      else if blen all - rs_pos st <? Z.to_N n then Err EEof
      else Ok (advance (Z.to_N n) st)
  end.

Definition indexed (o : gopts) (p : cidp) : bool := g_store_id o || negb (is_identity p).

(* Which of the two repairs delivered with C03 are in the tree (both true = the tree as it is now;
   false = the code as found, kept so that the refutations in props/C03.v stay checkable):
   fx_counted  - pragma and CARv2 header are read through the offset-tracking wrapper
                 (notes/fixes/C03-loadindex-plain-reader.patch, DESIGN section 6 #2);
   fx_topcheck - the end-of-payload test runs before a section is read, not only after one
                 (notes/fixes/C03-loadindex-empty-payload.patch). *)
Record fixes := mkfixes { fx_counted : bool; fx_topcheck : bool }.
Definition as_found : fixes := mkfixes false false.
Definition repaired : fixes := mkfixes true true.

(* dataSize != 0 && sectionOffset >= dataSize *)
Definition payload_end (doff dsize : N) (st : rstate) : bool :=
  negb (dsize =? 0) && (dsize <=? rs_woff st - doff).

(* the section loop of LoadIndex *)
Fixpoint li_loop (fuel : nat) (tc : bool) (k : srckind) (o : gopts) (all : bytes) (doff dsize : N)
                 (st : rstate) (acc : list irec) : res (list irec) :=
  match fuel with
  | O => Err EFuel
  | S f =>
    if tc && payload_end doff dsize st then Ok (rev acc) else
    match read_uv (view all st) with
    | VEof => Ok (rev acc)
    | VUnexpectedEof | VOverflow | VNotMinimal => Err EOther
    | VOk slen _ n =>
      let st1 := advance n st in
      if slen =? 0 then (if g_zeof o then Ok (rev acc) else Err EOther)
      else
        match cid_from_reader (view all st1) with
        | CfrEof => Err EEof                 (* CidFromReader's bare io.EOF is returned as is *)
        | CfrErr _ => Err EOther
        | CfrOk cn c p _ =>
          let st2 := advance cn st1 in
          if indexed o p && (g_max_cid o <? cn) then Err ECidTooLarge
          else
            let off := rs_woff st - doff in   (* sectionOffset: what Seek last reported, rebased *)
            let acc' := if indexed o p then mkrec c (c_mhcode p) (c_digest p) off :: acc else acc in
            match seek_cur k all (Z.of_N slen - Z.of_N cn)%Z st2 with
            | Err e => Err e
            | Ok st3 =>
              if negb tc && payload_end doff dsize st3 then Ok (rev acc')
              else li_loop f tc k o all doff dsize st3 acc'
            end
        end
    end
  end.

Section Oracles.
  Variable hdrdec : bytes -> option (list bytes * N).

  (* LoadIndex up to idx.Load: the records, or the error *)
  Definition load_index_gen (fx : fixes) (k : srckind) (o : gopts) (all : bytes) : res (list irec) :=
    let counted := fx_counted fx in
    let tc := fx_topcheck fx in
    match read_header hdrdec (g_maxh o) all with
    | Err EHeaderTooLarge => Err EHeaderTooLarge
    | Err _ => Err EOther                       (* wrapped: "error reading car header: %w" *)
    | Ok (_, v, _, used) =>
      let st0 := advance_raw k counted used (mkrs 0 0) in
      if v =? 1 then li_loop (S (length all)) tc k o all 0 0 st0 []
      else if v =? 2 then
        match read_v2hdr (view all st0) with
        | Err e => Err e
        | Ok (h, _) =>
          let st1 := advance_raw k counted 40 st0 in
          match seek_start k all (h_doff h) st1 with
          | Err e => Err e
          | Ok st2 =>
            match read_header hdrdec (g_maxh o) (view all st2) with
            | Err e => Err e
            | Ok (_, v1, _, used1) =>
              if negb (v1 =? 1) then Err EOther
              else li_loop (S (length all)) tc k o all (h_doff h) (h_dsize h) (advance used1 st2) []
            end
          end
        end
      else Err EOther
    end.

  (* the tree as it is after the fix *)
  Definition load_index (k : srckind) (o : gopts) (all : bytes) : res (list irec) :=
    load_index_gen repaired k o all.

  (* carv2.NewReader(ra).DataReader(): the CARv1 payload view handed to GenerateIndex when the source
     is an io.ReaderAt (v1: offsetReadSeeker over the file; v2: io.SectionReader over the window) *)
  Definition data_reader_view (o : gopts) (all : bytes) : res bytes :=
    match read_header hdrdec (g_maxh o) all with
    | Err e => Err e
    | Ok (_, v, _, used) =>
      if v =? 1 then Ok all
      else if v =? 2 then
        (* NewReader: the pragma must be exactly PragmaSize bytes (C13 fix) *)
        if negb (used =? 11) then Err EOther else
        match read_v2hdr (take 40 (drop 11 all)) with
        | Err e => Err e
        | Ok (h, _) => Ok (take (h_dsize h) (drop (h_doff h) all))
        end
      else Err EOther
    end.

  Definition load_index_reader_at_gen (fx : fixes) (o : gopts) (all : bytes) : res (list irec) :=
    match data_reader_view o all with
    | Err e => Err e
    | Ok v => load_index_gen fx SrcSeek o v
    end.
  Definition load_index_reader_at (o : gopts) (all : bytes) : res (list irec) :=
    load_index_reader_at_gen repaired o all.
End Oracles.

(* GenerateIndex = index.New(codec) + LoadIndex (records are loaded in payload order) *)
Definition generate_index (hdrdec : bytes -> option (list bytes * N)) (codec : N)
                          (k : srckind) (o : gopts) (all : bytes) : res index :=
  match idx_new codec with
  | None => Err EOther
  | Some i0 =>
    match load_index hdrdec k o all with
    | Err e => Err e
    | Ok recs => Ok (idx_load recs i0)
    end
  end.

Definition generate_index_with (srt : list irec -> list irec)
    (hdrdec : bytes -> option (list bytes * N)) (codec : N) (k : srckind) (o : gopts) (all : bytes) : res index :=
  match idx_new codec with
  | None => Err EOther
  | Some i0 =>
    match load_index hdrdec k o all with
    | Err e => Err e
    | Ok recs => Ok (idx_load_with srt recs i0)
    end
  end.

(* GenerateIndexFromFile(path): os.Open (a missing / unreadable path: [None], a PathError), then
   GenerateIndex over the os.File (a seekable source) *)
Definition generate_index_from_file_with (srt : list irec -> list irec)
    (hdrdec : bytes -> option (list bytes * N)) (codec : N) (o : gopts) (file : option bytes) : res index :=
  match file with
  | None => Err EOther
  | Some all => generate_index_with srt hdrdec codec SrcSeek o all
  end.

(* GenerateIndex over the reader NewReader(..).DataReader() hands out (io.ReaderAt sources, and the
   generating branches of ReadOrGenerateIndex); [srt] is sort.Sort *)
Definition generate_index_reader_at_with (srt : list irec -> list irec)
    (hdrdec : bytes -> option (list bytes * N)) (codec : N) (o : gopts) (all : bytes) : res index :=
  match idx_new codec with
  | None => Err EOther
  | Some i0 =>
    match load_index_reader_at hdrdec o all with
    | Err e => Err e
    | Ok recs => Ok (idx_load_with srt recs i0)
    end
  end.

(* ReadOrGenerateIndex(rs): ReadVersion; Seek(0); version 1: GenerateIndex(rs); version 2:
   NewReader(ToReaderAt(rs)) -- the pragma again, the CARv2 header through a 40-byte section --
   then, if the header has an index (IndexOffset <> 0), index.ReadFrom at IndexOffset (the index codec
   option is ignored, nothing is scanned), else GenerateIndex over DataReader() *)
Definition read_or_generate_index_with (srt : list irec -> list irec)
    (hdrdec : bytes -> option (list bytes * N)) (codec : N) (o : gopts) (all : bytes) : res index :=
  match read_header hdrdec (g_maxh o) all with
  | Err e => Err e
  | Ok (_, v, _, used) =>
    if v =? 1 then generate_index_reader_at_with srt hdrdec codec o all
    else if v =? 2 then
      if negb (used =? 11) then Err EOther else      (* NewReader: pragma of exactly PragmaSize bytes *)
      match read_v2hdr (take 40 (drop 11 all)) with
      | Err e => Err e
      | Ok (h, _) =>
        if has_index h then
          match idx_read (drop (h_ioff h) all) with
          | Err e => Err e
          | Ok (i, _) => Ok i
          end
        else generate_index_reader_at_with srt hdrdec codec o all
      end
    else Err EOther
  end.
Definition read_or_generate_index := read_or_generate_index_with sort_by_digest.

(* ---- layer B: the sections of a constructed payload and what a lookup must return ----------- *)
Fixpoint sections_at (off : N) (bs : list block) : list (N * block) :=
  match bs with
  | [] => []
  | b :: t => (off, b) :: sections_at (off + section_size (fst b) (snd b)) t
  end.

(* the record LoadIndex must produce for a section (none for an unindexed identity CID) *)
Definition rec_of_section (o : gopts) (ob : N * block) : list irec :=
  match cid_parse (fst (snd ob)) with
  | Some p => if indexed o p then [mkrec (fst (snd ob)) (c_mhcode p) (c_digest p) (fst ob)] else []
  | None => []
  end.
Definition section_recs (o : gopts) (hlen : N) (bs : list block) : list irec :=
  flat_map (rec_of_section o) (sections_at hlen bs).

(* does the section's CID carry the key?  digest only (car-index-sorted, insertion index) or
   (hash code, digest) (car-multihash-index-sorted) *)
Definition key_match (by_code : bool) (code : N) (d : bytes) (c : bytes) : bool :=
  match cid_parse c with
  | Some p => bytes_eqb (c_digest p) d && (negb by_code || (c_mhcode p =? code))
  | None => false
  end.
Definition section_indexed (o : gopts) (c : bytes) : bool :=
  match cid_parse c with Some p => indexed o p | None => false end.
(* payload-relative offsets of the indexed sections carrying the key, in payload order *)
Definition spec_lookup (o : gopts) (by_code : bool) (code : N) (d : bytes) (hlen : N) (bs : list block) : list N :=
  map fst (filter (fun ob => section_indexed o (fst (snd ob)) && key_match by_code code d (fst (snd ob)))
                  (sections_at hlen bs)).

(* reference decode of the section starting at a payload offset: (cid, data) *)
Definition section_at (payload : bytes) (off : N) : option (bytes * bytes) :=
  match read_node false two63 (drop off payload) with
  | Ok (c, _, d, _) => Some (c, d)
  | Err _ => None
  end.

(* CARv2 container around a payload: pragma, header, arbitrary padding bytes, payload, anything *)
Definition v2_container (hi lo ioff : N) (pad payload trailer : bytes) : bytes :=
  pragma ++ enc_v2hdr (mkv2 hi lo (51 + blen pad) (blen payload) ioff) ++ pad ++ payload ++ trailer.
