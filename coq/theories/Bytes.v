(* Layer A/B shared basics: byte strings, N-indexed take/drop, little-endian words. *)
From Coq Require Export List NArith ZArith Lia Bool.
From Coq Require Export ZifyN ZifyNat ZifyBool.
From Coq.Strings Require Export Byte.
Export ListNotations.
Global Open Scope N_scope.
Global Open Scope bool_scope.

Definition bytes := list byte.

Definition b2n (b : byte) : N := Byte.to_N b.
Definition n2b (n : N) : byte :=
  match Byte.of_N (n mod 256) with Some b => b | None => x00 end.

Definition blen (bs : bytes) : N := N.of_nat (length bs).
(* firstn / skipn with a binary count: structural on the list, so a hostile 2^63 count costs
   nothing (N.to_nat of it would not terminate in practice).  BytesFacts proves
   take n bs = firstn (N.to_nat n) bs and drop n bs = skipn (N.to_nat n) bs. *)
Fixpoint take (n : N) (bs : bytes) : bytes :=
  match bs with
  | [] => []
  | b :: t => if n =? 0 then [] else b :: take (N.pred n) t
  end.
Fixpoint drop (n : N) (bs : bytes) : bytes :=
  match bs with
  | [] => []
  | b :: t => if n =? 0 then bs else drop (N.pred n) t
  end.

Definition byte_eqb (a b : byte) : bool := Byte.eqb a b.
Fixpoint bytes_eqb (a b : bytes) : bool :=
  match a, b with
  | [], [] => true
  | x :: a', y :: b' => byte_eqb x y && bytes_eqb a' b'
  | _, _ => false
  end.

(* lexicographic comparison of byte strings (bytes.Compare) *)
Fixpoint bytes_cmp (a b : bytes) : comparison :=
  match a, b with
  | [], [] => Eq
  | [], _ :: _ => Lt
  | _ :: _, [] => Gt
  | x :: a', y :: b' =>
      match N.compare (b2n x) (b2n y) with
      | Eq => bytes_cmp a' b'
      | c => c
      end
  end.
Definition bytes_ltb (a b : bytes) : bool :=
  match bytes_cmp a b with Lt => true | _ => false end.
Definition bytes_leb (a b : bytes) : bool :=
  match bytes_cmp a b with Gt => false | _ => true end.

Fixpoint zeros (n : nat) : bytes :=
  match n with O => [] | S k => x00 :: zeros k end.
Definition zerosN (n : N) : bytes := zeros (N.to_nat n).

(* little-endian fixed-width unsigned integers *)
Fixpoint le_enc (width : nat) (n : N) : bytes :=
  match width with
  | O => []
  | S w => n2b (n mod 256) :: le_enc w (n / 256)
  end.
Fixpoint le_dec (bs : bytes) : N :=
  match bs with
  | [] => 0
  | b :: t => b2n b + 256 * le_dec t
  end.

Definition two64 : N := 18446744073709551616.
Definition two63 : N := 9223372036854775808.
Definition two32 : N := 4294967296.
Definition two31 : N := 2147483648.
Definition wrap64 (n : N) : N := n mod two64.
(* int64(x) < k  for a uint64 x, as the Go code tests it *)
Definition as_int64 (n : N) : Z :=
  if n <? two63 then Z.of_N n else (Z.of_N n - Z.of_N two64)%Z.

(* generic result type *)
Inductive err :=
| EEof | EUnexpectedEof | EHeaderTooLarge | ESectionTooLarge
| ENotFound | EClosed | EFinalized | ECidTooLarge | EOther
| EPanic | EFuel | EOracleMiss.

Definition err_eqb (a b : err) : bool :=
  match a, b with
  | EEof, EEof | EUnexpectedEof, EUnexpectedEof | EHeaderTooLarge, EHeaderTooLarge
  | ESectionTooLarge, ESectionTooLarge | ENotFound, ENotFound | EClosed, EClosed
  | EFinalized, EFinalized | ECidTooLarge, ECidTooLarge | EOther, EOther
  | EPanic, EPanic | EFuel, EFuel | EOracleMiss, EOracleMiss => true
  | _, _ => false
  end.

Inductive res (A : Type) := Ok (a : A) | Err (e : err).
Arguments Ok {A} a.
Arguments Err {A} e.
