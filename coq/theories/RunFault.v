(* run entry for write-fault sessions (kind "fault"): val -> val, and the C16 layer-B predicate.
   input  = (kind opts roots faults ops hdrtab real)        -- first six fields as for kind "store"
     real : tnone | (inspect_ok scan_ok (cid data) ...) = what the real Reader.Inspect(true) and
            BlockReader made of the implementation's final file (evaluated by the harness)
   output = (openresult (stepobs ...) finalfile), stepobs = (out changed nidx),
            nidx = number of records in the store's insertion index after the step.
   The steps are Fault.fstep (the functions of Store.v, the ones the theorems are about).  One script
   entry per underlying WriteAt / Write call and per Truncate call of a rewind.  For the blockstore
   (kind 0) the verif hooks reach the data writer and the writes of Finalize; the entries of the
   open phase must be "no fault". *)
From Coq Require Import Strings.String.
From GoCar Require Import Bytes Varint Cid Header Frame V2Header Index Store StoreSpec Val RunStore Fault.

Definition v_fop (op : val) : option fop :=
  let c := vB (vnth 1 op) in
  if tag_is op "put" then Some (FPut c (vB (vnth 2 op)))
  else if tag_is op "putmany" then Some (FPutMany (vblocks (VL (tl (vL op)))))
  else if tag_is op "has" then Some (FHas c)
  else if tag_is op "get" then Some (FGet c)
  else if tag_is op "getsize" then Some (FGetSize c)
  else if tag_is op "keys" then Some FKeys
  else if tag_is op "roots" then Some FRoots
  else if tag_is op "finalize" then Some FFinalize
  else if tag_is op "finalizero" then Some FFinalizeRO
  else if tag_is op "close" then Some FClose
  else if tag_is op "discard" then Some FDiscard
  else None.

Section Run.
  Variable hdrdec : bytes -> option (list bytes * N).

  (* the steps are Fault.fstep -- the function the C16 theorems are about *)
  Fixpoint fsteps (kn : N) (s : wstate) (ops : list val) (acc : list val) : list val * bytes :=
    match ops with
    | [] => (rev acc, ws_file s)
    | opv :: t =>
      match v_fop opv with
      | None => (rev (VL [v_out (OErr EOracleMiss); VN 0; VN 0] :: acc), ws_file s)
      | Some op =>
        let '(s', o) := fstep hdrdec kn s op in
        let changed := negb (bytes_eqb (ws_file s) (ws_file s')) in
        fsteps kn s' t (VL [v_out o; v_of_bool changed; VN (N.of_nat (length (ws_idx s')))] :: acc)
      end
    end.

  Definition run_fault_with (input : val) : val :=
    let kn := vN (vnth 0 input) in
    let o := v_wopts (vnth 1 input) in
    let roots := vcids (vnth 2 input) in
    match fopen kn o (is_nil_tag (vnth 2 input)) roots (v_faults (vnth 3 input)) with
    | Err e => VL [VL [VT "err"; v_err e]; VL []; VB []]
    | Ok s =>
      let '(obs, file) := fsteps kn s (vL (vnth 4 input)) [] in
      VL [VL [VT "nil"]; VL obs; VB file]
    end.
End Run.

Definition run_fault (input : val) : val := run_fault_with (hdr_lookup (vL (vnth 5 input))) input.

(* ---- the predicate on what the implementation did ---------------------------------------------- *)
(* the result of a step as the harness printed it *)
Definition obs_out (v : val) : out :=
  let r := vnth 0 v in
  if tag_is r "nil" then ONil
  else if tag_is r "bool" then OBool (vbool (vnth 1 r))
  else if tag_is r "bytes" then OBytes (vB (vnth 1 r))
  else if tag_is r "err" then OErr EOther
  else if tag_is r "size" then OSize (if vbool (vnth 1 r) then (- Z.of_N (vN (vnth 2 r)))%Z else Z.of_N (vN (vnth 2 r)))
  else OKeys (vcids (vnth 1 r)).

(* equality of results, errors as one class *)
Definition out_eqb (a b : out) : bool :=
  match a, b with
  | ONil, ONil => true
  | OErr _, OErr _ => true
  | OBool x, OBool y => Bool.eqb x y
  | OBytes x, OBytes y => bytes_eqb x y
  | OSize x, OSize y => (x =? y)%Z
  | OKeys x, OKeys y => cids_eqb x y
  | _, _ => false
  end.
Definition obs_changed (v : val) : bool := vbool (vnth 1 v).
Definition obs_nidx (v : val) : N := vN (vnth 2 v).

Definition fail (clause cls : string) : val := VL [VT "FAIL"; VT clause; VT cls].

Definition fault_class (kn : N) : string :=
  if kn =? 3 then "stream-partial-section" else "seekable-partial-section".

(* walk the history: acknowledged blocks so far, index count before the step, and the blocks
   acknowledged at the last successful finalize after which the file did not change any more *)
Fixpoint walk (kn : N) (o : wopts) (start : N) (st : list blk)
         (ops : list val) (obs : list val) (fin : option (list blk)) : val + option (list blk) :=
  match ops, obs with
  | opv :: t, ob :: t' =>
    match v_fop opv with
    | None => inl (fail "unknown-operation" "harness")
    | Some op =>
      let out := obs_out ob in
      let nidx := obs_nidx ob in
      let st' := ack_step o start st (N.of_nat (length st)) op (out, nidx) in
      let fin' := if obs_changed ob then None else fin in
      (* the file must be complete after a successful Finalize -- and, in CARv1 mode (which needs
         no Finalize), after every successful Put *)
      let fin'' := match op with
                   | FFinalize | FFinalizeRO => if is_nil out then Some st' else fin'
                   | FPut _ _ | FPutMany _ => if w_v1 o && is_nil out then Some st' else fin'
                   | _ => fin'
                   end in
      match op with
      | FPut _ _ =>
          if is_err out && negb (nidx =? N.of_nat (length st))
          then inl (fail "failed-put-is-indexed" (fault_class kn))
          else if negb (nidx =? N.of_nat (length st'))
          then inl (fail "index-differs-from-acknowledged-blocks" (fault_class kn))
          else walk kn o start st' t t' fin''
      | FPutMany _ =>
          if negb (nidx =? N.of_nat (length st'))
          then inl (fail "index-differs-from-acknowledged-blocks" (fault_class kn))
          else walk kn o start st' t t' fin''
      | FHas _ | FGet _ | FGetSize _ | FKeys =>
          (* C16_reads_refine_map on the implementation: an answer that is not an error is exactly
             the answer of the reference map holding the acknowledged blocks (an error may also be
             the closed store, which the predicate does not track) *)
          match spec_query kn o (mkm st false false) op with
          | Some r => if is_err out || out_eqb out r then walk kn o start st' t t' fin''
                      else inl (fail "read-disagrees-with-the-map-of-acknowledged-blocks" (fault_class kn))
          | None => walk kn o start st' t t' fin''
          end
      | _ => walk kn o start st' t t' fin''
      end
    end
  | _, _ => inr fin
  end.

Definition prop_fault (input obs : val) : val :=
  let kn := vN (vnth 0 input) in
  let o := v_wopts (vnth 1 input) in
  let roots := vcids (vnth 2 input) in
  let nilroots := is_nil_tag (vnth 2 input) in
  let real := vnth 6 input in
  if negb (tag_is (vnth 0 obs) "nil") then VT "ok"       (* open failed: no store, nothing claimed *)
  else
    match walk kn o (hdr_len nilroots roots) [] (vL (vnth 4 input)) (vL (vnth 1 obs)) None with
    | inl f => f
    | inr None => VT "ok"
    | inr (Some st) =>
      let file := vB (vnth 2 obs) in
      if negb (final_ok roots st file)
      then fail "finalized-file-not-wellformed-or-not-the-acknowledged-blocks" (fault_class kn)
      else if negb (index_resolves file)
      then fail "embedded-index-does-not-resolve-a-section" (fault_class kn)
      else if is_nil_tag real || match real with VL [] => true | _ => false end then VT "ok"
      else if negb (vbool (vnth 0 real) && vbool (vnth 1 real) && blks_eqb (vblocks (vnth 2 real)) st)
      then fail "real-readers-disagree-with-wf-final" (fault_class kn)
      else VT "ok"
    end.
