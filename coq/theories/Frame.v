(* uvarint(len) || payload framing: v2/internal/carv1/util (go-varint) and the root module's
   util (encoding/binary + bufio).  Streams are the remaining bytes. *)
From GoCar Require Import Bytes Varint Cid Header.

Definition ld (payload : bytes) : bytes := put_uv (blen payload) ++ payload.
Definition ld_size (n : N) : N := n + uv_size n.                     (* util.LdSize *)
Definition enc_section (c d : bytes) : bytes := put_uv (blen c + blen d) ++ c ++ d.
Definition section_size (c d : bytes) : N := ld_size (blen c + blen d).

(* util.LdReadSize (v2): Ok (l, rest, bytes used by the varint) *)
Definition ld_read_size (zeof : bool) (maxb : N) (s : bytes) : res (N * bytes * N) :=
  match read_uv s with
  | VOk l rest n =>
      if (l =? 0) && zeof then Err EEof
      else if maxb <? l then Err ESectionTooLarge
      else Ok (l, rest, n)
  | VEof => Err EEof
  | VUnexpectedEof => Err EUnexpectedEof
  | VOverflow | VNotMinimal => Err EOther
  end.

(* util.LdRead (v2): Ok (buf, rest).  A short read is io.ErrUnexpectedEOF -- also when
   *no* byte of the payload is left (the repaired behaviour, see known_findings "fixed"). *)
Definition ld_read (zeof : bool) (maxb : N) (s : bytes) : res (bytes * bytes) :=
  match ld_read_size zeof maxb s with
  | Err e => Err e
  | Ok (l, rest, _) =>
      if blen rest <? l then Err EUnexpectedEof
      else Ok (take l rest, drop l rest)
  end.

(* util.ReadNode (v2): Ok (cid, data, rest) *)
Definition read_node (zeof : bool) (maxb : N) (s : bytes) : res (bytes * cidp * bytes * bytes) :=
  match ld_read zeof maxb s with
  | Err e => Err e
  | Ok (buf, rest) =>
      match cid_from_bytes buf with
      | None => Err EOther
      | Some (n, p) => Ok (take n buf, p, drop n buf, rest)
      end
  end.

(* root module util.LdRead over a bufio.Reader *)
Definition root_max_section : N := 33554432.
Definition ld_read_root (s : bytes) : res (bytes * bytes) :=
  match s with
  | [] => Err EEof                              (* Peek(1) fails *)
  | _ =>
    match read_uv_std s with
    | VOk l0 rest _ =>
        let l := wrap64 l0 in
        if root_max_section <? l then Err EOther
        else if blen rest <? l then Err EUnexpectedEof
        else Ok (take l rest, drop l rest)
    | VEof | VUnexpectedEof => Err EUnexpectedEof
    | VOverflow | VNotMinimal => Err EOther
    end
  end.

(* root module util.ReadNode: CidFromReader over the section buffer *)
Definition read_node_root (s : bytes) : res (bytes * cidp * bytes * bytes) :=
  match ld_read_root s with
  | Err e => Err e
  | Ok (buf, rest) =>
      match cid_from_reader buf with
      | CfrOk n c p after => Ok (c, p, after, rest)
      | CfrEof => Err EEof      (* zero-length section: CidFromReader's bare io.EOF leaks out *)
      | CfrErr _ => Err EOther
      end
  end.

Section Oracles.
  (* cbor.DecodeInto on the header bytes: (roots, version) *)
  Variable hdrdec : bytes -> option (list bytes * N).

  (* carv1.ReadHeader (v2): Ok (roots, version, rest, bytes consumed) *)
  Definition read_header (maxh : N) (s : bytes) : res (list bytes * N * bytes * N) :=
    match ld_read false maxh s with
    | Err ESectionTooLarge => Err EHeaderTooLarge
    | Err e => Err e
    | Ok (hb, rest) =>
        match hdrdec hb with
        | None => Err EOther
        | Some (roots, v) => Ok (roots, v, rest, ld_size (blen hb))
        end
    end.

  Definition read_header_root (s : bytes) : res (list bytes * N * bytes) :=
    match ld_read_root s with
    | Err e => Err e
    | Ok (hb, rest) =>
        match hdrdec hb with
        | None => Err EOther
        | Some (roots, v) => Ok (roots, v, rest)
        end
    end.
End Oracles.
