(* Generic tree values: the wire format between the Go harness, the extracted model and
   the checker.  Glue only -- no theorem is about this file. *)
From Coq Require Import Strings.String Strings.Ascii.
From GoCar Require Import Bytes Varint Cid Header Frame V2Header.

Inductive val :=
| VN (n : N)
| VB (b : bytes)
| VT (s : string)
| VL (l : list val).

Definition vnth (i : nat) (v : val) : val :=
  match v with VL l => nth i l (VL []) | _ => VL [] end.
Definition vN (v : val) : N := match v with VN n => n | _ => 0 end.
Definition vB (v : val) : bytes := match v with VB b => b | _ => [] end.
Definition vL (v : val) : list val := match v with VL l => l | _ => [] end.
Definition vbool (v : val) : bool := negb (vN v =? 0).
Definition v_of_bool (b : bool) : val := VN (if b then 1 else 0).

Definition v_err (e : err) : val :=
  VT (match e with
      | EEof => "eof" | EUnexpectedEof => "other" | EHeaderTooLarge => "hdr2big"
      | ESectionTooLarge => "sec2big" | ENotFound => "notfound" | EClosed => "closed"
      | EFinalized => "finalized" | ECidTooLarge => "cid2big" | EOther => "other"
      | EPanic => "PANIC" | EFuel => "FUEL" | EOracleMiss => "ORACLE-MISS"
      end)%string.

Definition v_block (b : bytes * bytes) : val := VL [VB (fst b); VB (snd b)].
Definition v_blocks (bs : list (bytes * bytes)) : val := VL (map v_block bs).
Definition v_cids (cs : list bytes) : val := VL (map VB cs).
Definition vblocks (v : val) : list (bytes * bytes) :=
  map (fun x => (vB (vnth 0 x), vB (vnth 1 x))) (vL v).
Definition vcids (v : val) : list bytes := map vB (vL v).

(* oracle tables *)
Fixpoint hok_lookup (tab : list val) (c d : bytes) : option bool :=
  match tab with
  | [] => None
  | e :: t =>
    if bytes_eqb (vB (vnth 0 e)) c && bytes_eqb (vB (vnth 1 e)) d
    then Some (vbool (vnth 2 e))
    else hok_lookup t c d
  end.

(* header decoding: table of Go's verdicts first, canonical decoder otherwise.
   entry = (hb, ok, roots, version) *)
Fixpoint hdr_lookup (tab : list val) (hb : bytes) : option (list bytes * N) :=
  match tab with
  | [] => dec_header_canon hb
  | e :: t =>
    if bytes_eqb (vB (vnth 0 e)) hb
    then (if vbool (vnth 1 e) then Some (vcids (vnth 2 e), vN (vnth 3 e)) else None)
    else hdr_lookup t hb
  end.
