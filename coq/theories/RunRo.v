(* run entry for read-only random access (kind "ro"): val -> val.
   input  = (front opts file supplied queries hdrtab expect)
     front    : 0 blockstore.NewReadOnly | 1 storage.OpenReadable | 2 both on the same file (queries
                has/get/roots only; output (tboth <blockstore result> <storage result>))
     opts     : (whole storeid zeof maxh maxs maxcid codec)
     supplied : tnone | (tgen opts src)   -- index handed to NewReadOnly = GenerateIndex(src, opts)
                | (tidx bytes)             -- index.ReadFrom(bytes) (hand-crafted index sections)
     queries  : (thas key) (tget key) (tgetsize key) (tkeys) (troots) (tclose mmap) ...
                close: blockstore front-end only; mmap = 1 when Close also closes the backing (OpenReadOnly)
     hdrtab   : header-decoder oracle table (Val.hdr_lookup)
     expect   : tnone | (tvalid roots blocks idxids)  -- the file is a constructed valid archive of these
                roots/blocks; idxids = 1 iff the index in use has identity entries whenever the payload
                has identity sections and StoreIdentityCIDs is on (always 1 for an index generated on open)
   output = (topenerr e) | (tgenerr e) | (tok (answer ...)) *)
From Coq Require Import Strings.String.
From GoCar Require Import Bytes Varint Cid Header Frame V2Header Scan Index Store ReadOnly Val RunStore.

Definition v_qopts (v : val) : qopts :=
  mkq (vbool (vnth 0 v)) (vbool (vnth 1 v)) (vbool (vnth 2 v)) (vN (vnth 3 v)) (vN (vnth 4 v))
      (vN (vnth 5 v)) (vN (vnth 6 v)).

Definition v_keys_out (k : keys_out) : val :=
  match k with
  | KOpenErr e => VL [VT "keyserr"; v_err e]
  | KKeys ks e => VL [VT "keys"; v_cids ks; match e with None => VT "nil" | Some x => v_err x end]
  end.

Section Run.
  Variable hdrdec : bytes -> option (list bytes * N).

  Definition v_roans (a : roans) : val :=
    match a with
    | AOut o => v_out o
    | AKeys k => v_keys_out k
    | AReadOnly => VL [VT "err"; VT "readonly"; VN 1]     (* errReadOnly, backing bytes unchanged *)
    | AOffs [] => VL [VT "err"; VT "notfound"]
    | AOffs offs => VL [VT "offs"; VL (map VN offs)]
    end.

  Definition v_roop (q : val) : option roop :=
    let key := vB (vnth 1 q) in
    if tag_is q "has" then Some (RHas key)
    else if tag_is q "get" then Some (RGet key)
    else if tag_is q "getsize" then Some (RGetSize key)
    else if tag_is q "keys" then Some RKeys
    else if tag_is q "roots" then Some RRoots
    else if tag_is q "close" then Some RClose
    else if tag_is q "put" then Some (RPut key (vB (vnth 2 q)))
    else if tag_is q "putmany" then Some (RPutMany (vblocks (vnth 1 q)))
    else if tag_is q "delete" then Some (RDelete key)
    else if tag_is q "hashonread" then Some (RHashOnRead (vbool (vnth 1 q)))
    else if tag_is q "idxgetall" then Some (RIndexGetAll key)
    else None.

  (* blockstore: a session with the closed flag; storage: stateless *)
  Fixpoint answers_bs (ss : rosess) (qs : list val) : list val :=
    match qs with
    | [] => []
    | q :: t =>
      match v_roop q with
      | None => VL [VT "err"; v_err EOracleMiss] :: answers_bs ss t
      | Some op =>
        let ss0 := match op with RClose => mkss (ss_st ss) (ss_closed ss) (vbool (vnth 1 q)) | _ => ss end in
        let '(ss', a) := ss_step hdrdec ss0 op in v_roans a :: answers_bs ss' t
      end
    end.

  Definition answer_st (s : rostate) (q : val) : val :=
    let key := vB (vnth 1 q) in
    if tag_is q "has" then v_out (ro_has s key)
    else if tag_is q "get" then v_out (sto_get s key)
    else if tag_is q "roots" then v_out (sto_roots s)
    else VL [VT "err"; v_err EOracleMiss].

  Definition run_ro_with (input : val) : val :=
    let front := vN (vnth 0 input) in
    let o := v_qopts (vnth 1 input) in
    let file := vB (vnth 2 input) in
    let sup := vnth 3 input in
    let supplied : res (option ridx) :=
      if tag_is sup "gen" then
        match gen_flat hdrdec (v_qopts (vnth 1 sup)) 0 (vB (vnth 2 sup)) with
        | Ok i => Ok (Some i)
        | Err e => Err e
        end
      else if tag_is sup "idx" then
        match idx_read (vB (vnth 1 sup)) with
        | Ok (i, _) => Ok (Some (RFlat i))
        | Err e => Err e
        end
      else Ok None in
    let run1 (fr : N) (si : option ridx) : val :=
      match (if fr =? 0 then ro_open hdrdec o file si else sto_open hdrdec o file) with
      | Err e => VL [VT "openerr"; v_err e]
      | Ok s => VL [VT "ok"; VL (if fr =? 0 then answers_bs (mkss s false false) (vL (vnth 4 input))
                                 else map (answer_st s) (vL (vnth 4 input)))]
      end in
    match supplied with
    | Err e => VL [VT "generr"; v_err e]
    | Ok si => if front =? 2 then VL [VT "both"; run1 0 si; run1 1 None] else run1 front si
    end.
End Run.

Definition run_ro (input : val) : val := run_ro_with (hdr_lookup (vL (vnth 5 input))) input.

Local Open Scope string_scope.
(* ---- layer-B predicate on what the implementation answered ------------------------------------- *)
Definition val_is_bytes (v : val) (d : bytes) : bool :=
  match v with VL [VT t; VB x] => String.eqb t "bytes" && bytes_eqb x d | _ => false end.
Definition val_is_bool (v : val) (b : bool) : bool :=
  match v with VL [VT t; VN x] => String.eqb t "bool" && Bool.eqb (negb (N.eqb x 0)) b | _ => false end.
Definition val_is_size (v : val) (n : N) : bool :=
  match v with VL [VT t; VN sg; VN x] => String.eqb t "size" && N.eqb sg 0 && N.eqb x n | _ => false end.
Definition val_is_notfound (v : val) : bool :=
  match v with VL [VT t; VT e] => String.eqb t "err" && String.eqb e "notfound" | _ => false end.
Fixpoint cids_eqb (a b : list bytes) : bool :=
  match a, b with
  | [], [] => true
  | x :: a', y :: b' => bytes_eqb x y && cids_eqb a' b'
  | _, _ => false
  end.

(* one query: None = fine, Some clause = the property's clause that fails *)
Definition check_answer (front : N) (o : qopts) (roots : list bytes) (bs : list block) (q ans : val)
  : option string :=
  let key := vB (vnth 1 q) in
  match cid_parse key with
  | None => None
  | Some kp =>
    let short := negb (q_storeid o) && is_identity kp in
    let carrying := filter (carries (q_whole o) key kp) bs in
    let present := match carrying with [] => false | _ => true end in
    if tag_is q "has" then
      if val_is_bool ans (short || present) then None
      else Some (if present then "carried-key-not-found" else "absent-key-reported-present")
    else if tag_is q "get" then
      if short then (if val_is_bytes ans (c_digest kp) then None else Some "identity-get-wrong-bytes")
      else if present then
        (if existsb (fun b => val_is_bytes ans (snd b)) carrying then None
         else if val_is_notfound ans then Some "carried-key-not-found"
         else Some "get-returned-bytes-of-no-carrying-section")
      else (if val_is_notfound ans then None else Some "absent-key-get-not-notfound")
    else if tag_is q "getsize" then
      if short then (if val_is_size ans (blen (c_digest kp)) then None else Some "identity-getsize-wrong")
      else if present then
        (if existsb (fun b => val_is_size ans (blen (snd b))) carrying then None
         else if val_is_notfound ans then Some "carried-key-not-found"
         else Some "getsize-of-no-carrying-section")
      else (if val_is_notfound ans then None else Some "absent-key-getsize-not-notfound")
    else if tag_is q "keys" then
      match ans with
      | VL [VT t; ks; VT e] =>
          if String.eqb t "keys" && String.eqb e "nil" && cids_eqb (vcids ks) (ref_keys (q_whole o) bs)
          then None else Some "key-listing-differs-from-scan"
      | _ => Some "key-listing-differs-from-scan"
      end
    else if tag_is q "roots" then
      match ans with
      | VL [VT t; rs] => if String.eqb t "keys" && cids_eqb (vcids rs) roots then None else Some "roots-differ"
      | _ => Some "roots-differ"
      end
    else None
  end.

(* class of a failed clause: the two known deviations, else "" *)
Definition fail_class (o : qopts) (idxids : bool) (clause : string) (q a : val) : string :=
  let key := vB (vnth 1 q) in
  let ident := match cid_parse key with Some kp => is_identity kp | None => false end in
  let digest_size := match cid_parse key with Some kp => val_is_size a (blen (c_digest kp)) | None => false end in
  (* the documented corner: identity key, StoreIdentityCIDs on, index without identity entries *)
  if String.eqb clause "carried-key-not-found" && ident && q_storeid o && negb idxids
  then "index-without-identity-entries"
  (* GetSize answers len(digest) for every identity key, also under StoreIdentityCIDs *)
  else if String.eqb clause "absent-key-getsize-not-notfound" && ident && q_storeid o && digest_size
  then "identity-getsize-short-circuit" else "".

(* all failing queries of a case as (clause, class) *)
Definition val_is_err (v : val) (cls : string) : bool :=
  match v with VL [VT t; VT e] => (String.eqb t "err" || String.eqb t "keyserr") && String.eqb e cls | _ => false end.

(* after Close: identity short cuts still answer, everything else is errClosed; Roots is unaffected unless
   Close closed the backing *)
Definition check_closed (o : qopts) (roots : list bytes) (mmap : bool) (q ans : val) : option string :=
  let key := vB (vnth 1 q) in
  match cid_parse key with
  | None => None
  | Some kp =>
    let short := negb (q_storeid o) && is_identity kp in
    if tag_is q "has" then
      if (if short then val_is_bool ans true else val_is_err ans "closed") then None else Some "closed-store-answered"
    else if tag_is q "get" then
      if (if short then val_is_bytes ans (c_digest kp) else val_is_err ans "closed") then None else Some "closed-store-answered"
    else if tag_is q "getsize" then
      if (if is_identity kp then val_is_size ans (blen (c_digest kp)) else val_is_err ans "closed") then None
      else Some "closed-store-answered"
    else if tag_is q "keys" then if val_is_err ans "closed" then None else Some "closed-store-answered"
    else if tag_is q "roots" then
      if mmap then None
      else match ans with
           | VL [VT t; rs] => if String.eqb t "keys" && cids_eqb (vcids rs) roots then None else Some "roots-differ"
           | _ => Some "roots-differ"
           end
    else None
  end.

(* the operations whose answer does not depend on open / closed: refused writes, HashOnRead, Index().GetAll *)
Fixpoint sec_offsets (pos : N) (bs : list block) : list (N * block) :=
  match bs with
  | [] => []
  | b :: t => (pos, b) :: sec_offsets (pos + section_size (fst b) (snd b)) t
  end.

Definition check_fixed (roots : list bytes) (bs : list block) (q ans : val) : option (option string) :=
  if tag_is q "put" || tag_is q "putmany" || tag_is q "delete" then
    Some (match ans with
          | VL [VT t; VT e; VN u] =>
              if negb (String.eqb t "err" && String.eqb e "readonly") then Some "write-method-not-refused"
              else if N.eqb u 1 then None else Some "refused-write-changed-the-backing"
          | _ => Some "write-method-not-refused"
          end)
  else if tag_is q "hashonread" then
    Some (match ans with VL [VT t] => if String.eqb t "nil" then None else Some "hashonread-answered" | _ => Some "hashonread-answered" end)
  else if tag_is q "idxgetall" then
    Some (match cid_parse (vB (vnth 1 q)) with
          | None => None
          | Some kp =>
            let offs := match ans with VL [VT t; VL l] => if String.eqb t "offs" then map vN l else [] | _ => [] end in
            let secs := sec_offsets (ld_size (blen (enc_header (Some roots) 1))) bs in
            let digest_of (b : block) := match cid_parse (fst b) with Some p => Some (c_mhcode p, c_digest p) | None => None end in
            let sound := forallb (fun off => existsb (fun ob => N.eqb (fst ob) off &&
                           match digest_of (snd ob) with Some (_, d) => bytes_eqb d (c_digest kp) | None => false end) secs) offs in
            let complete := is_identity kp ||
                            forallb (fun ob => match digest_of (snd ob) with
                                               | Some (c, d) => negb (N.eqb c (c_mhcode kp) && bytes_eqb d (c_digest kp)) ||
                                                                existsb (N.eqb (fst ob)) offs
                                               | None => true end) secs in
            if negb sound then Some "index-offset-is-no-section-of-that-digest"
            else if negb complete then Some "index-misses-a-carrying-section" else None
          end)
  else None.

Fixpoint all_fails_c (closed mmap : bool) (front : N) (o : qopts) (idxids : bool) (roots : list bytes) (bs : list block)
         (qs anss : list val) : list (string * string) :=
  match qs, anss with
  | q :: qs', a :: anss' =>
      if tag_is q "close" then all_fails_c true (closed && mmap || vbool (vnth 1 q)) front o idxids roots bs qs' anss'
      else
      match (match check_fixed roots bs q a with
             | Some r => r
             | None => if closed then check_closed o roots mmap q a else check_answer front o roots bs q a
             end) with
      | Some c => (c, fail_class o idxids c q a) :: all_fails_c closed mmap front o idxids roots bs qs' anss'
      | None => all_fails_c closed mmap front o idxids roots bs qs' anss'
      end
  | [], [] => []
  | _, _ => [("answer-count-mismatch", "")]
  end.
Definition all_fails := all_fails_c false false.

Fixpoint val_eqb (a b : val) : bool :=
  match a, b with
  | VN x, VN y => N.eqb x y
  | VB x, VB y => bytes_eqb x y
  | VT x, VT y => String.eqb x y
  | VL x, VL y =>
      (fix go (l1 l2 : list val) : bool :=
         match l1, l2 with
         | [], [] => true
         | u :: l1', v :: l2' => val_eqb u v && go l1' l2'
         | _, _ => false
         end) x y
  | _, _ => false
  end.

(* first query on which the two front-ends disagree (Get only compared on consistent archives) *)
Fixpoint first_disagree (cons : bool) (qs a1 a2 : list val) : option val :=
  match qs, a1, a2 with
  | q :: qs', x :: a1', y :: a2' =>
      if (cons || negb (tag_is q "get")) && negb (val_eqb x y) then Some q
      else first_disagree cons qs' a1' a2'
  | _, _, _ => None
  end.

Definition prop_ro1 (front : N) (input obs : val) : val :=
  let o := v_qopts (vnth 1 input) in
  let expect := vnth 6 input in
  if negb (tag_is expect "valid") then VT "ok" else
  let roots := vcids (vnth 1 expect) in
  let bs := vblocks (vnth 2 expect) in
  let idxids := vbool (vnth 3 expect) in
  if negb (tag_is obs "ok") then VL [VT "FAIL"; VT "valid-archive-failed-to-open"; VT ""] else
  let qs := map (fun q => match q with
                          | VL [VT t] => VL [VT t; VB (cid_enc (mkcid 1 85 0 []))]
                          | _ => q end) (vL (vnth 4 input)) in
  let fails := all_fails front o idxids roots bs qs (vL (vnth 1 obs)) in
  (* report an unlisted failure first, so that a known deviation never hides another one *)
  match find (fun f => String.eqb (snd f) "") fails, fails with
  | Some (clause, klass), _ => VL [VT "FAIL"; VT clause; VT klass]
  | None, (clause, klass) :: _ => VL [VT "FAIL"; VT clause; VT klass]
  | None, [] => VT "ok"
  end.

(* keys/roots queries carry no key: prop_ro1 gives check_answer a parseable dummy *)
Definition prop_ro (input obs : val) : val :=
  let front := vN (vnth 0 input) in
  if negb (N.eqb front 2) then prop_ro1 front input obs
  else if negb (tag_is (vnth 6 input) "valid") then VT "ok"
  else
    match prop_ro1 0 input (vnth 1 obs) with
    | VT _ =>
      match prop_ro1 1 input (vnth 2 obs) with
      | VT _ =>
        match first_disagree (consistentb (vblocks (vnth 2 (vnth 6 input)))) (vL (vnth 4 input))
                             (vL (vnth 1 (vnth 1 obs))) (vL (vnth 1 (vnth 2 obs))) with
        | None => VT "ok"
        | Some _ => VL [VT "FAIL"; VT "frontends-disagree"; VT ""]
        end
      | f => f
      end
    | f => f
    end.
