(* Container transforms (v2/writer.go): WrapV1 / WrapV1File, ExtractV1File (new file, over an
   existing file, in place), ReplaceRootsInFile, with the index generation WrapV1 relies on
   (v2/index_gen.go LoadIndex over a seekable source).  Layer A follows the Go control flow;
   the closed forms used as layer B are at the end.  Proofs: proofs/Transform*.v. *)
From GoCar Require Import Bytes Varint Cid Header Frame V2Header Scan Index.

(* ---- a tiny file system: a file is absent or a byte string --------------------------- *)
Definition file := option bytes.

(* pwrite(data, off): bytes before [off] stay, a gap past the end is zero-filled, bytes after
   the written range stay *)
Definition write_at (f : bytes) (off : N) (data : bytes) : bytes :=
  take off f ++ zerosN (off - blen f) ++ data ++ drop (off + blen data) f.

(* the destination path of a two-path operation: the source path itself, or another path
   whose file is absent / present *)
Inductive dest := DSame | DOther (d : file).
Record fs2 := mkfs { f_src : file; f_dst : dest }.

(* the destination PATH as given by the caller.  The source file can be reached under another
   string -- a symlink to it, a hard link, an unnormalised spelling (dir/./x.car), a relative
   against an absolute one: the code never compares the strings, it opens both, so every such alias
   is the same file and gets the in-place semantics *)
Inductive dpath := PSame | PSymlink | PHardlink | PUnclean | PRelative | POther (d : file).
Definition resolve_dest (p : dpath) : dest :=
  match p with POther d => DOther d | _ => DSame end.

Definition is_same (d : dest) : bool := match d with DSame => true | DOther _ => false end.
Definition dst_content (s : fs2) : file :=
  match f_dst s with DSame => f_src s | DOther d => d end.
Definition set_dst (s : fs2) (b : bytes) : fs2 :=
  match f_dst s with
  | DSame => mkfs (Some b) DSame
  | DOther _ => mkfs (f_src s) (DOther (Some b))
  end.

(* ---- options (after ApplyOptions' defaults) and the environment ----------------------- *)
Record xopts := mkxopts {
  x_maxh : N;        (* MaxAllowedHeaderSize *)
  x_zeof : bool;     (* ZeroLengthSectionAsEOF *)
  x_codec : N;       (* IndexCodec *)
  x_storeid : bool;  (* StoreIdentityCIDs *)
  x_maxcid : N;      (* MaxIndexCidSize *)
  x_maxseek : N      (* largest offset Seek accepts on this source (file system s_maxbytes;
                        2^63-1 for bytes.Reader) *)
}.

(* Seek to an absolute position: int64 overflow and the file system's limit are errors;
   seeking past the end of the data is not *)
Definition seek_ok (o : xopts) (pos : N) : bool := (pos <=? x_maxseek o) && (pos <? two63).

Inductive xres := XOk | XAlreadyV1 | XErr (e : err).

(* result of the CopyN loop *)
Inductive copy_res := CopyEnd (s d : bytes) (remaining : N) | CopyFuel.

(* f.Seek(0, io.SeekCurrent) after reading from [s] left [rest]: the bytes consumed *)
Definition consumed (s rest : bytes) : N := blen s - blen rest.

Section Oracles.
  Variable hdrdec : bytes -> option (list bytes * N).

  (* ---- LoadIndex over a seekable source (io.ReadSeeker: *os.File, bytes.Reader) -------- *)
  (* the section loop.  [pos] is the reader's absolute position, [doff]/[dsize] are the CARv2
     window (0/0 for a CARv1 source); records carry offsets relative to [doff]. *)
  Fixpoint li_loop (fuel : nat) (o : xopts) (all : bytes) (pos doff dsize : N)
           (acc : list irec) : res (list irec) :=
    match fuel with
    | O => Err EFuel
    | S f =>
      (* end of a CARv2 data payload: tested before a section is read (so that a payload without
         sections is not read past its end into what follows it) *)
      if negb (dsize =? 0) && (dsize <=? pos - doff) then Ok (rev acc) else
      match read_uv (drop pos all) with
      | VEof => Ok (rev acc)
      | VUnexpectedEof | VOverflow | VNotMinimal => Err EOther
      | VOk slen _ n =>
        if slen =? 0 then (if x_zeof o then Ok (rev acc) else Err EOther)
        else
          match cid_from_reader (drop (pos + n) all) with
          | CfrEof => Err EEof             (* CidFromReader's bare io.EOF is returned as is *)
          | CfrErr _ => Err EOther
          | CfrOk cn c p _ =>
            let keep := x_storeid o || negb (is_identity p) in
            if keep && (x_maxcid o <? cn) then Err ECidTooLarge
            else
              let acc' := if keep then mkrec c (c_mhcode p) (c_digest p) (pos - doff) :: acc
                          else acc in
              (* Seek(sectionLen - cidLen, SeekCurrent): lands at the section's end, which may
                 be before the end of the CID just read, or past the end of the file *)
              let npos := pos + n + slen in
              if negb (seek_ok o npos) then Err EOther
              else li_loop f o all npos doff dsize acc'
          end
      end
    end.

  Definition load_index (o : xopts) (all : bytes) : res (list irec) :=
    match read_header hdrdec (x_maxh o) all with
    | Err EHeaderTooLarge => Err EHeaderTooLarge   (* wrapped, still recognisable *)
    | Err _ => Err EOther                          (* "error reading car header: %w" *)
    | Ok (_, v, rest, _) =>
      if v =? 1 then li_loop (S (length all)) o all (consumed all rest) 0 0 []
      else if v =? 2 then
        match read_v2hdr rest with
        | Err e => Err e
        | Ok (h, _) =>
          if negb (seek_ok o (h_doff h)) then Err EOther
          else
            match read_header hdrdec (x_maxh o) (drop (h_doff h) all) with
            | Err e => Err e
            | Ok (_, v1, rest1, _) =>
              if negb (v1 =? 1) then Err EOther
              else li_loop (S (length all)) o all
                           (h_doff h + consumed (drop (h_doff h) all) rest1) (h_doff h) (h_dsize h) []
            end
        end
      else Err EOther
    end.

  (* ---- WrapV1(src io.ReadSeeker, dst io.Writer) ---------------------------------------- *)
  (* [srt] stands for what sort.Sort does inside an index bucket (not stable: the order inside a run
     of equal digests is unspecified; contract in proofs/IndexSort.v).  The executable instance
     [wrap_bytes] uses the stable insertion sort, and the harness orders such runs by offset. *)
  Definition wrap_bytes_with (srt : list irec -> list irec) (o : xopts) (x : bytes) : res bytes :=
    match idx_new (x_codec o) with
    | None => Err EOther
    | Some i0 =>
      match load_index o x with
      | Err e => Err e
      | Ok recs =>
        Ok (pragma ++ enc_v2hdr (new_header (blen x)) ++ x ++ idx_write (idx_load_with srt recs i0))
      end
    end.
  Definition wrap_bytes (o : xopts) (x : bytes) : res bytes := wrap_bytes_with sort_by_digest o x.

  (* WrapV1File(srcPath, dstPath): os.Open(src), os.Create(dst) (truncates; also when it is the
     source path), WrapV1 *)
  Definition wrap_file_with (srt : list irec -> list irec) (o : xopts) (s : fs2) : res unit * fs2 :=
    match f_src s with
    | None => (Err EOther, s)
    | Some _ =>
      let s1 := set_dst s [] in
      match f_src s1 with
      | None => (Err EOther, s1)
      | Some x =>
        match wrap_bytes_with srt o x with
        | Err e => (Err e, s1)
        | Ok w => (Ok tt, set_dst s1 w)
        end
      end
    end.
  Definition wrap_file (o : xopts) (s : fs2) : res unit * fs2 := wrap_file_with sort_by_digest o s.

  (* ---- ExtractV1File ------------------------------------------------------------------- *)
  (* io.CopyN(dst, src, n) as a chunked forward copy: source offset base+k, destination offset
     k, chunk size chosen by [csz] (32 KiB buffer, copy_file_range's partial results, ...).
     [same]: source and destination are the same file, so writes land in [s]. *)
  Fixpoint copy_loop (fuel : nat) (csz : N -> N) (same : bool) (s d : bytes)
           (base k n : N) : copy_res :=
    match fuel with
    | O => CopyFuel
    | S f =>
      if n =? 0 then CopyEnd s d 0
      else
        let chunk := take (N.min (csz k) n) (drop (base + k) s) in
        match chunk with
        | [] => CopyEnd s d n                      (* Read returned 0, io.EOF *)
        | _ :: _ =>
          let m := blen chunk in
          if same then copy_loop f csz same (write_at s k chunk) d base (k + m) (n - m)
          else copy_loop f csz same s (write_at d k chunk) base (k + m) (n - m)
        end
    end.

  Definition extract_file (csz : N -> N) (o : xopts) (s : fs2) : xres * fs2 :=
    match f_src s with
    | None => (XErr EOther, s)
    | Some a =>
      match read_header hdrdec (x_maxh o) a with           (* ReadVersion *)
      | Err e => (XErr e, s)
      | Ok (_, v, rest, _) =>
        if v =? 1 then (XAlreadyV1, s)
        else if negb (v =? 2) then (XErr EOther, s)
        else
          match read_v2hdr rest with                        (* Header.ReadFrom *)
          | Err e => (XErr e, s)
          | Ok (h, _) =>
            if negb (seek_ok o (h_doff h)) then (XErr EOther, s)   (* src.Seek(dataOffset) *)
            else
              (* OpenFile(dst, O_CREATE|O_WRONLY): created empty if absent, never truncated *)
              let d0 := match dst_content s with Some d => d | None => [] end in
              let same := is_same (f_dst s) in
              match copy_loop (S (length a)) csz same a d0 (h_doff h) 0 (h_dsize h) with
              | CopyFuel => (XErr EFuel, s)
              | CopyEnd a' d' remaining =>
                let out := if same then a' else d' in
                if negb (remaining =? 0) then (XErr EEof, set_dst s out)
                else if h_dsize h <? blen out then (XOk, set_dst s (take (h_dsize h) out))
                else (XOk, set_dst s out)
              end
          end
      end
    end.

  (* ---- ReplaceRootsInFile -------------------------------------------------------------- *)
  (* roots = None is a nil slice (CBOR null), Some [] an empty one *)
  Definition new_header_bytes (roots : option (list bytes)) : bytes := ld (enc_header roots 1).

  Definition replace_finish (a : bytes) (off cur : N) (roots : option (list bytes))
    : res unit * file :=
    let nh := new_header_bytes roots in
    if negb (cur =? blen nh) then (Err EOther, Some a)
    else (Ok tt, Some (write_at a off nh)).

  Definition replace_roots (o : xopts) (f : file) (roots : option (list bytes))
    : res unit * file :=
    match f with
    | None => (Err EOther, None)
    | Some a =>
      match read_header hdrdec (x_maxh o) a with
      | Err e => (Err e, f)
      | Ok (_, v, rest, _) =>
        if v =? 1 then replace_finish a 0 (consumed a rest) roots
        else if v =? 2 then
          match read_v2hdr rest with
          | Err e => (Err e, f)
          | Ok (h, _) =>
            if negb (seek_ok o (h_doff h)) then (Err EOther, f)
            else
              match read_header hdrdec (x_maxh o) (drop (h_doff h) a) with
              | Err e => (Err e, f)
              | Ok (_, _, rest1, _) =>
                (* the "inner version <> 1" error is overwritten by the next assignment *)
                replace_finish a (h_doff h) (consumed (drop (h_doff h) a) rest1) roots
              end
          end
        else (Err EOther, f)
      end
    end.
End Oracles.

(* ---- every Option WrapV1 accepts ------------------------------------------------------------------ *)
(* WrapV1(src, dst, opts...) takes the whole Option type, so a caller can pass UseDataPadding and
   UseIndexPadding.  HEAD applies them nowhere: the header is NewHeader(size) and payload and index
   are written back to back.  [wrapopts] = the options that matter plus the two that are ignored. *)
Record wrapopts := mkwrapopts { wo_x : xopts; wo_dpad : N; wo_ipad : N }.
Definition wrap_bytes_opts (hdrdec : bytes -> option (list bytes * N)) (srt : list irec -> list irec)
           (w : wrapopts) (x : bytes) : res bytes :=
  wrap_bytes_with hdrdec srt (wo_x w) x.

(* ---- AttachIndex(path, idx, offset) ---------------------------------------------------------- *)
(* As found, the file is opened with O_APPEND and written through WriteAt, which the os package
   refuses ("invalid use of WriteAt on file opened with O_APPEND"): the call fails for EVERY input,
   after O_CREATE has created an absent file (empty). *)
Definition attach_index_as_found (f : file) (i : index) (off : N) : res unit * file :=
  (Err EOther, Some (match f with Some a => a | None => [] end)).
(* Repaired (notes/fixes/C10-attachindex-append.patch: O_APPEND dropped): OpenFile(O_CREATE|O_WRONLY),
   an OffsetWriter at int64(offset), index.WriteTo.  A negative int64 offset is refused by WriteAt.
   The CARv2 header is not updated (the code says so in a TODO). *)
Definition attach_index (f : file) (i : index) (off : N) : res unit * file :=
  let a := match f with Some a => a | None => [] end in
  if two63 <=? off then (Err EOther, Some a)
  else (Ok tt, Some (write_at a off (idx_write i))).

(* ---- sequences of transforms on one file ------------------------------------------------------- *)
(* the file a caller keeps transforming: WrapV1File into a fresh path (which then is "the file"),
   ExtractV1File in place, ReplaceRootsInFile, AttachIndex.  A failed step leaves the file as the
   step left it (for a failed wrap: the source, untouched). *)
Inductive xop :=
| OWrap (o : xopts)
| OExtract (o : xopts)
| OReplace (o : xopts) (roots : option (list bytes))
| OAttach (i : index) (off : N).

Section Seq.
  Variable hdrdec : bytes -> option (list bytes * N).
  Variable srt : list irec -> list irec.
  Variable csz : N -> N.

  Definition xstep (op : xop) (a : bytes) : xres * bytes :=
    match op with
    | OWrap o =>
      match wrap_bytes_with hdrdec srt o a with
      | Ok w => (XOk, w)
      | Err e => (XErr e, a)
      end
    | OExtract o =>
      let '(r, s') := extract_file hdrdec csz o (mkfs (Some a) DSame) in
      (r, match f_src s' with Some b => b | None => [] end)
    | OReplace o roots =>
      let '(r, f) := replace_roots hdrdec o (Some a) roots in
      (match r with Ok _ => XOk | Err e => XErr e end, match f with Some b => b | None => [] end)
    | OAttach i off =>
      let '(r, f) := attach_index (Some a) i off in
      (match r with Ok _ => XOk | Err e => XErr e end, match f with Some b => b | None => [] end)
    end.

  Fixpoint xrun (ops : list xop) (a : bytes) : list xres * bytes :=
    match ops with
    | [] => ([], a)
    | op :: t => let '(r, a1) := xstep op a in let '(rs, an) := xrun t a1 in (r :: rs, an)
    end.

  (* what a caller must respect for the payload to survive (executable): AttachIndex is told an
     offset -- it has to lie at or after the end of the data payload of the CARv2 it is applied to;
     and file sizes stay within int64 *)
  Definition attach_guard (a : bytes) (off : N) : bool :=
    match read_header hdrdec two63 a with
    | Ok (_, v, rest, _) =>
      if v =? 2 then
        match read_v2hdr rest with
        | Ok (h, _) => (h_doff h + h_dsize h <=? off) && (off <? two63)
        | Err _ => false
        end
      else false
    | Err _ => false
    end.
  Definition step_guard (op : xop) (a : bytes) : bool :=
    match op with
    | OWrap _ => blen a + 51 <? two63
    | OAttach _ off => attach_guard a off
    | _ => true
    end.
  Fixpoint seq_guard (ops : list xop) (a : bytes) : bool :=
    match ops with
    | [] => true
    | op :: t => step_guard op a && seq_guard t (snd (xstep op a))
    end.
End Seq.

(* ---- layer B ---------------------------------------------------------------------------- *)
(* index records of a constructed payload: one per section whose CID is not identity (or every
   section with StoreIdentityCIDs), at the offset of the section's length varint *)
Definition keep_cid (storeid : bool) (c : bytes) : bool :=
  match cid_parse c with
  | Some p => storeid || negb (is_identity p)
  | None => false
  end.
Fixpoint spec_records (storeid : bool) (off : N) (bs : list block) : list irec :=
  match bs with
  | [] => []
  | (c, d) :: t =>
    (if keep_cid storeid c
     then match rec_of_cid c off with Some r => [r] | None => [] end
     else []) ++ spec_records storeid (off + section_size c d) t
  end.

(* executable guard of the wrap theorems: the options let LoadIndex through on the constructed
   payload (header within MaxAllowedHeaderSize, indexed CIDs within MaxIndexCidSize, every
   position within what Seek accepts) *)
Definition wrap_guard (o : xopts) (roots : list bytes) (bs : list block) : bool :=
  (blen (enc_header (Some roots) 1) <=? x_maxh o) &&
  forallb (fun b => negb (keep_cid (x_storeid o) (fst b)) || (blen (fst b) <=? x_maxcid o)) bs &&
  seek_ok o (blen (enc_payload roots bs)).

(* a CARv2 container around a payload: pragma, header, data padding, payload, index padding,
   trailer (index bytes or nothing) *)
Definition v2_container (h : v2hdr) (dpad payload tail : bytes) : bytes :=
  pragma ++ enc_v2hdr h ++ dpad ++ payload ++ tail.

(* exactly the CARv2 headers Header.ReadFrom accepts (fields are uint64): data offset at least 51
   and, like data size and index offset, non-negative as int64; data size not zero.  Nothing else
   is looked at: characteristics, an index offset inside or before the payload or past the end of
   the file, a window larger than the file are all accepted here. *)
Definition v2hdr_accepted (h : v2hdr) : bool :=
  (51 <=? h_doff h) && (h_doff h <? two63) && (0 <? h_dsize h) && (h_dsize h <? two63) &&
  (h_ioff h <? two63).

(* what extraction must leave at the destination *)
Definition payload_window (h : v2hdr) (a : bytes) : bytes := take (h_dsize h) (drop (h_doff h) a).

(* layer B for sequences: peel CARv2 containers until a CARv1 is reached; its section bytes *)
Fixpoint innermost_sections (hdr : bytes -> option (list bytes * N)) (fuel : nat) (a : bytes) : option bytes :=
  match fuel with
  | O => None
  | S f =>
    match read_header hdr two63 a with
    | Ok (_, v, rest, _) =>
      if v =? 1 then Some rest
      else if v =? 2 then
        match read_v2hdr rest with
        | Ok (h, _) => innermost_sections hdr f (payload_window h a)
        | Err _ => None
        end
      else None
    | Err _ => None
    end
  end.
