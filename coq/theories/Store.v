(* Writable stores: blockstore.ReadWrite and storage.StorageCar (writable / readable-writable),
   internal/store.{ShouldPut,Has,FindCid,Finalize,Resume}, internal/io.OffsetWriteSeeker.
   The backing file is a byte string; every underlying WriteAt / Truncate call is logged (crash
   images, C06) and consumes one entry of a fault script (C16).  Executable; no proofs here. *)
From GoCar Require Import Bytes Varint Cid Header Frame V2Header Index.

(* ---- the backing file -------------------------------------------------------------------- *)
Definition write_at (f : bytes) (off : N) (d : bytes) : bytes :=
  match d with
  | [] => f                                     (* pwrite of 0 bytes never extends a file *)
  | _ => if off <=? blen f then take off f ++ d ++ drop (off + blen d) f
         else f ++ zerosN (off - blen f) ++ d   (* hole reads back as zeros *)
  end.
Definition truncate_to (f : bytes) (n : N) : bytes :=
  if n <=? blen f then take n f else f ++ zerosN (n - blen f).

Inductive wr := WrAt (off : N) (d : bytes) | Trunc (n : N).

(* d_log is newest-first.  d_faults: one entry per WriteAt call, None (or exhausted) = the call
   succeeds; Some k = only the first min(k,len) bytes reach the file and the call returns an error *)
Record dev := mkdev { d_file : bytes; d_log : list wr; d_faults : list (option N) }.

Definition apply_wr (f : bytes) (w : wr) : bytes :=
  match w with WrAt off d => write_at f off d | Trunc n => truncate_to f n end.
Definition writes_of (dv : dev) : list wr := rev (d_log dv).

(* one WriteAt call: (device, bytes written, ok) *)
Definition dev_write (dv : dev) (off : N) (data : bytes) : dev * N * bool :=
  match d_faults dv with
  | Some k :: rest =>
      let part := take k data in
      (mkdev (write_at (d_file dv) off part) (WrAt off part :: d_log dv) rest, blen part, false)
  | None :: rest =>
      (mkdev (write_at (d_file dv) off data) (WrAt off data :: d_log dv) rest, blen data, true)
  | [] =>
      (mkdev (write_at (d_file dv) off data) (WrAt off data :: d_log dv) [], blen data, true)
  end.
Definition dev_truncate (dv : dev) (n : N) : dev :=
  mkdev (truncate_to (d_file dv) n) (Trunc n :: d_log dv) (d_faults dv).
(* a Truncate call that may fail (the one OffsetWriteSeeker.Rewind issues after a failed section
   write): it consumes one entry of the same script; Some _ = the call fails (or the writer has no
   Truncate method) and the file stays as it is.  Resume's Truncate keeps using dev_truncate. *)
Definition dev_try_truncate (dv : dev) (n : N) : dev * bool :=
  match d_faults dv with
  | Some _ :: rest => (mkdev (d_file dv) (d_log dv) rest, false)
  | None :: rest => (mkdev (truncate_to (d_file dv) n) (Trunc n :: d_log dv) rest, true)
  | [] => (dev_truncate dv n, true)
  end.

(* consecutive Write calls through an OffsetWriteSeeker / position-tracking writer starting at
   absolute offset abs: stops at the first failing call; returns the new absolute offset *)
Fixpoint write_chunks (dv : dev) (abs : N) (chunks : list bytes) : dev * N * bool :=
  match chunks with
  | [] => (dv, abs, true)
  | c :: t =>
      match dev_write dv abs c with
      | (dv', n, true) => write_chunks dv' (abs + n) t
      | (dv', n, false) => (dv', abs + n, false)
      end
  end.

(* ---- options ------------------------------------------------------------------------------- *)
Record wopts := mkwopts {
  w_dpad : N; w_ipad : N; w_codec : N; w_zeof : bool; w_maxcid : N; w_storeid : bool;
  w_dups : bool; w_whole : bool; w_v1 : bool; w_maxh : N; w_maxs : N }.

Definition default_maxh : N := 33554432.
Definition default_maxs : N := 8388608.

(* carv2.NewHeader(0) with the padding options applied (only when > 0, as the code does) *)
Definition hdr_of (o : wopts) : v2hdr :=
  let h := new_header 0 in
  let h := if 0 <? w_dpad o then with_data_padding (w_dpad o) h else h in
  if 0 <? w_ipad o then with_index_padding (w_ipad o) h else h.
Definition data_base (o : wopts) : N := if w_v1 o then 0 else h_doff (hdr_of o).

(* util.LdWrite: one Write per slice after the length varint *)
Definition ld_chunks (parts : list bytes) : list bytes :=
  put_uv (fold_left (fun a p => a + blen p) parts 0) :: parts.
(* nilroots: the caller passed a nil slice (encoded as CBOR null) rather than an empty one *)
Definition roots_opt (nilroots : bool) (roots : list bytes) : option (list bytes) :=
  match roots with [] => if nilroots then None else Some [] | _ => Some roots end.
Definition header_chunks (nilroots : bool) (roots : list bytes) : list bytes :=
  ld_chunks [enc_header (roots_opt nilroots roots) 1].

(* index.WriteTo(Flatten(codec)): the Write calls binary.Write / Marshal issue *)
Definition swi_chunks (b : N * bytes) : list bytes := [le_enc 4 (fst b); le_enc 8 (blen (snd b)); snd b].
Definition mwi_chunks (m : mwi) : list bytes :=
  le_enc 4 (N.of_nat (length m)) :: concat (map swi_chunks m).
Definition idx_chunks (i : index) : list bytes :=
  put_uv (idx_codec i) ::
  match i with
  | IdxSorted m => mwi_chunks m
  | IdxMh m => le_enc 4 (N.of_nat (length m)) ::
               concat (map (fun cm => le_enc 8 (fst cm) :: mwi_chunks (snd cm)) m)
  end.
Definition v2hdr_chunks (h : v2hdr) : list bytes :=
  [le_enc 8 (h_hi h) ++ le_enc 8 (h_lo h); le_enc 8 (h_doff h) ++ le_enc 8 (h_dsize h) ++ le_enc 8 (h_ioff h)].

(* ---- store core (internal/store/indexcheck.go) ----------------------------------------------- *)
(* ShouldPut: Ok true = write it, Ok false = silently skip *)
Definition should_put (o : wopts) (ii : iidx) (c : bytes) (p : cidp) : res bool :=
  if negb (w_storeid o) && is_identity p then Ok false
  else if w_maxcid o <? blen c then Err ECidTooLarge
  else if negb (w_dups o) then
    if w_whole o then Ok (negb (ii_has_exact_cid c (c_digest p) ii))
    else (* InsertionIndex.HasMultihash (repaired: was Get = any record with that digest,
            whatever its hash code; notes/fixes/C04-dedup-by-multihash.patch) *)
      Ok (negb (ii_has_multihash (c_mhcode p) (c_digest p) ii))
  else Ok true.

Definition store_has (o : wopts) (ii : iidx) (c : bytes) (p : cidp) : bool :=
  if negb (w_storeid o) && is_identity p then true
  else if w_whole o then ii_has_exact_cid c (c_digest p) ii
  else ii_has_multihash (c_mhcode p) (c_digest p) ii.

(* varint.ReadUvarint straight on a reader (no size limit) *)
Definition raw_uv (s : bytes) : res (N * bytes * N) :=
  match read_uv s with
  | VOk l rest n => Ok (l, rest, n)
  | VEof => Err EEof
  | VUnexpectedEof => Err EUnexpectedEof
  | _ => Err EOther
  end.

Definition key_matches (whole : bool) (key : bytes) (kp : cidp) (c : bytes) (p : cidp) : bool :=
  if whole then bytes_eqb c key
  else (c_mhcode p =? c_mhcode kp) && bytes_eqb (c_digest p) (c_digest kp).

(* FindCid over the payload view [view] (what the ReaderAt shows from the payload start) for the
   candidate offsets the index's GetAll yields, in order.
   Ok (data, offset of the data in the view, data length) | Err ENotFound | Err e *)
Fixpoint find_cid (view : bytes) (offs : list N) (key : bytes) (kp : cidp)
         (whole zeof : bool) (maxs : N) (readbytes : bool) : res (bytes * N * Z) :=
  match offs with
  | [] => Err ENotFound
  | off :: more =>
    let s := drop off view in
    if readbytes then
      match read_node zeof maxs s with
      | Err e => Err e
      | Ok (c, p, d, _) =>
          if key_matches whole key kp c p then Ok (d, 0, Z.of_N (blen d))
          else find_cid view more key kp whole zeof maxs readbytes
      end
    else
      match raw_uv s with
      | Err e => Err e
      | Ok (slen, r1, n1) =>
        (* repaired (notes/fixes/C09-findcid-section-limit.patch): the size-only path enforces the
           section limit like ReadNode does; it used to ignore maxReadBytes *)
        if maxs <? slen then Err ESectionTooLarge else
        match cid_from_reader r1 with
        | CfrOk n c p _ =>
            if key_matches whole key kp c p
            then Ok ([], off + n1 + n, (Z.of_N slen - Z.of_N n)%Z)
            else find_cid view more key kp whole zeof maxs readbytes
        | CfrEof => Err EEof
        | CfrErr _ => Err EOther
        end
      end
  end.

(* ---- state ----------------------------------------------------------------------------------- *)
(* KStorage writer_at: false = plain io.Writer stream (CARv1 only, write-only) *)
Inductive skind := KBlockstore | KStorage (writer_at : bool).

Record wstate := mkws {
  ws_dev : dev; ws_idx : iidx; ws_pos : N (* dataWriter.Position(), relative to data_base *);
  ws_closed : bool; ws_finalized : bool; ws_roots : list bytes; ws_opts : wopts; ws_kind : skind }.

Definition set_dev (s : wstate) (dv : dev) (pos : N) : wstate :=
  mkws dv (ws_idx s) pos (ws_closed s) (ws_finalized s) (ws_roots s) (ws_opts s) (ws_kind s).
Definition set_idx (s : wstate) (ii : iidx) : wstate :=
  mkws (ws_dev s) ii (ws_pos s) (ws_closed s) (ws_finalized s) (ws_roots s) (ws_opts s) (ws_kind s).
Definition set_flags (s : wstate) (closed finalized : bool) : wstate :=
  mkws (ws_dev s) (ws_idx s) (ws_pos s) closed finalized (ws_roots s) (ws_opts s) (ws_kind s).

Definition ws_file (s : wstate) : bytes := d_file (ws_dev s).
(* what the store's ReaderAt shows from the payload start (to the end of the file) *)
Definition ws_view (s : wstate) : bytes := drop (data_base (ws_opts s)) (ws_file s).

(* open on an empty file: pragma (v2) then the CARv1 header through the data writer *)
Definition open_new (k : skind) (o : wopts) (nilroots : bool) (roots : list bytes) (faults : list (option N))
  : res wstate :=
  let stream_v2 := match k with KStorage false => negb (w_v1 o) | _ => false end in
  if stream_v2 then Err EOther                   (* CARv2 needs an io.WriterAt *)
  else
    let dv0 := mkdev [] [] faults in
    let '(dv1, ok1) :=
      if w_v1 o then (dv0, true)
      else let '(d, _, ok) := dev_write dv0 0 pragma in (d, ok) in
    if negb ok1 then Err EOther else
    let '(dv2, abs, ok2) := write_chunks dv1 (data_base o) (header_chunks nilroots roots) in
    if negb ok2 then Err EOther
    else Ok (mkws dv2 [] (abs - data_base o) false false roots o k).

(* ---- Put --------------------------------------------------------------------------------------- *)
Inductive out :=
| ONil                      (* success without a value *)
| OErr (e : err)
| OBool (b : bool)
| OBytes (d : bytes)
| OSize (n : Z)
| OKeys (ks : list bytes).

(* one block through ShouldPut + LdWrite + InsertNoReplace.
   A failed LdWrite that got some bytes of the section out (fix: C16-discard-partial-section):
   - seekable data writer (blockstore, storage on a WriterAt): OffsetWriteSeeker.Rewind truncates
     the backing file at the section start and moves the writer back there;
   - when that Truncate fails or the writer has none (dev_try_truncate), and on a plain io.Writer,
     the bytes cannot be taken back: the writer stays where it is and the store records a sticky
     write error (writeErr) that refuses every later Put and Finalize.  For the storage kinds the
     model keeps that flag in ws_finalized, which StorageCar does not otherwise use; for the
     blockstore it replaces ws_roots (which ReadWrite does not otherwise keep: Roots() re-reads
     the header) by [sticky_roots].  NOTE: bs_put_many / bs_finalize_ro below do not test the
     blockstore's flag (they stay as every property built on them expects, and are exact as long
     as Truncate does not fail); Fault.v wraps them with the test.
   Nothing written (error with 0 bytes on the first call): state unchanged. *)
Definition sticky_roots : list bytes := [[]].     (* not a root list: the empty string is no CID *)
Definition set_roots (s : wstate) (r : list bytes) : wstate :=
  mkws (ws_dev s) (ws_idx s) (ws_pos s) (ws_closed s) (ws_finalized s) r (ws_opts s) (ws_kind s).
Definition put_one (s : wstate) (c d : bytes) (p : cidp) : wstate * out :=
  let o := ws_opts s in
  match should_put o (ws_idx s) c p with
  | Err e => (s, OErr e)
  | Ok false => (s, ONil)
  | Ok true =>
    let n := ws_pos s in
    let '(dv, abs, ok) := write_chunks (ws_dev s) (data_base o + n) (ld_chunks [c; d]) in
    let s1 := set_dev s dv (abs - data_base o) in
    if ok then (set_idx s1 (ii_insert (mkrec c (c_mhcode p) (c_digest p) n) (ws_idx s1)), ONil)
    else if abs =? data_base o + n then (s1, OErr EOther)
    else match ws_kind s with
         | KStorage false => (set_flags s1 (ws_closed s1) true, OErr EOther)
         | k =>
           let '(dv', tok) := dev_try_truncate dv (data_base o + n) in
           if tok then (set_dev s dv' n, OErr EOther)
           else let s2 := set_dev s dv' (abs - data_base o) in
                match k with
                | KBlockstore => (set_roots s2 sticky_roots, OErr EOther)
                | _ => (set_flags s2 (ws_closed s2) true, OErr EOther)
                end
         end
  end.

Fixpoint put_many_loop (s : wstate) (blks : list (bytes * bytes)) : wstate * out :=
  match blks with
  | [] => (s, ONil)
  | (c, d) :: t =>
    match cid_parse c with
    | None => (s, OErr EOther)
    | Some p =>
      match put_one s c d p with
      | (s', ONil) => put_many_loop s' t
      | r => r
      end
    end
  end.

(* blockstore.ReadWrite.PutMany / Put *)
Definition bs_put_many (s : wstate) (blks : list (bytes * bytes)) : wstate * out :=
  if ws_closed s then (s, OErr EClosed)
  else if ws_finalized s then (s, OErr EFinalized)
  else put_many_loop s blks.

(* storage.StorageCar.Put *)
Definition st_put (s : wstate) (c d : bytes) : wstate * out :=
  match cid_parse c with
  | None => (s, OErr EOther)                     (* bad CID key *)
  | Some p => if ws_closed s then (s, OErr EClosed)
              else if ws_finalized s then (s, OErr EOther)   (* sticky write error *)
              else put_one s c d p
  end.

(* ---- queries ----------------------------------------------------------------------------------- *)
Definition ws_find (s : wstate) (c : bytes) (p : cidp) (readbytes : bool) : res (bytes * N * Z) :=
  let o := ws_opts s in
  find_cid (ws_view s) (ii_getall (c_digest p) (ws_idx s)) c p (w_whole o) (w_zeof o) (w_maxs o) readbytes.

Definition bs_has (s : wstate) (c : bytes) : out :=
  match cid_parse c with
  | None => OErr EOther
  | Some p => if ws_closed s then OErr EClosed else OBool (store_has (ws_opts s) (ws_idx s) c p)
  end.

(* ReadWrite.Get = ReadOnly.Get over the insertion index *)
Definition bs_get (s : wstate) (c : bytes) : out :=
  match cid_parse c with
  | None => OErr EOther
  | Some p =>
    if negb (w_storeid (ws_opts s)) && is_identity p then OBytes (c_digest p)
    else if ws_closed s then OErr EClosed
    else match ws_find s c p true with
         | Ok (d, _, _) => OBytes d
         | Err e => OErr e
         end
  end.

Definition bs_getsize (s : wstate) (c : bytes) : out :=
  match cid_parse c with
  | None => OErr EOther
  | Some p =>
    if is_identity p then OSize (Z.of_N (blen (c_digest p)))
    else if ws_closed s then OErr EClosed
    else match ws_find s c p false with
         | Ok (_, _, n) => OSize n
         | Err e => OErr e
         end
  end.

Definition raw_cid (p : cidp) : bytes := cid_enc (mkcid 1 85 (c_mhcode p) (c_digest p)).

(* ReadWrite.AllKeysChan: insertion index in digest order *)
Definition bs_allkeys (s : wstate) : out :=
  if ws_closed s then OErr EClosed
  else OKeys (map (fun r => if w_whole (ws_opts s) then r_cid r
                            else raw_cid (mkcid 1 85 (r_code r) (r_digest r))) (ws_idx s)).

Section Oracle.
  Variable hdrdec : bytes -> option (list bytes * N).

  (* ReadWrite.Roots: header re-read from the file (fails once the file is closed) *)
  Definition bs_roots (s : wstate) : out :=
    if ws_closed s then OErr EOther
    else match read_header hdrdec (w_maxh (ws_opts s)) (ws_view s) with
         | Ok (roots, _, _, _) => OKeys roots
         | Err EHeaderTooLarge => OErr EHeaderTooLarge   (* wrapped with %w: still recognisable *)
         | Err _ => OErr EOther
         end.
End Oracle.

Definition st_has (s : wstate) (c : bytes) : out :=
  match cid_parse c with
  | None => OErr EOther
  | Some p => if ws_closed s then OErr EClosed else OBool (store_has (ws_opts s) (ws_idx s) c p)
  end.

(* StorageCar.Get = GetStream + ReadAll over a SectionReader *)
Definition st_get (s : wstate) (readable : bool) (c : bytes) : out :=
  if negb readable then OErr EOther else
  match cid_parse c with
  | None => OErr EOther
  | Some p =>
    if negb (w_storeid (ws_opts s)) && is_identity p then OBytes (c_digest p)
    else if ws_closed s then OErr EClosed
    else match ws_find s c p false with
         | Ok (_, off, n) =>
             if (n <? 0)%Z then OBytes [] else OBytes (take (Z.to_N n) (drop off (ws_view s)))
         | Err e => OErr e
         end
  end.

(* ---- Finalize ---------------------------------------------------------------------------------- *)
(* internal/store.Finalize: index at IndexOffset, then the 40 header bytes at 11 *)
Definition store_finalize (s : wstate) : wstate * out :=
  let o := ws_opts s in
  let h := set_fully_indexed (w_storeid o) (with_data_size (ws_pos s) (hdr_of o)) in
  match ii_flatten (w_codec o) (ws_idx s) with
  | None => (s, OErr EOther)
  | Some fi =>
    let '(dv1, _, ok1) := write_chunks (ws_dev s) (h_ioff h) (idx_chunks fi) in
    if negb ok1 then (set_dev s dv1 (ws_pos s), OErr EOther) else
    let '(dv2, _, ok2) := write_chunks dv1 pragma_size (v2hdr_chunks h) in
    (set_dev s dv2 (ws_pos s), if ok2 then ONil else OErr EOther)
  end.

Definition bs_finalize_ro (s : wstate) : wstate * out :=
  if w_v1 (ws_opts s) then (set_flags s (ws_closed s) true, ONil)
  else if ws_closed s then (s, OErr EOther)
  else if ws_finalized s then (s, OErr EOther)
  else store_finalize (set_flags s (ws_closed s) true).

Definition bs_close (s : wstate) : wstate * out :=
  if negb (w_v1 (ws_opts s)) && negb (ws_finalized s) then (s, OErr EOther)
  else if ws_closed s then (s, OErr EOther)
  else (set_flags s true (ws_finalized s), ONil).

(* ReadWrite.Finalize: both steps run, the first error is reported *)
Definition bs_finalize (s : wstate) : wstate * out :=
  let '(s1, r1) := bs_finalize_ro s in
  let '(s2, r2) := bs_close s1 in
  (s2, match r1 with ONil => r2 | e => e end).

Definition bs_discard (s : wstate) : wstate * out := (set_flags s true (ws_finalized s), ONil).

(* StorageCar.Finalize (repaired: the CARv1 branch used to return without closing;
   notes/fixes/C04-storage-v1-finalize-closes.patch) *)
Definition st_finalize (s : wstate) : wstate * out :=
  if ws_finalized s then (set_flags s true true, OErr EOther)   (* sticky write error (C16): reported, and the store is closed *)
  else if ws_closed s then (s, OErr EOther)
  else if w_v1 (ws_opts s) then (set_flags s true (ws_finalized s), ONil)
  else store_finalize (set_flags s true (ws_finalized s)).

(* ---- Resume ------------------------------------------------------------------------------------ *)
Definition roots_contains (rs : list bytes) (r : bytes) : bool := existsb (bytes_eqb r) rs.
Definition roots_count (rs : list bytes) (r : bytes) : N := N.of_nat (length (filter (bytes_eqb r) rs)).
(* CarHeader.Matches (h = header in the file, other = requested): same length and every root of h
   occurs equally often in both (repaired: it used to test only that other contains each root of
   h, so [a;a] matched [a;b]; notes/fixes/C12-matches-root-multiset.patch) *)
Definition header_matches (hroots : list bytes) (hver : N) (roots : list bytes) : bool :=
  (hver =? 1) && (N.of_nat (length hroots) =? N.of_nat (length roots)) &&
  match hroots, roots with
  | [a], [b] => bytes_eqb a b
  | _, _ => forallb (fun r => roots_count hroots r =? roots_count roots r) hroots
  end.

(* the section loop of Resume over the payload view; pos is relative to the payload start.
   Ok (index, writer position) *)
Fixpoint resume_scan (fuel : nat) (zeof : bool) (base : N) (view : bytes) (pos : N) (ii : iidx)
  : res (iidx * N) :=
  match fuel with
  | O => Err EFuel
  | S f =>
    match read_uv (drop pos view) with
    | VEof => Ok (ii, pos)
    | VUnexpectedEof => Err EUnexpectedEof
    | VOverflow | VNotMinimal => Err EOther
    | VOk len r1 n1 =>
      if len =? 0 then (if zeof then Ok (ii, pos) else Err EOther) else
      match cid_from_reader r1 with
      | CfrEof => Err EEof
      | CfrErr _ => Err EOther
      | CfrOk n c p _ =>
        let ii' := ii_insert (mkrec c (c_mhcode p) (c_digest p) pos) ii in
        (* Seek(length - n, SeekCurrent): overflow of the absolute int64 offset is an error *)
        if (n <=? len) && (two63 <=? base + pos + n1 + len) then Err EOther
        else resume_scan f zeof base view (pos + n1 + len) ii'
      end
    end
  end.

Section Resume.
  Variable hdrdec : bytes -> option (list bytes * N).

  (* OpenReadWrite on a non-empty file / OpenReadableWritable.  can_truncate: the backing
     object has Truncate (always for *os.File).  Returns the state or (error, device) -- the
     device shows what happened to the file before the error. *)
  Definition resume (k : skind) (can_truncate : bool) (o : wopts) (roots : list bytes)
             (file : bytes) (faults : list (option N)) : wstate + (err * dev) :=
    let dv0 := mkdev file [] faults in
    (* ResumableVersion: ReadVersion under the caller's MaxAllowedHeaderSize (repaired: it used to run
       under the 32 MiB default whatever the caller configured;
       notes/fixes/C09-resume-version-probe-limit.patch) *)
    match read_header hdrdec (w_maxh o) file with
    | Err e => inr (e, dv0)
    | Ok (_, ver, _, _) =>
      if negb (((ver =? 1) && w_v1 o) || ((ver =? 2) && negb (w_v1 o))) then inr (EOther, dv0) else
      let base := data_base o in
      (* v2: header probe + padding comparison *)
      let probe : res (option v2hdr) :=
        if w_v1 o then Ok None
        else if negb can_truncate then Err EOther
        else match read_v2hdr (drop pragma_size file) with
             | Ok (h, _) => if negb (h_doff h =? base) then Err EOther else Ok (Some h)
             | Err _ => Ok None
             end in
      match probe with
      | Err e => inr (e, dv0)
      | Ok hin =>
        let view := drop base file in
        match read_header hdrdec (w_maxh o) view with
        | Err e => (* fmt.Errorf("error reading car header: %w", err): the wrapped error is no longer
                      == io.EOF, so a bare EOF surfaces as an ordinary error (the too-large class is
                      recognised through the wrapping) *)
                   inr (match e with EEof => EOther | _ => e end, dv0)
        | Ok (hroots, hver, _, _) =>
          if negb (header_matches hroots hver roots) then inr (EOther, dv0) else
          let dv1 := match hin with
                     | Some h => dev_truncate dv0 (wrap64 (h_doff h + h_dsize h))
                     | None => dv0
                     end in
          let '(dv2, ok2) :=
            if w_v1 o then (dv1, true)
            else let '(d, _, ok) := write_chunks dv1 pragma_size (v2hdr_chunks (mkv2 0 0 0 0 0)) in (d, ok) in
          if negb ok2 then inr (EOther, dv2) else
          let view2 := drop base (d_file dv2) in
          let start := ld_size (blen (enc_header (Some hroots) 1)) in
          match resume_scan (S (length view2)) (w_zeof o) base view2 start [] with
          | Err e => inr (e, dv2)
          | Ok (ii, pos) => inl (mkws dv2 ii pos false false roots o k)
          end
        end
      end
    end.
End Resume.

(* ---- layer B: what a finished file must look like ------------------------------------------------ *)
Definition stored_blocks := list (bytes * bytes).
Definition payload_of (roots : list bytes) (bs : stored_blocks) : bytes :=
  ld (enc_header (Some roots) 1) ++ concat (map (fun b => enc_section (fst b) (snd b)) bs).

(* offsets of the sections of [bs] in the payload *)
Fixpoint records_from (pos : N) (bs : stored_blocks) : list irec :=
  match bs with
  | [] => []
  | (c, d) :: t =>
    match cid_parse c with
    | Some p => mkrec c (c_mhcode p) (c_digest p) pos :: records_from (pos + section_size c d) t
    | None => records_from (pos + section_size c d) t
    end
  end.
Definition records_of (roots : list bytes) (bs : stored_blocks) : list irec :=
  records_from (ld_size (blen (enc_header (Some roots) 1))) bs.

(* the finalized CARv2 for options o, roots and stored blocks (index = flattened insertion index) *)
Definition layout_v2 (o : wopts) (roots : list bytes) (bs : stored_blocks) : option bytes :=
  let payload := payload_of roots bs in
  let h := set_fully_indexed (w_storeid o) (with_data_size (blen payload) (hdr_of o)) in
  match ii_flatten (w_codec o) (ii_load (records_of roots bs) []) with
  | None => None
  | Some fi =>
    Some (pragma ++ enc_v2hdr h ++ zerosN (w_dpad o) ++ payload ++ zerosN (w_ipad o) ++ idx_write fi)
  end.
