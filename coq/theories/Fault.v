(* C16 -- a failed write does not poison the store or the archive.
   Fault scripts live in the device of Store.v (one entry per underlying WriteAt/Write call).
   This file adds: the operation alphabet of a fault session and its step function (the very
   functions of Store.v), the layer-B replay "which blocks were acknowledged" computed from what
   the caller saw, the executable well-formedness check of a finished file, and the executable
   guards.  No proofs here. *)
From GoCar Require Import Bytes Varint Cid Header Frame V2Header Index Store StoreSpec.

Definition blk := (bytes * bytes)%type.   (* cid bytes, data *)

(* ---- operations of a session (no reopen: resumption is C06/C12) ------------------------------- *)
Inductive fop :=
| FPut (c d : bytes)
| FPutMany (bs : list blk)
| FHas (c : bytes)
| FGet (c : bytes)
| FGetSize (c : bytes)
| FKeys
| FRoots
| FFinalize
| FFinalizeRO
| FClose
| FDiscard.

(* ---- the blockstore's sticky write error (ReadWrite.writeErr) ---------------------------------- *)
(* put_one records it in ws_roots (see Store.v); PutMany tests it after closed / finalized,
   FinalizeReadOnly before anything else *)
Definition bs_sticky (s : wstate) : bool :=
  match ws_roots s with [[]] => true | _ => false end.
Definition fbs_put_many (s : wstate) (blks : list (bytes * bytes)) : wstate * out :=
  if ws_closed s || ws_finalized s then bs_put_many s blks
  else if bs_sticky s then (s, OErr EOther)
  else bs_put_many s blks.
Definition fbs_finalize_ro (s : wstate) : wstate * out :=
  if bs_sticky s then (s, OErr EOther) else bs_finalize_ro s.
Definition fbs_finalize (s : wstate) : wstate * out :=
  let '(s1, r1) := fbs_finalize_ro s in
  let '(s2, r2) := bs_close s1 in
  (s2, match r1 with ONil => r2 | e => e end).
(* the sticky write error of a front-end: storage keeps it in ws_finalized *)
Definition sticky (kn : N) (s : wstate) : bool := if kn =? 0 then bs_sticky s else ws_finalized s.

Section Step.
  Variable hdrdec : bytes -> option (list bytes * N).

  (* kn: 0 blockstore.ReadWrite | 1 storage readable+writable | 2 storage write-only on a WriterAt
     | 3 storage on a plain io.Writer | 4 storage write-only on a WriterAt without Truncate.
     Same dispatch as RunStore.step. *)
  Definition fstep (kn : N) (s : wstate) (op : fop) : wstate * out :=
    match op with
    | FPut c d => if kn =? 0 then fbs_put_many s [(c, d)] else st_put s c d
    | FPutMany bs => fbs_put_many s bs
    | FHas c => (s, if kn =? 0 then bs_has s c else st_has s c)
    | FGet c => (s, if kn =? 0 then bs_get s c else st_get s (kn =? 1) c)
    | FGetSize c => (s, bs_getsize s c)
    | FKeys => (s, bs_allkeys s)
    | FRoots => (s, if kn =? 0 then bs_roots hdrdec s else OKeys (ws_roots s))
    | FFinalize => if kn =? 0 then fbs_finalize s else st_finalize s
    | FFinalizeRO => fbs_finalize_ro s
    | FClose => bs_close s
    | FDiscard => bs_discard s
    end.

  (* a whole session: states and results, oldest first *)
  Fixpoint frun (kn : N) (s : wstate) (ops : list fop) : wstate * list (wstate * out) :=
    match ops with
    | [] => (s, [])
    | op :: t =>
      let '(s1, o) := fstep kn s op in
      let '(sn, tr) := frun kn s1 t in
      (sn, (s1, o) :: tr)
    end.
End Step.

(* operations the front-end has: the storage front-ends only Put / Has / Get / Roots / Finalize *)
Definition op_okb (kn : N) (op : fop) : bool :=
  (kn =? 0) || match op with FPut _ _ | FHas _ | FGet _ | FRoots | FFinalize => true | _ => false end.
Definition is_finalize (op : fop) : bool :=
  match op with FFinalize | FFinalizeRO => true | _ => false end.

(* what put_one needs to know of the target: kinds 3 and 4 cannot take written bytes back (a plain
   io.Writer; a WriterAt without a Truncate method), so a partial section means the sticky error
   without any Truncate call.  After open nothing else in the model looks at the kind. *)
Definition kind_of (kn : N) : skind :=
  if kn =? 0 then KBlockstore else if (kn =? 3) || (kn =? 4) then KStorage false else KStorage true.
Definition set_kind (s : wstate) (k : skind) : wstate :=
  mkws (ws_dev s) (ws_idx s) (ws_pos s) (ws_closed s) (ws_finalized s) (ws_roots s) (ws_opts s) k.
(* open on an empty target.  Kind 4 is a WriterAt (positioned writes, CARv2 allowed) that has no
   Truncate method: opened like kind 2, then treated by put_one like the plain io.Writer *)
Definition fopen (kn : N) (o : wopts) (nilroots : bool) (roots : list bytes) (faults : list (option N))
  : res wstate :=
  if kn =? 4 then
    match open_new (KStorage true) o nilroots roots faults with
    | Ok s => Ok (set_kind s (KStorage false))
    | Err e => Err e
    end
  else open_new (kind_of kn) o nilroots roots faults.

(* ---- fault accounting ------------------------------------------------------------------------- *)
Definition is_fault (f : option N) : bool := match f with Some _ => true | None => false end.
Definition nfaults (fs : list (option N)) : nat := length (filter is_fault fs).
(* an injected fault was consumed between the two states *)
Definition fault_hit (s s' : wstate) : bool :=
  (nfaults (d_faults (ws_dev s')) <? nfaults (d_faults (ws_dev s)))%nat.

Definition is_err (o : out) : bool := match o with OErr _ => true | _ => false end.
Definition is_nil (o : out) : bool := match o with ONil => true | _ => false end.

(* ---- layer B: the blocks the caller was told are stored ------------------------------------------ *)
(* offset of the first section = length of the framed CARv1 header *)
Definition hdr_len (nilroots : bool) (roots : list bytes) : N :=
  ld_size (blen (enc_header (roots_opt nilroots roots) 1)).
(* the insertion index the store holds after acknowledging [st], in that order *)
Definition idx_of (start : N) (st : list blk) : iidx := ii_load (records_from start st) [].

(* Put of one block acknowledged with success: appended unless ShouldPut (de-duplication,
   identity CIDs) says it is already there.  Which puts are skipped is C04's business; here the
   rule is simply the library's own ShouldPut applied to the acknowledged blocks. *)
Definition spec_put (o : wopts) (start : N) (st : list blk) (c d : bytes) : list blk :=
  match cid_parse c with
  | None => st
  | Some p =>
    match should_put o (idx_of start st) c p with
    | Ok true => st ++ [(c, d)]
    | _ => st
    end
  end.
Definition spec_put_all (o : wopts) (start : N) (st : list blk) (bs : list blk) : list blk :=
  fold_left (fun a b => spec_put o start a (fst b) (snd b)) bs st.
(* a PutMany that failed midway keeps the blocks before the failing one: [k] = how many records
   the index gained *)
Fixpoint spec_put_upto (o : wopts) (start : N) (st : list blk) (bs : list blk) (k : N) : list blk :=
  match bs with
  | [] => st
  | (c, d) :: t =>
    if k =? 0 then st
    else let st' := spec_put o start st c d in
         spec_put_upto o start st' t (k - (N.of_nat (length st') - N.of_nat (length st)))
  end.

(* what the caller observes of a step: the result and the number of index records afterwards *)
Definition fobs := (out * N)%type.
Definition obs_of (r : wstate * out) : fobs := (snd r, N.of_nat (length (ws_idx (fst r)))).

Definition ack_step (o : wopts) (start : N) (st : list blk) (nidx : N) (op : fop) (ob : fobs) : list blk :=
  match op with
  | FPut c d => if is_nil (fst ob) then spec_put o start st c d else st
  | FPutMany bs => if is_nil (fst ob) then spec_put_all o start st bs
                   else spec_put_upto o start st bs (snd ob - nidx)
  | _ => st
  end.
(* acknowledged blocks after a session, from what the caller saw *)
Fixpoint acked_from (o : wopts) (start : N) (st : list blk) (ops : list fop) (obs : list fobs) : list blk :=
  match ops, obs with
  | op :: t, ob :: t' =>
      acked_from o start (ack_step o start st (N.of_nat (length st)) op ob) t t'
  | _, _ => st
  end.
Definition acked (o : wopts) (nilroots : bool) (roots : list bytes) (ops : list fop) (obs : list fobs) : list blk :=
  acked_from o (hdr_len nilroots roots) [] ops obs.

(* ---- layer B: a finished file is well-formed ------------------------------------------------------ *)
(* strict reference scan of a section stream: every byte belongs to a section, no size limit
   (2^63 is above every length go-varint can return), a zero-length section is an error *)
Fixpoint ref_sections (fuel : nat) (s : bytes) : option (list blk) :=
  match s with
  | [] => Some []
  | _ =>
    match fuel with
    | O => None
    | S f =>
      match read_node false two63 s with
      | Ok (c, _, d, rest) =>
          match ref_sections f rest with
          | Some bs => Some ((c, d) :: bs)
          | None => None
          end
      | Err _ => None
      end
    end
  end.

(* a CARv1 byte string: canonical header, then sections to the last byte: (roots, blocks, offset of
   the first section) *)
Definition wf_v1 (s : bytes) : option (list bytes * list blk * N) :=
  match read_header dec_header_canon two63 s with
  | Ok (roots, v, rest, used) =>
      if v =? 1 then
        match ref_sections (S (length rest)) rest with
        | Some bs => Some (roots, bs, used)
        | None => None
        end
      else None
  | Err _ => None
  end.

(* a finished file of the writable stores: either a bare CARv1, or pragma + CARv2 header whose
   arithmetic is consistent with the file, a payload that is a CARv1 as above, and -- at the index
   offset, running to the last byte of the file -- exactly the index that the sections of the
   payload generate (codec taken from the file).  Padding bytes are not constrained.
   Some (roots, blocks) on success. *)
Definition wf_final (file : bytes) : option (list bytes * list blk) :=
  match read_header dec_header_canon two63 file with
  | Err _ => None
  | Ok (_, v, rest, _) =>
    if v =? 1 then
      match wf_v1 file with Some (roots, bs, _) => Some (roots, bs) | None => None end
    else if negb (v =? 2) then None
    else
      match read_v2hdr rest with
      | Err _ => None
      | Ok (h, _) =>
        if negb ((h_lo h =? 0) && ((h_hi h =? 0) || (h_hi h =? fully_indexed_bit))) then None
        else if blen file <? h_doff h + h_dsize h then None
        else if h_ioff h <? h_doff h + h_dsize h then None          (* index present, after the data *)
        else if blen file <? h_ioff h then None
        else
          match wf_v1 (take (h_dsize h) (drop (h_doff h) file)) with
          | None => None
          | Some (roots, bs, start) =>
            let ib := drop (h_ioff h) file in
            match read_uv ib with
            | VOk codec _ _ =>
              match ii_flatten codec (idx_of start bs) with
              | Some fi => if bytes_eqb ib (idx_write fi) then Some (roots, bs) else None
              | None => None
              end
            | _ => None
            end
          end
      end
  end.

Fixpoint blks_eqb (a b : list blk) : bool :=
  match a, b with
  | [], [] => true
  | x :: a', y :: b' => bytes_eqb (fst x) (fst y) && bytes_eqb (snd x) (snd y) && blks_eqb a' b'
  | _, _ => false
  end.
Fixpoint cids_eqb (a b : list bytes) : bool :=
  match a, b with
  | [], [] => true
  | x :: a', y :: b' => bytes_eqb x y && cids_eqb a' b'
  | _, _ => false
  end.

(* the final clause of the property: the finished file is well-formed and holds exactly [st] *)
Definition final_ok (roots : list bytes) (st : list blk) (file : bytes) : bool :=
  match wf_final file with
  | Some (r, bs) => cids_eqb r roots && blks_eqb bs st
  | None => false
  end.

(* additional executable check used by the correspondence run only (its truth for every index
   the library generates is C03/C11's theorem, not repeated here): every section's offset is
   among the offsets the embedded index returns for its key *)
Definition index_resolves (file : bytes) : bool :=
  match read_header dec_header_canon two63 file with
  | Ok (_, v, rest, _) =>
    if v =? 1 then true else
    match read_v2hdr rest with
    | Ok (h, _) =>
      match wf_v1 (take (h_dsize h) (drop (h_doff h) file)), idx_read (drop (h_ioff h) file) with
      | Some (_, bs, start), Ok (fi, _) =>
          forallb (fun r => existsb (N.eqb (r_off r)) (idx_getall fi (r_code r) (r_digest r)))
                  (records_from start bs)
      | _, _ => false
      end
    | Err _ => false
    end
  | Err _ => false
  end.

(* ---- what Has / Get may answer, given the acknowledged blocks -------------------------------------- *)
Definition spec_has (o : wopts) (start : N) (st : list blk) (c : bytes) : bool :=
  match cid_parse c with
  | Some p => store_has o (idx_of start st) c p
  | None => false
  end.
(* Get may only return the data of an acknowledged block with that key (or an identity digest) *)
Definition spec_get_ok (o : wopts) (st : list blk) (c d : bytes) : bool :=
  match cid_parse c with
  | None => false
  | Some kp =>
    (negb (w_storeid o) && is_identity kp && bytes_eqb d (c_digest kp)) ||
    existsb (fun b => match cid_parse (fst b) with
                      | Some p => key_matches (w_whole o) c kp (fst b) p && bytes_eqb (snd b) d
                      | None => false
                      end) st
  end.

(* the CARv1 payload holding [st] *)
Definition fpayload (nilroots : bool) (roots : list bytes) (st : list blk) : bytes :=
  ld (enc_header (roots_opt nilroots roots) 1) ++ concat (map (fun b => enc_section (fst b) (snd b)) st).

(* ---- the read operations against the reference map of C04 (StoreSpec.v) ------------------------------ *)
(* what a read operation must answer when the store holds exactly the blocks of [m]; Get needs a
   readable target (blockstore, storage opened readable+writable) *)
Definition spec_query (kn : N) (o : wopts) (m : mstate) (q : fop) : option out :=
  match q with
  | FHas c => Some (m_has o m c)
  | FGet c => Some (if (kn =? 0) || (kn =? 1) then m_get o m c else OErr EOther)
  | FGetSize c => Some (m_getsize o m c)
  | FKeys => Some (m_keys o m)
  | _ => None
  end.

(* ---- side conditions of the theorems (sizes Go cannot exceed anyway) -------------------------------- *)
Definition op_blocks (op : fop) : list blk :=
  match op with FPut c d => [(c, d)] | FPutMany bs => bs | _ => [] end.
(* every block handed to Put is smaller than 2^63 bytes *)
Definition blk_small (b : blk) : Prop := blen (fst b) + blen (snd b) < two63.
Definition ops_small (ops : list fop) : Prop := Forall (fun op => Forall blk_small (op_blocks op)) ops.

(* ---- the unrepaired behaviour (what Put did before the fix), kept for the refutation ---------------- *)
(* one block through ShouldPut + LdWrite + InsertNoReplace: on a failed write the writer stays
   where the failing call left it *)
Definition put_one_v0 (s : wstate) (c d : bytes) (p : cidp) : wstate * out :=
  let o := ws_opts s in
  match should_put o (ws_idx s) c p with
  | Err e => (s, OErr e)
  | Ok false => (s, ONil)
  | Ok true =>
    let n := ws_pos s in
    let '(dv, abs, ok) := write_chunks (ws_dev s) (data_base o + n) (ld_chunks [c; d]) in
    let s1 := set_dev s dv (abs - data_base o) in
    if ok then (set_idx s1 (ii_insert (mkrec c (c_mhcode p) (c_digest p) n) (ws_idx s1)), ONil)
    else (s1, OErr EOther)
  end.
Fixpoint put_many_loop_v0 (s : wstate) (blks : list blk) : wstate * out :=
  match blks with
  | [] => (s, ONil)
  | (c, d) :: t =>
    match cid_parse c with
    | None => (s, OErr EOther)
    | Some p =>
      match put_one_v0 s c d p with
      | (s', ONil) => put_many_loop_v0 s' t
      | r => r
      end
    end
  end.
Definition bs_put_many_v0 (s : wstate) (blks : list blk) : wstate * out :=
  if ws_closed s then (s, OErr EClosed)
  else if ws_finalized s then (s, OErr EFinalized)
  else put_many_loop_v0 s blks.
Definition st_put_v0 (s : wstate) (c d : bytes) : wstate * out :=
  match cid_parse c with
  | None => (s, OErr EOther)
  | Some p => if ws_closed s then (s, OErr EClosed) else put_one_v0 s c d p
  end.
Definition st_finalize_v0 (s : wstate) : wstate * out :=
  if w_v1 (ws_opts s) then (s, ONil)
  else if ws_closed s then (s, OErr EOther)
  else store_finalize (set_flags s true (ws_finalized s)).
(* the write operations of a session with the unrepaired Put *)
Definition fstep_v0 (kn : N) (s : wstate) (op : fop) : wstate * out :=
  match op with
  | FPut c d => if kn =? 0 then bs_put_many_v0 s [(c, d)] else st_put_v0 s c d
  | FPutMany bs => bs_put_many_v0 s bs
  | FFinalize => if kn =? 0 then bs_finalize s else st_finalize_v0 s
  | FFinalizeRO => bs_finalize_ro s
  | FClose => bs_close s
  | FDiscard => bs_discard s
  | _ => (s, ONil)
  end.
Fixpoint frun_v0 (kn : N) (s : wstate) (ops : list fop) : wstate * list (wstate * out) :=
  match ops with
  | [] => (s, [])
  | op :: t =>
    let '(s1, o) := fstep_v0 kn s op in
    let '(sn, tr) := frun_v0 kn s1 t in
    (sn, (s1, o) :: tr)
  end.
