(* run entry for writable-store histories (kind "store"): val -> val.
   input  = (kind opts roots faults ops hdrtab)
     kind : 0 blockstore.ReadWrite | 1 storage NewReadableWritable/OpenReadableWritable on a file
            | 2 storage NewWritable on a file (write-only) | 3 storage NewWritable on a stream
     roots : (cid ...) or tnil for a nil slice
     opts : (dpad ipad codec zeof maxcid storeid dups whole v1 maxh maxs)
     faults : (f ...) with f = n0 (no fault) | (k) = short write of k bytes then error
     ops  : (tput cid data) (tputmany (cid data) ...) (thas cid) (tget cid) (tgetsize cid) (tkeys)
            (troots) (tfinalize) (tfinalizero) (tclose) (tdiscard) (treopen opts roots)
   output = (openresult (stepobs ...) finalfile)
     stepobs = (out changed) with changed = 1 iff the file bytes differ from before the op *)
From Coq Require Import Strings.String.
From GoCar Require Import Bytes Varint Cid Header Frame V2Header Index Store Val.

Definition v_wopts (v : val) : wopts :=
  mkwopts (vN (vnth 0 v)) (vN (vnth 1 v)) (vN (vnth 2 v)) (vbool (vnth 3 v)) (vN (vnth 4 v))
          (vbool (vnth 5 v)) (vbool (vnth 6 v)) (vbool (vnth 7 v)) (vbool (vnth 8 v))
          (vN (vnth 9 v)) (vN (vnth 10 v)).

Definition v_faults (v : val) : list (option N) :=
  map (fun x => match x with VL [VN k] => Some k | _ => None end) (vL v).

Definition v_kind (n : N) : skind :=
  if n =? 0 then KBlockstore else if n =? 3 then KStorage false else KStorage true.

Definition v_out (o : out) : val :=
  match o with
  | ONil => VL [VT "nil"]
  | OErr e => VL [VT "err"; v_err e]
  | OBool b => VL [VT "bool"; v_of_bool b]
  | OBytes d => VL [VT "bytes"; VB d]
  | OSize n => if (n <? 0)%Z then VL [VT "size"; VN 1; VN (Z.to_N (- n))] else VL [VT "size"; VN 0; VN (Z.to_N n)]
  | OKeys ks => VL [VT "keys"; v_cids ks]
  end.

Definition tag_is (v : val) (s : string) : bool :=
  match vnth 0 v with VT t => String.eqb t s | _ => false end.

Definition is_nil_tag (v : val) : bool := match v with VT _ => true | _ => false end.

Section Run.
  Variable hdrdec : bytes -> option (list bytes * N).

  (* kind number is kept beside the state: readable = kind 0 or 1 *)
  Definition step (kn : N) (s : wstate) (op : val) : (wstate + (err * dev)) * out :=
    let c := vB (vnth 1 op) in
    if tag_is op "put" then
      let '(s', o) := if kn =? 0 then bs_put_many s [(c, vB (vnth 2 op))] else st_put s c (vB (vnth 2 op)) in (inl s', o)
    else if tag_is op "putmany" then
      let '(s', o) := bs_put_many s (vblocks (VL (tl (vL op)))) in (inl s', o)
    else if tag_is op "has" then (inl s, if kn =? 0 then bs_has s c else st_has s c)
    else if tag_is op "get" then (inl s, if kn =? 0 then bs_get s c else st_get s (kn =? 1) c)
    else if tag_is op "getsize" then (inl s, bs_getsize s c)
    else if tag_is op "keys" then (inl s, bs_allkeys s)
    else if tag_is op "roots" then (inl s, if kn =? 0 then bs_roots hdrdec s else OKeys (ws_roots s))
    else if tag_is op "finalize" then
      let '(s', o) := if kn =? 0 then bs_finalize s else st_finalize s in (inl s', o)
    else if tag_is op "finalizero" then let '(s', o) := bs_finalize_ro s in (inl s', o)
    else if tag_is op "close" then let '(s', o) := bs_close s in (inl s', o)
    else if tag_is op "discard" then let '(s', o) := bs_discard s in (inl s', o)
    else if tag_is op "reopen" then
      match resume hdrdec (ws_kind s) true (v_wopts (vnth 1 op)) (vcids (vnth 2 op)) (ws_file s)
                   (d_faults (ws_dev s)) with
      | inl s' => (inl s', ONil)
      | inr (e, dv) => (inr (e, dv), OErr e)
      end
    else (inl s, OErr EOracleMiss).

  Fixpoint steps (kn : N) (s : wstate) (ops : list val) (acc : list val) : list val * bytes :=
    match ops with
    | [] => (rev acc, ws_file s)
    | op :: t =>
      match step kn s op with
      | (inl s', o) =>
          let changed := negb (bytes_eqb (ws_file s) (ws_file s')) in
          steps kn s' t (VL [v_out o; v_of_bool changed] :: acc)
      | (inr (e, dv), o) =>
          let changed := negb (bytes_eqb (ws_file s) (d_file dv)) in
          (rev (VL [v_out o; v_of_bool changed] :: acc), d_file dv)
      end
    end.

  Definition run_store_with (input : val) : val :=
    let kn := vN (vnth 0 input) in
    let o := v_wopts (vnth 1 input) in
    let roots := vcids (vnth 2 input) in
    match open_new (v_kind kn) o (is_nil_tag (vnth 2 input)) roots (v_faults (vnth 3 input)) with
    | Err e => VL [VL [VT "err"; v_err e]; VL []; VB []]
    | Ok s =>
      let '(obs, file) := steps kn s (vL (vnth 4 input)) [] in
      VL [VL [VT "nil"]; VL obs; VB file]
    end.
End Run.

Definition run_store (input : val) : val := run_store_with (hdr_lookup (vL (vnth 5 input))) input.

(* placeholder layer-B predicate; the per-property entries (C04, C05, C12, ...) define their own *)
Definition prop_store (input obs : val) : val := VT "ok".
