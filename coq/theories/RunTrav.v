(* Entry point of the "trav" case kind (C15): val -> val glue around Traversal.v, and the
   layer-B predicate evaluated on what the implementation produced.
   input  = (api cfg store traces fixed), cfg = (roots sel opts ties),
            opts = (dpad ipad codec dups budget chooser nilroots plain ncbw ncbd) -- see harness/k_trav.go *)
From Coq Require Import Strings.String.
From GoCar Require Import Bytes Varint Cid Header Frame V2Header Scan Index Val Traversal.

Definition v_load (v : val) : load :=
  mkload (vB (vnth 0 v)) (vB (vnth 1 v)) (vN (vnth 2 v)) (vbool (vnth 3 v)).
Definition v_trace (v : val) : trace := mktrace (map v_load (vL (vnth 0 v))) (vbool (vnth 1 v)).
Definition v_topts (v : val) : topts := mktopts (vN (vnth 0 v)) (vN (vnth 1 v)) (vN (vnth 2 v)).

Definition in_api (i : val) : N := vN (vnth 0 i).
Definition in_roots (i : val) : list bytes := vcids (vnth 0 (vnth 1 i)).
Definition in_root (i : val) : bytes := hd [] (in_roots i).
Definition in_opts (i : val) : topts := v_topts (vnth 2 (vnth 1 i)).
(* number of registered OnNewCarBlock callbacks (0..4): Write's, Prepare/Dump's *)
Definition small_nat (n : N) : nat :=
  if n =? 0 then 0%nat else if n =? 1 then 1%nat else if n =? 2 then 2%nat else if n =? 3 then 3%nat else 4%nat.
Definition in_ncb_write (i : val) : nat := small_nat (vN (vnth 8 (vnth 2 (vnth 1 i)))).
Definition in_ncb_dump (i : val) : nat := small_nat (vN (vnth 9 (vnth 2 (vnth 1 i)))).
Definition in_nilroots (i : val) : bool := vbool (vnth 6 (vnth 2 (vnth 1 i))).
Definition in_ties (i : val) : bool := vbool (vnth 3 (vnth 1 i)).
Definition in_store (i : val) : list block := vblocks (vnth 2 i).
Definition in_trace (k : nat) (i : val) : trace := v_trace (vnth k (vnth 3 i)).
Definition in_fixed (i : val) : bool := vbool (vnth 4 i).
(* api 3: one reference trace per Dag entry (a Dag the walk never reached has none) *)
Fixpoint zip_dags (roots : list bytes) (trs : list trace) : list (bytes * trace) :=
  match roots with
  | [] => []
  | r :: rt =>
    match trs with
    | [] => (r, mktrace [] false) :: zip_dags rt []
    | t :: trs' => (r, t) :: zip_dags rt trs'
    end
  end.
Definition in_dags (i : val) : list (bytes * trace) := zip_dags (in_roots i) (map v_trace (vL (vnth 3 i))).

Fixpoint store_get (tab : list block) (c : bytes) : option bytes :=
  match tab with
  | [] => None
  | b :: t => if bytes_eqb (fst b) c then Some (snd b) else store_get t c
  end.

Definition v_terr (e : option terr) : val :=
  VT (match e with
      | None => "nil"
      | Some TSizeMismatch => "sizemismatch"
      | Some TOffsetImpossible => "offsetimpossible"
      | Some TWalk | Some TIndex => "other"
      | Some TPanic => "panic"
      end)%string.
Definition v_okerr (ok : bool) : val := VT (if ok then "nil" else "other")%string.

(* ---- canonical views of an output byte string (the harness applies the same to the bytes the
   implementation wrote) ------------------------------------------------------------------- *)
Definition split_index (out : bytes) : bytes * option bytes :=
  if (blen out <? 51) || negb (bytes_eqb (take 11 out) pragma) then (out, None)
  else match read_v2hdr (take 40 (drop 11 out)) with
       | Err _ => (out, None)
       | Ok (h, _) =>
           if (h_ioff h =? 0) || (blen out <? h_ioff h) then (out, None)
           else (take (h_ioff h) out, Some (drop (h_ioff h) out))
       end.

Fixpoint ins_sorted (x : N) (l : list N) : list N :=
  match l with
  | [] => [x]
  | y :: t => if x <=? y then x :: l else y :: ins_sorted x t
  end.
Definition sortN (l : list N) : list N := fold_right ins_sorted [] l.

Definition idx_lookup (ix : index) (c : bytes) : val :=
  match cid_parse c with
  | Some p => VL (map VN (sortN (idx_getall ix (c_mhcode p) (c_digest p))))
  | None => VL []
  end.

Definition idx_obs (idx : option bytes) (store : list block) (ties : bool) : val :=
  match idx with
  | None => VL [VN 0; VB []; VL []]
  | Some ib =>
    let exact := if ties then VB [] else VB ib in
    match idx_read ib with
    | Err _ => VL [VN (blen ib); exact; VT "unreadable"]
    | Ok (ix, _) => VL [VN (blen ib); exact; VL (map (fun b => idx_lookup ix (fst b)) store)]
    end
  end.

Definition v_cb (c : cb) : val := VL [VB (cb_cid c); VB (cb_data c); VN (cb_off c); VN (cb_size c)].
Definition v_ev (e : nat * cb) : val :=
  VL [VN (N.of_nat (fst e)); VB (cb_cid (snd e)); VB (cb_data (snd e)); VN (cb_off (snd e)); VN (cb_size (snd e))].
Definition v_evs (l : list (nat * cb)) : val := VL (map v_ev l).

Definition id_order (l : list (bytes * N)) : list (bytes * N) := l.

Definition run_trav_api (api : N) (i : val) : val :=
  if api =? 0 then
    match traverse_v1 id_order (in_root i) (in_trace 0 i) with
    | (out, n, e) => VL [VB out; VN n; v_terr e]
    end
  else if api =? 1 then
    match selective_write id_order (in_fixed i) (in_root i) (in_opts i) (in_trace 0 i) (in_trace 1 i) with
    | None => VL [VT "ctor"; VT "other"]
    | Some w =>
      let s := split_index (w_bytes w) in
      VL [VT "ok"; VB (fst s); idx_obs (snd s) (in_store i) (in_ties i); VN (match w_err w with Some TPanic => 0 | _ => w_n w end); v_terr (w_err w)]
    end
  else if api =? 2 then
    match traverse_to_file id_order (in_root i) (in_opts i) (in_trace 0 i) with
    | (file, e) =>
      let s := split_index file in
      VL [VB (fst s); idx_obs (snd s) (in_store i) (in_ties i); v_terr e]
    end
  else if api =? 3 then
    let ds := in_dags i in
    let gets := v_cids (sc_gets_dags ds) in
    let wobs := match sc_write_dags (in_ncb_write i) ds with
                | (out, evs, ok) => VL [VB out; v_okerr ok; v_evs evs; gets]
                end in
    match sc_prepare_dags ds with
    | None => VL [wobs; VL [VT "other"; VN 0; VL []; VL []; gets]; VL [VT "skipped"]]
    | Some (size, hroots, cids) =>
      match sc_dump (in_ncb_dump i) (store_get (in_store i)) hroots cids with
      | (out, evs, ok) =>
        VL [wobs; VL [VT "nil"; VN size; v_cids cids; v_cids hroots; gets]; VL [VB out; v_okerr ok; v_evs evs]]
      end
    end
  else
    let roots := in_roots i in
    let ro := match roots with [] => if in_nilroots i then None else Some [] | _ => Some roots end in
    let tr := in_trace 0 i in
    match write_car ro (blocks_of (t_loads tr)) (t_ok tr) with
    | (out, ok) => VL [VB out; v_okerr ok; v_cids (map fst (first_occ (blocks_of (t_loads tr))))]
    end.

(* api 5 / 6: a history in one process -- SelectiveCar.Write / WriteCar into a destination that fails at
   its fk-th Write call (opts fields 10, 11), then the fault-free api 3 / api 4 run on the same input *)
Definition in_fk (i : val) : N := vN (vnth 10 (vnth 2 (vnth 1 i))).
Definition in_fshort (i : val) : bool := vbool (vnth 11 (vnth 2 (vnth 1 i))).
Definition run_trav (i : val) : val :=
  let api := in_api i in
  if api =? 5 then
    match sc_history (in_fk i) (in_fshort i) (in_dags i) 0 (in_dags i) with
    | ((out, ok), _, _) => VL (VL [VB out; v_okerr ok] :: vL (run_trav_api 3 i))
    end
  else if api =? 6 then
    let roots := in_roots i in
    let ro := match roots with [] => if in_nilroots i then None else Some [] | _ => Some roots end in
    let tr := in_trace 0 i in
    match write_car_faulty (in_fk i) (in_fshort i) ro (blocks_of (t_loads tr)) (t_ok tr) with
    | (out, ok) => VL (VL [VB out; v_okerr ok] :: vL (run_trav_api 4 i))
    end
  else run_trav_api api i.

(* ---- layer B on the implementation's observation ------------------------------------------ *)
Definition tv_is_tag (v : val) (s : string) : bool :=
  match v with VT t => String.eqb t s | _ => false end.
Definition tv_fail (clause cls : string) : val := VL [VT "FAIL"; VT clause; VT cls].

Definition trace_class (tr : trace) : string :=
  if has_repeat [] (blocks_of (t_loads tr)) then "repeated-loads" else "no-repeats".

Fixpoint all_zero (bs : bytes) : bool :=
  match bs with [] => true | b :: t => (b2n b =? 0) && all_zero t end.

Fixpoint listN_eqb (a b : list N) : bool :=
  match a, b with
  | [], [] => true
  | x :: a', y :: b' => (x =? y) && listN_eqb a' b'
  | _, _ => false
  end.
Definition vlistN (v : val) : list N := map vN (vL v).

Fixpoint cids_eqb (a b : list bytes) : bool :=
  match a, b with
  | [], [] => true
  | x :: a', y :: b' => bytes_eqb x y && cids_eqb a' b'
  | _, _ => false
  end.

Definition tv_block_eqb (a b : block) : bool := bytes_eqb (fst a) (fst b) && bytes_eqb (snd a) (snd b).
Fixpoint tv_blocks_eqb (a b : list block) : bool :=
  match a, b with
  | [], [] => true
  | x :: a', y :: b' => tv_block_eqb x y && tv_blocks_eqb a' b'
  | _, _ => false
  end.

(* what a lookup of cid c must report: the offsets of the written sections carrying the same
   digest (0x0400) / the same multihash (0x0401) *)
Definition expect_lookup (codec : N) (placed : list (block * N * N)) (c : bytes) : list N :=
  match cid_parse c with
  | None => []
  | Some p =>
    sortN (map (fun e => snd (fst e))
      (filter (fun e => match cid_parse (fst (fst (fst e))) with
                        | Some q => bytes_eqb (c_digest q) (c_digest p)
                                    && ((codec =? codec_sorted) || (c_mhcode q =? c_mhcode p))
                        | None => false
                        end) placed))
  end.

Fixpoint lookups_ok (codec : N) (placed : list (block * N * N)) (store : list block) (ls : list val) : bool :=
  match store, ls with
  | [], [] => true
  | b :: st, l :: lt => listN_eqb (vlistN l) (expect_lookup codec placed (fst b)) && lookups_ok codec placed st lt
  | _, _ => false
  end.

(* CARv2 output of WriteTo / TraverseToFile: [pre] = bytes before the index, idxv = idx_obs *)
Definition check_v2 (i : val) (tr : trace) (pre : bytes) (idxv : val) (nret : option N) : val :=
  let o := apply_opts (in_opts i) in
  let root := in_root i in
  let bs := first_occ (blocks_of (t_loads tr)) in
  let P := enc_payload [root] bs in
  let cls := trace_class tr in
  let with_idx := negb (o_codec o =? codec_none) in
  match read_v2hdr (take 40 (drop 11 pre)) with
  | Err _ => tv_fail "v2-framing" cls
  | Ok (h, _) =>
    let region := drop (h_doff h) pre in
    let tailpad := if with_idx then o_ipad o else 0 in
    let written := blen region - tailpad in
    if negb (bytes_eqb (take 11 pre) pragma) || negb (h_doff h =? 51 + o_dpad o)
       || negb (all_zero (take (o_dpad o) (drop 51 pre))) then tv_fail "v2-framing" cls
    else if negb (h_dsize h =? written) then tv_fail "announced-size" cls
    else if negb (bytes_eqb (take written region) P) then tv_fail "exact-once" cls
    else if negb (all_zero (drop written region)) || negb (blen (drop written region) =? tailpad)
    then tv_fail "v2-framing" cls
    else if with_idx && negb (h_ioff h =? 51 + o_dpad o + written + o_ipad o) then tv_fail "v2-framing" cls
    else if negb with_idx && negb (h_ioff h =? 0) then tv_fail "v2-framing" cls
    else if with_idx && negb (lookups_ok (o_codec o) (place (ld_size (blen (hdr1 root))) bs) (in_store i) (vL (vnth 2 idxv)))
    then tv_fail "index-offsets" cls
    else match nret with
         | Some n => if n =? blen pre + vN (vnth 0 idxv) then VT "ok" else tv_fail "returned-count" cls
         | None => VT "ok"
         end
  end.

Definition v_evs_in (v : val) : list (nat * cb) :=
  map (fun x => (small_nat (vN (vnth 0 x)),
                 mkcb (vB (vnth 1 x)) (vB (vnth 2 x)) (vN (vnth 3 x)) (vN (vnth 4 x)))) (vL v).

(* every callback's (offset,size) window of [out] is exactly that block's section *)
Definition cbs_locate (out : bytes) (cbs : list cb) : bool :=
  forallb (fun c => bytes_eqb (take (cb_size c) (drop (cb_off c) out)) (cb_section c)
                    && (cb_off c + cb_size c <=? blen out)) cbs.

(* every one of the k callbacks was told exactly the first occurrences [bs], in order, each with
   an (offset, size) that locates that block's section in [out]; nobody else was told anything *)
Definition callbacks_ok (k : nat) (out : bytes) (bs : list block) (evs : list (nat * cb)) : bool :=
  forallb (fun j => let cbs := reports j evs in
                    tv_blocks_eqb (map (fun c => (cb_cid c, cb_data c)) cbs) bs && cbs_locate out cbs)
          (seq 0 k)
  && forallb (fun e => Nat.ltb (fst e) k) evs.

Definition cb_eqb (a b : cb) : bool :=
  bytes_eqb (cb_cid a) (cb_cid b) && bytes_eqb (cb_data a) (cb_data b)
  && (cb_off a =? cb_off b) && (cb_size a =? cb_size b).
Fixpoint cbs_eqb (a b : list cb) : bool :=
  match a, b with
  | [], [] => true
  | x :: a', y :: b' => cb_eqb x y && cbs_eqb a' b'
  | _, _ => false
  end.

(* evaluated when the implementation reported success: the reference walk of the same (root, selector,
   options) succeeds too, and the blocks go-car's walk opened (first occurrences) are the reference's *)
Definition ref_ok (rec ref : trace) : bool :=
  t_ok ref && tv_blocks_eqb (first_occ (blocks_of (t_loads rec))) (first_occ (blocks_of (t_loads ref))).

Definition prop_trav_api (api : N) (i obs : val) : val :=
  if api =? 0 then
    let tr := in_trace 0 i in
    if negb (tv_is_tag (vnth 2 obs) "nil") then VT "ok"
    else if negb (ref_ok tr (in_trace 1 i)) then tv_fail "walk-is-the-promised-one" (trace_class tr)
    else let out := vB (vnth 0 obs) in
         if negb (bytes_eqb out (enc_payload [in_root i] (first_occ (blocks_of (t_loads tr)))))
         then tv_fail "exact-once" (trace_class tr)
         else if negb (vN (vnth 1 obs) =? blen out) then tv_fail "returned-count" (trace_class tr)
         else VT "ok"
  else if api =? 1 then
    if negb (tv_is_tag (vnth 0 obs) "ok") then VT "ok"
    else let e := vnth 4 obs in
         if tv_is_tag e "nil" && negb (ref_ok (in_trace 1 i) (in_trace 2 i))
         then tv_fail "walk-is-the-promised-one" (trace_class (in_trace 1 i))
         else if tv_is_tag e "nil" || tv_is_tag e "sizemismatch"
         then check_v2 i (in_trace 1 i) (vB (vnth 1 obs)) (vnth 2 obs) (Some (vN (vnth 3 obs)))
         else VT "ok"
  else if api =? 2 then
    if tv_is_tag (vnth 2 obs) "nil" && negb (ref_ok (in_trace 0 i) (in_trace 1 i))
    then tv_fail "walk-is-the-promised-one" (trace_class (in_trace 0 i))
    else if tv_is_tag (vnth 2 obs) "nil"
    then check_v2 i (in_trace 0 i) (vB (vnth 0 obs)) (vnth 1 obs) None
    else VT "ok"
  else if api =? 3 then
    (* reference: what each (root, selector) walk opens, per Dag, in Dag order *)
    let ds := in_dags i in
    let roots := dag_roots ds in
    let ref := fst (dag_loads ds) in
    let bs := first_occ ref in
    let cls := if has_repeat [] ref then "repeated-loads"%string else "no-repeats"%string in
    let wobs := vnth 0 obs in let pobs := vnth 1 obs in let dobs := vnth 2 obs in
    let wout := vB (vnth 0 wobs) in
    let wok := tv_is_tag (vnth 1 wobs) "nil" in
    let wevs := v_evs_in (vnth 2 wobs) in
    let kw := in_ncb_write i in let kd := in_ncb_dump i in
    (* which blocks go-car's own run fetched (obs field 3 / 4) is compared with the model only: a run
       that fetches differently but produces the right output does not violate the property *)
    if wok && negb (bytes_eqb wout (enc_payload roots bs)) then tv_fail "exact-once" cls
    else if wok && negb (callbacks_ok kw wout bs wevs) then tv_fail "callbacks" cls
    else if negb (tv_is_tag (vnth 0 pobs) "nil") then VT "ok"
    else
      let size := vN (vnth 1 pobs) in
      if negb (cids_eqb (vcids (vnth 2 pobs)) (map fst bs)) || negb (cids_eqb (vcids (vnth 3 pobs)) roots)
      then tv_fail "exact-once" cls
      else if tv_is_tag (vnth 0 dobs) "skipped" || negb (tv_is_tag (vnth 1 dobs) "nil") then VT "ok"
      else
        let dout := vB (vnth 0 dobs) in
        let devs := v_evs_in (vnth 2 dobs) in
        if negb (size =? blen dout) then tv_fail "announced-size" cls
        else if negb (bytes_eqb dout (enc_payload roots bs)) then tv_fail "exact-once" cls
        else if negb (callbacks_ok kd dout bs devs) then tv_fail "callbacks" cls
        else if wok
                && negb (bytes_eqb dout wout
                         && forallb (fun j => cbs_eqb (reports j devs) (reports j wevs)) (seq 0 (Nat.min kw kd)))
        then tv_fail "dump-eq-write" cls
        else VT "ok"
  else
    let roots := in_roots i in
    let ro := match roots with [] => if in_nilroots i then None else Some [] | _ => Some roots end in
    let tr := in_trace 0 i in
    if negb (tv_is_tag (vnth 1 obs) "nil") then VT "ok"
    else if negb (bytes_eqb (vB (vnth 0 obs))
                   (ld (enc_header ro 1) ++ enc_sections (first_occ (blocks_of (t_loads tr)))))
    then tv_fail "exact-once" (trace_class tr)
    else VT "ok".

(* the second part of a history must satisfy exactly what a stand-alone run must satisfy *)
Definition prop_trav (i obs : val) : val :=
  let api := in_api i in
  if api =? 5 then prop_trav_api 3 i (VL (tl (vL obs)))
  else if api =? 6 then prop_trav_api 4 i (VL (tl (vL obs)))
  else prop_trav_api api i obs.
