(* entry point of kind "c02skip": C02's clauses for the BlockReader driven by SkipNext or a mix of Next
   and SkipNext.  The model side is C14's position-tracking reader (BlockReaderPos.brp_run through
   RunWalk.run_brpos: same input and observation format as kind "brpos"); the layer-B predicate is
   C02's, evaluated on what the implementation returned.  Glue: val -> val. *)
From Coq Require Import Strings.String.
From GoCar Require Import Bytes Varint Cid Header Frame V2Header Scan Val RunScan BlockReaderPos RunWalk.

(* input: ((srckind chunk) opts file hok-table hdr-table choices expect)
   expect: (tnone) | (ttrunc origblocks nonboundary nwhole)
     the file starts with the headers and the first nwhole sections of a constructed archive with
     blocks origblocks; nonboundary = 1: what follows them is a cut section (or a section whose
     length prefix was replaced by an invalid varint), so no call may report a clean end.
   observation (run_brpos): (topenerr e) | (tok version roots pos0 hw0 steps end)
     step: (tN cid data pos hw) | (tS cid offset sourceoffset size pos hw)
     end:  (tstop) | (terr e [pos hw]) *)
Definition run_c02skip (input : val) : val := run_brpos input.

Fixpoint skip_steps_match (orig : list (bytes * bytes)) (steps : list val) : bool :=
  match steps, orig with
  | [], _ => true
  | s :: steps', (c, d) :: orig' =>
      let isn := is_tag (vnth 0 s) "N" in
      bytes_eqb (vB (vnth 1 s)) c
      && (if isn then bytes_eqb (vB (vnth 2 s)) d else vN (vnth 4 s) =? blen d)
      && skip_steps_match orig' steps'
  | _ :: _, [] => false
  end.

Definition step_hash_ok (hok : bytes -> bytes -> option bool) (s : val) : bool :=
  if is_tag (vnth 0 s) "N" then block_hash_ok hok (vB (vnth 1 s), vB (vnth 2 s)) else true.

Definition prop_c02skip (input obs : val) : val :=
  let o := v_ropts (vnth 1 input) in
  let hok := hok_lookup (vL (vnth 3 input)) in
  let expect := vnth 6 input in
  let opened := is_tag (vnth 0 obs) "ok" in
  let steps := vL (vnth 5 obs) in
  let endv := vnth 6 obs in
  if opened && negb (o_trusted o) && negb (forallb (step_hash_ok hok) steps)
  then VL [VT "FAIL"; VT "returned-block-hash-mismatch"]
  else if is_tag (vnth 0 expect) "trunc" then
    let orig := vblocks (vnth 1 expect) in
    let nwhole := N.to_nat (vN (vnth 3 expect)) in
    if negb opened then VT "ok"
    else if (nwhole <? length steps)%nat
    then VL [VT "FAIL"; VT "returned-an-incomplete-section"]
    else if negb (skip_steps_match orig steps)
    then VL [VT "FAIL"; VT "truncation-returned-foreign-block"]
    else if vbool (vnth 2 expect) && is_tag (vnth 0 endv) "err" && is_tag (vnth 1 endv) "eof"
    then VL [VT "FAIL"; VT "truncation-reported-as-clean-eof"]
    else VT "ok"
  else VT "ok".
