(* entry points of the sequential-reader kinds: val -> val *)
From Coq Require Import Strings.String.
From GoCar Require Import Bytes Varint Cid Header Frame V2Header Scan Val.

Definition v_ropts (v : val) : ropts :=
  mkropts (vbool (vnth 0 v)) (vN (vnth 1 v)) (vN (vnth 2 v)) (vbool (vnth 3 v)).

Definition v_scan (s : scan_out) : val := VL [v_blocks (s_blocks s); v_err (s_end s)].

(* input: (reader kind, opts, file, hok table, hdr table)
   reader kinds: 0 = v2 BlockReader, 1 = internal carv1 reader, 2 = root-module reader *)
Definition run_scan (input : val) : val :=
  let kind := vN (vnth 0 input) in
  let o := v_ropts (vnth 1 input) in
  let file := vB (vnth 2 input) in
  let hok := hok_lookup (vL (vnth 3 input)) in
  let hdr := hdr_lookup (vL (vnth 4 input)) in
  if kind =? 0 then
    match br_read_all hok hdr o file with
    | Err e => VL [VT "openerr"; v_err e]
    | Ok (v, roots, s) => VL [VT "ok"; VN v; v_cids roots; v_scan s]
    end
  else if kind =? 1 then
    match carv1_read_all hok hdr o file with
    | Err e => VL [VT "openerr"; v_err e]
    | Ok (roots, s) => VL [VT "ok"; VN 1; v_cids roots; v_scan s]
    end
  else
    match root_read_all hok hdr file with
    | Err e => VL [VT "openerr"; v_err e]
    | Ok (roots, s) => VL [VT "ok"; VN 1; v_cids roots; v_scan s]
    end.

(* layer-B predicate on what the implementation returned (C02 a): every returned block
   hashes to its CID (identity: digest = data; otherwise the oracle's verdict). *)
Definition block_hash_ok (hok : bytes -> bytes -> option bool) (b : bytes * bytes) : bool :=
  match cid_parse (fst b) with
  | None => false
  | Some p => match hash_matches hok (fst b) p (snd b) with Some true => true | _ => false end
  end.

Definition block_eqb (a b : bytes * bytes) : bool :=
  bytes_eqb (fst a) (fst b) && bytes_eqb (snd a) (snd b).
Fixpoint blocks_prefix (a b : list (bytes * bytes)) : bool :=
  match a, b with
  | [], _ => true
  | x :: a', y :: b' => block_eqb x y && blocks_prefix a' b'
  | _ :: _, [] => false
  end.
Fixpoint blocks_eqb (a b : list (bytes * bytes)) : bool :=
  match a, b with
  | [], [] => true
  | x :: a', y :: b' => block_eqb x y && blocks_eqb a' b'
  | _, _ => false
  end.

Definition is_tag (v : val) (s : string) : bool :=
  match v with VT t => String.eqb t s | _ => false end.

(* input field 5 (optional) says how the file was derived from a constructed valid archive:
     (tnone) | (ttrunc origblocks nonboundary) | (tcorrupt origblocks i)
   and the predicate is the property's clause for that derivation, evaluated on what the
   implementation returned. *)
Definition prop_scan (input obs : val) : val :=
  let o := v_ropts (vnth 1 input) in
  let hok := hok_lookup (vL (vnth 3 input)) in
  let expect := vnth 5 input in
  let opened := is_tag (vnth 0 obs) "ok" in
  let blocks := vblocks (vnth 0 (vnth 3 obs)) in
  let endv := vnth 1 (vnth 3 obs) in
  if negb (o_trusted o) && negb (forallb (block_hash_ok hok) blocks)
  then VL [VT "FAIL"; VT "returned-block-hash-mismatch"]
  else if is_tag (vnth 0 expect) "trunc" then
    let orig := vblocks (vnth 1 expect) in
    if negb opened then VT "ok"
    else if negb (blocks_prefix blocks orig) then VL [VT "FAIL"; VT "truncation-returned-foreign-block"]
    else if vbool (vnth 2 expect) && is_tag endv "eof"
    then VL [VT "FAIL"; VT "truncation-reported-as-clean-eof"; VT "after-length-varint"]
    else VT "ok"
  else if is_tag (vnth 0 expect) "corrupt" then
    let orig := vblocks (vnth 1 expect) in
    let i := N.to_nat (vN (vnth 2 expect)) in
    if o_trusted o then VT "ok"
    else if negb opened then VL [VT "FAIL"; VT "corruption-open-failed"]
    else if negb (blocks_eqb blocks (firstn i orig)) then VL [VT "FAIL"; VT "corruption-wrong-blocks-returned"]
    else if is_tag endv "eof" then VL [VT "FAIL"; VT "corruption-reported-as-clean-eof"]
    else VT "ok"
  else VT "ok".
