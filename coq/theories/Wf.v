(* C05: writing sessions ending in Finalize, what the finished file must look like (layer B:
   [layout], [ref_scan], [wf_car]) and the acceptance side of the library's own checkers
   (Reader.Inspect, cmd/car/lib.VerifyCar).  Executable; proofs are in proofs/Final*.v. *)
From GoCar Require Import Bytes Varint Cid Header Frame V2Header Scan Index Store.

(* ---- writing sessions (layer A) ------------------------------------------------------------
   A history is a list of batches.  blockstore.ReadWrite: one PutMany call per batch (Put is
   PutMany of one block) -- the batch stops at its first error.  storage.StorageCar (and the
   deferred writer, which is a StorageCar created on the first Put): one Put call per block,
   an error of one call does not stop the caller. *)
Definition batch := list (bytes * bytes).

Fixpoint st_puts (s : wstate) (b : batch) (acc : list out) : wstate * list out :=
  match b with
  | [] => (s, rev acc)
  | (c, d) :: t => let '(s', o) := st_put s c d in st_puts s' t (o :: acc)
  end.

Definition put_batch (s : wstate) (b : batch) : wstate * list out :=
  match ws_kind s with
  | KBlockstore => let '(s', o) := bs_put_many s b in (s', [o])
  | KStorage _ => st_puts s b []
  end.

Fixpoint put_batches (s : wstate) (h : list batch) (acc : list (list out)) : wstate * list (list out) :=
  match h with
  | [] => (s, rev acc)
  | b :: t => let '(s', o) := put_batch s b in put_batches s' t (o :: acc)
  end.

Definition finalize (s : wstate) : wstate * out :=
  match ws_kind s with
  | KBlockstore => bs_finalize s
  | KStorage _ => st_finalize s
  end.

(* open on an empty file, the puts, Finalize; no write faults.
   Ok (final state, what each put call returned, what Finalize returned) *)
Definition session (k : skind) (o : wopts) (nilroots : bool) (roots : list bytes) (h : list batch)
  : res (wstate * list (list out) * out) :=
  match open_new k o nilroots roots [] with
  | Err e => Err e
  | Ok s0 =>
    let '(s1, outs) := put_batches s0 h [] in
    let '(s2, fo) := finalize s1 in
    Ok (s2, outs, fo)
  end.

(* ---- carv2.ApplyOptions ------------------------------------------------------------------------------
   What the stores work with is the Options value ApplyOptions returns: a zero IndexCodec /
   MaxIndexCidSize means the default, and MaxIndexCidSize is capped at the largest CID an index record
   can carry -- a record is the multihash digest plus an 8-byte offset and index.ReadFrom refuses
   records wider than 32 MiB (repaired: notes/fixes/C05-cap-max-index-cid-size.patch; before, a larger
   CID was indexed by Finalize and the index could not be read back). *)
Definition max_index_cid : N := max_width - 8.
Definition apply_wopts (o : wopts) : wopts :=
  mkwopts (w_dpad o) (w_ipad o)
          (if w_codec o =? 0 then codec_mh_sorted else w_codec o)
          (w_zeof o)
          (N.min (if w_maxcid o =? 0 then 2048 else w_maxcid o) max_index_cid)
          (w_storeid o) (w_dups o) (w_whole o) (w_v1 o) (w_maxh o) (w_maxs o).

(* ShouldPut for the first block of a session (empty index), as a function of the CID's length only:
   lets the check evaluate the decision for CIDs too large to ship as case data
   (FinalWide.should_put_first_eq ties it to should_put) *)
Definition should_put_first (o : wopts) (clen : N) (ident : bool) : res bool :=
  if negb (w_storeid o) && ident then Ok false
  else if w_maxcid o <? clen then Err ECidTooLarge
  else Ok true.
(* length of a CIDv1 with that codec, hash code and digest length *)
Definition cid_v1_len (codec code n : N) : N := uv_size 1 + uv_size codec + uv_size code + uv_size n + n.

(* util.LdWrite frames a section with a length varint written into an 8-byte buffer: a section of
   2^56 bytes or more panics there.  The model does not reproduce the panic; the theorems about sessions
   take this executable guard on the history instead. *)
Definition ld_write_ok (b : block) : bool := blen (fst b) + blen (snd b) <? 2 ^ 56.
Definition history_ok (h : list batch) : bool := forallb (forallb ld_write_ok) h.

(* ---- layer B: the stored blocks ---------------------------------------------------------------
   The de-duplicated puts in order.  The decision for one block is the library's ShouldPut
   evaluated on the index of what is stored so far (C04 is about what that decision means);
   a block whose key does not parse, or whose CID is over MaxIndexCidSize, is refused. *)
Definition hdr_len (ro : option (list bytes)) : N := ld_size (blen (enc_header ro 1)).
Definition idx_of (ro : option (list bytes)) (stored : list block) : iidx :=
  ii_load (records_from (hdr_len ro) stored) [].

(* (stored', refused) *)
Definition spec_put (o : wopts) (ro : option (list bytes)) (stored : list block) (b : block)
  : list block * bool :=
  match cid_parse (fst b) with
  | None => (stored, true)
  | Some p =>
    match should_put o (idx_of ro stored) (fst b) p with
    | Ok true => (stored ++ [b], false)
    | Ok false => (stored, false)
    | Err _ => (stored, true)
    end
  end.

(* stop_on_error: PutMany semantics *)
Fixpoint spec_batch (stop_on_error : bool) (o : wopts) (ro : option (list bytes))
         (stored : list block) (b : batch) : list block :=
  match b with
  | [] => stored
  | x :: t =>
    let '(stored', refused) := spec_put o ro stored x in
    if refused && stop_on_error then stored' else spec_batch stop_on_error o ro stored' t
  end.

Definition stops (k : skind) : bool := match k with KBlockstore => true | KStorage _ => false end.

Definition spec_stored (k : skind) (o : wopts) (ro : option (list bytes)) (h : list batch) : list block :=
  fold_left (spec_batch (stops k) o ro) h [].

(* ---- layer B: the finished file ----------------------------------------------------------------- *)
Definition payload_opt (ro : option (list bytes)) (bs : list block) : bytes :=
  ld (enc_header ro 1) ++ enc_sections bs.

(* the CARv2 header Finalize must leave: the property's arithmetic, written out *)
Definition final_hdr (o : wopts) (payload_len : N) : v2hdr :=
  mkv2 (if w_storeid o then fully_indexed_bit else 0) 0
       (51 + w_dpad o) payload_len (51 + w_dpad o + payload_len + w_ipad o).

(* index of the stored blocks in the chosen codec: the flattened insertion index *)
Definition final_index (o : wopts) (ro : option (list bytes)) (bs : list block) : option index :=
  ii_flatten (w_codec o) (idx_of ro bs).

Definition layout (o : wopts) (ro : option (list bytes)) (bs : list block) (fi : index) : bytes :=
  let payload := payload_opt ro bs in
  if w_v1 o then payload
  else pragma ++ enc_v2hdr (final_hdr o (blen payload)) ++ zerosN (w_dpad o) ++ payload ++
       zerosN (w_ipad o) ++ idx_write fi.

(* ---- layer B: the reference decoder of a CARv1 payload ---------------------------------------------
   As plain as possible: length varint, split, CidFromBytes on the section buffer; no options,
   no I/O adapters, canonical header decoder. *)
Record rsec := mksec { s_cid : bytes; s_p : cidp; s_data : bytes; s_off : N }.

Fixpoint ref_sections (fuel : nat) (s : bytes) (pos : N) : option (list rsec) :=
  match fuel with
  | O => None
  | S f =>
    match s with
    | [] => Some []
    | _ =>
      match read_uv s with
      | VOk len rest n =>
        if blen rest <? len then None else
        let buf := take len rest in
        match cid_from_bytes buf with
        | None => None
        | Some (k, p) =>
          match ref_sections f (drop len rest) (pos + n + len) with
          | Some l => Some (mksec (take k buf) p (drop k buf) pos :: l)
          | None => None
          end
        end
      | _ => None
      end
    end
  end.

Definition ref_scan (payload : bytes) : option (list bytes * list rsec) :=
  match read_uv payload with
  | VOk len rest n =>
    if blen rest <? len then None else
    match dec_header_canon (take len rest) with
    | Some (roots, v) =>
      if v =? 1 then
        match ref_sections (S (length rest)) (drop len rest) (n + len) with
        | Some l => Some (roots, l)
        | None => None
        end
      else None
    | None => None
    end
  | _ => None
  end.

Definition sec_block (s : rsec) : block := (s_cid s, s_data s).

(* ---- layer B: well-formedness of a finished file --------------------------------------------------- *)
(* index entries as (hash code if the codec records it, digest, offset) *)
Definition idx_entries (i : index) : list (option N * bytes * N) :=
  match i with
  | IdxSorted m => map (fun e => (None, fst e, snd e)) (mwi_foreach m)
  | IdxMh m => map (fun e => (Some (fst (fst e)), snd (fst e), snd e)) (mh_foreach m)
  end.

Definition entry_points_at (secs : list rsec) (e : option N * bytes * N) : bool :=
  let '(code, dg, off) := e in
  existsb (fun s => (s_off s =? off) && bytes_eqb (c_digest (s_p s)) dg &&
                    match code with None => true | Some k => c_mhcode (s_p s) =? k end) secs.

Definition indexable (storeid : bool) (s : rsec) : bool := storeid || negb (is_identity (s_p s)).

Definition sec_resolvable (i : index) (s : rsec) : bool :=
  existsb (N.eqb (s_off s)) (idx_getall i (c_mhcode (s_p s)) (c_digest (s_p s))).

(* the index resolves exactly the sections: every entry points at a section carrying that key,
   every indexable section is found at its offset, and there are as many entries as indexable
   sections *)
Definition index_exact (storeid : bool) (i : index) (secs : list rsec) : bool :=
  forallb (entry_points_at secs) (idx_entries i) &&
  forallb (sec_resolvable i) (filter (indexable storeid) secs) &&
  (N.of_nat (length (idx_entries i)) =? N.of_nat (length (filter (indexable storeid) secs))).

Definition all_zero (s : bytes) : bool := forallb (fun b => b2n b =? 0) s.

(* Some (roots, blocks) = the file is a well-formed finished archive for options o carrying
   exactly that content *)
(* [exactflag]: the fully-indexed bit must equal StoreIdentityCIDs (what store.Finalize writes); otherwise
   it only must not lie: set implies that identity CIDs are indexed (WrapV1 and the traversal writers never
   set it) *)
Definition flag_ok (exactflag storeid : bool) (hi : N) : bool :=
  if exactflag then hi =? (if storeid then fully_indexed_bit else 0)
  else (hi =? 0) || ((hi =? fully_indexed_bit) && storeid).

Definition wf_finished (exactflag : bool) (o : wopts) (file : bytes) : option (list bytes * list block) :=
  if w_v1 o then
    match ref_scan file with
    | Some (roots, secs) => Some (roots, map sec_block secs)
    | None => None
    end
  else if negb (bytes_eqb (take pragma_size file) pragma) then None
  else if blen file <? 51 then None
  else
    let s := drop pragma_size file in
    let hi := le_dec (take 8 s) in
    let lo := le_dec (take 8 (drop 8 s)) in
    let doff := le_dec (take 8 (drop 16 s)) in
    let dsize := le_dec (take 8 (drop 24 s)) in
    let ioff := le_dec (take 8 (drop 32 s)) in
    if negb (flag_ok exactflag (w_storeid o) hi && (lo =? 0)) then None
    else if negb (doff =? 51 + w_dpad o) then None
    else if negb (ioff =? doff + dsize + w_ipad o) then None
    else if blen file <? ioff then None
    else if negb (all_zero (take (w_dpad o) (drop 51 file))) then None
    else if negb (all_zero (take (w_ipad o) (drop (doff + dsize) file))) then None
    else
      match ref_scan (take dsize (drop doff file)) with
      | None => None
      | Some (roots, secs) =>
        match idx_read (drop ioff file) with
        | Ok (i, []) =>
          if (idx_codec i =? w_codec o) && index_exact (w_storeid o) i secs
          then Some (roots, map sec_block secs) else None
        | _ => None
        end
      end.

(* a file left by store.Finalize *)
Definition wf_parse (o : wopts) (file : bytes) : option (list bytes * list block) := wf_finished true o file.

Definition wf_car (o : wopts) (file : bytes) : bool :=
  match wf_parse o file with Some _ => true | None => false end.

(* ---- layer A: acceptance by the library's own checkers ------------------------------------------------ *)
Section Checkers.
  Variable hok : bytes -> bytes -> option bool.
  Variable hdrdec : bytes -> option (list bytes * N).

  (* the section loop of Reader.Inspect over what the data reader still shows *)
  Fixpoint inspect_loop (fuel : nat) (o : ropts) (validate : bool) (s : bytes) : res unit :=
    match fuel with
    | O => Err EFuel
    | S f =>
      match read_uv s with
      | VEof => Ok tt
      | VUnexpectedEof => Err EUnexpectedEof
      | VOverflow | VNotMinimal => Err EOther
      | VOk len r1 _ =>
        if (len =? 0) && o_zeof o then Ok tt
        else if o_maxs o <? len then Err ESectionTooLarge
        else
          match cid_from_reader r1 with
          | CfrEof => Err EUnexpectedEof   (* the length prefix promised a section (fix ea7bf8c) *)
          | CfrErr _ => Err EOther
          | CfrOk n c p r2 =>
            if len <? n then Err EOther
            else
              let bl := len - n in
              (* io.LimitReader: fewer bytes if the payload ends early; Seek when not validating *)
              let data := take bl r2 in
              (* validating: the payload must hold the whole section (fix ea7bf8c) *)
              if validate && (blen data <? bl) then Err EUnexpectedEof else
              let hashed :=
                if validate then
                  match hash_matches hok c p data with
                  | None => Err EOracleMiss
                  | Some true => Ok tt
                  | Some false => Err EOther
                  end
                else Ok tt in
              match hashed with
              | Err e => Err e
              | Ok _ => inspect_loop f o validate (drop bl r2)
              end
          end
      end
    end.

  (* isv2: the payload sits in a CARv2; its header must then say version 1 (fix 91b302e) *)
  Definition inspect_payload (isv2 : bool) (o : ropts) (validate : bool) (dr : bytes) : res unit :=
    match read_header hdrdec (o_maxh o) dr with
    | Err e => Err e
    | Ok (_, v, rest, _) =>
        if isv2 && negb (v =? 1) then Err EOther
        else inspect_loop (S (length rest)) o validate rest
    end.

  (* NewReader(file, opts) then Inspect(validate): Ok tt = no error *)
  Definition inspect_check (o : ropts) (validate : bool) (file : bytes) : res unit :=
    match read_header hdrdec (o_maxh o) file with
    | Err e => Err e
    | Ok (_, ver, _, used) =>
      if ver =? 1 then inspect_payload false o validate file
      else if ver =? 2 then
        (* NewReader: the pragma must be exactly PragmaSize bytes (fix 66c8f5b) *)
        if negb (used =? pragma_size) then Err EOther else
        match read_v2hdr (drop pragma_size file) with
        | Err e => Err e
        | Ok (h, _) =>
          match inspect_payload true o validate (take (h_dsize h) (drop (h_doff h) file)) with
          | Err e => Err e
          | Ok _ =>
            if has_index h then
              match read_uv (drop (h_ioff h) file) with      (* index.ReadCodec *)
              | VOk _ _ _ => Ok tt
              | VEof => Err EEof
              | _ => Err EOther
              end
            else Ok tt
          end
        end
      else Err EOther
    end.

  Definition has_block (bs : list block) (c : bytes) : bool := existsb (fun b => bytes_eqb (fst b) c) bs.

  Definition idx_finds (i : index) (b : block) : bool :=
    match cid_parse (fst b) with
    | None => false
    | Some p => is_identity p ||
                match idx_getall i (c_mhcode p) (c_digest p) with [] => false | _ => true end
    end.

  (* cmd/car/lib.VerifyCar(file): Ok tt = nil *)
  Definition verify_check (file : bytes) : res unit :=
    let o := default_ropts in
    match read_header hdrdec (o_maxh o) file with
    | Err e => Err e
    | Ok (_, ver, _, _) =>
      if negb ((ver =? 1) || (ver =? 2)) then Err EOther else
      let hres : res (option v2hdr) :=
        if ver =? 2 then
          match read_v2hdr (drop pragma_size file) with
          | Ok (h, _) => Ok (Some h)
          | Err e => Err e
          end
        else Ok None in
      match hres with
      | Err e => Err e
      | Ok hopt =>
        let dr := match hopt with
                  | Some h => take (h_dsize h) (drop (h_doff h) file)
                  | None => file
                  end in
        match read_header hdrdec (o_maxh o) dr with
        | Err e => Err e
        | Ok (roots, _, _, _) =>
          match roots with
          | [] => Err EOther                               (* "no roots listed in car header" *)
          | _ =>
            let arith :=
              match hopt with
              | Some h =>
                let lti := wrap64 (51 + h_dsize h) in
                negb ((lti <? blen file) && (h_ioff h =? 0)) &&
                negb (h_doff h <? 51) && negb (negb (h_ioff h =? 0) && (h_ioff h <? lti))
              | None => true
              end in
            if negb arith then Err EOther else
            match br_read_all hok hdrdec o file with
            | Err e => Err e
            | Ok (_, _, sc) =>
              if negb (err_eqb (s_end sc) EEof) then Err (s_end sc)
              else if negb (forallb (has_block (s_blocks sc)) roots) then Err EOther
              else
                match hopt with
                | Some h =>
                  if has_index h then
                    match idx_read (drop (h_ioff h) file) with
                    | Err e => Err e
                    | Ok (i, _) =>
                      if forallb (idx_finds i) (s_blocks sc) then Ok tt else Err ENotFound
                    end
                  else Ok tt
                | None => Ok tt
                end
            end
          end
        end
      end
    end.
End Checkers.
