(* CARv2 fixed header (40 bytes after the 11-byte pragma) and its arithmetic: v2/car.go *)
From GoCar Require Import Bytes.

Record v2hdr := mkv2 { h_hi : N; h_lo : N; h_doff : N; h_dsize : N; h_ioff : N }.

Definition pragma_size : N := 11.
Definition v2hdr_size : N := 40.
Definition fully_indexed_bit : N := 128. (* 1 << 7 in Characteristics.Hi *)

Definition enc_v2hdr (h : v2hdr) : bytes :=
  le_enc 8 (h_hi h) ++ le_enc 8 (h_lo h) ++
  le_enc 8 (h_doff h) ++ le_enc 8 (h_dsize h) ++ le_enc 8 (h_ioff h).

(* Header.ReadFrom: needs 40 bytes, then the int64 range checks *)
Definition read_v2hdr (s : bytes) : res (v2hdr * bytes) :=
  (* two io.ReadFull calls: 16 bytes of characteristics, then 24 *)
  if blen s <? 16 then Err (if blen s =? 0 then EEof else EUnexpectedEof)
  else if blen s <? 40 then Err (if blen s =? 16 then EEof else EUnexpectedEof) else
  let hi := le_dec (take 8 s) in
  let lo := le_dec (take 8 (drop 8 s)) in
  let doff := le_dec (take 8 (drop 16 s)) in
  let dsize := le_dec (take 8 (drop 24 s)) in
  let ioff := le_dec (take 8 (drop 32 s)) in
  if (as_int64 doff <? 51)%Z then Err EOther
  else if (as_int64 dsize <=? 0)%Z then Err EOther
  else if (as_int64 ioff <? 0)%Z then Err EOther
  else Ok (mkv2 hi lo doff dsize ioff, drop 40 s).

Definition new_header (dsize : N) : v2hdr := mkv2 0 0 51 dsize (wrap64 (51 + dsize)).
Definition with_index_padding (p : N) (h : v2hdr) : v2hdr :=
  mkv2 (h_hi h) (h_lo h) (h_doff h) (h_dsize h) (wrap64 (h_ioff h + p)).
Definition with_data_padding (p : N) (h : v2hdr) : v2hdr :=
  mkv2 (h_hi h) (h_lo h) (wrap64 (51 + p)) (h_dsize h) (wrap64 (h_ioff h + p)).
Definition with_data_size (sz : N) (h : v2hdr) : v2hdr :=
  mkv2 (h_hi h) (h_lo h) (h_doff h) sz (wrap64 (sz + h_ioff h)).
Definition set_fully_indexed (b : bool) (h : v2hdr) : v2hdr :=
  let hi := if b then N.lor (h_hi h) fully_indexed_bit
            else N.land (h_hi h) (N.lxor (two64 - 1) fully_indexed_bit) in
  mkv2 hi (h_lo h) (h_doff h) (h_dsize h) (h_ioff h).
Definition is_fully_indexed (h : v2hdr) : bool := 0 <? N.land (h_hi h) fully_indexed_bit.
Definition has_index (h : v2hdr) : bool := negb (h_ioff h =? 0).
