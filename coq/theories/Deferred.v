(* v2/storage/deferred/deferredcarwriter.go on top of the StorageCar model of Store.v.
   The writer (and, for a path target, the file) is created by the first Put; callbacks fire at the
   start of every Put, once-callbacks are removed in place while the list is being walked.
   Executable; proofs are in proofs/Deferred*.v. *)
From GoCar Require Import Bytes Varint Cid Header Frame V2Header Index Store.

(* NewDeferredCarWriterForPath (the file is an *os.File: io.WriterAt) / ...ForStream (plain io.Writer) *)
Inductive dtarget := TPath | TStream.

(* dc_opts = the options the caller passed; dc_v1_given = a WriteAsCarV1 option is among them (its
   value is w_v1 dc_opts).  ForStream prepends WriteAsCarV1(true), which a later explicit option
   overrides; ForPath adds nothing (CARv2 unless asked otherwise). *)
(* dc_pre = what is at the output path before the writer is used: None = no file, Some b = a file with
   bytes b (possibly empty, possibly longer than anything the writer will produce).  Irrelevant for a
   stream target. *)
Record dcfg := mkdcfg {
  dc_target : dtarget; dc_opts : wopts; dc_v1_given : bool; dc_nilroots : bool; dc_roots : list bytes;
  dc_pre : option bytes;
  (* write faults of the output target: one entry per Write/WriteAt call the StorageCar issues on it
     (Store.v d_faults: None = the call succeeds, Some k = only k bytes get out and the call fails) *)
  dc_faults : list (option N);
  (* re-entrant registration: what the callback with a given id does WHEN IT FIRES -- it calls OnPut for
     the listed (id, once) callbacks (from inside the running Put).  [] = ordinary callbacks only. *)
  dc_kids : list (N * list (N * bool)) }.

(* os.OpenFile(path, O_CREATE|O_TRUNC|O_WRONLY): whatever was at the path, the file now exists and is
   empty.  (Store.open_new starts from exactly this empty file.) *)
Definition os_create_trunc (pre : option bytes) : bytes := [].

Definition set_v1 (o : wopts) (v1 : bool) : wopts :=
  mkwopts (w_dpad o) (w_ipad o) (w_codec o) (w_zeof o) (w_maxcid o) (w_storeid o) (w_dups o) (w_whole o)
          v1 (w_maxh o) (w_maxs o).
Definition eff_opts (c : dcfg) : wopts :=
  if dc_v1_given c then dc_opts c
  else set_v1 (dc_opts c) (match dc_target c with TStream => true | TPath => false end).
Definition dc_kind (c : dcfg) : skind :=
  KStorage (match dc_target c with TPath => true | TStream => false end).

(* the direct writer the deferred one must be indistinguishable from: storage.NewWritable on the same
   target (same fault script) with the same roots and options *)
Definition direct_open (c : dcfg) : res wstate :=
  open_new (dc_kind c) (eff_opts c) (dc_nilroots c) (dc_roots c) (dc_faults c).

(* d_inner = dcw.w; d_created = writer() has opened (created / truncated) the output file (path target);
   d_cbs = dcw.putCb (id, once) *)
Record dstate := mkd { d_inner : option wstate; d_created : bool; d_cbs : list (N * bool); d_closed : bool }.
Definition d_init : dstate := mkd None false [] false.

Inductive dop := DOnPut (id : N) (once : bool) | DHas (k : bytes) | DPut (k d : bytes) | DClose.

(* result of the call, and the callback invocations it made: (id, len(content)) in order *)
Record dout := mkdout { do_res : out; do_log : list (N * N) }.

(* ---- the callback loop of Put --------------------------------------------------------------------
     for i := 0; i < len(putCb); i++ { cb := putCb[i]; cb.cb(n);
        if cb.once { putCb = append(putCb[:i], putCb[i+1:]...); i-- } }                          *)
Fixpoint remove_nth {A} (i : nat) (l : list A) : list A :=
  match l with
  | [] => []
  | x :: t => match i with O => t | S k => x :: remove_nth k t end
  end.

(* None = out of fuel (excluded by Deferred proofs: fire_fuel_enough) *)
Fixpoint cb_loop (fuel : nat) (i : nat) (cbs : list (N * bool)) (log : list N) : option (list (N * bool) * list N) :=
  match fuel with
  | O => None
  | S f =>
    match nth_error cbs i with
    | None => Some (cbs, log)                                   (* i >= len: loop ends *)
    | Some (id, once) =>
        if once then cb_loop f i (remove_nth i cbs) (log ++ [id])   (* removed in place; i-- ; i++ *)
        else cb_loop f (S i) cbs (log ++ [id])
    end
  end.
Definition fire (cbs : list (N * bool)) : option (list (N * bool) * list N) :=
  cb_loop (S (length cbs)) 0 cbs [].

(* the same loop when callbacks register further callbacks while it runs: OnPut appends to putCb, the loop
   re-reads len(putCb) on every iteration, so a callback registered from inside a Put fires later IN THE
   SAME Put (and a once-callback among them is removed again by it) *)
Fixpoint kids_of (t : list (N * list (N * bool))) (id : N) : list (N * bool) :=
  match t with
  | [] => []
  | (i, l) :: r => if id =? i then l else kids_of r id
  end.
Fixpoint cb_loop_re (t : list (N * list (N * bool))) (fuel : nat) (i : nat) (cbs : list (N * bool)) (log : list N)
  : option (list (N * bool) * list N) :=
  match fuel with
  | O => None
  | S f =>
    match nth_error cbs i with
    | None => Some (cbs, log)
    | Some (id, once) =>
        let cbs1 := cbs ++ kids_of t id in           (* cb.cb(n) runs first: it may call OnPut *)
        if once then cb_loop_re t f i (remove_nth i cbs1) (log ++ [id])
        else cb_loop_re t f (S i) cbs1 (log ++ [id])
    end
  end.
Definition kids_total (t : list (N * list (N * bool))) : nat :=
  fold_right (fun e a => (length (snd e) + a)%nat) 0%nat t.
(* fuel: enough for registration tables that nest at most two levels (a cyclic table makes the real loop
   run for ever; the model answers EFuel) *)
Definition fire_re (t : list (N * list (N * bool))) (cbs : list (N * bool)) : option (list (N * bool) * list N) :=
  match t with
  | [] => fire cbs
  | _ => let k := kids_total t in
         cb_loop_re t (S (length cbs * (1 + k + k * k))) 0 cbs []
  end.

(* dcw.writer(): creates the file (path target) and the StorageCar on first use *)
Definition d_writer (c : dcfg) (st : dstate) : dstate * res wstate :=
  match d_inner st with
  | Some s => (st, Ok s)
  | None =>
    let created := match dc_target c with TPath => true | TStream => d_created st end in
    match direct_open c with
    | Ok s => (mkd (Some s) created (d_cbs st) (d_closed st), Ok s)
    | Err e => (mkd None created (d_cbs st) (d_closed st), Err e)
    end
  end.

Definition d_step (c : dcfg) (st : dstate) (op : dop) : dstate * dout :=
  match op with
  | DOnPut id once =>
      (mkd (d_inner st) (d_created st) (d_cbs st ++ [(id, once)]) (d_closed st), mkdout ONil [])
  | DHas k =>
      if d_closed st then (st, mkdout (OErr EClosed) [])
      else match d_inner st with
           | None => (st, mkdout (OBool false) [])      (* nothing written yet: do not even initialise *)
           | Some s => (st, mkdout (st_has s k) [])
           end
  | DPut k d =>
      if d_closed st then (st, mkdout (OErr EClosed) [])
      else
        match fire_re (dc_kids c) (d_cbs st) with
        | None => (st, mkdout (OErr EFuel) [])
        | Some (cbs', ids) =>
          let log := map (fun id => (id, blen d)) ids in
          let st1 := mkd (d_inner st) (d_created st) cbs' (d_closed st) in
          match d_writer c st1 with
          | (st2, Err e) => (st2, mkdout (OErr e) log)
          | (st2, Ok s) =>
              let '(s', r) := st_put s k d in
              (mkd (Some s') (d_created st2) (d_cbs st2) (d_closed st2), mkdout r log)
          end
        end
  | DClose =>
      if d_closed st then (st, mkdout (OErr EClosed) [])
      else match d_inner st with
           | None => (mkd None (d_created st) (d_cbs st) true, mkdout ONil [])
           | Some s => let '(s', r) := st_finalize s in
                       (mkd (Some s') (d_created st) (d_cbs st) true, mkdout r [])
           end
  end.

(* what can be observed from outside after a step: the bytes on the stream / in the file at the path,
   and whether a file exists at the path.  Until writer() opens the path the file is whatever was there. *)
Definition pre_bytes (c : dcfg) : bytes :=
  match dc_target c, dc_pre c with TPath, Some b => b | _, _ => [] end.
Definition pre_exists (c : dcfg) : bool :=
  match dc_target c, dc_pre c with TPath, Some _ => true | _, _ => false end.
Definition d_bytes (c : dcfg) (st : dstate) : bytes :=
  match d_inner st with
  | Some s => ws_file s
  | None => if d_created st then os_create_trunc (dc_pre c) else pre_bytes c
  end.
Definition d_exists (c : dcfg) (st : dstate) : bool := d_created st || pre_exists c.

Fixpoint d_trace (c : dcfg) (st : dstate) (ops : list dop) : list (dstate * dout) :=
  match ops with
  | [] => []
  | op :: t => let '(st', o) := d_step c st op in (st', o) :: d_trace c st' t
  end.
Definition d_run (c : dcfg) (st : dstate) (ops : list dop) : dstate :=
  fold_left (fun s op => fst (d_step c s op)) ops st.

(* ---- layer B ------------------------------------------------------------------------------------------ *)
(* the puts a history actually performs: those before the first Close *)
Fixpoint d_puts (ops : list dop) : list (bytes * bytes) :=
  match ops with
  | [] => []
  | DClose :: _ => []
  | DPut k d :: t => (k, d) :: d_puts t
  | _ :: t => d_puts t
  end.
Definition is_put (op : dop) : bool := match op with DPut _ _ => true | _ => false end.
Definition is_close (op : dop) : bool := match op with DClose => true | _ => false end.

(* the direct writer fed the same puts (and finalized if the history closed after putting) *)
Definition direct_puts (s0 : wstate) (puts : list (bytes * bytes)) : wstate :=
  fold_left (fun s kd => fst (st_put s (fst kd) (snd kd))) puts s0.
Definition direct_run (s0 : wstate) (puts : list (bytes * bytes)) (fin : bool) : wstate :=
  let s1 := direct_puts s0 puts in if fin then fst (st_finalize s1) else s1.

(* callbacks: the reference bookkeeping -- registered so far in order, once-callbacks dropped after the
   first Put that was not refused as closed *)
Definition live_step (acc : list (N * bool) * bool) (op : dop) : list (N * bool) * bool :=
  let '(cbs, closed) := acc in
  match op with
  | DOnPut id once => (cbs ++ [(id, once)], closed)
  | DPut _ _ => if closed then acc else (filter (fun cb => negb (snd cb)) cbs, closed)
  | DClose => (cbs, true)
  | DHas _ => acc
  end.
Definition live (ops : list dop) : list (N * bool) * bool := fold_left live_step ops ([], false).
(* the invocations the next Put must make *)
Definition expected_log (pre : list dop) (d : bytes) : list (N * N) :=
  if snd (live pre) then [] else map (fun cb => (fst cb, blen d)) (fst (live pre)).

(* ---- the linksystem-facing write path: BlockWriteOpener ------------------------------------------------
   dcw.BlockWriteOpener()(lctx) = ipld storage.PutStream(ctx, dcw); the deferred writer is not a
   StreamingWritableStorage, so PutStream falls back to an in-memory buffer and a committer that calls
   dcw.Put(link.Binary(), buffer) the first time it is used and fails afterwards ("WriteCommitter already
   used").  Opening and writing do not touch the deferred writer at all. *)
Inductive dxop :=
| XD (op : dop)
| XOpen (h : N)                   (* a fresh writer + committer, named h by the history *)
| XWrite (h : N) (data : bytes)   (* writer.Write(data) *)
| XCommit (h : N) (k : bytes).    (* committer(link with CID bytes k) *)

(* handle -> (buffer, committer already used) *)
Definition dbufs := list (N * (bytes * bool)).
Fixpoint buf_get (h : N) (b : dbufs) : option (bytes * bool) :=
  match b with
  | [] => None
  | (h', v) :: t => if h =? h' then Some v else buf_get h t
  end.
Definition buf_set (h : N) (v : bytes * bool) (b : dbufs) : dbufs := (h, v) :: b.

(* what an opener step means for the deferred writer: the Put it performs (first commit), or nothing;
   and the buffers afterwards *)
Definition dx_eff (b : dbufs) (op : dxop) : option dop * dbufs :=
  match op with
  | XD o => (Some o, b)
  | XOpen h => (None, buf_set h ([], false) b)
  | XWrite h data =>
      match buf_get h b with
      | Some (buf, used) => (None, buf_set h (buf ++ data, used) b)
      | None => (None, b)
      end
  | XCommit h k =>
      match buf_get h b with
      | Some (buf, false) => (Some (DPut k buf), buf_set h (buf, true) b)
      | _ => (None, b)
      end
  end.
(* the result of an opener step that performs no Put *)
Definition dx_idle_res (b : dbufs) (op : dxop) : out :=
  match op with
  | XCommit h _ => match buf_get h b with Some (_, true) => OErr EOther | _ => OErr EOracleMiss end
  | XWrite h _ => match buf_get h b with Some _ => ONil | None => OErr EOracleMiss end
  | _ => ONil
  end.

Record dxstate := mkdx { dx_st : dstate; dx_bufs : dbufs }.
Definition dx_init : dxstate := mkdx d_init [].

Definition dx_step (c : dcfg) (xs : dxstate) (op : dxop) : dxstate * dout :=
  match dx_eff (dx_bufs xs) op with
  | (Some o, b') => let '(st', r) := d_step c (dx_st xs) o in (mkdx st' b', r)
  | (None, b') => (mkdx (dx_st xs) b', mkdout (dx_idle_res (dx_bufs xs) op) [])
  end.
Definition dx_run (c : dcfg) (xs : dxstate) (ops : list dxop) : dxstate :=
  fold_left (fun s op => fst (dx_step c s op)) ops xs.
Fixpoint dx_trace (c : dcfg) (xs : dxstate) (ops : list dxop) : list (dxstate * dout) :=
  match ops with
  | [] => []
  | op :: t => let '(xs', o) := dx_step c xs op in (xs', o) :: dx_trace c xs' t
  end.

(* layer B: the plain history an opener history amounts to -- every first commit is a Put of the bytes
   written to that writer so far, everything else about openers disappears *)
Fixpoint dx_flatten (b : dbufs) (ops : list dxop) : list dop :=
  match ops with
  | [] => []
  | op :: t => match dx_eff b op with
               | (Some o, b') => o :: dx_flatten b' t
               | (None, b') => dx_flatten b' t
               end
  end.

(* layer B for re-entrant registration: the callbacks a Put invokes are the live ones, then the ones those
   register, then the ones THOSE register, ... (level order: the loop is a queue); once-callbacks of every
   level are gone afterwards.  depth = 1 + size of the table is enough for an acyclic table. *)
Fixpoint cb_levels (t : list (N * list (N * bool))) (depth : nat) (cbs : list (N * bool)) : list (N * bool) :=
  match depth with
  | O => []
  | S d => match cbs with
           | [] => []
           | _ => cbs ++ cb_levels t d (flat_map (fun cb => kids_of t (fst cb)) cbs)
           end
  end.
Definition fired_re (t : list (N * list (N * bool))) (cbs : list (N * bool)) : list (N * bool) :=
  cb_levels t (S (S (length t))) cbs.
Definition live_step_re (t : list (N * list (N * bool))) (acc : list (N * bool) * bool) (op : dop)
  : list (N * bool) * bool :=
  let '(cbs, closed) := acc in
  match op with
  | DPut _ _ => if closed then acc else (filter (fun cb => negb (snd cb)) (fired_re t cbs), closed)
  | _ => live_step acc op
  end.
