(* Sequential readers as state machines, several alive at once (C01 reader histories): the legacy
   root car.CarReader, the internal carv1.CarReader and the v2 BlockReader.  A reader's state is the
   stream it still has to read (None: not opened, or the open failed); Open reads the header, Next
   returns the next block or the terminating condition and can be called again after io.EOF.
   The Go readers share nothing but the root module's pool of bufio.Readers, which is invisible as long
   as an exhausted reader really lets go of its buffer -- so the model of several readers is the product
   of the single-reader machines (run_multi), and the theorem (proofs/ReaderHistFacts.v) is that an
   interleaving answers, per reader, exactly what that reader answers alone. *)
From GoCar Require Import Bytes Varint Cid Header Frame V2Header Scan.

Inductive rkind := KRoot | KCarv1 | KBlock.
Inductive rhop := HOpen | HNext.
Inductive rhans := HRoots (roots : list bytes) | HBlock (b : block) | HErr (e : err).

Record rhstate := mkrh { rh_file : bytes; rh_stream : option bytes }.

Section Oracles.
  Variable hok : bytes -> bytes -> option bool.
  Variable hdrdec : bytes -> option (list bytes * N).

  Definition rh_open (k : rkind) (o : ropts) (file : bytes) : res (list bytes * bytes) :=
    match k with
    | KRoot =>
        match read_header_root hdrdec file with
        | Err e => Err e
        | Ok (roots, v, rest) =>
            if negb (v =? 1) then Err EOther else match roots with [] => Err EOther | _ => Ok (roots, rest) end
        end
    | KCarv1 =>
        match read_header hdrdec (o_maxh o) file with
        | Err e => Err e
        | Ok (roots, v, rest, _) =>
            if negb (v =? 1) then Err EOther else match roots with [] => Err EOther | _ => Ok (roots, rest) end
        end
    | KBlock =>
        match br_open hdrdec o file with
        | Err e => Err e
        | Ok (_, roots, s, _, _) => Ok (roots, s)
        end
    end.

  Definition rh_next_block (k : rkind) (o : ropts) (s : bytes) : res (block * bytes) :=
    match k with
    | KRoot => next_block_root hok s
    | KCarv1 => next_block hok (mkropts (o_zeof o) (o_maxh o) (o_maxs o) false) s
    | KBlock => next_block hok o s
    end.

  Definition rh_step (k : rkind) (o : ropts) (op : rhop) (st : rhstate) : rhstate * rhans :=
    match op with
    | HOpen =>
        match rh_open k o (rh_file st) with
        | Ok (roots, s) => (mkrh (rh_file st) (Some s), HRoots roots)
        | Err e => (mkrh (rh_file st) None, HErr e)
        end
    | HNext =>
        match rh_stream st with
        | None => (st, HErr EOther)                    (* no reader: the harness never does this *)
        | Some s =>
            match rh_next_block k o s with
            | Ok (b, rest) => (mkrh (rh_file st) (Some rest), HBlock b)
            | Err e => (st, HErr e)                    (* io.EOF at the end: and again io.EOF *)
            end
        end
    end.
End Oracles.

(* ---- generic product of independent machines ---------------------------------------------------------- *)
Section Multi.
  Variables (S A Op : Type) (step : Op -> S -> S * A).

  Fixpoint run_one (s : S) (ops : list Op) : list A :=
    match ops with
    | [] => []
    | op :: t => let '(s', a) := step op s in a :: run_one s' t
    end.

  Fixpoint set_nth (i : nat) (x : S) (l : list S) : list S :=
    match l, i with
    | [], _ => []
    | _ :: t, O => x :: t
    | y :: t, Datatypes.S j => y :: set_nth j x t
    end.

  Fixpoint run_multi (sts : list S) (sched : list (nat * Op)) : list (nat * A) :=
    match sched with
    | [] => []
    | (i, op) :: t =>
        match nth_error sts i with
        | None => run_multi sts t
        | Some s => let '(s', a) := step op s in (i, a) :: run_multi (set_nth i s' sts) t
        end
    end.

  Definition proj {B} (i : nat) (l : list (nat * B)) : list B :=
    map snd (filter (fun x => Nat.eqb (fst x) i) l).
End Multi.

(* ---- positioned sources --------------------------------------------------------------------------------- *)
(* A seekable source (bytes.Reader, *os.File, io.SectionReader) holding src and standing at pos: what a reader
   handed that source sees.  Every v2 reader entry point is specified to start where the source stands. *)
Definition positioned (src : bytes) (pos : N) : bytes := drop pos src.
