(* v2/index: records, the insertion index (LLRB keyed by digest, modelled as a digest-sorted
   list with stable insertion), the two on-disk codecs car-index-sorted (0x0400, digest only)
   and car-multihash-index-sorted (0x0401): Load, Marshal, Unmarshal, GetAll, ForEach,
   WriteTo/ReadFrom.  Executable; proofs are in proofs/Index*.v. *)
From GoCar Require Import Bytes Varint Cid Header.

Record irec := mkrec { r_cid : bytes; r_code : N; r_digest : bytes; r_off : N }.

(* index.Record{Cid, Offset}: decoded multihash of the CID (multihash.Decode(c.Hash())) *)
Definition rec_of_cid (c : bytes) (off : N) : option irec :=
  match cid_parse c with
  | Some p => Some (mkrec c (c_mhcode p) (c_digest p) off)
  | None => None
  end.

(* ---- ordered association lists keyed by N (Go maps iterated through sorted keys) ---- *)
Fixpoint kv_put {A} (k : N) (v : A) (m : list (N * A)) : list (N * A) :=
  match m with
  | [] => [(k, v)]
  | (k', v') :: t =>
      if k <? k' then (k, v) :: m
      else if k =? k' then (k, v) :: t
      else (k', v') :: kv_put k v t
  end.
Fixpoint kv_get {A} (k : N) (m : list (N * A)) : option A :=
  match m with
  | [] => None
  | (k', v') :: t => if k =? k' then Some v' else kv_get k t
  end.
(* append to the group of key k (groups keep arrival order) *)
Definition kv_snoc {A} (k : N) (x : A) (m : list (N * list A)) : list (N * list A) :=
  match kv_get k m with
  | Some l => kv_put k (l ++ [x]) m
  | None => kv_put k [x] m
  end.
Definition group_by {A} (key : A -> N) (xs : list A) : list (N * list A) :=
  fold_left (fun m x => kv_snoc (key x) x m) xs [].

(* ---- stable insertion by digest ---------------------------------------------------- *)
(* r goes after every element whose digest is <= its own: LLRB.InsertNoReplace keeps equal
   keys in insertion order; the same function folded over a list is a stable sort. *)
Fixpoint ins_by_digest (r : irec) (l : list irec) : list irec :=
  match l with
  | [] => [r]
  | x :: t => if bytes_ltb (r_digest r) (r_digest x) then r :: l
              else x :: ins_by_digest r t
  end.
Definition sort_by_digest (rs : list irec) : list irec :=
  fold_left (fun acc r => ins_by_digest r acc) rs [].

(* ---- InsertionIndex ------------------------------------------------------------------ *)
Definition iidx := list irec.  (* ascending digest, insertion order among equal digests *)
Definition ii_insert (r : irec) (ii : iidx) : iidx := ins_by_digest r ii.
Definition ii_load (rs : list irec) (ii : iidx) : iidx :=
  fold_left (fun acc r => ii_insert r acc) rs ii.
(* records with that digest, in index order *)
Definition ii_with_digest (d : bytes) (ii : iidx) : list irec :=
  filter (fun r => bytes_eqb (r_digest r) d) ii.
Definition ii_getall (d : bytes) (ii : iidx) : list N := map r_off (ii_with_digest d ii).
Definition ii_has_exact_cid (c : bytes) (d : bytes) (ii : iidx) : bool :=
  existsb (fun r => bytes_eqb (r_cid r) c) (ii_with_digest d ii).
Definition ii_has_multihash (code : N) (d : bytes) (ii : iidx) : bool :=
  existsb (fun r => r_code r =? code) (ii_with_digest d ii).
Definition ii_flatten_records (ii : iidx) : list irec := ii.

(* ---- single / multi width buckets ------------------------------------------------------ *)
(* a bucket = (record width = digest length + 8, compact bytes); #records = |data| / width *)
Definition mwi := list (N * bytes).

Definition compact (rs : list irec) : bytes :=
  concat (map (fun r => r_digest r ++ le_enc 8 (r_off r)) rs).
Definition rec_width (r : irec) : N := blen (r_digest r) + 8.

(* multiWidthIndex.Load onto an existing index: buckets of the new records replace buckets of
   the same width.  Go sorts each bucket with sort.Sort, which is NOT stable; [srt] stands for
   whatever sort.Sort does (contract: a digest-sorted permutation of its input, see
   proofs/IndexSort.v [sort_contract]); the executable instance is the stable insertion sort. *)
Definition mwi_load_with (srt : list irec -> list irec) (rs : list irec) (m : mwi) : mwi :=
  fold_left (fun acc g => kv_put (fst g) (compact (srt (snd g))) acc)
            (group_by rec_width rs) m.
(* the executable instance, written out (convertible with [mwi_load_with sort_by_digest]) so that
   [unfold mwi_load] shows the fold itself *)
Definition mwi_load (rs : list irec) (m : mwi) : mwi :=
  fold_left (fun acc g => kv_put (fst g) (compact (sort_by_digest (snd g))) acc)
            (group_by rec_width rs) m.

Definition swi_marshal (b : N * bytes) : bytes :=
  le_enc 4 (fst b) ++ le_enc 8 (blen (snd b)) ++ snd b.
Definition mwi_marshal (m : mwi) : bytes :=
  le_enc 4 (N.of_nat (length m)) ++ concat (map swi_marshal m).

Definition max_width : N := 33554432.
(* the largest bucket length singleWidthIndex.Unmarshal accepts: the declared length must fit int64.
   (Before the C09 repair the bucket was allocated up front and anything above runtime.maxAlloc = 2^48
   panicked in makeslice; the repaired code reads the bucket incrementally, so only the int64 test
   remains.  A []byte above 2^48 bytes cannot exist in Go, i.e. such inputs are outside what any
   caller can present; the model does not represent that allocator limit.) *)
Definition max_alloc : N := 9223372036854775807.

(* singleWidthIndex.Unmarshal: Ok ((width, data), rest) *)
Definition swi_unmarshal (s : bytes) : res ((N * bytes) * bytes) :=
  if blen s <? 4 then Err EUnexpectedEof else
  let width := le_dec (take 4 s) in
  let s1 := drop 4 s in
  if blen s1 <? 8 then Err EUnexpectedEof else
  let dlen := le_dec (take 8 s1) in
  let s2 := drop 8 s1 in
  if width <? 8 then Err EOther
  else if max_width <? width then Err EOther
  else if two63 <=? dlen then Err EOther
  else if (0 <? dlen) && (blen s2 =? 0) then Err EEof          (* io.ReadFull: nothing read *)
  else if blen s2 <? dlen then Err EUnexpectedEof
  else Ok ((width, take dlen s2), drop dlen s2).

Fixpoint swis_unmarshal (fuel : nat) (count : N) (s : bytes) (m : mwi) : res (mwi * bytes) :=
  match fuel with
  | O => Err EFuel
  | S f =>
    if count =? 0 then Ok (m, s)
    else match swi_unmarshal s with
         | Err e => Err e
         | Ok (b, rest) => swis_unmarshal f (count - 1) rest (kv_put (fst b) (snd b) m)
         end
  end.

(* multiWidthIndex.Unmarshal *)
Definition mwi_unmarshal (s : bytes) : res (mwi * bytes) :=
  if blen s <? 4 then Err EUnexpectedEof else
  let count := le_dec (take 4 s) in
  if two31 <=? count then Err EOther
  else swis_unmarshal (S (length s)) count (drop 4 s) [].

(* sort.Search(n, f) *)
Fixpoint search_f (fuel : nat) (f : N -> bool) (i j : N) : N :=
  match fuel with
  | O => i
  | S k => if i <? j then
             let h := (i + j) / 2 in
             if f h then search_f k f i h else search_f k f (h + 1) j
           else i
  end.
Definition sort_search (n : N) (f : N -> bool) : N := search_f 70 f 0 n.

Definition swi_count (b : N * bytes) : N := blen (snd b) / fst b.
Definition swi_digest_at (b : N * bytes) (i : N) : bytes :=
  take (fst b - 8) (drop (i * fst b) (snd b)).
Definition swi_off_at (b : N * bytes) (i : N) : N :=
  le_dec (take 8 (drop (i * fst b + (fst b - 8)) (snd b))).

Fixpoint swi_scan_eq (fuel : nat) (b : N * bytes) (d : bytes) (idx : N) : list N :=
  match fuel with
  | O => []
  | S k => if idx <? swi_count b then
             if bytes_eqb d (swi_digest_at b idx)
             then swi_off_at b idx :: swi_scan_eq k b d (idx + 1)
             else []
           else []
  end.

(* singleWidthIndex.getAll with a callback that never stops: all offsets, [] = ErrNotFound *)
Definition swi_getall (b : N * bytes) (d : bytes) : list N :=
  let idx := sort_search (swi_count b) (fun i => bytes_leb d (swi_digest_at b i)) in
  swi_scan_eq (S (length (snd b))) b d idx.

Definition mwi_getall (m : mwi) (d : bytes) : list N :=
  match kv_get (blen d + 8) m with
  | Some data => swi_getall (blen d + 8, data) d
  | None => []
  end.

Fixpoint swi_foreach_f (fuel : nat) (b : N * bytes) (i : N) : list (bytes * N) :=
  match fuel with
  | O => []
  | S k => if i <? swi_count b
           then (swi_digest_at b i, swi_off_at b i) :: swi_foreach_f k b (i + 1)
           else []
  end.
Definition swi_foreach (b : N * bytes) : list (bytes * N) :=
  swi_foreach_f (S (length (snd b))) b 0.
Definition mwi_foreach (m : mwi) : list (bytes * N) := concat (map swi_foreach m).

(* ---- MultihashIndexSorted: code -> multi-width index ------------------------------------ *)
Definition mhidx := list (N * mwi).

Definition mh_load_with (srt : list irec -> list irec) (rs : list irec) (m : mhidx) : mhidx :=
  fold_left (fun acc g => kv_put (fst g) (mwi_load_with srt (snd g) []) acc) (group_by r_code rs) m.
Definition mh_load (rs : list irec) (m : mhidx) : mhidx :=
  fold_left (fun acc g => kv_put (fst g) (mwi_load (snd g) []) acc) (group_by r_code rs) m.

Definition mh_marshal (m : mhidx) : bytes :=
  le_enc 4 (N.of_nat (length m)) ++
  concat (map (fun cm => le_enc 8 (fst cm) ++ mwi_marshal (snd cm)) m).

Fixpoint mwcis_unmarshal (fuel : nat) (count : N) (s : bytes) (m : mhidx) : res (mhidx * bytes) :=
  match fuel with
  | O => Err EFuel
  | S f =>
    if count =? 0 then Ok (m, s)
    else if blen s <? 8 then Err EUnexpectedEof
    else let code := le_dec (take 8 s) in
         match mwi_unmarshal (drop 8 s) with
         | Err e => Err e
         | Ok (w, rest) => mwcis_unmarshal f (count - 1) rest (kv_put code w m)
         end
  end.

Definition mh_unmarshal (s : bytes) : res (mhidx * bytes) :=
  if blen s <? 4 then Err EUnexpectedEof else
  let count := le_dec (take 4 s) in
  if two31 <=? count then Err EOther
  else mwcis_unmarshal (S (length s)) count (drop 4 s) [].

Definition mh_getall (m : mhidx) (code : N) (d : bytes) : list N :=
  match kv_get code m with
  | Some w => mwi_getall w d
  | None => []
  end.

(* ForEach: (hash code, digest, offset) in ascending code, width, then stored order *)
Definition mh_foreach (m : mhidx) : list (N * bytes * N) :=
  concat (map (fun cm => map (fun e => (fst cm, fst e, snd e)) (mwi_foreach (snd cm))) m).

(* ---- index.Index / WriteTo / ReadFrom ---------------------------------------------------- *)
Definition codec_sorted : N := 1024.     (* 0x0400 car-index-sorted *)
Definition codec_mh_sorted : N := 1025.  (* 0x0401 car-multihash-index-sorted *)

Inductive index := IdxSorted (m : mwi) | IdxMh (m : mhidx).

Definition idx_new (codec : N) : option index :=
  if codec =? codec_sorted then Some (IdxSorted [])
  else if codec =? codec_mh_sorted then Some (IdxMh [])
  else None.
Definition idx_codec (i : index) : N :=
  match i with IdxSorted _ => codec_sorted | IdxMh _ => codec_mh_sorted end.
Definition idx_load_with (srt : list irec -> list irec) (rs : list irec) (i : index) : index :=
  match i with
  | IdxSorted m => IdxSorted (mwi_load_with srt rs m)
  | IdxMh m => IdxMh (mh_load_with srt rs m)
  end.
Definition idx_load (rs : list irec) (i : index) : index :=
  match i with IdxSorted m => IdxSorted (mwi_load rs m) | IdxMh m => IdxMh (mh_load rs m) end.
Definition idx_marshal (i : index) : bytes :=
  match i with IdxSorted m => mwi_marshal m | IdxMh m => mh_marshal m end.
(* index.WriteTo: codec varint then Marshal; the reported length is blen of this *)
Definition idx_write (i : index) : bytes := put_uv (idx_codec i) ++ idx_marshal i.

(* GetAll by CID: digest-only for 0x0400, (code, digest) for 0x0401 *)
Definition idx_getall (i : index) (code : N) (d : bytes) : list N :=
  match i with IdxSorted m => mwi_getall m d | IdxMh m => mh_getall m code d end.

(* index.ReadFrom *)
Definition idx_read (s : bytes) : res (index * bytes) :=
  match read_uv s with
  | VOk codec rest _ =>
      if codec =? codec_sorted then
        match mwi_unmarshal rest with Ok (m, r) => Ok (IdxSorted m, r) | Err e => Err e end
      else if codec =? codec_mh_sorted then
        match mh_unmarshal rest with Ok (m, r) => Ok (IdxMh m, r) | Err e => Err e end
      else Err EOther
  | VEof => Err EEof
  | VUnexpectedEof => Err EUnexpectedEof
  | VOverflow | VNotMinimal => Err EOther
  end.

(* InsertionIndex.Flatten(codec) *)
Definition ii_flatten_with (srt : list irec -> list irec) (codec : N) (ii : iidx) : option index :=
  match idx_new codec with
  | Some i => Some (idx_load_with srt (ii_flatten_records ii) i)
  | None => None
  end.
Definition ii_flatten (codec : N) (ii : iidx) : option index :=
  match idx_new codec with
  | Some i => Some (idx_load (ii_flatten_records ii) i)
  | None => None
  end.

(* layer B: what a lookup must return -- offsets of the records carrying that key *)
Definition spec_offsets_digest (rs : list irec) (d : bytes) : list N :=
  map r_off (filter (fun r => bytes_eqb (r_digest r) d) rs).
Definition spec_offsets_mh (rs : list irec) (code : N) (d : bytes) : list N :=
  map r_off (filter (fun r => (r_code r =? code) && bytes_eqb (r_digest r) d) rs).

(* ---- the byte count the writers REPORT (computed by the Go code, not measured) ----------- *)
Definition swi_marshal_len (b : N * bytes) : N := 4 + 8 + blen (snd b).
Definition mwi_marshal_len (m : mwi) : N :=
  fold_left (fun l b => l + swi_marshal_len b) m 4.
Definition mh_marshal_len (m : mhidx) : N :=
  fold_left (fun l cm => l + (8 + mwi_marshal_len (snd cm))) m 4.
Definition idx_marshal_len (i : index) : N :=
  match i with IdxSorted m => mwi_marshal_len m | IdxMh m => mh_marshal_len m end.
(* index.WriteTo: uint64(n) + l *)
Definition idx_write_len (i : index) : N := uv_size (idx_codec i) + idx_marshal_len i.

(* ---- canonical form: the one freedom the format leaves ------------------------------------ *)
(* Entries sharing a digest may appear in any relative order (sort.Sort is unstable);
   [canon] orders every bucket by (digest, offset).  On a digest-sorted bucket this only
   permutes inside runs of equal digests (proofs/IndexCanon.v). *)
Definition entry := (bytes * N)%type.     (* digest, offset *)
Definition entry_leb (a b : entry) : bool :=
  match bytes_cmp (fst a) (fst b) with
  | Lt => true
  | Gt => false
  | Eq => snd a <=? snd b
  end.
Fixpoint ins_entry (x : entry) (l : list entry) : list entry :=
  match l with
  | [] => [x]
  | y :: t => if entry_leb x y then x :: l else y :: ins_entry x t
  end.
Definition sort_entries (l : list entry) : list entry := fold_right ins_entry [] l.
Definition compact_entries (l : list entry) : bytes :=
  concat (map (fun e => fst e ++ le_enc 8 (snd e)) l).
Definition swi_canon (b : N * bytes) : N * bytes :=
  (fst b, compact_entries (sort_entries (swi_foreach b))).
Definition mwi_canon (m : mwi) : mwi := map swi_canon m.
Definition mh_canon (m : mhidx) : mhidx := map (fun cm => (fst cm, mwi_canon (snd cm))) m.
Definition idx_canon (i : index) : index :=
  match i with IdxSorted m => IdxSorted (mwi_canon m) | IdxMh m => IdxMh (mh_canon m) end.

(* ---- executable well-formedness of the on-disk order ("buckets ascend by code then width,
   entries ascend by digest") -------------------------------------------------------------- *)
Fixpoint ascending (l : list N) : bool :=
  match l with
  | a :: ((b :: _) as t) => (a <? b) && ascending t
  | _ => true
  end.
Fixpoint digests_sorted (l : list bytes) : bool :=
  match l with
  | a :: ((b :: _) as t) => bytes_leb a b && digests_sorted t
  | _ => true
  end.
Definition swi_sortedb (b : N * bytes) : bool := digests_sorted (map fst (swi_foreach b)).
Definition mwi_sortedb (m : mwi) : bool := ascending (map fst m) && forallb swi_sortedb m.
Definition mh_sortedb (m : mhidx) : bool :=
  ascending (map fst m) && forallb (fun cm => mwi_sortedb (snd cm)) m.
Definition idx_sortedb (i : index) : bool :=
  match i with IdxSorted m => mwi_sortedb m | IdxMh m => mh_sortedb m end.

(* does any bucket hold two entries with one digest?  (then sort.Sort's choice shows in the bytes) *)
Fixpoint adjacent_dup (l : list bytes) : bool :=
  match l with
  | a :: ((b :: _) as t) => bytes_eqb a b || adjacent_dup t
  | _ => false
  end.
Definition swi_has_ties (b : N * bytes) : bool := adjacent_dup (map fst (swi_foreach b)).
Definition mwi_has_ties (m : mwi) : bool := existsb swi_has_ties m.
Definition idx_has_ties (i : index) : bool :=
  match i with
  | IdxSorted m => mwi_has_ties m
  | IdxMh m => existsb (fun cm => mwi_has_ties (snd cm)) m
  end.

(* ---- InsertionIndex.Marshal / Unmarshal (v2/index/insertionindex.go), AS THE CODE IS ---------------
   Marshal writes the item count as a little-endian int64 and then cbor.Encode (whyrusleeping/cbor,
   reflection based) of each index.Record{cid.Cid; Offset uint64} in tree order.  That encoder writes
   a struct as a map of its EXPORTED fields; cid.Cid has none, so every record becomes
       a2  63 "Cid"  a0  66 "Offset"  <unsigned offset>
   -- the CID is not in the bytes.  The byte count Marshal returns is the constant 8 (the counter is
   not advanced in the loop).  Unmarshal reads the count (int64 <= 0: nothing to do), decodes one
   Record with the same library (a dependency: oracle [recdec], Ok rest / Err class) and calls
   newRecordDigest on it, which panics because the decoded Cid is always the zero Cid
   (multihash.Decode of an empty multihash).  See props/C11.v C11_insertion_index_* (refutations). *)
(* whyrusleeping/cbor tagAuxOut for an unsigned integer: NOT the shortest form at the boundaries
   (the tests are x < 0xff, x < 0xffff, x < 0xffffffff): 255, 65535 and 2^32-1 take the next size *)
Definition wl_cbor_uint (n : N) : bytes :=
  if n <=? 23 then [n2b n]
  else if n <? 255 then [x18; n2b n]
  else if n <? 65535 then x19 :: be_enc 2 n
  else if n <? 4294967295 then x1a :: be_enc 4 n
  else x1b :: be_enc 8 n.
Definition ii_rec_cbor (off : N) : bytes :=
  [xa2; x63; x43; x69; x64; xa0; x66; x4f; x66; x66; x73; x65; x74] ++ wl_cbor_uint off.
Definition ii_marshal (ii : iidx) : bytes :=
  le_enc 8 (N.of_nat (length ii)) ++ concat (map (fun r => ii_rec_cbor (r_off r)) ii).
Definition ii_marshal_len (ii : iidx) : N := 8.

Section InsertionCbor.
  (* cbor.NewDecoder(r).Decode(&rec) on the stream: the bytes left, or the error class *)
  Variable recdec : bytes -> res bytes.

  Definition ii_unmarshal (s : bytes) : res (iidx * bytes) :=
    if blen s <? 8 then Err (if blen s =? 0 then EEof else EUnexpectedEof)   (* binary.Read, error unmapped *)
    else
      let n := le_dec (take 8 s) in
      if (n =? 0) || (two63 <=? n) then Ok ([], drop 8 s)     (* for i := int64(0); i < length *)
      else match recdec (drop 8 s) with
           | Err e => Err e
           | Ok _ => Err EPanic                                (* newRecordDigest(rec): panic(err) *)
           end.
End InsertionCbor.

(* ---- index.GetFirst, InsertionIndex.Get / Codec -------------------------------------------------------- *)
Definition codec_insertion : N := 3145731.   (* insertionIndexCodec = 0x300003, InsertionIndex.Codec *)

(* GetFirst(idx, key) = idx.GetAll(key, fn) with fn recording the offset and returning false: the
   scan stops after the first entry *)
Definition swi_getfirst (b : N * bytes) (d : bytes) : res N :=
  let idx := sort_search (swi_count b) (fun i => bytes_leb d (swi_digest_at b i)) in
  if (idx <? swi_count b) && bytes_eqb d (swi_digest_at b idx) then Ok (swi_off_at b idx)
  else Err ENotFound.
Definition mwi_getfirst (m : mwi) (d : bytes) : res N :=
  match kv_get (blen d + 8) m with
  | Some data => swi_getfirst (blen d + 8, data) d
  | None => Err ENotFound
  end.
Definition mh_getfirst (m : mhidx) (code : N) (d : bytes) : res N :=
  match kv_get code m with
  | Some w => mwi_getfirst w d
  | None => Err ENotFound
  end.
Definition idx_getfirst (i : index) (code : N) (d : bytes) : res N :=
  match i with IdxSorted m => mwi_getfirst m d | IdxMh m => mh_getfirst m code d end.
Definition ii_getfirst (d : bytes) (ii : iidx) : res N :=
  match ii_with_digest d ii with
  | r :: _ => Ok (r_off r)
  | [] => Err ENotFound
  end.

(* InsertionIndex.Get(c) / getRecord: llrb.Get(recordDigest{digest}) returns the first node on the
   search path that compares equal -- SOME record with that digest; which one (when several records
   share it) depends on the shape of the tree: [choose], contract in proofs/IndexGetFirst.v.  The CID
   of the key beyond its digest plays no part. *)
Definition ii_get_with (choose : list irec -> option irec) (d : bytes) (ii : iidx) : res N :=
  match choose (ii_with_digest d ii) with
  | Some r => Ok (r_off r)
  | None => Err ENotFound
  end.
Definition ii_get (d : bytes) (ii : iidx) : res N := ii_get_with (@hd_error irec) d ii.
