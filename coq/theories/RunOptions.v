(* kind applyopts: carv2.ApplyOptions on an option list.
   input = ((tag value) ...) with tags zeof dpad ipad codec noindex storeid maxcid trusted maxh maxs
   wholecids asv1 allowdup (booleans as n0/n1); observation = the 13 resolved fields in the order of
   the [options] record.  The layer-B clause evaluated on the implementation: a zero IndexCodec /
   MaxIndexCidSize never survives (zero => default) and MaxIndexCidSize is within the index record cap. *)
From Coq Require Import Strings.String.
From GoCar Require Import Bytes Varint Cid Header Frame V2Header Scan Val RunScan Options.

Definition v_opt (v : val) : list opt :=
  let t := vnth 0 v in let n := vN (vnth 1 v) in let b := vbool (vnth 1 v) in
  if is_tag t "zeof" then [OZeroLengthSectionAsEOF b]
  else if is_tag t "dpad" then [OUseDataPadding n]
  else if is_tag t "ipad" then [OUseIndexPadding n]
  else if is_tag t "codec" then [OUseIndexCodec n]
  else if is_tag t "noindex" then [OWithoutIndex]
  else if is_tag t "storeid" then [OStoreIdentityCIDs b]
  else if is_tag t "maxcid" then [OMaxIndexCidSize n]
  else if is_tag t "trusted" then [OWithTrustedCAR b]
  else if is_tag t "maxh" then [OMaxAllowedHeaderSize n]
  else if is_tag t "maxs" then [OMaxAllowedSectionSize n]
  else if is_tag t "wholecids" then [OUseWholeCIDs b]
  else if is_tag t "asv1" then [OWriteAsCarV1 b]
  else if is_tag t "allowdup" then [OAllowDuplicatePuts b]
  else [].

Definition v_options (r : options) : val :=
  VL [VN (op_data_padding r); VN (op_index_padding r); VN (op_index_codec r); v_of_bool (op_zero_len_eof r);
      VN (op_max_index_cid r); v_of_bool (op_store_identity r); v_of_bool (op_allow_dup r);
      v_of_bool (op_whole_cids r); VN (op_max_links r); v_of_bool (op_as_v1 r); v_of_bool (op_trusted r);
      VN (op_max_header r); VN (op_max_section r)].

Definition run_applyopts (input : val) : val := v_options (apply_options (flat_map v_opt (vL input))).

Definition prop_applyopts (input obs : val) : val :=
  let codec := vN (vnth 2 obs) in let mc := vN (vnth 4 obs) in
  if (codec =? 0) || (mc =? 0) then VL [VT "FAIL"; VT "zero-valued-option-not-replaced-by-its-default"; VT "apply-options"]
  else if opt_max_indexable_cid <? mc then VL [VT "FAIL"; VT "max-index-cid-size-above-index-record-capacity"; VT "apply-options"]
  else VT "ok".
