(* Traversal writers (C15): v2/selective.go (NewSelectiveWriter / WriteTo, TraverseV1,
   TraverseToFile), v2/internal/loader (counting and teeing link systems), root-module
   selectivecar.go (SelectiveCar Write / Prepare / Dump with the OnNewCarBlock callbacks) and
   root car.go (WriteCar / WriteCarWithWalker).

   What is external (oracle, recorded by the harness, never computed here): the ORDER in which
   the traversal library asks for blocks.  For the ipld-prime selector walks this is the
   sequence of StorageReadOpener / ReadStore.Get calls ([loads], repeats included); for
   merkledag.Walk it is the sequence of CIDs presented to the visit function ([visits],
   repeats included).  Everything go-car itself does with that sequence -- counting, the
   de-duplication sets, offsets, framing, the announced sizes, the CARv2 container around the
   payload, the index records -- is modelled here function by function.  *)
From GoCar Require Import Bytes Varint Cid Header Frame V2Header Scan Index.

(* ---- the oracle ---------------------------------------------------------------------- *)
(* one successful block open during a walk.
   l_nread  : bytes the node decoder pulled through the reader it was given (the counting
              loader counts these, not the block length);
   l_touched: the decoder called Read at least once (the teeing loader emits the section on
              the first Read, not on open). *)
Record load := mkload { l_cid : bytes; l_data : bytes; l_nread : N; l_touched : bool }.
Definition l_block (l : load) : block := (l_cid l, l_data l).
Definition blocks_of (ls : list load) : list block := map l_block ls.

(* a whole walk: the successful opens in order, and whether the walk then returned nil
   (false: block missing, link budget exhausted, undecodable node, ...) *)
Record trace := mktrace { t_loads : list load; t_ok : bool }.

Inductive terr := TWalk | TSizeMismatch | TOffsetImpossible | TIndex
                | TPanic.   (* runtime panic "makeslice: len out of range" *)

(* Go's runtime refuses make([]byte, n) for n above maxAlloc = 2^48 (64-bit Linux) with a panic.
   The padding buffers are allocated in one piece, so a padding above this never gets written.
   (Below it the model writes the zeros; whether the machine has that much memory is outside it.) *)
Definition max_alloc : N := 281474976710656.

(* ---- layer B: "each block once, in first-visit order" -------------------------------- *)
Fixpoint mem (c : bytes) (s : list bytes) : bool :=
  match s with
  | [] => false
  | x :: t => bytes_eqb c x || mem c t
  end.

Fixpoint first_occ_from (seen : list bytes) (bs : list block) : list block :=
  match bs with
  | [] => []
  | b :: t => if mem (fst b) seen then first_occ_from seen t
              else b :: first_occ_from (fst b :: seen) t
  end.
Definition first_occ (bs : list block) : list block := first_occ_from [] bs.

(* executable "some CID is opened more than once" *)
Fixpoint has_repeat (seen : list bytes) (bs : list block) : bool :=
  match bs with
  | [] => false
  | b :: t => mem (fst b) seen || has_repeat (fst b :: seen) t
  end.

(* position of every section of a payload whose first section starts at [off] *)
Fixpoint place (off : N) (bs : list block) : list (block * N * N) :=
  match bs with
  | [] => []
  | b :: t => (b, off, section_size (fst b) (snd b))
              :: place (off + section_size (fst b) (snd b)) t
  end.

(* ---- v2/internal/loader/counting_loader.go --------------------------------------------- *)
(* what one opened block adds to counter.totalRead: the varint and the CID at open, then
   whatever the decoder reads *)
Definition count_one (l : load) : N :=
  uv_size (blen (l_data l) + blen (l_cid l)) + blen (l_cid l) + l_nread l.

(* [fixed = false]: the loader as it was (every open is counted);
   [fixed = true] : the repaired loader -- a link already opened in this session is handed
   through uncounted, exactly as the teeing loader hands it through unwritten *)
Fixpoint counting (fixed : bool) (seen : list bytes) (ls : list load) : N :=
  match ls with
  | [] => 0
  | l :: t =>
      if fixed && mem (l_cid l) seen then counting fixed seen t
      else count_one l + counting fixed (l_cid l :: seen) t
  end.

(* ---- v2/internal/loader/writing_loader.go ---------------------------------------------- *)
Fixpoint has_rec (c : bytes) (recs : list (bytes * N)) : bool :=
  match recs with
  | [] => false
  | r :: t => bytes_eqb c (fst r) || has_rec c t
  end.

Record tee_out := mktee { te_bytes : bytes; te_size : N; te_recs : list (bytes * N); te_ok : bool }.

(* TeeingLinkSystem's StorageReadOpener + writingReader.Read over the opens of one walk.
   recs = writerOutput.rcrds (insertion order; Go iterates the map in random order),
   size = writerOutput.size. *)
Fixpoint tee (recs : list (bytes * N)) (size : N) (ls : list load) : tee_out :=
  match ls with
  | [] => mktee [] size recs true
  | l :: t =>
    match cid_from_bytes (l_cid l) with
    | None => mktee [] size recs false        (* CidFromBytes(l.Binary()) fails: open error *)
    | Some (n, _) =>
      let key := take n (l_cid l) in
      if has_rec key recs then tee recs size t      (* already written: pass through *)
      else if l_touched l then
        let szv := put_uv (blen (l_data l) + blen (l_cid l)) in
        let r := tee (recs ++ [(key, size)])
                     (size + (blen (l_data l) + (blen szv + blen (l_cid l)))) t in
        mktee (szv ++ l_cid l ++ l_data l ++ te_bytes r) (te_size r) (te_recs r) (te_ok r)
      else tee recs size t                            (* reader never read: nothing written *)
    end
  end.

(* writerOutput.Index(): index.New(code), records of the map, Load *)
Fixpoint recs_to_irecs (recs : list (bytes * N)) : option (list irec) :=
  match recs with
  | [] => Some []
  | r :: t =>
    match rec_of_cid (fst r) (snd r), recs_to_irecs t with
    | Some x, Some xs => Some (x :: xs)
    | _, _ => None
    end
  end.

Section MapOrder.
  (* Go map iteration order of writerOutput.rcrds (any permutation; hypothesis in proofs) *)
  Variable order : list (bytes * N) -> list (bytes * N).

  Definition writer_index (codec : N) (recs : list (bytes * N)) : option index :=
    match idx_new codec with
    | None => None
    | Some i =>
      match recs_to_irecs (order recs) with
      | Some rs => Some (idx_load rs i)
      | None => None
      end
    end.

  (* ---- v2/selective.go ----------------------------------------------------------------- *)
  Definition codec_none : N := 3145728.  (* index.CarIndexNone = 0x300000 *)
  Record topts := mktopts { o_dpad : N; o_ipad : N; o_codec : N }.

  Definition hdr1 (root : bytes) : bytes := enc_header (Some [root]) 1.
  Definition head_size (root : bytes) : N := ld_size (blen (hdr1 root)).   (* carv1.HeaderSize *)

  Inductive v1res := V1Err (e : terr) | V1Ok (idx : option index).
  Record v1out := mkv1 { v_bytes : bytes; v_size : N; v_res : v1res }.

  (* traversalCar.WriteV1: header, teeing walk, size check, index.
     v_size is writer.Size() -- the loader's own running count, NOT a measurement of what
     went to w; that the two agree is a theorem. *)
  Definition write_v1 (root : bytes) (codec : N) (tcsize : N) (tr : trace) : v1out :=
    let r := tee [] (head_size root) (t_loads tr) in
    let out := ld (hdr1 root) ++ te_bytes r in
    let v1size := te_size r in
    if negb (t_ok tr && te_ok r) then mkv1 out v1size (V1Err TWalk)
    else if negb (tcsize =? 0) && negb (tcsize =? v1size) then mkv1 out v1size (V1Err TSizeMismatch)
    else if codec =? codec_none then mkv1 out v1size (V1Ok None)
    else match writer_index codec (te_recs r) with
         | Some i => mkv1 out v1size (V1Ok (Some i))
         | None => mkv1 out v1size (V1Err TIndex)     (* index.New: unknown codec *)
         end.

  (* the CARv2 header traversalCar.WriteV2Header builds *)
  Definition tc_header (o : topts) (size : N) : v2hdr :=
    let h0 := new_header size in
    let h1 := if 0 <? o_dpad o then with_data_padding (o_dpad o) h0 else h0 in
    let h2 := if 0 <? o_ipad o then with_index_padding (o_ipad o) h1 else h1 in
    if o_codec o =? codec_none
    then mkv2 (h_hi h2) (h_lo h2) (h_doff h2) (h_dsize h2) 0
    else h2.

  (* traversalCar.WriteV2Header: bytes written, count returned, error *)
  Definition write_v2_header (o : topts) (size : N) : bytes * option terr :=
    let h := tc_header o size in
    let base := pragma ++ enc_v2hdr h in
    if blen base <? h_doff h then
      (* buf := make([]byte, h.DataOffset-uint64(hn)) *)
      if max_alloc <? h_doff h - blen base then (base, Some TPanic)
      else (base ++ zerosN (h_doff h - blen base), None)
    else if h_doff h <? blen base then (base, Some TOffsetImpossible)
    else (base, None).

  Record wout := mkw { w_bytes : bytes; w_n : N; w_err : option terr; w_size : N }.

  (* traversalCar.WriteTo; tcsize = tc.size on entry, w_size = tc.size on exit;
     w_n is the count WriteTo returns (built from the counts its callees report) *)
  Definition write_to (root : bytes) (o : topts) (tcsize : N) (tr : trace) : wout :=
    match write_v2_header o tcsize with
    | (hb, Some e) => mkw hb (blen hb) (Some e) tcsize
    | (hb, None) =>
      let v := write_v1 root (o_codec o) tcsize tr in
      let n := blen hb + v_size v in
      match v_res v with
      | V1Err e => mkw (hb ++ v_bytes v) n (Some e) tcsize
      | V1Ok None => mkw (hb ++ v_bytes v) n None (v_size v)
      | V1Ok (Some idx) =>
          (* buf := make([]byte, tc.opts.IndexPadding) -- after the payload went out *)
          if max_alloc <? o_ipad o then mkw (hb ++ v_bytes v) n (Some TPanic) (v_size v)
          else
          let pad := if 0 <? o_ipad o then zerosN (o_ipad o) else [] in
          let ib := idx_write idx in
          mkw (hb ++ v_bytes v ++ pad ++ ib) (n + blen pad + blen ib) None (v_size v)
      end
    end.

  (* ApplyOptions: IndexCodec 0 means the default *)
  Definition apply_codec (c : N) : N := if c =? 0 then codec_mh_sorted else c.
  Definition apply_opts (o : topts) : topts := mktopts (o_dpad o) (o_ipad o) (apply_codec (o_codec o)).

  (* TraverseV1(ctx, ls, root, sel, w, opts...): (bytes sent to w, returned length, error) *)
  Definition traverse_v1 (root : bytes) (tr : trace) : bytes * N * option terr :=
    let v := write_v1 root codec_none 0 tr in
    (v_bytes v, v_size v, match v_res v with V1Err e => Some e | V1Ok _ => None end).

  (* NewSelectiveWriter: the counting walk; None = constructor error, Some size = tc.size *)
  Definition new_selective_writer (fixed : bool) (root : bytes) (tr1 : trace) : option N :=
    if t_ok tr1 then Some (head_size root + counting fixed [] (t_loads tr1)) else None.

  (* NewSelectiveWriter(...).WriteTo(w): tr1 = loads of the counting walk, tr2 = of the teeing walk *)
  Definition selective_write (fixed : bool) (root : bytes) (o : topts) (tr1 tr2 : trace)
    : option wout :=
    match new_selective_writer fixed root tr1 with
    | None => None
    | Some size => Some (write_to root (apply_opts o) size tr2)
    end.

  (* TraverseToFile: WriteTo with size 0, then seek to 0 and rewrite the CARv2 header with the
     measured size.  Result: final file contents and the error. *)
  Definition traverse_to_file (root : bytes) (o : topts) (tr : trace) : bytes * option terr :=
    let o' := apply_opts o in
    let w := write_to root o' 0 tr in
    match w_err w with
    | Some e => (w_bytes w, Some e)
    | None =>
      match write_v2_header o' (w_size w) with
      | (hb, e) => (hb ++ drop (blen hb) (w_bytes w), e)
      end
    end.
End MapOrder.

(* ---- root module: selectivecar.go ------------------------------------------------------- *)
(* the Block handed to OnNewCarBlock callbacks *)
Record cb := mkcb { cb_cid : bytes; cb_data : bytes; cb_off : N; cb_size : N }.

(* selectiveCarTraverser.loader over the store.Get calls of the walk(s): cidSet, offset *)
Fixpoint sc_loader (set : list bytes) (off : N) (ls : list block) : list cb * N :=
  match ls with
  | [] => ([], off)
  | b :: t =>
    if mem (fst b) set then sc_loader set off t
    else
      let size := ld_size (blen (fst b) + blen (snd b)) in     (* util.LdSize(cid, raw) *)
      let r := sc_loader (fst b :: set) (off + size) t in
      (mkcb (fst b) (snd b) off size :: fst r, snd r)
  end.

(* traverse(): header first (offset := HeaderSize), then the blocks of every dag *)
Definition sc_traverse (roots : list bytes) (ls : list block) : list cb * N :=
  sc_loader [] (ld_size (blen (enc_header (Some roots) 1))) ls.

Definition cb_section (c : cb) : bytes := enc_section (cb_cid c) (cb_data c).  (* util.LdWrite *)

(* One Block is handed to EVERY registered user callback, in registration order: the event
   log of a run is the list of (callback index, Block) in call order. *)
Definition fanout (k : nat) (b : cb) : list (nat * cb) := map (fun i => (i, b)) (seq 0 k).
(* what callback number i was told, in order *)
Definition reports (i : nat) (evs : list (nat * cb)) : list cb :=
  map snd (filter (fun e => Nat.eqb (fst e) i) evs).

(* SelectiveCar.Write(w, cb_0 .. cb_{k-1}): bytes sent to w, callback event log, ok.
   onNewCarBlock = LdWrite, then the loop over the user callbacks with the same Block. *)
Definition sc_write (k : nat) (roots : list bytes) (ls : list block) (ok : bool)
  : bytes * list (nat * cb) * bool :=
  let r := sc_traverse roots ls in
  (ld (enc_header (Some roots) 1) ++ concat (map cb_section (fst r)), flat_map (fanout k) (fst r), ok).

(* SelectiveCar.Prepare: None = error; Some (Size(), Header().Roots, Cids()) *)
Definition sc_prepare (roots : list bytes) (ls : list block) (ok : bool)
  : option (N * list bytes * list bytes) :=
  if ok then let r := sc_traverse roots ls in Some (snd r, roots, map cb_cid (fst r)) else None.

(* SelectiveCarPrepared.Dump with the k callbacks given to Prepare: fetches every prepared cid
   from the store again; per block: LdSize, LdWrite, the loop over the callbacks (all with the
   same Offset), and only then offset += size. *)
Fixpoint sc_dump_blocks (k : nat) (store : bytes -> option bytes) (off : N) (cids : list bytes)
  : bytes * list (nat * cb) * bool :=
  match cids with
  | [] => ([], [], true)
  | c :: t =>
    match store c with
    | None => ([], [], false)
    | Some raw =>
      let size := ld_size (blen c + blen raw) in
      match sc_dump_blocks k store (off + size) t with
      | (bs, evs, ok) => (enc_section c raw ++ bs, fanout k (mkcb c raw off size) ++ evs, ok)
      end
    end
  end.
Definition sc_dump (k : nat) (store : bytes -> option bytes) (roots : list bytes) (cids : list bytes)
  : bytes * list (nat * cb) * bool :=
  let hb := enc_header (Some roots) 1 in
  match sc_dump_blocks k store (ld_size (blen hb)) cids with
  | (bs, evs, ok) => (ld hb ++ bs, evs, ok)
  end.

(* ---- several Dag entries: NewSelectiveCar(ctx, store, []Dag{{root_1, sel_1}, ...}) ------------------ *)
(* traverseBlocks: for every Dag in order, Load(root) and walk its selector through the SAME loader
   (one cidSet, one running offset); the first walk that fails aborts the rest.  The oracle is one
   trace per Dag: what that (root, selector) walk opens under the options, root first. *)
Fixpoint dag_loads (ds : list (bytes * trace)) : list block * bool :=
  match ds with
  | [] => ([], true)
  | d :: t =>
    if t_ok (snd d)
    then (blocks_of (t_loads (snd d)) ++ fst (dag_loads t), snd (dag_loads t))
    else (blocks_of (t_loads (snd d)), false)
  end.
(* header roots = the roots of ALL Dag entries, in order (traverseHeader) *)
Definition dag_roots (ds : list (bytes * trace)) : list bytes := map fst ds.

Definition sc_write_dags (k : nat) (ds : list (bytes * trace)) : bytes * list (nat * cb) * bool :=
  sc_write k (dag_roots ds) (fst (dag_loads ds)) (snd (dag_loads ds)).
Definition sc_prepare_dags (ds : list (bytes * trace)) : option (N * list bytes * list bytes) :=
  sc_prepare (dag_roots ds) (fst (dag_loads ds)) (snd (dag_loads ds)).
(* the store.Get calls of one run, in order *)
Definition sc_gets_dags (ds : list (bytes * trace)) : list bytes := map fst (fst (dag_loads ds)).

(* ---- legacy writers into a destination that fails ------------------------------------------------------ *)
(* util.LdWrite hands the destination one Write per slice: the length varint, then each slice
   (header: varint, header bytes; section: varint, cid, data), and stops at the first error.
   The destination fails at its k-th Write call (0-based): [short = false] it accepts nothing of that
   call, [short = true] it accepts the first half of it; either way it returns an error. *)
Definition hdr_chunks (hb : bytes) : list bytes := [put_uv (blen hb); hb].
Definition sec_chunks (b : block) : list bytes := [put_uv (blen (fst b) + blen (snd b)); fst b; snd b].
(* bytes the destination accepted, and whether the fault was reached *)
Fixpoint fault_write (k : N) (short : bool) (chunks : list bytes) : bytes * bool :=
  match chunks with
  | [] => ([], false)
  | c :: t =>
    if k =? 0 then ((if short then take (blen c / 2) c else []), true)
    else (c ++ fst (fault_write (N.pred k) short t), snd (fault_write (N.pred k) short t))
  end.
(* SelectiveCar.Write into such a destination (the write error aborts the walk): accepted bytes, ok *)
Definition sc_write_faulty (fk : N) (short : bool) (ds : list (bytes * trace)) : bytes * bool :=
  let cbs := fst (sc_traverse (dag_roots ds) (fst (dag_loads ds))) in
  let r := fault_write fk short
             (hdr_chunks (enc_header (Some (dag_roots ds)) 1)
              ++ flat_map (fun c => sec_chunks (cb_cid c, cb_data c)) cbs) in
  (fst r, snd (dag_loads ds) && negb (snd r)).
(* A history in one process: a write into a failing destination, then fault-free writes.  Nothing is
   carried from one call to the next (no package-level state in the model of util.LdWrite): the
   history's second component is by construction the stand-alone answer. *)
Definition sc_history (fk : N) (short : bool) (ds1 : list (bytes * trace)) (k : nat) (ds2 : list (bytes * trace))
  : (bytes * bool) * (bytes * list (nat * cb) * bool) * option (N * list bytes * list bytes) :=
  (sc_write_faulty fk short ds1, sc_write_dags k ds2, sc_prepare_dags ds2).
(* ---- root module: car.go WriteCar / WriteCarWithWalker -------------------------------- *)
(* merkledag.Walk presents CIDs to seen.Visit; on a first visit enumGetLinks fetches the node
   and writes its section.  [vs] = the CIDs presented, each with the bytes the NodeGetter
   holds for it. *)
Fixpoint wc_walk (seen : list bytes) (vs : list block) : bytes :=
  match vs with
  | [] => []
  | b :: t => if mem (fst b) seen then wc_walk seen t
              else enc_section (fst b) (snd b) ++ wc_walk (fst b :: seen) t
  end.
(* roots = None: a nil slice *)
Definition write_car (roots : option (list bytes)) (vs : list block) (ok : bool) : bytes * bool :=
  (ld (enc_header roots 1) ++ wc_walk [] vs, ok).

(* WriteCar into such a destination *)
Definition write_car_faulty (fk : N) (short : bool) (roots : option (list bytes)) (vs : list block) (ok : bool)
  : bytes * bool :=
  let r := fault_write fk short (hdr_chunks (enc_header roots 1) ++ flat_map sec_chunks (first_occ vs)) in
  (fst r, ok && negb (snd r)).

Definition wc_history (fk : N) (short : bool) (r1 : option (list bytes)) (vs1 : list block) (ok1 : bool)
                      (r2 : option (list bytes)) (vs2 : list block) (ok2 : bool)
  : (bytes * bool) * (bytes * bool) :=
  (write_car_faulty fk short r1 vs1 ok1, write_car r2 vs2 ok2).

