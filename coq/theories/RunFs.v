(* entry points of the `car extract` kinds: val -> val.  Glue only. *)
From Coq Require Import Strings.String.
From GoCar Require Import Bytes Val ExtractFs.

(* ---- decoding ---- *)
Definition v_phys (v : val) : phys := map vB (vL v).

Definition is_tagv (v : val) (s : string) : bool :=
  match v with VT t => String.eqb t s | _ => false end.

Definition v_node (v : val) : node :=
  let tg := vnth 0 v in
  if is_tagv tg "f" then NFile (vB (vnth 1 v))
  else if is_tagv tg "l" then NLink (vB (vnth 1 v))
  else NDir.

Definition v_fs (v : val) : fsmap :=
  map (fun e => (v_phys (vnth 0 e), v_node (vnth 1 e))) (vL v).

(* permission bits of the entries that carry them: (td n<mode>) | (tf b<data> n<mode>) *)
Definition v_mode_of_node (v : val) : option N :=
  let tg := vnth 0 v in
  if is_tagv tg "f" then (match vnth 2 v with VN m => Some m | _ => None end)
  else if is_tagv tg "d" then (match vnth 1 v with VN m => Some m | _ => None end)
  else None.

Definition v_modes (v : val) : modes :=
  flat_map (fun e => match v_mode_of_node (vnth 1 e) with
                     | Some m => [(v_phys (vnth 0 e), m)]
                     | None => []
                     end) (vL v).

Fixpoint v_utree (v : val) : utree :=
  match v with
  | VL (VT tg :: args) =>
    if String.eqb tg "f" then UFile (vB (nth 0 args (VL [])))
    else if String.eqb tg "fe" then UFileErr (vB (nth 0 args (VL [])))
    else if String.eqb tg "l" then ULink (vB (nth 0 args (VL [])))
    else if String.eqb tg "m" then UMissing
    else if String.eqb tg "d" then
      match args with
      | VL es :: _ =>
        UDir ((fix ents (l : list val) : list (name * utree) :=
                 match l with
                 | [] => []
                 | VL (VB nm :: t :: _) :: r => (nm, v_utree t) :: ents r
                 | _ :: r => ents r
                 end) es)
      | _ => UDir []
      end
    else UBad
  | _ => UBad
  end.

Definition v_uroot (v : val) : uroot :=
  if is_tagv (vnth 0 v) "raw" then RRaw else RNode (v_utree (vnth 1 v)).

(* ---- encoding ---- *)
Definition phys_v (p : phys) : val := VL (map VB p).
Definition node_v (n : node) : val :=
  match n with
  | NDir => VL [VT "d"]
  | NFile d => VL [VT "f"; VB d]
  | NLink t => VL [VT "l"; VB t]
  end.

Fixpoint phys_cmp (a b : phys) : comparison :=
  match a, b with
  | [], [] => Eq
  | [], _ :: _ => Lt
  | _ :: _, [] => Gt
  | x :: a', y :: b' =>
    match bytes_cmp x y with
    | Eq => phys_cmp a' b'
    | c => c
    end
  end.

Fixpoint fs_insert (p : phys) (n : node) (l : fsmap) : fsmap :=
  match l with
  | [] => [(p, n)]
  | (q, m) :: t =>
    match phys_cmp p q with
    | Lt => (p, n) :: l
    | Eq => (p, n) :: t
    | Gt => (q, m) :: fs_insert p n t
    end
  end.

(* sorted by path, newest binding of a path wins *)
Definition fs_canon (fs : fsmap) : fsmap :=
  fold_right (fun e acc => fs_insert (fst e) (snd e) acc) [] fs.

Definition fs_v (fs : fsmap) : val :=
  VL (map (fun e => VL [phys_v (fst e); node_v (snd e)]) (fs_canon fs)).

(* with permission bits (symbolic links have none worth comparing) *)
(* Files and directories outside the output directory also carry a modification-time flag in the
   observation: 1 = the time the sandbox was given, 2 = changed.  The extraction touches nothing
   outside, so the model's flag there is always 1. *)
Definition node_mv (inside : phys -> bool) (m : modes) (fs : fsmap) (p : phys) (n : node) : val :=
  let md := match mode_of m fs p with Some x => x | None => 0 end in
  let mt := if inside p then [] else [VN 1] in
  match n with
  | NDir => VL ([VT "d"; VN md] ++ mt)
  | NFile d => VL ([VT "f"; VB d; VN md] ++ mt)
  | NLink t => VL [VT "l"; VB t]
  end.
Definition fs_mv (inside : phys -> bool) (m : modes) (fs : fsmap) : val :=
  VL (map (fun e => VL [phys_v (fst e); node_mv inside m fs (fst e) (snd e)]) (fs_canon fs)).
Definition inside_of (rr : val) : phys -> bool :=
  if is_tagv (vnth 0 rr) "some" then underb (v_phys (vnth 1 rr)) else (fun _ => false).

Definition xres_v (r : xres) : val :=
  match r with
  | XErr => VL [VT "err"]
  | XOk c => if c =? 0 then VL [VT "nofiles"] else VL [VT "ok"; VN c]
  end.

(* ---- kind "extract" ----
   input: (fs cwd outdir pathflag roots)
   observation: (status realroot fs-after)
     status   = (tok n<count>) | (tnofiles) | (terr)
     realroot = (tsome <phys>) | (tnone)      what the output directory argument resolves to *)
Definition run_extract_parts (input : val) : val * val * val * val :=
  let fs := v_fs (vnth 0 input) in
  let cwd := v_phys (vnth 1 input) in
  let outdir := vB (vnth 2 input) in
  let pathflag := vB (vnth 3 input) in
  let roots := map v_uroot (vL (vnth 4 input)) in
  let '(fs', out, r) := extract_main true fs cwd outdir pathflag roots in
  let rr := if bytes_eqb outdir s_dash then VL [VT "none"]
            else match eval_symlinks_str fs cwd outdir with
                 | Some root => VL [VT "some"; phys_v (phys_of cwd root)]
                 | None => VL [VT "none"]
                 end in
  (xres_v r, rr, fs_mv (inside_of rr) (v_modes (vnth 0 input)) fs', VB out).

(* kind "extract": observation (status realroot fs-after stdout) *)
Definition run_extract (input : val) : val :=
  let '(st, rr, f, out) := run_extract_parts input in VL [st; rr; f; out].
(* (status realroot fs-after), as used by the create/extract kinds *)
Definition run_extract3 (input : val) : val :=
  let '(st, rr, f, _) := run_extract_parts input in VL [st; rr; f].

(* layer B on what the implementation did: every path outside the (real) output directory is
   the same before and after. *)
Definition node_eqb (a b : node) : bool :=
  match a, b with
  | NDir, NDir => true
  | NFile x, NFile y => bytes_eqb x y
  | NLink x, NLink y => bytes_eqb x y
  | _, _ => false
  end.
Definition onode_eqb (a b : option node) : bool :=
  match a, b with
  | None, None => true
  | Some x, Some y => node_eqb x y
  | _, _ => false
  end.

Definition omode_eqb (a b : option N) : bool :=
  match a, b with
  | Some x, Some y => x =? y
  | None, None => true
  | _, _ => false
  end.

(* paths whose observed node carries the flag "modification time changed" *)
Definition v_mtime_changed (v : val) : list phys :=
  flat_map (fun e =>
              let n := vnth 1 e in
              let fl := if is_tagv (vnth 0 n) "f" then vnth 3 n else if is_tagv (vnth 0 n) "d" then vnth 2 n else VL [] in
              match fl with VN 2 => [v_phys (vnth 0 e)] | _ => [] end) (vL v).

Definition outside_change (inside : phys -> bool) (mb ma : modes) (before after : fsmap) (p : phys) : option string :=
  if inside p then None
  else match look before p, look after p with
       | None, Some _ => Some "created"
       | Some _, None => Some "deleted"
       | Some x, Some y =>
         if negb (node_eqb x y) then Some "modified"
         else if (match x with NLink _ => true | _ => false end) || omode_eqb (mode_of mb before p) (mode_of ma after p)
         then None else Some "mode-changed"
       | None, None => None
       end%string.

Fixpoint first_change (inside : phys -> bool) (mb ma : modes) (before after : fsmap) (ps : list phys) : option string :=
  match ps with
  | [] => None
  | p :: t =>
    match outside_change inside mb ma before after p with
    | Some c => Some c
    | None => first_change inside mb ma before after t
    end
  end.

Definition prop_extract (input obs : val) : val :=
  let before := v_fs (vnth 0 input) in
  let after := v_fs (vnth 2 obs) in
  let rr := vnth 1 obs in
  let inside := if is_tagv (vnth 0 rr) "some" then underb (v_phys (vnth 1 rr)) else (fun _ => false) in
  match first_change inside (v_modes (vnth 0 input)) (v_modes (vnth 2 obs)) before after
                     (map fst before ++ map fst after) with
  | None =>
    if existsb (fun p => negb (inside p)) (v_mtime_changed (vnth 2 obs))
    then VL [VT "FAIL"; VT "changed-outside-output-directory"; VT "mtime-changed"]
    else VT "ok"
  | Some c => VL [VT "FAIL"; VT "changed-outside-output-directory"; VT c]
  end.

(* ---- kind "createextract" (C18) ----
   input: (fs cwd outdir pathflag roots opts src srcpath dstpath)
     roots   = what `car create` built, as presented to the extraction walk
     srcpath = physical path of the source tree, dstpath = where its copy must appear
               ((tskip) when the source is a lone symlink packed with --no-wrap)
   observation: (status realroot fs-after rootinfo)
     rootinfo = (n<number of roots> n<`car root` prints the header root> n<root is not the proxy>
                 n<root block is in the archive>) *)
Definition run_createextract (input : val) : val :=
  let opts := vnth 5 input in
  let version := vN (vnth 0 opts) in
  let mode := vN (vnth 2 opts) in
  let opens :=
    if mode =? 0 then true
    else stdin_open_ok true (if mode =? 1 then RRegular else RPipe) version in
  let ri := VL [VN 1; VN 1; VN 1; VN 1] in
  if opens then
    match run_extract3 input with
    | VL l => VL (l ++ [ri])
    | v => v
    end
  else
    (* the archive cannot be opened: nothing is extracted *)
    match run_extract3 input with
    | VL [_; rr; _] => VL [VL [VT "err"]; rr; fs_mv (inside_of rr) (v_modes (vnth 0 input)) (v_fs (vnth 0 input)); ri]
    | v => v
    end.

(* entries of fs below p, relative to p (p itself as the empty path) *)
Fixpoint strip_prefix (p q : phys) : option phys :=
  match p, q with
  | [], _ => Some q
  | x :: p', y :: q' => if bytes_eqb x y then strip_prefix p' q' else None
  | _ :: _, [] => None
  end.

Fixpoint subtree (p : phys) (fs : fsmap) : fsmap :=
  match fs with
  | [] => []
  | (q, n) :: t =>
    match strip_prefix p q with
    | Some r => (r, n) :: subtree p t
    | None => subtree p t
    end
  end.

Fixpoint fs_eqb (a b : fsmap) : bool :=
  match a, b with
  | [], [] => true
  | (p, n) :: a', (q, m) :: b' => phys_eqb p q && node_eqb n m && fs_eqb a' b'
  | _, _ => false
  end.

Definition prop_createextract (input obs : val) : val :=
  let after := v_fs (vnth 2 obs) in
  let ri := vnth 3 obs in
  let opts := vnth 5 input in
  if negb ((vN (vnth 0 ri) =? 1) && vbool (vnth 1 ri) && vbool (vnth 2 ri) && vbool (vnth 3 ri))
  then VL [VT "FAIL"; VT "root-is-not-the-single-printed-cid"; VT "create"]
  else
    let src := vnth 7 input in
    let dst := vnth 8 input in
    if is_tagv (vnth 0 dst) "skip" then
      (* --no-wrap of a lone file of one chunk (raw root, skipped by design) or of a lone symlink
         (a root has no name to be restored under): the tool must report that nothing was
         extracted and must leave the output directory empty *)
      if is_tagv (vnth 0 (vnth 0 obs)) "nofiles" &&
         (length (subtree (v_phys (vnth 1 dst)) (fs_canon after)) =? 1)%nat
      then VT "ok"
      else VL [VT "FAIL"; VT "nameless-root-not-skipped-cleanly"; VT "no-wrap-lone-source"]
    else
      let a := subtree (v_phys src) (fs_canon after) in
      let b := subtree (v_phys dst) (fs_canon after) in
      if fs_eqb a b && negb (match a with [] => true | _ => false end) then VT "ok"
      else VL [VT "FAIL"; VT "extracted-tree-differs-from-source";
               VT (if vN (vnth 2 opts) =? 2 then (if vN (vnth 0 opts) =? 2 then "stdin-pipe-carv2" else "stdin-pipe-carv1")
                   else if vN (vnth 2 opts) =? 1 then "stdin-file" else "file")].

(* ---- kind "createextractlarge" (C18, trees too large to push through the list-based fs model) ----
   input: (utree opts) -- the tree `car create` packs (reference packing), opts = (version no-wrap mode)
   observation: (status rootinfo n<extracted tree = source tree, compared by the harness> n<source untouched>)
   The model predicts what C18_extract_reproduces_any_valid_tree says for a valid tree: success,
   count = uleaves u, the tree reproduced. *)
Definition run_createextractlarge (input : val) : val :=
  let u := v_utree (vnth 0 input) in
  let opts := vnth 1 input in
  let version := vN (vnth 0 opts) in
  let mode := vN (vnth 2 opts) in
  let pathflag := vB (vnth 4 opts) in
  let opens :=
    if mode =? 0 then true
    else stdin_open_ok true (if mode =? 1 then RRegular else RPipe) version in
  let ri := VL [VN 1; VN 1; VN 1; VN 1] in
  (* with --path <name>: the selected entry of the root directory *)
  let sel :=
    match path_segments pathflag with
    | Some [] => Some u
    | Some [m] => match u with UDir es => assoc_u m es | _ => None end
    | _ => None
    end in
  match sel with
  | Some u' =>
    if valid_utree u && is_udir u && is_udir u' && opens
    then VL [xres_v (XOk (uleaves u')); ri; VN 1; VN 1]
    else VL [VT "not-predicted"]
  | None => VL [VT "not-predicted"]
  end.

Definition prop_createextractlarge (input obs : val) : val :=
  let ri := vnth 1 obs in
  if negb ((vN (vnth 0 ri) =? 1) && vbool (vnth 1 ri) && vbool (vnth 2 ri) && vbool (vnth 3 ri))
  then VL [VT "FAIL"; VT "root-is-not-the-single-printed-cid"; VT "create"]
  else if vbool (vnth 2 obs) && vbool (vnth 3 obs) then VT "ok"
  else VL [VT "FAIL"; VT "extracted-tree-differs-from-source"; VT "large-tree"].
