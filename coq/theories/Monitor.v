(* Monitor.v -- generic theory of lock-protected objects (no dependence on go-car).

   A *program* is a set of threads, each running straight-line code over the actions
     Acq m md | Rel m md      lock / unlock mutex m in mode md (MW exclusive, MR shared)
     Rd f | Wr f              read / write the shared field f
     Spawn i | Handoff i      start goroutine body i of the table (Handoff: the new goroutine
                              inherits every lock the creator holds and the creator loses them)
     Blk s                    a potentially blocking operation (channel send/receive, select,
                              call of a user-supplied function) at site s
   under a small-step interleaving semantics with any number of RW mutexes and any number of
   threads (spawns add threads).  The *lock discipline* is the executable check [ok]:
     - every Wr f happens while the thread holds guard(f) exclusively, and f is not exempt;
     - every Rd f happens while the thread holds guard(f) in some mode, unless f is exempt
       (exempt = written only before the object is published; no action may write it);
     - mutexes are acquired in strictly increasing order (no re-entrancy, no order inversion);
     - a thread releases only what it holds, in the mode it holds it, and ends holding nothing;
     - Blk only while holding nothing, except at explicitly listed sites.
   Method bodies come as *paths* (one per acyclic control-flow path): a list of segments, a
   segment being straight-line code or a loop with alternative iteration bodies; a thread's code
   is any *expansion* of a path (each loop unrolled any number of times, any alternative each
   time).  Theorems (proofs/MonitorDRF.v, proofs/MonitorLive.v): discipline => no reachable
   configuration has a data race / section isolation / no stuck configuration.

   This file contains definitions only (the model must extract / compute when a proof breaks). *)
From Coq Require Import List Arith Bool.
From Coq Require Strings.String.
Import ListNotations.
Notation string := String.string.

Inductive mode := MR | MW.
Definition mode_eqb (a b : mode) : bool :=
  match a, b with MR, MR | MW, MW => true | _, _ => false end.

Inductive act :=
| Acq (m : nat) (md : mode)
| Rel (m : nat) (md : mode)
| Rd (f : nat)
| Wr (f : nat)
| Spawn (i : nat)
| Handoff (i : nat)
| Blk (s : nat).

(* locks held by a thread, most recently acquired first *)
Definition held := list (nat * mode).

Fixpoint hget (h : held) (m : nat) : option mode :=
  match h with
  | [] => None
  | (m', md) :: t => if Nat.eqb m' m then Some md else hget t m
  end.
Fixpoint hdel (h : held) (m : nat) : held :=
  match h with
  | [] => []
  | (m', md) :: t => if Nat.eqb m' m then t else (m', md) :: hdel t m
  end.
Definition holdsW (h : held) (m : nat) : bool :=
  match hget h m with Some MW => true | _ => false end.
Definition holdsR (h : held) (m : nat) : bool :=
  match hget h m with Some MR => true | _ => false end.
Definition holdsAny (h : held) (m : nat) : bool :=
  match hget h m with Some _ => true | None => false end.
Definition is_nil {A} (l : list A) : bool := match l with [] => true | _ => false end.
Fixpoint held_eqb (a b : held) : bool :=
  match a, b with
  | [], [] => true
  | (m, md) :: a', (m', md') :: b' => Nat.eqb m m' && mode_eqb md md' && held_eqb a' b'
  | _, _ => false
  end.
(* strictly decreasing mutex numbers (= acquired in increasing order) *)
Fixpoint hsorted (h : held) : bool :=
  match h with
  | [] => true
  | (m, _) :: t => forallb (fun e => Nat.ltb (fst e) m) t && hsorted t
  end.

(* a method body: segments of straight-line code and loops *)
Inductive seg :=
| Straight (l : list act)
| Iter (alts : list (list act)).
Definition path := list seg.

(* the straight-line codes a path stands for *)
Inductive expands : path -> list act -> Prop :=
| ex_nil : expands [] []
| ex_straight l p c : expands p c -> expands (Straight l :: p) (l ++ c)
| ex_exit alts p c : expands p c -> expands (Iter alts :: p) c
| ex_iter alts b p c : In b alts -> expands (Iter alts :: p) c -> expands (Iter alts :: p) (b ++ c).

Section Env.
(* static description of one object *)
Variable guard : nat -> nat.       (* field -> the mutex that protects it *)
Variable exempt : nat -> bool.     (* field is immutable after publication *)
Variable listed : nat -> bool.     (* blocking site reviewed and accepted while holding a lock *)
Variable tbl : list (held * path). (* goroutine bodies with the locks they start with *)

Definition entry (i : nat) : held * path := nth i tbl ([], []).

(* ---- the discipline check ---------------------------------------------------------- *)
Definition step_ok (h : held) (a : act) : option held :=
  match a with
  | Acq m md => if forallb (fun e => Nat.ltb (fst e) m) h then Some ((m, md) :: h) else None
  | Rel m md =>
      match hget h m with
      | Some md' => if mode_eqb md md' then Some (hdel h m) else None
      | None => None
      end
  | Rd f => if exempt f || holdsAny h (guard f) then Some h else None
  | Wr f => if negb (exempt f) && holdsW h (guard f) then Some h else None
  | Spawn i => if is_nil (fst (entry i)) then Some h else None
  | Handoff i => if held_eqb (fst (entry i)) h then Some [] else None
  | Blk s => if is_nil h || listed s then Some h else None
  end.

Fixpoint run (h : held) (c : list act) : option held :=
  match c with
  | [] => Some h
  | a :: k => match step_ok h a with Some h' => run h' k | None => None end
  end.

Definition ok (h : held) (c : list act) : bool :=
  match run h c with Some [] => true | _ => false end.

Definition neutral (h : held) (b : list act) : bool :=
  match run h b with Some h' => held_eqb h' h | None => false end.

Fixpoint run_path (h : held) (p : path) : option held :=
  match p with
  | [] => Some h
  | Straight l :: p' => match run h l with Some h' => run_path h' p' | None => None end
  | Iter alts :: p' => if forallb (neutral h) alts then run_path h p' else None
  end.

Definition ok_path (h : held) (p : path) : bool :=
  match run_path h p with Some [] => true | _ => false end.

Definition tbl_ok : bool :=
  forallb (fun e => hsorted (fst e) && ok_path (fst e) (snd e)) tbl.

(* index of the first action of a straight-line code that breaks the discipline
   (length of the code if only the final "holds nothing" condition fails) *)
Fixpoint first_bad (h : held) (c : list act) (n : nat) : nat :=
  match c with
  | [] => n
  | a :: k => match step_ok h a with Some h' => first_bad h' k (S n) | None => n end
  end.

(* ---- small-step semantics ---------------------------------------------------------- *)
Record thread := { th : held; code : list act }.
Record lockst := { wl : bool; rc : nat }.
Record cfg := { lk : nat -> lockst; ts : list thread }.

Definition upd (l : nat -> lockst) (m : nat) (v : lockst) : nat -> lockst :=
  fun x => if Nat.eqb x m then v else l x.

(* [step c i a c']: thread number i performs action a *)
Inductive step : cfg -> nat -> act -> cfg -> Prop :=
| SAcqW l r h k c m :
    ts c = l ++ {| th := h; code := Acq m MW :: k |} :: r ->
    wl (lk c m) = false -> rc (lk c m) = 0 ->
    step c (length l) (Acq m MW)
         {| lk := upd (lk c) m {| wl := true; rc := 0 |};
            ts := l ++ {| th := (m, MW) :: h; code := k |} :: r |}
| SAcqR l r h k c m :
    ts c = l ++ {| th := h; code := Acq m MR :: k |} :: r ->
    wl (lk c m) = false ->
    step c (length l) (Acq m MR)
         {| lk := upd (lk c) m {| wl := false; rc := S (rc (lk c m)) |};
            ts := l ++ {| th := (m, MR) :: h; code := k |} :: r |}
| SRelW l r h k c m :
    ts c = l ++ {| th := h; code := Rel m MW :: k |} :: r ->
    step c (length l) (Rel m MW)
         {| lk := upd (lk c) m {| wl := false; rc := rc (lk c m) |};
            ts := l ++ {| th := hdel h m; code := k |} :: r |}
| SRelR l r h k c m :
    ts c = l ++ {| th := h; code := Rel m MR :: k |} :: r ->
    step c (length l) (Rel m MR)
         {| lk := upd (lk c) m {| wl := wl (lk c m); rc := pred (rc (lk c m)) |};
            ts := l ++ {| th := hdel h m; code := k |} :: r |}
| SRd l r h k f c :
    ts c = l ++ {| th := h; code := Rd f :: k |} :: r ->
    step c (length l) (Rd f) {| lk := lk c; ts := l ++ {| th := h; code := k |} :: r |}
| SWr l r h k f c :
    ts c = l ++ {| th := h; code := Wr f :: k |} :: r ->
    step c (length l) (Wr f) {| lk := lk c; ts := l ++ {| th := h; code := k |} :: r |}
| SBlk l r h k s c :
    ts c = l ++ {| th := h; code := Blk s :: k |} :: r ->
    step c (length l) (Blk s) {| lk := lk c; ts := l ++ {| th := h; code := k |} :: r |}
| SSpawn l r h k b cd c :
    ts c = l ++ {| th := h; code := Spawn b :: k |} :: r ->
    expands (snd (entry b)) cd ->
    step c (length l) (Spawn b)
         {| lk := lk c;
            ts := l ++ {| th := h; code := k |} :: r ++ [{| th := []; code := cd |}] |}
| SHandoff l r h k b cd c :
    ts c = l ++ {| th := h; code := Handoff b :: k |} :: r ->
    expands (snd (entry b)) cd ->
    step c (length l) (Handoff b)
         {| lk := lk c;
            ts := l ++ {| th := []; code := k |} :: r ++ [{| th := h; code := cd |}] |}.

Inductive steps : cfg -> cfg -> Prop :=
| steps_refl c : steps c c
| steps_trans a b i x c : steps a b -> step b i x c -> steps a c.

Definition init (progs : list (list act)) : cfg :=
  {| lk := fun _ => {| wl := false; rc := 0 |};
     ts := map (fun p => {| th := []; code := p |}) progs |}.

(* ---- executable stepper (for concrete schedules: examples, refutation witnesses) ---------- *)
(* one unrolling of a path: for every loop, the list of alternatives taken, in order *)
Fixpoint expand_with (p : path) (ch : list (list nat)) : list act :=
  match p with
  | [] => []
  | Straight l :: p' => l ++ expand_with p' ch
  | Iter alts :: p' =>
      match ch with
      | [] => expand_with p' []
      | c :: ch' =>
          flat_map (fun i => match nth_error alts i with Some b => b | None => [] end) c
          ++ expand_with p' ch'
      end
  end.

(* thread i performs its next action (ch: the unrolling chosen for a goroutine it starts) *)
Definition fstep (c : cfg) (i : nat) (ch : list (list nat)) : option cfg :=
  match nth_error (ts c) i with
  | None => None
  | Some t =>
      let l := firstn i (ts c) in
      let r := skipn (S i) (ts c) in
      let h := th t in
      match code t with
      | [] => None
      | Acq m MW :: k =>
          if negb (wl (lk c m)) && Nat.eqb (rc (lk c m)) 0
          then Some {| lk := upd (lk c) m {| wl := true; rc := 0 |};
                       ts := l ++ {| th := (m, MW) :: h; code := k |} :: r |}
          else None
      | Acq m MR :: k =>
          if negb (wl (lk c m))
          then Some {| lk := upd (lk c) m {| wl := false; rc := S (rc (lk c m)) |};
                       ts := l ++ {| th := (m, MR) :: h; code := k |} :: r |}
          else None
      | Rel m MW :: k =>
          Some {| lk := upd (lk c) m {| wl := false; rc := rc (lk c m) |};
                  ts := l ++ {| th := hdel h m; code := k |} :: r |}
      | Rel m MR :: k =>
          Some {| lk := upd (lk c) m {| wl := wl (lk c m); rc := pred (rc (lk c m)) |};
                  ts := l ++ {| th := hdel h m; code := k |} :: r |}
      | Rd _ :: k | Wr _ :: k | Blk _ :: k =>
          Some {| lk := lk c; ts := l ++ {| th := h; code := k |} :: r |}
      | Spawn b :: k =>
          Some {| lk := lk c;
                  ts := l ++ {| th := h; code := k |} :: r
                        ++ [{| th := []; code := expand_with (snd (entry b)) ch |}] |}
      | Handoff b :: k =>
          Some {| lk := lk c;
                  ts := l ++ {| th := []; code := k |} :: r
                        ++ [{| th := h; code := expand_with (snd (entry b)) ch |}] |}
      end
  end.

Fixpoint frun (c : cfg) (sched : list (nat * list (list nat))) : option cfg :=
  match sched with
  | [] => Some c
  | (i, ch) :: s => match fstep c i ch with Some c' => frun c' s | None => None end
  end.

Definition head_access (t : thread) : option (nat * bool) :=
  match code t with Rd f :: _ => Some (f, false) | Wr f :: _ => Some (f, true) | _ => None end.
Definition conflict (a b : option (nat * bool)) : bool :=
  match a, b with
  | Some (f, w), Some (g, v) => Nat.eqb f g && (w || v)
  | _, _ => false
  end.
Fixpoint raceb_list (l : list thread) : bool :=
  match l with
  | [] => false
  | t :: r => existsb (fun u => conflict (head_access t) (head_access u)) r || raceb_list r
  end.
Definition raceb (c : cfg) : bool := raceb_list (ts c).

(* ---- what must not happen ---------------------------------------------------------- *)
(* thread t is about to access field f; w: the access is a write *)
Definition accesses (t : thread) (f : nat) (w : bool) : Prop :=
  match code t with
  | Wr g :: _ => g = f
  | Rd g :: _ => g = f /\ w = false
  | _ => False
  end.
(* a data race: two distinct threads are about to access the same field, one of them writing *)
Definition race (c : cfg) : Prop :=
  exists l m r t1 t2 f w,
    ts c = l ++ t1 :: m ++ t2 :: r /\
    ((accesses t1 f true /\ accesses t2 f w) \/ (accesses t1 f w /\ accesses t2 f true)).

(* a run-time lock misuse (Go: "fatal error: sync: unlock of unlocked mutex") *)
Definition bad_unlock (c : cfg) : Prop :=
  exists t m md k, In t (ts c) /\ code t = Rel m md :: k /\ hget (th t) m <> Some md.

Definition finished (c : cfg) : Prop := forall t, In t (ts c) -> code t = [].
End Env.

(* ---- the generated facts: one record per kind of object ------------------------------ *)
Record instance := {
  i_name : string;
  i_mutexes : list string;                   (* mutex m = position; outer locks first *)
  i_fields : list (string * nat * bool);     (* field f = position: name, guard, exempt *)
  i_blk : list (string * bool);              (* blocking site s = position: what, listed *)
  i_tbl : list (string * held * path);       (* goroutine bodies *)
  i_methods : list (string * list path);     (* the operations of the property: acyclic paths *)
  i_panic : list (string * list path);       (* their panic exits taken while a lock is held: what ran
                                                before the panic, then the deferred calls *)
  i_other : list (string * list path)        (* exported methods outside the property *)
}.

Definition i_guard (I : instance) (f : nat) : nat :=
  snd (fst (nth f (i_fields I) (String.EmptyString, 0, false))).
Definition i_exempt (I : instance) (f : nat) : bool :=
  snd (nth f (i_fields I) (String.EmptyString, 0, false)).
Definition i_listed (I : instance) (s : nat) : bool :=
  snd (nth s (i_blk I) (String.EmptyString, false)).
Definition i_table (I : instance) : list (held * path) :=
  map (fun e => (snd (fst e), snd e)) (i_tbl I).

Definition i_ok_path (I : instance) : held -> path -> bool :=
  ok_path (i_guard I) (i_exempt I) (i_listed I) (i_table I).

(* paths that break the discipline, as (method or goroutine name, path number) *)
Fixpoint bad_paths_from (I : instance) (name : string) (n : nat) (ps : list path) : list (string * nat) :=
  match ps with
  | [] => []
  | p :: ps' => (if i_ok_path I [] p then [] else [(name, n)]) ++ bad_paths_from I name (S n) ps'
  end.
Definition bad_methods (I : instance) (ms : list (string * list path)) : list (string * nat) :=
  flat_map (fun e => bad_paths_from I (fst e) 0 (snd e)) ms.
Fixpoint bad_entries_from (I : instance) (n : nat) (es : list (string * held * path)) : list (string * nat) :=
  match es with
  | [] => []
  | e :: es' =>
      (if hsorted (snd (fst e)) && i_ok_path I (snd (fst e)) (snd e) then [] else [(fst (fst e), n)])
      ++ bad_entries_from I (S n) es'
  end.
(* field / site numbers used anywhere must exist in the tables *)
Definition act_in_range (I : instance) (a : act) : bool :=
  match a with
  | Acq m _ | Rel m _ => Nat.ltb m (length (i_mutexes I))
  | Rd f | Wr f => Nat.ltb f (length (i_fields I))
  | Spawn i | Handoff i => Nat.ltb i (length (i_tbl I))
  | Blk s => Nat.ltb s (length (i_blk I))
  end.
Definition seg_in_range (I : instance) (s : seg) : bool :=
  match s with
  | Straight l => forallb (act_in_range I) l
  | Iter alts => forallb (forallb (act_in_range I)) alts
  end.
Definition tables_in_range (I : instance) : bool :=
  forallb (fun e => forallb (seg_in_range I) (snd e)) (i_tbl I)
  && forallb (fun e => forallb (forallb (seg_in_range I)) (snd e)) (i_methods I ++ i_panic I ++ i_other I)
  && forallb (fun e => Nat.ltb (snd (fst e)) (length (i_mutexes I)) || snd e) (i_fields I).

Definition violations (I : instance) : list (string * nat) :=
  (if tables_in_range I then [] else [(i_name I, 0)])
  ++ bad_entries_from I 0 (i_tbl I) ++ bad_methods I (i_methods I).
Definition other_violations (I : instance) : list (string * nat) :=
  bad_methods I (i_other I).
(* panic exits that break the discipline (a lock still held after the deferred calls have run) *)
Definition panic_violations (I : instance) : list (string * nat) :=
  bad_methods I (i_panic I).
(* the same object with the panic exits counted among the ways a call can run *)
Definition with_panics (I : instance) : instance :=
  {| i_name := i_name I; i_mutexes := i_mutexes I; i_fields := i_fields I; i_blk := i_blk I;
     i_tbl := i_tbl I; i_methods := i_methods I ++ i_panic I; i_panic := []; i_other := i_other I |}.

(* ---- one critical section per call ---------------------------------------------------------
   The discipline makes every critical section atomic; a CALL is atomic (one step of the sequential
   specification, as the atomic-section semantics of RunConc.v assumes) only if it consists of at
   most one outermost critical section.  [sections_path]: how many outermost sections a path opens
   (a section opened inside a loop counts twice: it can repeat).  Goroutine bodies must open none:
   what they do under a lock of their own would happen outside the call that started them. *)
Fixpoint sections_code (depth : nat) (c : list act) : nat * nat :=
  match c with
  | [] => (0, depth)
  | Acq _ _ :: k => let '(n, d) := sections_code (S depth) k in ((if Nat.eqb depth 0 then S n else n), d)
  | Rel _ _ :: k => sections_code (pred depth) k
  | Handoff _ :: k => sections_code 0 k
  | _ :: k => sections_code depth k
  end.
Definition has_acq (c : list act) : bool :=
  existsb (fun a => match a with Acq _ _ => true | _ => false end) c.
Fixpoint sections_path (depth : nat) (p : path) : nat :=
  match p with
  | [] => 0
  | Straight l :: p' => let '(n, d) := sections_code depth l in n + sections_path d p'
  | Iter alts :: p' =>
      (if Nat.eqb depth 0 && existsb has_acq alts then 2 else 0) + sections_path depth p'
  end.
Fixpoint multi_from (name : string) (n : nat) (ps : list path) : list (string * nat) :=
  match ps with
  | [] => []
  | p :: ps' => (if Nat.leb (sections_path 0 p) 1 then [] else [(name, n)]) ++ multi_from name (S n) ps'
  end.
Fixpoint multi_entries (n : nat) (es : list (string * held * path)) : list (string * nat) :=
  match es with
  | [] => []
  | e :: es' =>
      (if Nat.eqb (sections_path (List.length (snd (fst e))) (snd e)) 0 then [] else [(fst (fst e), n)])
      ++ multi_entries (S n) es'
  end.
Definition atomicity_violations (I : instance) : list (string * nat) :=
  multi_entries 0 (i_tbl I) ++ flat_map (fun e => multi_from (fst e) 0 (snd e)) (i_methods I).

(* ---- the shape the reduction theorem needs ----------------------------------------------------
   Beyond [ok], the reduction from micro-steps to atomic sections (section Data below, [pok]) needs:
   mutex 0 is the outer lock -- any other mutex is taken only while mutex 0 is held exclusively, and
   mutex 0 is released last; a hand-off happens holding exactly mutex 0 shared, and the goroutine that
   receives the section neither starts goroutines nor hands off again; a goroutine started inside a
   section is started under the exclusive outer lock and touches nothing (only blocking sites); a
   goroutine started outside any section is inert, or only starts inert ones (escaping closures). *)
Definition inert_code (c : list act) : bool :=
  forallb (fun a => match a with Blk _ => true | _ => false end) c.
Definition seg_all (f : list act -> bool) (s : seg) : bool :=
  match s with Straight l => f l | Iter alts => forallb f alts end.
Definition inert_path (p : path) : bool := forallb (seg_all inert_code) p.
Definition nospawn_code (c : list act) : bool :=
  forallb (fun a => match a with Spawn _ | Handoff _ => false | _ => true end) c.
Definition nospawn_path (p : path) : bool := forallb (seg_all nospawn_code) p.
Definition tpath (tbl : list (held * path)) (i : nat) : path := snd (nth i tbl ([], [])).
Definition spawn_inert_code (tbl : list (held * path)) (c : list act) : bool :=
  forallb (fun a => match a with Blk _ => true | Spawn j => inert_path (tpath tbl j) | _ => false end) c.
Definition hnext (h : held) (a : act) : held :=
  match a with
  | Acq m md => (m, md) :: h
  | Rel m _ => hdel h m
  | Handoff _ => []
  | _ => h
  end.
Definition shape_act (tbl : list (held * path)) (h : held) (a : act) : bool :=
  match a with
  | Acq m _ => Nat.eqb m 0 || holdsW h 0
  | Rel m _ => negb (Nat.eqb m 0) || Nat.eqb (List.length h) 1
  | Handoff i => held_eqb h [(0, MR)] && nospawn_path (tpath tbl i)
  | Spawn i => if is_nil h then forallb (seg_all (spawn_inert_code tbl)) (tpath tbl i)
               else holdsW h 0 && inert_path (tpath tbl i)
  | _ => true
  end.
Fixpoint shape_code (tbl : list (held * path)) (h : held) (c : list act) : bool :=
  match c with
  | [] => true
  | a :: k => shape_act tbl h a && shape_code tbl (hnext h a) k
  end.
Definition hafter (h : held) (c : list act) : held := fold_left hnext c h.
Fixpoint shape_path (tbl : list (held * path)) (h : held) (p : path) : bool :=
  match p with
  | [] => true
  | Straight l :: p' => shape_code tbl h l && shape_path tbl (hafter h l) p'
  | Iter alts :: p' => forallb (shape_code tbl h) alts && shape_path tbl h p'
  end.
Fixpoint shape_from (tbl : list (held * path)) (name : string) (n : nat) (ps : list path) : list (string * nat) :=
  match ps with
  | [] => []
  | p :: ps' => (if shape_path tbl [] p then [] else [(name, n)]) ++ shape_from tbl name (S n) ps'
  end.
Fixpoint shape_entries (tbl : list (held * path)) (n : nat) (es : list (string * held * path)) : list (string * nat) :=
  match es with
  | [] => []
  | e :: es' => (if shape_path tbl (snd (fst e)) (snd e) then [] else [(fst (fst e), n)]) ++ shape_entries tbl (S n) es'
  end.
Definition reduction_shape_violations (I : instance) : list (string * nat) :=
  shape_entries (i_table I) 0 (i_tbl I) ++ flat_map (fun e => shape_from (i_table I) (fst e) 0 (snd e)) (i_methods I).

(* the codes one call of a method of the property can run *)
Definition call_code (I : instance) (cd : list act) : Prop :=
  exists name ps p, In (name, ps) (i_methods I) /\ In p ps /\ expands p cd.
(* a client thread: any finite sequence of calls *)
Definition client_code (I : instance) (cd : list act) : Prop :=
  exists cds, Forall (call_code I) cds /\ cd = concat cds.

(* ---- programs with data: the reduction from micro-steps to atomic sections ------------------
   Mutex 0 is the object's (outer) lock; any other mutex may only be taken while mutex 0 is held
   exclusively and is released before it (the nested pair DeferredCarWriter.lk -> StorageCar.mu);
   a critical section = from the acquisition of mutex 0 to its release.  A shared section may be
   handed off to a new goroutine, which finishes it (ReadOnly.AllKeysChan); an exclusive section
   may start goroutines that do nothing before they take the lock themselves
   (ReadWrite.AllKeysChan after the repair).
   A call is a resumption: what it does next may depend on every value it has read. *)
Section Data.
Variables V R : Type.
Variable exempt : nat -> bool.
Variable guard : nat -> nat.

Inductive prog :=
| PRet (r : R)
| PAcq (m : nat) (md : mode) (k : prog)
| PRel (m : nat) (md : mode) (k : prog)
| PRd (f : nat) (k : V -> prog)
| PWr (f : nat) (v : V) (k : prog)
| PSpawn (c : prog) (k : prog)       (* go func() { c }(); k *)
| PHandoff (c : prog) (k : prog).    (* go func() { c }() where c inherits the caller's locks; k *)

Definition store := nat -> V.
Definition supd (s : store) (f : nat) (v : V) : store := fun x => if Nat.eqb x f then v else s x.

(* a goroutine started inside an exclusive section does nothing before it returns or locks *)
Definition quiet (c : prog) : Prop :=
  match c with PRet _ | PAcq _ _ _ => True | _ => False end.

(* the lock discipline on resumptions, along every branch.  [ho]: a hand-off is allowed (not inside
   a section that was itself handed off). *)
Fixpoint pok (ho : bool) (h : held) (p : prog) : Prop :=
  match p with
  | PRet _ => h = []
  | PAcq m md k =>
      (if Nat.eqb m 0 then h = [] else holdsW h 0 = true /\ hget h m = None) /\
      pok ho ((m, md) :: h) k
  | PRel m md k =>
      hget h m = Some md /\ (m = 0 -> h = [(0, md)]) /\
      pok (if Nat.eqb m 0 then true else ho) (hdel h m) k
  | PRd f k => (exempt f = true \/ holdsAny h (guard f) = true) /\ forall v, pok ho h (k v)
  | PWr f v k => exempt f = false /\ holdsW h (guard f) = true /\ pok ho h k
  | PSpawn c k => holdsW h 0 = true /\ quiet c /\ pok true [] c /\ pok ho h k
  | PHandoff c k => ho = true /\ h = [(0, MR)] /\ pok false [(0, MR)] c /\ pok true [] k
  end.

(* micro-step machine: actions of different threads interleave *)
Record dthread := { dh : held; dp : prog }.
Record dcfg := { dlk : nat -> lockst; dst : store; dts : list dthread }.

Inductive dstep : dcfg -> dcfg -> Prop :=
| DAcqW l r h k c m :
    dts c = l ++ {| dh := h; dp := PAcq m MW k |} :: r ->
    wl (dlk c m) = false -> rc (dlk c m) = 0 ->
    dstep c {| dlk := upd (dlk c) m {| wl := true; rc := 0 |}; dst := dst c;
               dts := l ++ {| dh := (m, MW) :: h; dp := k |} :: r |}
| DAcqR l r h k c m :
    dts c = l ++ {| dh := h; dp := PAcq m MR k |} :: r ->
    wl (dlk c m) = false ->
    dstep c {| dlk := upd (dlk c) m {| wl := false; rc := S (rc (dlk c m)) |}; dst := dst c;
               dts := l ++ {| dh := (m, MR) :: h; dp := k |} :: r |}
| DRelW l r h k c m :
    dts c = l ++ {| dh := h; dp := PRel m MW k |} :: r ->
    dstep c {| dlk := upd (dlk c) m {| wl := false; rc := rc (dlk c m) |}; dst := dst c;
               dts := l ++ {| dh := hdel h m; dp := k |} :: r |}
| DRelR l r h k c m :
    dts c = l ++ {| dh := h; dp := PRel m MR k |} :: r ->
    dstep c {| dlk := upd (dlk c) m {| wl := wl (dlk c m); rc := pred (rc (dlk c m)) |}; dst := dst c;
               dts := l ++ {| dh := hdel h m; dp := k |} :: r |}
| DRd l r h f k c :
    dts c = l ++ {| dh := h; dp := PRd f k |} :: r ->
    dstep c {| dlk := dlk c; dst := dst c; dts := l ++ {| dh := h; dp := k (dst c f) |} :: r |}
| DWr l r h f v k c :
    dts c = l ++ {| dh := h; dp := PWr f v k |} :: r ->
    dstep c {| dlk := dlk c; dst := supd (dst c) f v; dts := l ++ {| dh := h; dp := k |} :: r |}
| DSpawn l r h ch k c :
    dts c = l ++ {| dh := h; dp := PSpawn ch k |} :: r ->
    dstep c {| dlk := dlk c; dst := dst c;
               dts := l ++ {| dh := h; dp := k |} :: r ++ [{| dh := []; dp := ch |}] |}
| DHandoff l r h ch k c :
    dts c = l ++ {| dh := h; dp := PHandoff ch k |} :: r ->
    dstep c {| dlk := dlk c; dst := dst c;
               dts := l ++ {| dh := []; dp := k |} :: r ++ [{| dh := h; dp := ch |}] |}.

Inductive dsteps : dcfg -> dcfg -> Prop :=
| dsteps_refl c : dsteps c c
| dsteps_trans a b c : dsteps a b -> dstep b c -> dsteps a c.

Definition dinit (s : store) (ps : list prog) : dcfg :=
  {| dlk := fun _ => {| wl := false; rc := 0 |}; dst := s;
     dts := map (fun p => {| dh := []; dp := p |}) ps |}.

(* atomic-section machine: no lock state; a critical section (everything up to the release of mutex
   0, inner locks included, the part run by a goroutine it is handed to included) runs in ONE step.
   Result: the store, what the thread does afterwards, the goroutines it started. *)
Fixpoint sec_run (s : store) (p : prog) : store * prog * list prog :=
  match p with
  | PRel m _ k => if Nat.eqb m 0 then (s, k, []) else sec_run s k
  | PAcq m _ k => if Nat.eqb m 0 then (s, p, []) else sec_run s k
  | PRd f k => sec_run s (k (s f))
  | PWr f v k => sec_run (supd s f v) k
  | PSpawn c k => let '(s', p', sp) := sec_run s k in (s', p', c :: sp)
  | PHandoff c k => let '(s', pc, sp) := sec_run s c in (s', k, sp ++ [pc])
  | PRet _ => (s, p, [])
  end.

Record acfg := { ast : store; ats : list prog }.

Inductive astep : acfg -> acfg -> Prop :=
| ASec l r md k c :
    ats c = l ++ PAcq 0 md k :: r ->
    astep c {| ast := fst (fst (sec_run (ast c) k));
               ats := l ++ snd (fst (sec_run (ast c) k)) :: r ++ snd (sec_run (ast c) k) |}
| ARd l r f k c :
    ats c = l ++ PRd f k :: r -> exempt f = true ->
    astep c {| ast := ast c; ats := l ++ k (ast c f) :: r |}.

Inductive asteps : acfg -> acfg -> Prop :=
| asteps_refl c : asteps c c
| asteps_trans a b c : asteps a b -> astep b c -> asteps a c.

Definition ainit (s : store) (ps : list prog) : acfg := {| ast := s; ats := ps |}.

(* the act traces of a resumption that starts no goroutine (what the translator extracts) *)
Inductive ptrace : prog -> list act -> Prop :=
| pt_ret r : ptrace (PRet r) []
| pt_acq m md k t : ptrace k t -> ptrace (PAcq m md k) (Acq m md :: t)
| pt_rel m md k t : ptrace k t -> ptrace (PRel m md k) (Rel m md :: t)
| pt_rd f k v t : ptrace (k v) t -> ptrace (PRd f k) (Rd f :: t)
| pt_wr f v k t : ptrace k t -> ptrace (PWr f v k) (Wr f :: t).
Fixpoint nospawn (p : prog) : Prop :=
  match p with
  | PRet _ => True
  | PAcq _ _ k | PRel _ _ k | PWr _ _ k => nospawn k
  | PRd _ k => forall v, nospawn (k v)
  | PSpawn _ _ | PHandoff _ _ => False
  end.
End Data.
