(* C04, layer B: the reference append-only content-addressed map the writable stores are compared
   with, the operation alphabet of the two front-ends (blockstore.ReadWrite, storage.StorageCar),
   the implementation step [impl_step] (a dispatcher onto the functions of Store.v -- nothing is
   re-modelled here) and the abstraction function from a store state to the map.
   Executable; proofs are in proofs/StoreSpec*.v. *)
From GoCar Require Import Bytes Varint Cid Header Frame V2Header Index Store.

(* ---- front-ends and operations ------------------------------------------------------------------ *)
(* FBs: blockstore.OpenReadWrite(path) -- the blockstore owns the file, Close/Discard close it;
   FSt readable: storage.NewReadableWritable (true) / storage.NewWritable (false: no Get);
   FBf: blockstore.OpenReadWriteFile(f) -- the CALLER owns the *os.File, which stays open across
        Close/Discard (ReadOnly.carv2Closer is nil).  Same state machine as FBs; the one observable
        difference is Roots(), which re-reads the header from the file and does not test the closed
        flag: it keeps answering after Close/Discard.  (And a stray write after Discard would land in
        the file instead of failing -- which is why the frozen-file clause is checked on this variant.) *)
Inductive front := FBs | FSt (readable : bool) | FBf.
Definition is_bs (f : front) : bool := match f with FSt _ => false | _ => true end.

Inductive sop :=
| OpPut (c d : bytes)
| OpPutMany (blks : list (bytes * bytes))
| OpHas (c : bytes)
| OpGet (c : bytes)
| OpGetSize (c : bytes)
| OpKeys
| OpRoots
| OpFinalize
| OpFinalizeRO
| OpClose
| OpDiscard.

(* StorageCar has no PutMany/GetSize/AllKeysChan/FinalizeReadOnly/Close/Discard: those ops are
   "not offered" on that front-end (both sides answer ENotOffered = EOracleMiss, state unchanged;
   the harness never issues them) *)
Definition not_offered : out := OErr EOracleMiss.

Section Impl.
  Variable hdrdec : bytes -> option (list bytes * N).

  Definition impl_step (f : front) (s : wstate) (op : sop) : wstate * out :=
    match f with
    | FBs =>
      match op with
      | OpPut c d => bs_put_many s [(c, d)]
      | OpPutMany l => bs_put_many s l
      | OpHas c => (s, bs_has s c)
      | OpGet c => (s, bs_get s c)
      | OpGetSize c => (s, bs_getsize s c)
      | OpKeys => (s, bs_allkeys s)
      | OpRoots => (s, bs_roots hdrdec s)
      | OpFinalize => bs_finalize s
      | OpFinalizeRO => bs_finalize_ro s
      | OpClose => bs_close s
      | OpDiscard => bs_discard s
      end
    | FSt readable =>
      match op with
      | OpPut c d => st_put s c d
      | OpHas c => (s, st_has s c)
      | OpGet c => (s, st_get s readable c)
      | OpRoots => (s, OKeys (ws_roots s))
      | OpFinalize => st_finalize s
      | _ => (s, not_offered)
      end
    | FBf =>
      match op with
      | OpPut c d => bs_put_many s [(c, d)]
      | OpPutMany l => bs_put_many s l
      | OpHas c => (s, bs_has s c)
      | OpGet c => (s, bs_get s c)
      | OpGetSize c => (s, bs_getsize s c)
      | OpKeys => (s, bs_allkeys s)
      | OpRoots => (s, bs_roots hdrdec (set_flags s false (ws_finalized s)))  (* the file is still open *)
      | OpFinalize => bs_finalize s
      | OpFinalizeRO => bs_finalize_ro s
      | OpClose => bs_close s
      | OpDiscard => bs_discard s
      end
    end.
End Impl.

(* a history: the states reached and the results returned, in order *)
Fixpoint trace {S : Type} (step : S -> sop -> S * out) (s : S) (ops : list sop) : list (S * out) :=
  match ops with
  | [] => []
  | op :: t => let '(s', o) := step s op in (s', o) :: trace step s' t
  end.
Definition outs {S : Type} (tr : list (S * out)) : list out := map snd tr.
(* the same thing as a fold over the history: final state and all results *)
Definition run_ops {S : Type} (step : S -> sop -> S * out) (s : S) (ops : list sop) : S * list out :=
  fold_left (fun acc op => let '(s', o) := step (fst acc) op in (s', snd acc ++ [o])) ops (s, []).

(* ---- the reference map ----------------------------------------------------------------------------- *)
Record mstate := mkm { m_blocks : stored_blocks; m_closed : bool; m_finalized : bool }.

(* the key a block is stored under: its multihash (hash code + digest), or the whole CID when
   UseWholeCIDs is on.  [c] is a stored CID, [k] the CID asked about. *)
Definition same_key (whole : bool) (c k : bytes) : bool :=
  if whole then bytes_eqb c k
  else match cid_parse c, cid_parse k with
       | Some p, Some q => (c_mhcode p =? c_mhcode q) && bytes_eqb (c_digest p) (c_digest q)
       | _, _ => false
       end.
Definition m_present (o : wopts) (bs : stored_blocks) (k : bytes) : bool :=
  existsb (fun b => same_key (w_whole o) (fst b) k) bs.
(* the block a lookup returns: the first one stored under that key *)
Definition m_lookup (o : wopts) (bs : stored_blocks) (k : bytes) : option (bytes * bytes) :=
  find (fun b => same_key (w_whole o) (fst b) k) bs.

Definition m_set_blocks (m : mstate) (bs : stored_blocks) : mstate := mkm bs (m_closed m) (m_finalized m).
Definition m_set_flags (m : mstate) (closed finalized : bool) : mstate := mkm (m_blocks m) closed finalized.

(* one block: identity CIDs are not stored unless StoreIdentityCIDs (IdStore rule); an over-long
   CID is rejected and nothing changes; a block is skipped only when its key is already present
   (unless AllowDuplicatePuts); otherwise it is appended *)
Definition m_put_one (o : wopts) (m : mstate) (c d : bytes) (p : cidp) : mstate * out :=
  if negb (w_storeid o) && is_identity p then (m, ONil)
  else if w_maxcid o <? blen c then (m, OErr ECidTooLarge)
  else if negb (w_dups o) && m_present o (m_blocks m) c then (m, ONil)
  else (m_set_blocks m (m_blocks m ++ [(c, d)]), ONil).

(* a batch stops at the first rejected block; the blocks before it stay stored *)
Fixpoint m_put_loop (o : wopts) (m : mstate) (blks : list (bytes * bytes)) : mstate * out :=
  match blks with
  | [] => (m, ONil)
  | (c, d) :: t =>
    match cid_parse c with
    | None => (m, OErr EOther)
    | Some p =>
      match m_put_one o m c d p with
      | (m', ONil) => m_put_loop o m' t
      | r => r
      end
    end
  end.

Definition m_put_many (o : wopts) (m : mstate) (blks : list (bytes * bytes)) : mstate * out :=
  if m_closed m then (m, OErr EClosed)
  else if m_finalized m then (m, OErr EFinalized)
  else m_put_loop o m blks.

Definition m_st_put (o : wopts) (m : mstate) (c d : bytes) : mstate * out :=
  match cid_parse c with
  | None => (m, OErr EOther)
  | Some p => if m_closed m then (m, OErr EClosed)
              else if m_finalized m then (m, OErr EOther)  (* StorageCar.writeErr (C16): never set without write faults *)
              else m_put_one o m c d p
  end.

Definition m_has (o : wopts) (m : mstate) (c : bytes) : out :=
  match cid_parse c with
  | None => OErr EOther
  | Some p =>
    if m_closed m then OErr EClosed
    else if negb (w_storeid o) && is_identity p then OBool true
    else OBool (m_present o (m_blocks m) c)
  end.

(* identity CIDs answer from the CID itself, even on a closed store *)
Definition m_get (o : wopts) (m : mstate) (c : bytes) : out :=
  match cid_parse c with
  | None => OErr EOther
  | Some p =>
    if negb (w_storeid o) && is_identity p then OBytes (c_digest p)
    else if m_closed m then OErr EClosed
    else match m_lookup o (m_blocks m) c with
         | Some b => OBytes (snd b)
         | None => OErr ENotFound
         end
  end.

Definition m_getsize (o : wopts) (m : mstate) (c : bytes) : out :=
  match cid_parse c with
  | None => OErr EOther
  | Some p =>
    if is_identity p then OSize (Z.of_N (blen (c_digest p)))
    else if m_closed m then OErr EClosed
    else match m_lookup o (m_blocks m) c with
         | Some b => OSize (Z.of_N (blen (snd b)))
         | None => OErr ENotFound
         end
  end.

(* the key AllKeysChan reports for a stored CID: the CID itself, or CIDv1/raw over its multihash *)
Definition listed_key (whole : bool) (r : irec) : bytes :=
  if whole then r_cid r else raw_cid (mkcid 1 85 (r_code r) (r_digest r)).
(* listing: one key per stored block (identity included when stored, duplicates repeated), in
   ascending digest order, insertion order among equal digests *)
Definition m_keys (o : wopts) (m : mstate) : out :=
  if m_closed m then OErr EClosed
  else OKeys (map (listed_key (w_whole o)) (sort_by_digest (records_from 0 (m_blocks m)))).

Definition codec_ok (o : wopts) : bool :=
  match idx_new (w_codec o) with Some _ => true | None => false end.

(* typestate of the blockstore: FinalizeReadOnly / Close / Finalize / Discard *)
Definition m_bs_finalize_ro (o : wopts) (m : mstate) : mstate * out :=
  if w_v1 o then (m_set_flags m (m_closed m) true, ONil)
  else if m_closed m then (m, OErr EOther)
  else if m_finalized m then (m, OErr EOther)
  else (m_set_flags m (m_closed m) true, if codec_ok o then ONil else OErr EOther).
Definition m_bs_close (o : wopts) (m : mstate) : mstate * out :=
  if negb (w_v1 o) && negb (m_finalized m) then (m, OErr EOther)
  else if m_closed m then (m, OErr EOther)
  else (m_set_flags m true (m_finalized m), ONil).
Definition m_bs_finalize (o : wopts) (m : mstate) : mstate * out :=
  let '(m1, r1) := m_bs_finalize_ro o m in
  let '(m2, r2) := m_bs_close o m1 in
  (m2, match r1 with ONil => r2 | e => e end).
Definition m_bs_discard (m : mstate) : mstate * out := (m_set_flags m true (m_finalized m), ONil).

(* StorageCar.Finalize: closes the store in both formats; a second call is an error *)
Definition m_st_finalize (o : wopts) (m : mstate) : mstate * out :=
  if m_finalized m then (m_set_flags m true true, OErr EOther)   (* StorageCar.writeErr (C16) *)
  else if m_closed m then (m, OErr EOther)
  else (m_set_flags m true (m_finalized m),
        if w_v1 o then ONil else if codec_ok o then ONil else OErr EOther).

Definition spec_step (f : front) (o : wopts) (roots : list bytes) (m : mstate) (op : sop) : mstate * out :=
  match f with
  | FBs =>
    match op with
    | OpPut c d => m_put_many o m [(c, d)]
    | OpPutMany l => m_put_many o m l
    | OpHas c => (m, m_has o m c)
    | OpGet c => (m, m_get o m c)
    | OpGetSize c => (m, m_getsize o m c)
    | OpKeys => (m, m_keys o m)
    | OpRoots => (m, if m_closed m then OErr EOther else OKeys roots)
    | OpFinalize => m_bs_finalize o m
    | OpFinalizeRO => m_bs_finalize_ro o m
    | OpClose => m_bs_close o m
    | OpDiscard => m_bs_discard m
    end
  | FSt readable =>
    match op with
    | OpPut c d => m_st_put o m c d
    | OpHas c => (m, m_has o m c)
    | OpGet c => (m, if readable then m_get o m c else OErr EOther)
    | OpRoots => (m, OKeys roots)
    | OpFinalize => m_st_finalize o m
    | _ => (m, not_offered)
    end
  | FBf =>
    match op with
    | OpPut c d => m_put_many o m [(c, d)]
    | OpPutMany l => m_put_many o m l
    | OpHas c => (m, m_has o m c)
    | OpGet c => (m, m_get o m c)
    | OpGetSize c => (m, m_getsize o m c)
    | OpKeys => (m, m_keys o m)
    | OpRoots => (m, OKeys roots)
    | OpFinalize => m_bs_finalize o m
    | OpFinalizeRO => m_bs_finalize_ro o m
    | OpClose => m_bs_close o m
    | OpDiscard => m_bs_discard m
    end
  end.

(* ---- the reference map with the readers' size limits --------------------------------------------------
   MaxAllowedSectionSize / MaxAllowedHeaderSize bound what the READ paths accept (the writers do not look at
   them): a stored block whose section (CID + data) is longer than the limit cannot be read back, and --
   because a lookup walks the stored blocks that carry the key's DIGEST in order -- it also aborts the
   lookup of any later block with the same digest.  A length EQUAL to the limit is fine. *)
Definition sec_len (b : bytes * bytes) : N := blen (fst b) + blen (snd b).
Fixpoint m_find (o : wopts) (bs : stored_blocks) (k : bytes) (kp : cidp) : res (bytes * bytes) :=
  match bs with
  | [] => Err ENotFound
  | b :: t =>
    match cid_parse (fst b) with
    | Some p =>
        if bytes_eqb (c_digest p) (c_digest kp) then
          if w_maxs o <? sec_len b then Err ESectionTooLarge
          else if same_key (w_whole o) (fst b) k then Ok b
          else m_find o t k kp
        else m_find o t k kp
    | None => m_find o t k kp
    end
  end.
Definition m_get_lim (o : wopts) (m : mstate) (c : bytes) : out :=
  match cid_parse c with
  | None => OErr EOther
  | Some p =>
    if negb (w_storeid o) && is_identity p then OBytes (c_digest p)
    else if m_closed m then OErr EClosed
    else match m_find o (m_blocks m) c p with
         | Ok b => OBytes (snd b)
         | Err e => OErr e
         end
  end.
Definition m_getsize_lim (o : wopts) (m : mstate) (c : bytes) : out :=
  match cid_parse c with
  | None => OErr EOther
  | Some p =>
    if is_identity p then OSize (Z.of_N (blen (c_digest p)))
    else if m_closed m then OErr EClosed
    else match m_find o (m_blocks m) c p with
         | Ok b => OSize (Z.of_N (blen (snd b)))
         | Err e => OErr e
         end
  end.
(* hlen = length of the CARv1 header the store was opened with *)
Definition m_roots_lim (o : wopts) (roots : list bytes) (hlen : N) : out :=
  if w_maxh o <? hlen then OErr EHeaderTooLarge else OKeys roots.
Definition spec_step_lim (f : front) (o : wopts) (roots : list bytes) (hlen : N) (m : mstate) (op : sop)
  : mstate * out :=
  match op with
  | OpGet c =>
      (m, match f with FSt readable => if readable then m_get_lim o m c else OErr EOther | _ => m_get_lim o m c end)
  | OpGetSize c => (m, match f with FSt _ => not_offered | _ => m_getsize_lim o m c end)
  | OpRoots =>
      (m, match f with
          | FBs => if m_closed m then OErr EOther else m_roots_lim o roots hlen
          | FBf => m_roots_lim o roots hlen
          | FSt _ => OKeys roots
          end)
  | _ => spec_step f o roots m op
  end.

Definition m_empty : mstate := mkm [] false false.
(* "the file must not change any more" *)
Definition m_frozen (m : mstate) : bool := m_closed m || m_finalized m.
Definition ws_frozen (s : wstate) : bool := ws_closed s || ws_finalized s.

(* ---- abstraction function --------------------------------------------------------------------------- *)
(* The stored blocks of a store state are what a plain sequential decoder finds in the payload
   window [0, writer position) of the file: header frame, then sections.  No size limit, no
   options: this is the reference decoder, not one of the library's walkers. *)
Fixpoint scan_sections (fuel : nat) (s : bytes) : stored_blocks :=
  match fuel with
  | O => []
  | S f =>
    match read_node false two63 s with
    | Ok (c, _, d, rest) => (c, d) :: scan_sections f rest
    | Err _ => []
    end
  end.
Definition stored_of (s : wstate) : stored_blocks :=
  let payload := take (ws_pos s) (ws_view s) in
  match ld_read false two63 payload with
  | Ok (_, rest) => scan_sections (S (length rest)) rest
  | Err _ => []
  end.
Definition abs (s : wstate) : mstate := mkm (stored_of s) (ws_closed s) (ws_finalized s).

(* ---- sizes: what a history appends at most (for the no-wrap-around side condition) ---------------- *)
Definition blks_size (l : list (bytes * bytes)) : N :=
  fold_right (fun b a => section_size (fst b) (snd b) + a) 0 l.
Definition op_size (op : sop) : N :=
  match op with
  | OpPut c d => section_size c d
  | OpPutMany l => blks_size l
  | _ => 0
  end.
Definition ops_size (ops : list sop) : N := fold_right (fun op a => op_size op + a) 0 ops.
