(* root module car.go LoadCar: NewCarReader, then every block into the store -- one Put per block
   (loadCarSlow) or PutMany batches flushed when more than 1000 blocks are buffered and at io.EOF
   (loadCarFast; blocks buffered when a read error arrives are never stored).  The store is the
   caller's: what is modelled is the sequence of store calls and the returned header / error. *)
From GoCar Require Import Bytes Varint Cid Header Frame V2Header Scan.

(* loadCarFast's flush points: a batch is handed over as soon as it holds 1001 blocks *)
Fixpoint fast_batches (buf : list block) (n : nat) (bs : list block) : list (list block) * list block :=
  match bs with
  | [] => ([], rev buf)
  | b :: t =>
      if Nat.leb 1000 n   (* len(buf) after the append = n + 1 > 1000 *)
      then let '(l, rest) := fast_batches [] 0 t in (rev (b :: buf) :: l, rest)
      else fast_batches (b :: buf) (S n) t
  end.

Section Oracles.
  Variable hok : bytes -> bytes -> option bool.
  Variable hdrdec : bytes -> option (list bytes * N).

  (* (result: header roots or the error, store calls in order) *)
  Definition load_car (fast : bool) (file : bytes) : res (list bytes) * list (list block) :=
    match root_read_all hok hdrdec file with
    | Err e => (Err e, [])
    | Ok (roots, sc) =>
      let clean := err_eqb (s_end sc) EEof in
      let puts :=
        if fast then
          let '(full, rest) := fast_batches [] 0 (s_blocks sc) in
          full ++ (if clean then match rest with [] => [] | _ => [rest] end else [])
        else map (fun b => [b]) (s_blocks sc) in
      (if clean then Ok roots else Err (s_end sc), puts)
    end.
End Oracles.
