(* The loaders: root-module car.LoadCar (car.go: NewCarReader, then loadCarFast / loadCarSlow) and
   internal carv1.LoadCar (v2/internal/carv1/car.go, same code over the internal reader with the
   default limits).  A loader is the reader's Next loop feeding a block store:

     loadCarSlow : Put(blk) after every Next; a store error is returned at once; Next's io.EOF ends
                   the load with (header, nil); any other error of Next is returned.
     loadCarFast : (store has PutMany) blocks are appended to a buffer; when the buffer holds more
                   than [batch_limit] blocks it is handed to PutMany and emptied; on io.EOF the
                   remainder (if any) is handed to PutMany and the load ends with (header, nil); on
                   any other error of Next the load returns it WITHOUT flushing the buffer.

   Observable: the sequence of store calls that were made (each with the blocks it carried, the
   failing call included) and the result (roots | error).  The store is a script: [fail = Some k]
   makes call number k (0-based, Put or PutMany) fail; [None] never fails. *)
From GoCar Require Import Bytes Varint Cid Header Frame V2Header Scan.

Definition batch_limit : N := 1000.       (* `if len(buf) > 1000` *)

Record load_out := mkload { l_calls : list (list block); l_res : res (list bytes) }.

Section Loop.
  Variable next : bytes -> res (block * bytes).   (* one CarReader.Next on the remaining stream *)
  Variable fail : option N.
  Variable bmax : N.

  (* does the store call made after [calls] earlier ones fail? *)
  Definition store_fails (calls : list (list block)) : bool :=
    match fail with
    | Some k => k =? N.of_nat (length calls)
    | None => false
    end.

  (* [calls]: store calls so far, most recent first *)
  Fixpoint load_slow (fuel : nat) (s : bytes) (calls : list (list block))
    : list (list block) * res unit :=
    match fuel with
    | O => (rev calls, Err EFuel)
    | S f =>
      match next s with
      | Err EEof => (rev calls, Ok tt)
      | Err e => (rev calls, Err e)
      | Ok (b, rest) =>
          if store_fails calls then (rev ([b] :: calls), Err EOther)
          else load_slow f rest ([b] :: calls)
      end
    end.

  (* [buf]: buffered blocks, most recent first; [nbuf] = its length *)
  Fixpoint load_fast (fuel : nat) (s : bytes) (buf : list block) (nbuf : N)
           (calls : list (list block)) : list (list block) * res unit :=
    match fuel with
    | O => (rev calls, Err EFuel)
    | S f =>
      match next s with
      | Err EEof =>
          match buf with
          | [] => (rev calls, Ok tt)
          | _ :: _ =>
              if store_fails calls then (rev (rev buf :: calls), Err EOther)
              else (rev (rev buf :: calls), Ok tt)
          end
      | Err e => (rev calls, Err e)               (* the buffered blocks are dropped *)
      | Ok (b, rest) =>
          if bmax <? nbuf + 1 then
            if store_fails calls then (rev (rev (b :: buf) :: calls), Err EOther)
            else load_fast f rest [] 0 (rev (b :: buf) :: calls)
          else load_fast f rest (b :: buf) (nbuf + 1) calls
      end
    end.

  Definition load_loop (fast : bool) (s : bytes) : list (list block) * res unit :=
    if fast then load_fast (S (length s)) s [] 0 []
    else load_slow (S (length s)) s [].
End Loop.

Definition load_finish (roots : list bytes) (r : list (list block) * res unit) : load_out :=
  mkload (fst r) (match snd r with Ok _ => Ok roots | Err e => Err e end).

Section Oracles.
  Variable hok : bytes -> bytes -> option bool.
  Variable hdrdec : bytes -> option (list bytes * N).

  (* internal carv1.LoadCar(store, r): NewCarReader(r) = default limits, no ZeroLengthSectionAsEOF *)
  Definition carv1_load (fast : bool) (fail : option N) (file : bytes) : load_out :=
    match read_header hdrdec (o_maxh default_ropts) file with
    | Err e => mkload [] (Err e)
    | Ok (roots, v, rest, _) =>
      if negb (v =? 1) then mkload [] (Err EOther)
      else match roots with
           | [] => mkload [] (Err EOther)
           | _ => load_finish roots
                    (load_loop (next_block hok default_ropts) fail batch_limit fast rest)
           end
    end.

  (* root module car.LoadCar(ctx, store, r) *)
  Definition root_load (fast : bool) (fail : option N) (file : bytes) : load_out :=
    match read_header_root hdrdec file with
    | Err e => mkload [] (Err e)
    | Ok (roots, v, rest) =>
      if negb (v =? 1) then mkload [] (Err EOther)
      else match roots with
           | [] => mkload [] (Err EOther)
           | _ => load_finish roots (load_loop (next_block_root hok) fail batch_limit fast rest)
           end
    end.
End Oracles.
