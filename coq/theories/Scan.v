(* Sequential readers: internal carv1.CarReader, v2 BlockReader (Next), root CarReader,
   and the reference scan (layer B) they are all compared with. *)
From GoCar Require Import Bytes Varint Cid Header Frame V2Header.

Record ropts := mkropts { o_zeof : bool; o_maxh : N; o_maxs : N; o_trusted : bool }.
Definition default_ropts : ropts := mkropts false 33554432 8388608 false.

Definition block := (bytes * bytes)%type. (* cid bytes, data *)

(* outcome of a whole scan: what was returned before the terminating condition *)
Record scan_out := mkscan { s_blocks : list block; s_end : err }.  (* EEof = clean end *)

Section Oracles.
  Variable hok : bytes -> bytes -> option bool.
  Variable hdrdec : bytes -> option (list bytes * N).

  Definition verify (c : bytes) (p : cidp) (d : bytes) : res unit :=
    match hash_matches hok c p d with
    | None => Err EOracleMiss
    | Some true => Ok tt
    | Some false => Err EOther
    end.

  (* one BlockReader.Next / carv1.CarReader.Next step on the visible stream *)
  Definition next_block (o : ropts) (s : bytes) : res (block * bytes) :=
    match read_node (o_zeof o) (o_maxs o) s with
    | Err e => Err e
    | Ok (c, p, d, rest) =>
        if o_trusted o then Ok ((c, d), rest)
        else match verify c p d with
             | Ok _ => Ok ((c, d), rest)
             | Err e => Err e
             end
    end.

  Fixpoint scan_blocks (fuel : nat) (o : ropts) (s : bytes) (acc : list block) : scan_out :=
    match fuel with
    | O => mkscan (rev acc) EFuel
    | S f =>
      match next_block o s with
      | Err e => mkscan (rev acc) e
      | Ok (b, rest) => scan_blocks f o rest (b :: acc)
      end
    end.
  Definition scan_all (o : ropts) (s : bytes) : scan_out :=
    scan_blocks (S (length s)) o s [].

  (* NewBlockReader: Ok (version, roots, visible stream of sections, offset of first section
     in the source, payload offset in the source) *)
  Definition br_open (o : ropts) (file : bytes)
    : res (N * list bytes * bytes * N * N) :=
    match read_header hdrdec (o_maxh o) file with
    | Err e => Err e
    | Ok (roots, v, rest, used) =>
      if v =? 1 then Ok (1, roots, rest, used, 0)
      else if v =? 2 then
        match read_v2hdr rest with
        | Err e => Err e
        | Ok (h, rest2) =>
          (* Seek(DataOffset-51, SeekCurrent) forward (discard or seek), then LimitReader *)
          let skip := h_doff h - 51 in
          let vis := take (h_dsize h) (drop skip rest2) in
          match read_header hdrdec (o_maxh o) vis with
          | Err e => Err e
          | Ok (roots1, v1, rest3, used1) =>
            if v1 =? 1 then Ok (2, roots1, rest3, h_doff h + used1, h_doff h)
            else Err EOther
          end
        end
      else Err EOther
    end.

  (* NewBlockReader + Next until error: (open error | version, roots, scan) *)
  Definition br_read_all (o : ropts) (file : bytes) : res (N * list bytes * scan_out) :=
    match br_open o file with
    | Err e => Err e
    | Ok (v, roots, s, _, _) => Ok (v, roots, scan_all o s)
    end.

  (* internal carv1.NewCarReader... + Next loop (rejects version <> 1 and empty roots) *)
  Definition carv1_read_all (o : ropts) (file : bytes) : res (list bytes * scan_out) :=
    match read_header hdrdec (o_maxh o) file with
    | Err e => Err e
    | Ok (roots, v, rest, _) =>
      if negb (v =? 1) then Err EOther
      else match roots with
           | [] => Err EOther
           | _ => Ok (roots, scan_all (mkropts (o_zeof o) (o_maxh o) (o_maxs o) false) rest)
           end
    end.

  (* root module car.NewCarReader + Next loop *)
  Definition next_block_root (s : bytes) : res (block * bytes) :=
    match read_node_root s with
    | Err e => Err e
    | Ok (c, p, d, rest) =>
        match verify c p d with
        | Ok _ => Ok ((c, d), rest)
        | Err e => Err e
        end
    end.
  Fixpoint scan_blocks_root (fuel : nat) (s : bytes) (acc : list block) : scan_out :=
    match fuel with
    | O => mkscan (rev acc) EFuel
    | S f =>
      match next_block_root s with
      | Err e => mkscan (rev acc) e
      | Ok (b, rest) => scan_blocks_root f rest (b :: acc)
      end
    end.
  Definition scan_all_root (s : bytes) : scan_out := scan_blocks_root (S (length s)) s [].
  Definition root_read_all (file : bytes) : res (list bytes * scan_out) :=
    match read_header_root hdrdec file with
    | Err e => Err e
    | Ok (roots, v, rest) =>
      if negb (v =? 1) then Err EOther
      else match roots with
           | [] => Err EOther
           | _ => Ok (roots, scan_all_root rest)
           end
    end.
End Oracles.

(* ---- layer B: constructed archives and the reference decoder ---------------------- *)
Definition enc_sections (bs : list block) : bytes :=
  concat (map (fun b => enc_section (fst b) (snd b)) bs).
Definition enc_payload (roots : list bytes) (bs : list block) : bytes :=
  ld (enc_header (Some roots) 1) ++ enc_sections bs.

Record v2cfg := mkcfg { g_dpad : N; g_ipad : N }.
