(* C09 -- explicit allocation model for the parsing entry points.

   For every site where the Go code passes an INPUT-DECLARED length to make(), the functions below
   return the sizes requested along a run ([list N], in program order).  They are small mirrors of
   the parsers' control flow for those sites only and are defined in terms of the parsers themselves
   (ld_read_size, next_block, swi_unmarshal, ...), so they cannot drift from them silently; the
   agreement lemmas are in proofs/TotalAlloc.v.  Sites with a constant size (the 64-byte CID
   scratch buffer, the 16+24 bytes of the CARv2 header, binary.Read's 4/8-byte temporaries, the
   8 KiB io.Discard buffer) are not logged.

   A Go panic is modelled where make() itself panics:
     runtime.makeslice panics ("len out of range") iff  len*elemsize > maxAlloc  or  int(len) < 0;
     for []byte on linux/amd64 maxAlloc = 1<<48 ($GOROOT/src/runtime/malloc.go: heapAddrBits = 48).
   Below that limit a request the OS cannot serve is a fatal runtime error, which the model does
   not exhibit (DESIGN.md 5.9: allocator/GC are observed by measurement only). *)
From GoCar Require Import Bytes Varint Cid Header Frame V2Header Scan Index Store.

Definition go_max_alloc : N := 281474976710656. (* 1 << 48 *)
Definition make_panics (n : N) : bool := go_max_alloc <? n.
Definition allocs_panic (l : list N) : bool := existsb make_panics l.
Fixpoint sumN (l : list N) : N := match l with [] => 0 | x :: t => x + sumN t end.

(* ---- framing --------------------------------------------------------------------------------- *)
(* util.LdRead (v2): `buf := make([]byte, l)` runs iff LdReadSize returned l, i.e. after the
   zero-length and `l > maxReadBytes` tests *)
Definition ld_read_allocs (zeof : bool) (maxb : N) (s : bytes) : list N :=
  match ld_read_size zeof maxb s with
  | Ok (l, _, _) => [l]
  | Err _ => []
  end.

(* root module util.LdRead: fixed limit util.MaxAllowedSectionSize (32 MiB) *)
Definition ld_read_root_allocs (s : bytes) : list N :=
  match s with
  | [] => []
  | _ =>
    match read_uv_std s with
    | VOk l0 _ _ => let l := wrap64 l0 in if root_max_section <? l then [] else [l]
    | _ => []
    end
  end.

(* cid.CidFromReader: the digest buffer `make([]byte, cidLength-len(br.dst))` when the CID does
   not fit the 64-byte scratch buffer; guarded by go-cid's constant maxDigestAlloc = 32 MiB,
   which no go-car option governs. *)
Definition cid_scratch : N := 64.
Definition cfr_allocs (s : bytes) : list N :=
  match read_uv s with
  | VOk vers r1 n1 =>
    if vers =? 18 then []
    else if negb (vers =? 1) then []
    else
      match read_uv r1 with
      | VOk _ r2 n2 =>
        match read_uv r2 with
        | VOk _ r3 n3 =>
          match read_uv r3 with
          | VOk mhl _ n4 =>
            if max_digest_alloc <? mhl then []
            else if n1 + n2 + n3 + n4 + mhl <=? cid_scratch then []
            else [mhl]
          | _ => []
          end
        | _ => []
        end
      | _ => []
      end
  | _ => []
  end.

(* ---- sequential readers ---------------------------------------------------------------------- *)
Section Oracles.
  Variable hok : bytes -> bytes -> option bool.
  Variable hdrdec : bytes -> option (list bytes * N).

  (* BlockReader.Next / carv1.CarReader.Next loop: one section buffer per call *)
  Fixpoint scan_allocs (fuel : nat) (o : ropts) (s : bytes) : list N :=
    match fuel with
    | O => []
    | S f =>
      ld_read_allocs (o_zeof o) (o_maxs o) s ++
      match next_block hok o s with
      | Ok (_, rest) => scan_allocs f o rest
      | Err _ => []
      end
    end.
  Definition scan_all_allocs (o : ropts) (s : bytes) : list N := scan_allocs (S (length s)) o s.

  (* NewBlockReader + Next loop (mirrors br_open / br_read_all) *)
  Definition br_allocs (o : ropts) (file : bytes) : list N :=
    ld_read_allocs false (o_maxh o) file ++
    match read_header hdrdec (o_maxh o) file with
    | Err _ => []
    | Ok (_, v, rest, _) =>
      if v =? 1 then scan_all_allocs o rest
      else if v =? 2 then
        match read_v2hdr rest with
        | Err _ => []
        | Ok (h, rest2) =>
          let vis := take (h_dsize h) (drop (h_doff h - 51) rest2) in
          ld_read_allocs false (o_maxh o) vis ++
          match read_header hdrdec (o_maxh o) vis with
          | Err _ => []
          | Ok (_, v1, rest3, _) => if v1 =? 1 then scan_all_allocs o rest3 else []
          end
        end
      else []
    end.

  (* internal carv1.NewCarReader... + Next loop (mirrors carv1_read_all) *)
  Definition carv1_allocs (o : ropts) (file : bytes) : list N :=
    ld_read_allocs false (o_maxh o) file ++
    match read_header hdrdec (o_maxh o) file with
    | Err _ => []
    | Ok (roots, v, rest, _) =>
      if negb (v =? 1) then []
      else match roots with
           | [] => []
           | _ => scan_all_allocs (mkropts (o_zeof o) (o_maxh o) (o_maxs o) false) rest
           end
    end.

  (* root module: LdRead's buffer, then CidFromReader over that buffer *)
  Fixpoint scan_root_allocs (fuel : nat) (s : bytes) : list N :=
    match fuel with
    | O => []
    | S f =>
      ld_read_root_allocs s ++
      match ld_read_root s with
      | Ok (buf, _) => cfr_allocs buf
      | Err _ => []
      end ++
      match next_block_root hok s with
      | Ok (_, rest) => scan_root_allocs f rest
      | Err _ => []
      end
    end.
  Definition root_allocs (file : bytes) : list N :=
    ld_read_root_allocs file ++
    match read_header_root hdrdec file with
    | Err _ => []
    | Ok (roots, v, rest) =>
      if negb (v =? 1) then []
      else match roots with
           | [] => []
           | _ => scan_root_allocs (S (length rest)) rest
           end
    end.
End Oracles.

(* ---- index.ReadFrom --------------------------------------------------------------------------- *)
(* singleWidthIndex.Unmarshal (repaired, notes/fixes/C09-index-bucket-prealloc.patch): the bucket
   is read by readBucket(r, dataLen):
       c := min(dataLen, bucketChunk); buf := make([]byte, c)
       loop: io.ReadFull(r, buf[read:]); on a short read return the error;
             if read == dataLen return buf;
             c = min(dataLen, 2*read); nb := make([]byte, c); copy(nb, buf); buf = nb
   [n] = dataLen, [avail] = bytes the reader can still deliver, [c] = size of the buffer being
   filled.  A buffer of size c is completely filled iff avail >= c. *)
Definition idx_chunk : N := 1048576. (* bucketChunk = 1 MiB *)
Fixpoint bucket_allocs (fuel : nat) (n avail c : N) : list N :=
  match fuel with
  | O => []
  | S f =>
    c :: (if avail <? c then []
          else if n <=? c then []
          else bucket_allocs f n avail (N.min n (2 * c)))
  end.
(* 64 rounds are enough for every dataLen < 2^63 (proofs/TotalAlloc.v: bucket_fuel_enough) *)
Definition bucket_fuel : nat := 64.
Definition read_bucket_allocs (n avail : N) : list N :=
  bucket_allocs bucket_fuel n avail (N.min n idx_chunk).

(* mirrors swi_unmarshal *)
Definition swi_allocs (s : bytes) : list N :=
  if blen s <? 4 then [] else
  let width := le_dec (take 4 s) in
  let s1 := drop 4 s in
  if blen s1 <? 8 then [] else
  let dlen := le_dec (take 8 s1) in
  let s2 := drop 8 s1 in
  if width <? 8 then []
  else if max_width <? width then []
  else if two63 <=? dlen then []
  else read_bucket_allocs dlen (blen s2).

(* what the code did before the repair: `buf := make([]byte, dataLen)` *)
Definition swi_allocs_unrepaired (s : bytes) : list N :=
  if blen s <? 4 then [] else
  let width := le_dec (take 4 s) in
  let s1 := drop 4 s in
  if blen s1 <? 8 then [] else
  let dlen := le_dec (take 8 s1) in
  if width <? 8 then []
  else if max_width <? width then []
  else if two63 <=? dlen then []
  else [dlen].

Fixpoint swis_allocs (fuel : nat) (count : N) (s : bytes) : list N :=
  match fuel with
  | O => []
  | S f =>
    if count =? 0 then []
    else swi_allocs s ++
         match swi_unmarshal s with
         | Ok (_, rest) => swis_allocs f (count - 1) rest
         | Err _ => []
         end
  end.
Definition mwi_allocs (s : bytes) : list N :=
  if blen s <? 4 then [] else
  let count := le_dec (take 4 s) in
  if two31 <=? count then []
  else swis_allocs (S (length s)) count (drop 4 s).

Fixpoint mwcis_allocs (fuel : nat) (count : N) (s : bytes) : list N :=
  match fuel with
  | O => []
  | S f =>
    if count =? 0 then []
    else if blen s <? 8 then []
    else mwi_allocs (drop 8 s) ++
         match mwi_unmarshal (drop 8 s) with
         | Ok (_, rest) => mwcis_allocs f (count - 1) rest
         | Err _ => []
         end
  end.
Definition mh_allocs (s : bytes) : list N :=
  if blen s <? 4 then [] else
  let count := le_dec (take 4 s) in
  if two31 <=? count then []
  else mwcis_allocs (S (length s)) count (drop 4 s).

Definition idx_allocs (s : bytes) : list N :=
  match read_uv s with
  | VOk codec rest _ =>
      if codec =? codec_sorted then mwi_allocs rest
      else if codec =? codec_mh_sorted then mh_allocs rest
      else []
  | _ => []
  end.

(* ---- store.Resume (OpenReadWrite / OpenReadableWritable on existing bytes) -------------------- *)
(* the rescan loop: one CidFromReader per section, straight on the file *)
Fixpoint resume_scan_allocs (fuel : nat) (zeof : bool) (base : N) (view : bytes) (pos : N) : list N :=
  match fuel with
  | O => []
  | S f =>
    match read_uv (drop pos view) with
    | VOk len r1 n1 =>
      if len =? 0 then [] else
      cfr_allocs r1 ++
      match cid_from_reader r1 with
      | CfrOk n _ _ _ =>
        if (n <=? len) && (two63 <=? base + pos + n1 + len) then []
        else resume_scan_allocs f zeof base view (pos + n1 + len)
      | _ => []
      end
    | _ => []
    end
  end.

(* executable guard: no section the rescan visits declares a length shorter than its CID (such a
   section makes the walker seek BACKWARDS into the CID it has just read, so the same bytes are
   parsed -- and a digest buffer requested -- again and again) *)
Fixpoint resume_sections_ok (fuel : nat) (zeof : bool) (base : N) (view : bytes) (pos : N) : bool :=
  match fuel with
  | O => true
  | S f =>
    match read_uv (drop pos view) with
    | VOk len r1 n1 =>
      if len =? 0 then true else
      match cid_from_reader r1 with
      | CfrOk n _ _ _ =>
        if len <? n then false
        else if (n <=? len) && (two63 <=? base + pos + n1 + len) then true
        else resume_sections_ok f zeof base view (pos + n1 + len)
      | _ => true
      end
    | _ => true
    end
  end.

(* the first section of a payload stream (walking forward) that is shorter than its CID *)
Fixpoint has_short_section (fuel : nat) (s : bytes) : bool :=
  match fuel with
  | O => false
  | S f =>
    match read_uv s with
    | VOk len r1 _ =>
      if len =? 0 then false else
      match cid_from_reader r1 with
      | CfrOk n _ _ _ => if len <? n then true else has_short_section f (drop len r1)
      | _ => false
      end
    | _ => false
    end
  end.

Section Resume.
  Variable hdrdec : bytes -> option (list bytes * N).

  (* mirrors Store.resume: version probe and inner header under the configured header limit (repaired:
     ResumableVersion used to call ReadVersion without the caller's options;
     notes/fixes/C09-resume-version-probe-limit.patch), then the rescan *)
  Definition resume_allocs (k : skind) (can_truncate : bool) (o : wopts) (roots : list bytes)
             (file : bytes) (faults : list (option N)) : list N :=
    let dv0 := mkdev file [] faults in
    ld_read_allocs false (w_maxh o) file ++
    match read_header hdrdec (w_maxh o) file with
    | Err _ => []
    | Ok (_, ver, _, _) =>
      if negb (((ver =? 1) && w_v1 o) || ((ver =? 2) && negb (w_v1 o))) then [] else
      let base := data_base o in
      let probe : res (option v2hdr) :=
        if w_v1 o then Ok None
        else if negb can_truncate then Err EOther
        else match read_v2hdr (drop pragma_size file) with
             | Ok (h, _) => if negb (h_doff h =? base) then Err EOther else Ok (Some h)
             | Err _ => Ok None
             end in
      match probe with
      | Err _ => []
      | Ok hin =>
        let view := drop base file in
        ld_read_allocs false (w_maxh o) view ++
        match read_header hdrdec (w_maxh o) view with
        | Err _ => []
        | Ok (hroots, hver, _, _) =>
          if negb (header_matches hroots hver roots) then [] else
          let dv1 := match hin with
                     | Some h => dev_truncate dv0 (wrap64 (h_doff h + h_dsize h))
                     | None => dv0
                     end in
          let '(dv2, ok2) :=
            if w_v1 o then (dv1, true)
            else let '(d, _, ok) := write_chunks dv1 pragma_size (v2hdr_chunks (mkv2 0 0 0 0 0)) in (d, ok) in
          if negb ok2 then [] else
          let view2 := drop base (d_file dv2) in
          let start := ld_size (blen (enc_header (Some hroots) 1)) in
          resume_scan_allocs (S (length view2)) (w_zeof o) base view2 start
        end
      end
    end.
End Resume.

(* ---- container transforms and LoadIndex over a seekable source (theories/Transform.v) ------------ *)
From GoCar Require Transform.
Section Xform.
  Variable hdrdec : bytes -> option (list bytes * N).

  (* LoadIndex's section loop: one CidFromReader per section, straight on the source *)
  Fixpoint li_loop_allocs (fuel : nat) (o : Transform.xopts) (all : bytes) (pos doff dsize : N) : list N :=
    match fuel with
    | O => []
    | S f =>
      if negb (dsize =? 0) && (dsize <=? pos - doff) then [] else
      match read_uv (drop pos all) with
      | VOk slen _ n =>
        if slen =? 0 then [] else
        cfr_allocs (drop (pos + n) all) ++
        match cid_from_reader (drop (pos + n) all) with
        | CfrOk cn c p _ =>
          let keep := Transform.x_storeid o || negb (is_identity p) in
          if keep && (Transform.x_maxcid o <? cn) then []
          else
            let npos := pos + n + slen in
            if negb (Transform.seek_ok o npos) then []
            else li_loop_allocs f o all npos doff dsize
        | _ => []
        end
      | _ => []
      end
    end.

  (* mirrors Transform.load_index *)
  Definition load_index_allocs (o : Transform.xopts) (all : bytes) : list N :=
    ld_read_allocs false (Transform.x_maxh o) all ++
    match read_header hdrdec (Transform.x_maxh o) all with
    | Err _ => []
    | Ok (_, v, rest, _) =>
      if v =? 1 then li_loop_allocs (S (length all)) o all (Transform.consumed all rest) 0 0
      else if v =? 2 then
        match read_v2hdr rest with
        | Err _ => []
        | Ok (h, _) =>
          if negb (Transform.seek_ok o (h_doff h)) then []
          else
            ld_read_allocs false (Transform.x_maxh o) (drop (h_doff h) all) ++
            match read_header hdrdec (Transform.x_maxh o) (drop (h_doff h) all) with
            | Err _ => []
            | Ok (_, v1, rest1, _) =>
              if negb (v1 =? 1) then []
              else li_loop_allocs (S (length all)) o all
                     (h_doff h + Transform.consumed (drop (h_doff h) all) rest1) (h_doff h) (h_dsize h)
            end
        end
      else []
    end.

  (* ExtractV1File: ReadVersion's header buffer; the copy itself goes through io.CopyN's fixed
     32 KiB buffer (or copy_file_range) *)
  Definition extract_allocs (o : Transform.xopts) (a : bytes) : list N :=
    ld_read_allocs false (Transform.x_maxh o) a.

  (* ReplaceRootsInFile: the header (or pragma) buffer, and for a CARv2 the inner header buffer; the
     replacement header is serialised from the caller's roots, not from the file *)
  Definition replace_allocs (o : Transform.xopts) (a : bytes) : list N :=
    ld_read_allocs false (Transform.x_maxh o) a ++
    match read_header hdrdec (Transform.x_maxh o) a with
    | Err _ => []
    | Ok (_, v, rest, _) =>
      if v =? 1 then []
      else if v =? 2 then
        match read_v2hdr rest with
        | Err _ => []
        | Ok (h, _) =>
          if negb (Transform.seek_ok o (h_doff h)) then []
          else ld_read_allocs false (Transform.x_maxh o) (drop (h_doff h) a)
        end
      else []
    end.
End Xform.

(* ---- LoadIndex / GenerateIndex over every source kind (theories/IndexGen.v) ------------------------- *)
From GoCar Require IndexGen.
Section Gen.
  Variable hdrdec : bytes -> option (list bytes * N).

  Fixpoint gen_loop_allocs (fuel : nat) (tc : bool) (k : IndexGen.srckind) (o : IndexGen.gopts) (all : bytes)
           (doff dsize : N) (st : IndexGen.rstate) : list N :=
    match fuel with
    | O => []
    | S f =>
      if tc && IndexGen.payload_end doff dsize st then [] else
      match read_uv (IndexGen.view all st) with
      | VOk slen _ n =>
        let st1 := IndexGen.advance n st in
        if slen =? 0 then [] else
        cfr_allocs (IndexGen.view all st1) ++
        match cid_from_reader (IndexGen.view all st1) with
        | CfrOk cn c p _ =>
          let st2 := IndexGen.advance cn st1 in
          if IndexGen.indexed o p && (IndexGen.g_max_cid o <? cn) then []
          else
            match IndexGen.seek_cur k all (Z.of_N slen - Z.of_N cn)%Z st2 with
            | Err _ => []
            | Ok st3 =>
              if negb tc && IndexGen.payload_end doff dsize st3 then []
              else gen_loop_allocs f tc k o all doff dsize st3
            end
        | _ => []
        end
      | _ => []
      end
    end.

  (* mirrors IndexGen.load_index_gen *)
  Definition gen_allocs (fx : IndexGen.fixes) (k : IndexGen.srckind) (o : IndexGen.gopts) (all : bytes) : list N :=
    let counted := IndexGen.fx_counted fx in
    let tc := IndexGen.fx_topcheck fx in
    ld_read_allocs false (IndexGen.g_maxh o) all ++
    match read_header hdrdec (IndexGen.g_maxh o) all with
    | Err _ => []
    | Ok (_, v, _, used) =>
      let st0 := IndexGen.advance_raw k counted used (IndexGen.mkrs 0 0) in
      if v =? 1 then gen_loop_allocs (S (length all)) tc k o all 0 0 st0
      else if v =? 2 then
        match read_v2hdr (IndexGen.view all st0) with
        | Err _ => []
        | Ok (h, _) =>
          let st1 := IndexGen.advance_raw k counted 40 st0 in
          match IndexGen.seek_start k all (h_doff h) st1 with
          | Err _ => []
          | Ok st2 =>
            ld_read_allocs false (IndexGen.g_maxh o) (IndexGen.view all st2) ++
            match read_header hdrdec (IndexGen.g_maxh o) (IndexGen.view all st2) with
            | Err _ => []
            | Ok (_, v1, _, used1) =>
              if negb (v1 =? 1) then []
              else gen_loop_allocs (S (length all)) tc k o all (h_doff h) (h_dsize h) (IndexGen.advance used1 st2)
            end
          end
        end
      else []
    end.
End Gen.

(* ---- NewReader + Inspect (theories/Inspect.v) ------------------------------------------------------------ *)
From GoCar Require Inspect.
Section Insp.
  Variable hok : bytes -> bytes -> option bool.
  Variable hdrdec : bytes -> option (list bytes * N).

  (* one CidFromReader per section; block data is hashed through a fixed buffer or seeked over *)
  Fixpoint insp_loop_allocs (fuel : nat) (validate : bool) (o : ropts) (s : bytes) : list N :=
    match fuel with
    | O => []
    | S f =>
      match read_uv s with
      | VOk l rest _ =>
        if (l =? 0) && o_zeof o then []
        else if o_maxs o <? l then []
        else
          cfr_allocs rest ++
          match cid_from_reader rest with
          | CfrOk cn c p after =>
            if l <? cn then []
            else
              let bl := l - cn in
              if validate then
                if blen after <? bl then []
                else match verify hok c p (take bl after) with
                     | Err _ => []
                     | Ok _ => insp_loop_allocs f validate o (drop bl after)
                     end
              else insp_loop_allocs f validate o (drop bl after)
          | _ => []
          end
      | _ => []
      end
    end.

  (* mirrors Inspect.new_reader + Inspect.inspect *)
  Definition inspect_allocs (o : ropts) (file : bytes) (validate : bool) : list N :=
    ld_read_allocs false (o_maxh o) file ++
    match Inspect.new_reader hdrdec o file with
    | Err _ => []
    | Ok rd =>
      let dr := Inspect.data_window rd file in
      ld_read_allocs false (o_maxh o) dr ++
      match read_header hdrdec (o_maxh o) dr with
      | Err _ => []
      | Ok (roots, hv, rest, _) =>
        if (Inspect.r_version rd =? 2) && negb (hv =? 1) then []
        else insp_loop_allocs (S (length rest)) validate o rest
      end
    end.
End Insp.

(* ---- read-only stores (theories/ReadOnly.v) -------------------------------------------------------------- *)
From GoCar Require ReadOnly.
Section RO.
  Variable hdrdec : bytes -> option (list bytes * N).

  Fixpoint li_scan_allocs (fuel : nat) (o : ReadOnly.qopts) (base : N) (src : bytes) (doff dsize pos : N) : list N :=
    match fuel with
    | O => []
    | S f =>
      match read_uv (drop pos src) with
      | VOk len r1 n1 =>
        if len =? 0 then [] else
        cfr_allocs r1 ++
        match cid_from_reader r1 with
        | CfrOk n c p _ =>
          let keep := ReadOnly.q_storeid o || negb (is_identity p) in
          if keep && (ReadOnly.q_maxcid o <? n) then [] else
          let npos := pos + n1 + len in
          if two63 <=? base + npos then []
          else if negb (dsize =? 0) && (dsize <=? npos - doff) then []
          else li_scan_allocs f o base src doff dsize npos
        | _ => []
        end
      | _ => []
      end
    end.

  (* mirrors ReadOnly.load_records *)
  Definition load_records_allocs (o : ReadOnly.qopts) (base : N) (src : bytes) : list N :=
    ld_read_allocs false (ReadOnly.q_maxh o) src ++
    match read_header hdrdec (ReadOnly.q_maxh o) src with
    | Err _ => []
    | Ok (_, ver, rest, used) =>
      if ver =? 1 then li_scan_allocs (S (S (length src))) o base src 0 0 used
      else if ver =? 2 then
        match read_v2hdr rest with
        | Err _ => []
        | Ok (h, _) =>
          if two63 <=? base + h_doff h then []
          else
            ld_read_allocs false (ReadOnly.q_maxh o) (drop (h_doff h) src) ++
            match read_header hdrdec (ReadOnly.q_maxh o) (drop (h_doff h) src) with
            | Err _ => []
            | Ok (_, v1, _, used1) =>
              if negb (v1 =? 1) then []
              else li_scan_allocs (S (S (length src))) o base src (h_doff h) (h_dsize h) (h_doff h + used1)
            end
        end
      else []
    end.
  (* GenerateIndex checks the codec first; LoadIndex into an insertion index does not *)
  Definition gen_allocs_ro (flat : bool) (o : ReadOnly.qopts) (base : N) (src : bytes) : list N :=
    if flat then match idx_new (ReadOnly.q_codec o) with
                 | None => []
                 | Some _ => load_records_allocs o base src
                 end
    else load_records_allocs o base src.
  Definition embedded_or_allocs (flat : bool) (o : ReadOnly.qopts) (r : ReadOnly.v2reader) : list N :=
    match ReadOnly.index_window r with
    | Some iw => idx_allocs iw
    | None => gen_allocs_ro flat o (ReadOnly.window_base r) (ReadOnly.data_window r)
    end.

  (* blockstore.NewReadOnly(backing, nil, opts...): readVersion, then generate / NewReader + embedded or generate *)
  Definition ro_open_allocs (o : ReadOnly.qopts) (file : bytes) : list N :=
    ld_read_allocs false (ReadOnly.q_maxh o) file ++
    match read_header hdrdec (ReadOnly.q_maxh o) file with
    | Err _ => []
    | Ok (_, ver, _, _) =>
      if ver =? 1 then gen_allocs_ro true o 0 file
      else if ver =? 2 then
        ld_read_allocs false (ReadOnly.q_maxh o) file ++
        match ReadOnly.new_reader hdrdec (ReadOnly.q_maxh o) file with
        | Err _ => []
        | Ok r => embedded_or_allocs true o r
        end
      else []
    end.
  (* storage.OpenReadable *)
  Definition sto_open_allocs (o : ReadOnly.qopts) (file : bytes) : list N :=
    ld_read_allocs false (ReadOnly.q_maxh o) file ++
    match read_header hdrdec (ReadOnly.q_maxh o) file with
    | Err _ => []
    | Ok (_, ver, _, _) =>
      if ver =? 1 then gen_allocs_ro false o 0 file
      else if ver =? 2 then
        ld_read_allocs false (ReadOnly.q_maxh o) file ++
        match ReadOnly.new_reader hdrdec (ReadOnly.q_maxh o) file with
        | Err _ => []
        | Ok r =>
          ld_read_allocs false (ReadOnly.q_maxh o) (ReadOnly.data_window r) ++
          match ReadOnly.reader_roots hdrdec (ReadOnly.q_maxh o) r with
          | Err _ => []
          | Ok _ => embedded_or_allocs false o r
          end
        end
      else []
    end.

  (* executable guards for the cumulative bounds: no section the index generation visits declares a length
     shorter than its CID (cf. resume_sections_ok) *)
  Fixpoint li_sections_ok (fuel : nat) (o : ReadOnly.qopts) (base : N) (src : bytes) (doff dsize pos : N) : bool :=
    match fuel with
    | O => true
    | S f =>
      match read_uv (drop pos src) with
      | VOk len r1 n1 =>
        if len =? 0 then true else
        match cid_from_reader r1 with
        | CfrOk n c p _ =>
          if len <? n then false else
          let keep := ReadOnly.q_storeid o || negb (is_identity p) in
          if keep && (ReadOnly.q_maxcid o <? n) then true else
          let npos := pos + n1 + len in
          if two63 <=? base + npos then true
          else if negb (dsize =? 0) && (dsize <=? npos - doff) then true
          else li_sections_ok f o base src doff dsize npos
        | _ => true
        end
      | _ => true
      end
    end.
  Definition load_records_ok (o : ReadOnly.qopts) (base : N) (src : bytes) : bool :=
    match read_header hdrdec (ReadOnly.q_maxh o) src with
    | Err _ => true
    | Ok (_, ver, rest, used) =>
      if ver =? 1 then li_sections_ok (S (S (length src))) o base src 0 0 used
      else if ver =? 2 then
        match read_v2hdr rest with
        | Err _ => true
        | Ok (h, _) =>
          if two63 <=? base + h_doff h then true
          else
            match read_header hdrdec (ReadOnly.q_maxh o) (drop (h_doff h) src) with
            | Err _ => true
            | Ok (_, v1, _, used1) =>
              if negb (v1 =? 1) then true
              else li_sections_ok (S (S (length src))) o base src (h_doff h) (h_dsize h) (h_doff h + used1)
            end
        end
      else true
    end.
  (* NewReadOnly: the guard concerns the payload only when an index has to be generated *)
  Definition ro_open_ok (o : ReadOnly.qopts) (file : bytes) : bool :=
    match read_header hdrdec (ReadOnly.q_maxh o) file with
    | Err _ => true
    | Ok (_, ver, _, _) =>
      if ver =? 1 then load_records_ok o 0 file
      else if ver =? 2 then
        match ReadOnly.new_reader hdrdec (ReadOnly.q_maxh o) file with
        | Err _ => true
        | Ok r =>
          match ReadOnly.index_window r with
          | Some _ => true
          | None => load_records_ok o (ReadOnly.window_base r) (ReadOnly.data_window r)
          end
        end
      else true
    end.

  (* store.FindCid: per candidate offset a section buffer (ReadNode) or a CID digest buffer *)
  Fixpoint find_cid_allocs (view : bytes) (offs : list N) (key : bytes) (kp : cidp)
           (whole zeof : bool) (maxs : N) (readbytes : bool) : list N :=
    match offs with
    | [] => []
    | off :: more =>
      let s := drop off view in
      if readbytes then
        ld_read_allocs zeof maxs s ++
        match read_node zeof maxs s with
        | Err _ => []
        | Ok (c, p, _, _) =>
          if key_matches whole key kp c p then []
          else find_cid_allocs view more key kp whole zeof maxs readbytes
        end
      else
        match raw_uv s with
        | Err _ => []
        | Ok (slen, r1, _) =>
          if maxs <? slen then [] else
          cfr_allocs r1 ++
          match cid_from_reader r1 with
          | CfrOk _ c p _ =>
            if key_matches whole key kp c p then []
            else find_cid_allocs view more key kp whole zeof maxs readbytes
          | _ => []
          end
        end
    end.
  Definition ro_find_allocs (s : ReadOnly.rostate) (key : bytes) (kp : cidp) (readbytes : bool) : list N :=
    let o := ReadOnly.s_opts s in
    find_cid_allocs (ReadOnly.s_view s) (ReadOnly.ridx_getall (ReadOnly.s_idx s) kp) key kp
                    (ReadOnly.q_whole o) (ReadOnly.q_zeof o) (ReadOnly.q_maxs o) readbytes.

  (* AllKeysChan: the header again, then one CidFromReader per section *)
  Fixpoint keys_scan_allocs (fuel : nat) (s : ReadOnly.rostate) (pos : N) : list N :=
    match fuel with
    | O => []
    | S f =>
      match read_uv (drop pos (ReadOnly.s_view s)) with
      | VOk len r1 n1 =>
        if len =? 0 then [] else
        cfr_allocs r1 ++
        match cid_from_reader r1 with
        | CfrOk _ _ _ _ =>
          let npos := pos + n1 + len in
          if two63 <=? npos then [] else keys_scan_allocs f s npos
        | _ => []
        end
      | _ => []
      end
    end.
  Definition ro_keys_allocs (s : ReadOnly.rostate) : list N :=
    ld_read_allocs false (ReadOnly.q_maxh (ReadOnly.s_opts s)) (ReadOnly.s_view s) ++
    match read_header hdrdec (ReadOnly.q_maxh (ReadOnly.s_opts s)) (ReadOnly.s_view s) with
    | Err _ => []
    | Ok (roots, ver, _, _) =>
      keys_scan_allocs (S (S (length (ReadOnly.s_view s)))) s (ld_size (blen (enc_header (Some roots) ver)))
    end.
End RO.

(* ---- BlockReader with positions: Next / SkipNext (theories/BlockReaderPos.v) ------------------------------- *)
From GoCar Require BlockReaderPos.
Section Brp.
  Variable hok : bytes -> bytes -> option bool.
  Variable hdrdec : bytes -> option (list bytes * N).

  (* NewBlockReader: the header buffer(s) *)
  Definition brp_open_allocs (o : ropts) (seek : bool) (file : bytes) : list N :=
    ld_read_allocs false (o_maxh o) file ++
    match read_header hdrdec (o_maxh o) file with
    | Err _ => []
    | Ok (_, v, rest, used) =>
      if v =? 2 then
        match read_v2hdr rest with
        | Err _ => []
        | Ok (h, rest2) =>
          let skip := h_doff h - 51 in
          if negb seek && (blen rest2 <? skip) then []
          else
            ld_read_allocs false (o_maxh o)
              (take (h_dsize h) (drop (used + 40 + skip) file))
        end
      else []
    end.
  (* Next: the section buffer; SkipNext: the digest buffer of CidFromReader(io.LimitReader(r, l)) *)
  Definition brp_next_allocs (o : ropts) (st : BlockReaderPos.brp) : list N :=
    ld_read_allocs (o_zeof o) (o_maxs o) (BlockReaderPos.vis st).
  Definition brp_skip_allocs (o : ropts) (st : BlockReaderPos.brp) : list N :=
    match ld_read_size (o_zeof o) (o_maxs o) (BlockReaderPos.vis st) with
    | Ok (l, rest, _) => if l =? 0 then [] else cfr_allocs (take l rest)
    | Err _ => []
    end.
  Fixpoint brp_walk_allocs (o : ropts) (w : list bool) (st : BlockReaderPos.brp) : list N :=
    match w with
    | [] => []
    | true :: w' =>
      brp_next_allocs o st ++
      match BlockReaderPos.brp_next hok o st with
      | Ok (_, st') => brp_walk_allocs o w' st'
      | Err _ => []
      end
    | false :: w' =>
      brp_skip_allocs o st ++
      match BlockReaderPos.brp_skip o st with
      | Ok (_, st') => brp_walk_allocs o w' st'
      | Err _ => []
      end
    end.
  Definition brp_run_allocs (o : ropts) (seek : bool) (file : bytes) (w : list bool) : list N :=
    brp_open_allocs o seek file ++
    match BlockReaderPos.brp_open hdrdec o seek file with
    | Ok (_, _, st0) => brp_walk_allocs o w st0
    | Err _ => []
    end.
End Brp.

(* ---- the measured bound (layer B, evaluated on the implementation's TotalAlloc delta) --------- *)
(* requested sizes are what the theorems bound; the Go allocator, append's growth policy, the
   string copy of every CID, the hashers and the CBOR decoder sit between a request and the bytes
   actually allocated, hence the factor 4, the slack and the per-input-byte constant. *)
(* Only the limits an entry point actually reads under enter its budget (theories/RunTotal.v lists them per
   entry): a buffer whose read fails is requested once (factor 2 leaves room for one copy), the go-cid and
   index-chunk constants go through append / string copies (factor 4). *)
Definition alloc_slack : N := 524288.
Definition alloc_per_byte : N := 1024.
Definition alloc_budget (hlim slim : N) (uses_cfr uses_idx : bool) (inlen : N) : N :=
  2 * (hlim + slim)
  + 4 * ((if uses_cfr then max_digest_alloc else 0) + (if uses_idx then idx_chunk else 0))
  + alloc_slack + alloc_per_byte * inlen.
