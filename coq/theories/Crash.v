(* Sessions, interruptions and crash images over the writable-store model (Store.v).
   C12: a writing session cut into segments (each ended by Discard+reopen or Finalize+reopen);
        mismatching reopen attempts.
   C06: crash images built from the logged write sequence, the acknowledged / attempted block
        sets, crash-point classification and the executable guards.
   Executable; no proofs here. *)
From Coq Require Import Strings.String.
From GoCar Require Import Bytes Varint Cid Header Frame V2Header Index Scan Store.

(* ---- front-end neutral operations ------------------------------------------------------------ *)
(* Put of one block through the front-end the state belongs to *)
Definition fe_put (s : wstate) (b : bytes * bytes) : wstate * out :=
  match ws_kind s with
  | KBlockstore => bs_put_many s [b]
  | KStorage _ => st_put s (fst b) (snd b)
  end.
Definition fe_finalize (s : wstate) : wstate * out :=
  match ws_kind s with
  | KBlockstore => bs_finalize s
  | KStorage _ => st_finalize s
  end.
(* ReadWrite.Discard; a StorageCar has no close operation: the handle is simply dropped *)
Definition fe_discard (s : wstate) : wstate * out :=
  match ws_kind s with
  | KBlockstore => bs_discard s
  | KStorage _ => (s, ONil)
  end.

Definition run_puts (s : wstate) (bs : list (bytes * bytes)) : wstate :=
  fold_left (fun st b => fst (fe_put st b)) bs s.

(* how a segment of a session ends before the file is reopened *)
Inductive cut := CDiscard | CFinalize.
Definition end_seg (c : cut) (s : wstate) : wstate :=
  match c with CDiscard => fst (fe_discard s) | CFinalize => fst (fe_finalize s) end.

Definition with_dpad (o : wopts) (p : N) : wopts :=
  mkwopts p (w_ipad o) (w_codec o) (w_zeof o) (w_maxcid o) (w_storeid o) (w_dups o) (w_whole o)
          (w_v1 o) (w_maxh o) (w_maxs o).
Definition with_v1 (o : wopts) (v1 : bool) : wopts :=
  mkwopts (w_dpad o) (w_ipad o) (w_codec o) (w_zeof o) (w_maxcid o) (w_storeid o) (w_dups o) (w_whole o)
          v1 (w_maxh o) (w_maxs o).

(* does a (syntactically) valid CARv2 header sit at offset 11: "the file was finalized" *)
Definition finalized_file (file : bytes) : bool :=
  match read_v2hdr (drop pragma_size file) with Ok _ => true | Err _ => false end.

Section Sessions.
  Variable hdrdec : bytes -> option (list bytes * N).

  (* blockstore.OpenReadWrite / storage.OpenReadableWritable on an existing path, no write faults.
     OpenReadWriteFile initialises instead of resuming when the file is empty. *)
  Definition reopen (k : skind) (o : wopts) (nilroots : bool) (roots : list bytes) (file : bytes)
    : wstate + (err * dev) :=
    match k, file with
    | KBlockstore, [] =>
        match open_new k o nilroots roots [] with
        | Ok s => inl s
        | Err e => inr (e, mkdev [] [] [])
        end
    | _, _ => resume hdrdec k true o roots file []
    end.

  (* a session cut into segments: puts, then Discard or Finalize, then reopen with the same
     roots and options.  None = some reopen failed. *)
  Fixpoint run_segs (nilroots : bool) (s : wstate) (segs : list (list (bytes * bytes) * cut))
    : option wstate :=
    match segs with
    | [] => Some s
    | (bs, c) :: t =>
      let s1 := end_seg c (run_puts s bs) in
      match reopen (ws_kind s) (ws_opts s) nilroots (ws_roots s) (ws_file s1) with
      | inl s2 => run_segs nilroots s2 t
      | inr _ => None
      end
    end.

  (* the part of Resume that runs before its first write (ResumableVersion, CARv2 header probe and
     padding comparison, inner header read, Matches): Err = refused, Ok = (header found in the
     file, roots of the inner header).  ResumeReject.v proves resume = inr (e, untouched device)
     whenever this is Err e. *)
  Definition resume_checks (can_truncate : bool) (o : wopts) (roots : list bytes) (file : bytes)
    : res (option v2hdr * list bytes) :=
    match read_header hdrdec default_maxh file with
    | Err e => Err e
    | Ok (_, ver, _, _) =>
      if negb (((ver =? 1) && w_v1 o) || ((ver =? 2) && negb (w_v1 o))) then Err EOther else
      let probe : res (option v2hdr) :=
        if w_v1 o then Ok None
        else if negb can_truncate then Err EOther
        else match read_v2hdr (drop pragma_size file) with
             | Ok (h, _) => if negb (h_doff h =? data_base o) then Err EOther else Ok (Some h)
             | Err _ => Ok None
             end in
      match probe with
      | Err e => Err e
      | Ok hin =>
        match read_header hdrdec (w_maxh o) (drop (data_base o) file) with
        | Err e => Err e
        | Ok (hroots, hver, _, _) =>
          if negb (header_matches hroots hver roots) then Err EOther else Ok (hin, hroots)
        end
      end
    end.

  (* C12 guard: what Resume finds at the data offset implied by the caller's padding -- a CARv1
     header that matches the requested roots? *)
  Definition header_at (o' : wopts) (roots' : list bytes) (file : bytes) : bool :=
    match read_header hdrdec (w_maxh o') (drop (data_base o') file) with
    | Ok (hroots, hver, _, _) => header_matches hroots hver roots'
    | Err _ => false
    end.
End Sessions.
