(* Sessions, interruptions and crash images over the writable-store model (Store.v).
   C12: a writing session cut into segments (each ended by Discard+reopen or Finalize+reopen);
        mismatching reopen attempts.
   C06: crash images built from the logged write sequence, the acknowledged / attempted block
        sets, crash-point classification and the executable guards.
   Executable; no proofs here. *)
From Coq Require Import Strings.String.
From GoCar Require Import Bytes Varint Cid Header Frame V2Header Index Scan Store.

(* ---- front-end neutral operations ------------------------------------------------------------ *)
(* Put of one block through the front-end the state belongs to *)
Definition fe_put (s : wstate) (b : bytes * bytes) : wstate * out :=
  match ws_kind s with
  | KBlockstore => bs_put_many s [b]
  | KStorage _ => st_put s (fst b) (snd b)
  end.
Definition fe_finalize (s : wstate) : wstate * out :=
  match ws_kind s with
  | KBlockstore => bs_finalize s
  | KStorage _ => st_finalize s
  end.
(* ReadWrite.Discard; a StorageCar has no close operation: the handle is simply dropped *)
Definition fe_discard (s : wstate) : wstate * out :=
  match ws_kind s with
  | KBlockstore => bs_discard s
  | KStorage _ => (s, ONil)
  end.

Definition fe_has (s : wstate) (c : bytes) : out :=
  match ws_kind s with KBlockstore => bs_has s c | KStorage _ => st_has s c end.
Definition fe_get (s : wstate) (c : bytes) : out :=
  match ws_kind s with KBlockstore => bs_get s c | KStorage _ => st_get s true c end.

(* identity blocks are not written unless StoreIdentityCIDs: Put returns nil, Has/Get answer from
   the CID itself -- acknowledged, but not to be looked for in the file *)
Definition skipped_identity (o : wopts) (b : bytes * bytes) : bool :=
  negb (w_storeid o) && match cid_parse (fst b) with Some p => is_identity p | None => false end.

Definition run_puts (s : wstate) (bs : list (bytes * bytes)) : wstate :=
  fold_left (fun st b => fst (fe_put st b)) bs s.

(* how a segment of a session ends before the file is reopened *)
Inductive cut := CDiscard | CFinalize.
Definition end_seg (c : cut) (s : wstate) : wstate :=
  match c with CDiscard => fst (fe_discard s) | CFinalize => fst (fe_finalize s) end.

Definition with_dpad (o : wopts) (p : N) : wopts :=
  mkwopts p (w_ipad o) (w_codec o) (w_zeof o) (w_maxcid o) (w_storeid o) (w_dups o) (w_whole o)
          (w_v1 o) (w_maxh o) (w_maxs o).
Definition with_v1 (o : wopts) (v1 : bool) : wopts :=
  mkwopts (w_dpad o) (w_ipad o) (w_codec o) (w_zeof o) (w_maxcid o) (w_storeid o) (w_dups o) (w_whole o)
          v1 (w_maxh o) (w_maxs o).

(* does a (syntactically) valid CARv2 header sit at offset 11: "the file was finalized" *)
Definition finalized_file (file : bytes) : bool :=
  match read_v2hdr (drop pragma_size file) with Ok _ => true | Err _ => false end.

(* which of Resume's checks refuses a file (each constructor is one error site of
   store.ResumableVersion / store.Resume before the first write) *)
Inductive refusal :=
| RFirstHeader (e : err)  (* ResumableVersion: ReadVersion on the first header fails with e *)
| RVersion                (* "cannot resume on CAR file with version N" *)
| RNoTruncate             (* "cannot resume a CARv2 without the ability to truncate" *)
| RDataOffset             (* "cannot resume from file with mismatched CARv1 offset; `WithDataPadding`
                             option must match the padding on file" *)
| RDataHeader (e : err)   (* "error reading car header: e" (the CARv1 header at the data offset) *)
| RMismatch.              (* "cannot resume on file with mismatching data header" *)
(* the error class the caller sees ("%w" wrapping: a bare EOF is no longer == io.EOF) *)
Definition refusal_err (r : refusal) : err :=
  match r with
  | RFirstHeader e => e
  | RDataHeader e => match e with EEof => EOther | _ => e end
  | RVersion | RNoTruncate | RDataOffset | RMismatch => EOther
  end.
Section Sessions.
  Variable hdrdec : bytes -> option (list bytes * N).

  (* blockstore.OpenReadWrite / storage.OpenReadableWritable on an existing path, no write faults.
     OpenReadWriteFile initialises instead of resuming when the file is empty. *)
  Definition reopen (k : skind) (o : wopts) (nilroots : bool) (roots : list bytes) (file : bytes)
    : wstate + (err * dev) :=
    match k, file with
    | KBlockstore, [] =>
        match open_new k o nilroots roots [] with
        | Ok s => inl s
        | Err e => inr (e, mkdev [] [] [])
        end
    | _, _ => resume hdrdec k true o roots file []
    end.

  (* a session cut into segments: puts, then Discard or Finalize, then reopen with the same
     roots and options.  None = some reopen failed. *)
  Fixpoint run_segs (nilroots : bool) (s : wstate) (segs : list (list (bytes * bytes) * cut))
    : option wstate :=
    match segs with
    | [] => Some s
    | (bs, c) :: t =>
      let s1 := end_seg c (run_puts s bs) in
      match reopen (ws_kind s) (ws_opts s) nilroots (ws_roots s) (ws_file s1) with
      | inl s2 => run_segs nilroots s2 t
      | inr _ => None
      end
    end.

  (* the part of Resume that runs before its first write (ResumableVersion, CARv2 header probe and
     padding comparison, inner header read, Matches): Err = refused, Ok = (header found in the
     file, roots of the inner header).  ResumeReject.v proves resume = inr (e, untouched device)
     whenever this is Err e. *)
  Definition resume_checks (can_truncate : bool) (o : wopts) (roots : list bytes) (file : bytes)
    : res (option v2hdr * list bytes) :=
    match read_header hdrdec (w_maxh o) file with
    | Err e => Err e
    | Ok (_, ver, _, _) =>
      if negb (((ver =? 1) && w_v1 o) || ((ver =? 2) && negb (w_v1 o))) then Err EOther else
      let probe : res (option v2hdr) :=
        if w_v1 o then Ok None
        else if negb can_truncate then Err EOther
        else match read_v2hdr (drop pragma_size file) with
             | Ok (h, _) => if negb (h_doff h =? data_base o) then Err EOther else Ok (Some h)
             | Err _ => Ok None
             end in
      match probe with
      | Err e => Err e
      | Ok hin =>
        match read_header hdrdec (w_maxh o) (drop (data_base o) file) with
        | Err e => Err (match e with EEof => EOther | _ => e end)   (* wrapped with %w, as in Store.resume *)
        | Ok (hroots, hver, _, _) =>
          if negb (header_matches hroots hver roots) then Err EOther else Ok (hin, hroots)
        end
      end
    end.

  (* C12 guard: what Resume finds at the data offset implied by the caller's padding -- a CARv1
     header that matches the requested roots? *)
  Definition header_at (o' : wopts) (roots' : list bytes) (file : bytes) : bool :=
    match read_header hdrdec (w_maxh o') (drop (data_base o') file) with
    | Ok (hroots, hver, _, _) => header_matches hroots hver roots'
    | Err _ => false
    end.

  (* the check of [resume_checks] that refuses, None = no check refuses (ResumeReject.refusal_checks:
     resume_checks = Err (refusal_err r) exactly when this is Some r) *)
  Definition resume_refusal (can_truncate : bool) (o : wopts) (roots : list bytes) (file : bytes)
    : option refusal :=
    match read_header hdrdec (w_maxh o) file with
    | Err e => Some (RFirstHeader e)
    | Ok (_, ver, _, _) =>
      if negb (((ver =? 1) && w_v1 o) || ((ver =? 2) && negb (w_v1 o))) then Some RVersion else
      let probe : option refusal :=
        if w_v1 o then None
        else if negb can_truncate then Some RNoTruncate
        else match read_v2hdr (drop pragma_size file) with
             | Ok (h, _) => if negb (h_doff h =? data_base o) then Some RDataOffset else None
             | Err _ => None
             end in
      match probe with
      | Some r => Some r
      | None =>
        match read_header hdrdec (w_maxh o) (drop (data_base o) file) with
        | Err e => Some (RDataHeader e)
        | Ok (hroots, hver, _, _) =>
          if negb (header_matches hroots hver roots) then Some RMismatch else None
        end
      end
    end.
  (* OpenReadWrite / OpenReadableWritable on an existing file (both can truncate) *)
  Definition reopen_refusal := resume_refusal true.

  (* C12: the refusal a non-finalized file meets at the data offset implied by the caller's padding *)
  Definition refusal_at (o' : wopts) (roots' : list bytes) (file : bytes) : refusal :=
    match read_header hdrdec (w_maxh o') (drop (data_base o') file) with
    | Ok _ => RMismatch
    | Err e => RDataHeader e
    end.
  (* ... and the refusal a padding mismatch meets: on a finalized file the data offset recorded in
     the CARv2 header, on a non-finalized one whatever the bytes at the caller's offset amount to *)
  Definition padding_refusal (o' : wopts) (roots' : list bytes) (file : bytes) : refusal :=
    if finalized_file file then RDataOffset else refusal_at o' roots' file.
End Sessions.

(* ================================ C06: crash images ============================================ *)
(* the write sequence crash images are built from is the device log (Store.writes_of): every
   underlying WriteAt / Truncate in issue order.  A crash leaves the first k writes and the first
   t bytes of write k+1 (a truncation is atomic). *)
Definition apply_torn (f : bytes) (w : wr) (t : N) : bytes :=
  match w with WrAt off d => write_at f off (take t d) | Trunc _ => f end.
Fixpoint image (f0 : bytes) (ws : list wr) (k : nat) (t : N) : bytes :=
  match ws with
  | [] => f0
  | w :: rest =>
    match k with
    | O => apply_torn f0 w t
    | S k' => image (apply_wr f0 w) rest k' t
    end
  end.

(* granularity-free coordinate of a crash point: u units of the write stream (one per byte
   written, one per truncation) *)
Definition wr_units (w : wr) : N := match w with WrAt _ d => blen d | Trunc _ => 1 end.
Fixpoint pt_of_units (ws : list wr) (u : N) : nat * N :=
  match ws with
  | [] => (O, 0)
  | w :: rest =>
    if u <? wr_units w then (O, u)
    else let '(k, t) := pt_of_units rest (u - wr_units w) in (S k, t)
  end.
Definition total_units (ws : list wr) : N := fold_left (fun a w => a + wr_units w) ws 0.

(* contiguous writes merged (empty writes dropped): the form in which the model's write order is
   compared with the observed one *)
Fixpoint merge_writes (ws : list wr) : list wr :=
  match ws with
  | [] => []
  | WrAt _ [] :: rest => merge_writes rest
  | WrAt off d :: rest =>
    match merge_writes rest with
    | WrAt off2 d2 :: more => if off2 =? off + blen d then WrAt off (d ++ d2) :: more
                              else WrAt off d :: WrAt off2 d2 :: more
    | other => WrAt off d :: other
    end
  | Trunc n :: rest => Trunc n :: merge_writes rest
  end.

(* a writing session whose last process is the one that crashes *)
Record csess := mkcs {
  cs_kind : skind; cs_opts : wopts; cs_nil : bool; cs_roots : list bytes;
  cs_pre : list (list (bytes * bytes) * cut);   (* earlier processes, each ended by Discard/Finalize *)
  cs_puts : list (bytes * bytes);               (* the puts of the crashing process *)
  cs_fin : bool }.                              (* ... followed by Finalize *)

Definition loglen (s : wstate) : nat := length (d_log (ws_dev s)).
Definition is_onil (r : out) : bool := match r with ONil => true | _ => false end.

(* the blocks whose Put returned nil *)
Fixpoint puts_acked (s : wstate) (bs : list (bytes * bytes)) : list (bytes * bytes) :=
  match bs with
  | [] => []
  | b :: r => let '(s', ro) := fe_put s b in
              if is_onil ro then b :: puts_acked s' r else puts_acked s' r
  end.

(* number of leading puts whose writes all lie within the first k writes issued from state s on *)
Fixpoint done_puts (s : wstate) (bs : list (bytes * bytes)) (k : nat) : nat :=
  match bs with
  | [] => O
  | b :: r => let s' := fst (fe_put s b) in
              let n := (loglen s' - loglen s)%nat in
              if (n <=? k)%nat then S (done_puts s' r (k - n)) else O
  end.

Inductive cclass :=
| COpen        (* inside the writes of a fresh open (pragma, CARv1 header) *)
| CResume      (* inside the writes Resume itself issued (truncate, header zeroing) *)
| CBoundary    (* at a section boundary, before Finalize's first write *)
| CHead        (* inside the length varint or the CID of a section *)
| CData        (* CID complete, data incomplete *)
| CIndex       (* Finalize has begun, no valid header yet (index being written / header not begun) *)
| CHeader      (* inside the final 24-byte header write *)
| CComplete.   (* all writes done *)

(* where write k+1 (counted from state s on; t bytes of it done) falls within the puts;
   None = all the puts' writes are within the first k *)
Fixpoint put_class (s : wstate) (bs : list (bytes * bytes)) (k : nat) (t : N) : option cclass :=
  match bs with
  | [] => None
  | (c, d) :: r =>
    let s' := fst (fe_put s (c, d)) in
    let n := (loglen s' - loglen s)%nat in
    if (n <=? k)%nat then put_class s' r (k - n) t
    else match k with
         | O => Some (if t =? 0 then CBoundary else CHead)
         | S O => Some (if t <? blen c then CHead else if blen d =? 0 then CBoundary else CData)
         | _ => Some (if blen d <=? t then CBoundary else CData)
         end
  end.

Section Crash.
  Variable hdrdec : bytes -> option (list bytes * N).

  (* (file the last process started from, its start state, blocks acknowledged by earlier processes) *)
  Fixpoint run_segs_f (nilroots : bool) (f0 : bytes) (s : wstate) (acked : list (bytes * bytes))
           (segs : list (list (bytes * bytes) * cut)) : option (bytes * wstate * list (bytes * bytes)) :=
    match segs with
    | [] => Some (f0, s, acked)
    | (bs, c) :: t =>
      let s1 := end_seg c (run_puts s bs) in
      match reopen hdrdec (ws_kind s) (ws_opts s) nilroots (ws_roots s) (ws_file s1) with
      | inl s2 => run_segs_f nilroots (ws_file s1) s2 (acked ++ puts_acked s bs) t
      | inr _ => None
      end
    end.

  Definition cs_start (x : csess) : option (bytes * wstate * list (bytes * bytes)) :=
    match open_new (cs_kind x) (cs_opts x) (cs_nil x) (cs_roots x) [] with
    | Err _ => None
    | Ok s0 => run_segs_f (cs_nil x) [] s0 [] (cs_pre x)
    end.

  Definition cs_after_puts (x : csess) (start : wstate) : wstate := run_puts start (cs_puts x).
  Definition cs_end (x : csess) (start : wstate) : wstate :=
    let sp := cs_after_puts x start in if cs_fin x then fst (fe_finalize sp) else sp.
  (* every write the crashing process issued, in order *)
  Definition cs_writes (x : csess) (start : wstate) : list wr := writes_of (ws_dev (cs_end x start)).

  Definition crash_class (x : csess) (start : wstate) (k : nat) (t : N) : cclass :=
    let sp := cs_after_puts x start in
    let se := cs_end x start in
    if (loglen se <=? k)%nat then CComplete
    else if (k <? loglen start)%nat then (match cs_pre x with [] => COpen | _ => CResume end)
    else match put_class start (cs_puts x) (k - loglen start) t with
         | Some cl => cl
         | None =>
           (* loglen sp <= k < loglen se: Finalize's writes *)
           if (k =? loglen sp)%nat && (t =? 0) then CBoundary
           else if (S k =? loglen se)%nat then
             (if t =? 0 then CIndex else if t <? 24 then CHeader else CComplete)
           else CIndex
         end.

  (* the executable guard of C06_partial *)
  Definition crash_guard (x : csess) (start : wstate) (k : nat) (t : N) : bool :=
    match crash_class x start k t with COpen | CResume | CBoundary | CHead => true | _ => false end.

  (* blocks whose Put had returned when the crash happened / blocks ever handed to Put *)
  (* number of puts of the crashing process that had returned when write k+1 was being issued *)
  Definition cs_done (x : csess) (start : wstate) (k : nat) : nat :=
    if (k <? loglen start)%nat then O else done_puts start (cs_puts x) (k - loglen start).
  Definition cs_acked (x : csess) (start : wstate) (acked_pre : list (bytes * bytes)) (k : nat)
    : list (bytes * bytes) :=
    acked_pre ++ puts_acked start (firstn (cs_done x start k) (cs_puts x)).
  Definition cs_attempted (x : csess) : list (bytes * bytes) :=
    concat (map fst (cs_pre x)) ++ cs_puts x.

  (* ---- reference decode of the file a continued session finalizes ---------------------------- *)
  Fixpoint ref_sections (fuel : nat) (s : bytes) (off : N) : option (list (bytes * cidp * bytes * N)) :=
    match fuel with
    | O => None
    | S f =>
      match s with
      | [] => Some []
      | _ =>
        match read_node false two63 s with
        | Err _ => None
        | Ok (c, p, d, rest) =>
          match ref_sections f rest (off + section_size c d) with
          | Some l => Some ((c, p, d, off) :: l)
          | None => None
          end
        end
      end
    end.

  Definition block_eqb (a b : bytes * bytes) : bool := bytes_eqb (fst a) (fst b) && bytes_eqb (snd a) (snd b).
  Definition block_in (b : bytes * bytes) (l : list (bytes * bytes)) : bool := existsb (block_eqb b) l.

  (* is block b retrievable from these sections under the store's key rule, with its own bytes *)
  Definition retrievable (whole : bool) (secs : list (bytes * cidp * bytes * N)) (b : bytes * bytes) : bool :=
    match cid_parse (fst b) with
    | None => false
    | Some kp =>
      existsb (fun e => let '(c, p, d, _) := e in key_matches whole (fst b) kp c p && bytes_eqb d (snd b)) secs
    end.

  (* well-formed final archive: container arithmetic, payload = header + sections up to exactly
     DataSize, every section is a block that was put (same bytes), every block in [must] is
     retrievable, the index resolves every indexed section to its offset *)
  Definition wf_final (o : wopts) (roots : list bytes) (allowed must : list (bytes * bytes)) (file : bytes) : bool :=
    let check_payload (payload : bytes) (idx : option index) : bool :=
      match read_header hdrdec (w_maxh o) payload with
      | Err _ => false
      | Ok (hroots, hver, rest, used) =>
        header_matches hroots hver roots &&
        match ref_sections (S (length rest)) rest used with
        | None => false
        | Some secs =>
          forallb (fun e => let '(c, _, d, _) := e in block_in (c, d) allowed) secs &&
          forallb (retrievable (w_whole o) secs) must &&
          match idx with
          | None => true
          | Some i =>
            forallb (fun e => let '(_, p, _, off) := e in
                       (negb (w_storeid o) && is_identity p) ||
                       existsb (N.eqb off) (idx_getall i (c_mhcode p) (c_digest p))) secs
          end
        end
      end in
    if w_v1 o then check_payload file None
    else
      match read_header hdrdec default_maxh file with
      | Ok (_, 2, _, _) =>
        match read_v2hdr (drop pragma_size file) with
        | Err _ => false
        | Ok (h, _) =>
          (h_doff h =? data_base o) && (h_doff h + h_dsize h <=? blen file) &&
          let payload := take (h_dsize h) (drop (h_doff h) file) in
          if has_index h then
            (h_doff h + h_dsize h <=? h_ioff h) &&
            match idx_read (drop (h_ioff h) file) with
            | Ok (i, _) => check_payload payload (Some i)
            | Err _ => false
            end
          else check_payload payload None
        end
      | _ => false
      end.
End Crash.
