(* run entry for the round trip (C01, kind "rt"): one writer's output through every reader.
   input  = (wkind wopts roots batches visits hoktab hdrtab)
     wkind   : 0 blockstore.ReadWrite | 1 storage NewReadableWritable | 2 storage NewWritable on a file
               | 3 storage NewWritable on a stream | 4 deferred writer for a path | 5 deferred writer for a
               stream | 7 root car.WriteCar / WriteCarWithWalker
     wopts   : Store.wopts row (RunStore.v_wopts); for wkind 7 only its roots matter
     roots   : (cid ...) or tnil
     batches : (((cid data) ...) ...)   the put history (wkind 0..5)
     visits  : (((cid data) ...) ok)    wkind 7: the CIDs merkledag's walk presented, with the bytes the
               node getter holds (the traversal oracle), and whether the walk returned nil
   output = (file window blockreader rootreader loadslow loadfast readonly storage)
     file        b<bytes> | (terr class)          what the writer produced
     window      b<bytes> | (terr class)          Reader.DataReader, read to the end
     blockreader (tok ver roots (blocks end)) | (topenerr e)
     rootreader  (tok n1 roots (blocks end)) | (topenerr e)       car.NewCarReader + Next over the window
     loadslow/fast ((tok roots)|(terr e) (batch ...))          car.LoadCar into a logging store
     readonly    (tok roots keysout (get ...)) | (topenerr e)  Roots, AllKeysChan, Get of each listed key
     storage     (tok roots (get ...)) | (topenerr e)          Roots, Get of each CID the block reader returned *)
From Coq Require Import Strings.String.
From GoCar Require Import Bytes Varint Cid Header Frame V2Header Scan Index Store ReadOnly RootLoad
  Traversal Wf Val RunStore RunScan RunRo RunFinal.

Definition rt_ropts : ropts := default_ropts.
Definition rt_qopts (o : wopts) : qopts :=
  mkq (w_whole o) (w_storeid o) false default_maxh default_maxs 2048 codec_mh_sorted.

Definition v_res_cids (r : res (list bytes)) : val :=
  match r with Ok roots => VL [VT "ok"; v_cids roots] | Err e => VL [VT "err"; v_err e] end.

Definition rt_no_puts (input : val) : bool :=
  forallb (fun b : batch => match b with [] => true | _ => false end) (v_batches (vnth 3 input)).

Section Run.
  Variable hok : bytes -> bytes -> option bool.
  Variable hdrdec : bytes -> option (list bytes * N).

  (* the writer: Ok file | Err class *)
  Definition rt_write (input : val) : res bytes :=
    let wk := vN (vnth 0 input) in
    let o := v_wopts (vnth 1 input) in
    let roots := vcids (vnth 2 input) in
    let nilroots := is_nil_tag (vnth 2 input) in
    if wk =? 7 then
      let vs := vblocks (vnth 0 (vnth 4 input)) in
      let '(out, ok) := write_car (roots_opt nilroots roots) vs (vbool (vnth 1 (vnth 4 input))) in
      if ok then Ok out else Err EOther
    else if ((wk =? 4) || (wk =? 5)) && rt_no_puts input then Ok []   (* the deferred writer is lazy (C20_lazy) *)
    else
      match session (v_fkind wk) o nilroots roots (v_batches (vnth 3 input)) with
      | Err e => Err e
      | Ok (s, _, ONil) => Ok (ws_file s)
      | Ok (_, _, _) => Err EOther
      end.

  Definition rt_window (file : bytes) : res bytes :=
    match new_reader hdrdec default_maxh file with
    | Ok r => Ok (data_window r)
    | Err e => Err e
    end.

  Definition rt_blockreader (file : bytes) : val :=
    match br_read_all hok hdrdec rt_ropts file with
    | Err e => VL [VT "openerr"; v_err e]
    | Ok (v, roots, s) => VL [VT "ok"; VN v; v_cids roots; v_scan s]
    end.
  (* the CIDs a storage reader is asked for: those the block reader returned *)
  Definition rt_cids (file : bytes) : list bytes :=
    match br_read_all hok hdrdec rt_ropts file with
    | Ok (_, _, s) => map fst (s_blocks s)
    | Err _ => []
    end.

  Definition rt_rootreader (win : bytes) : val :=
    match root_read_all hok hdrdec win with
    | Err e => VL [VT "openerr"; v_err e]
    | Ok (roots, s) => VL [VT "ok"; VN 1; v_cids roots; v_scan s]
    end.

  Definition rt_load (fast : bool) (win : bytes) : val :=
    let '(r, puts) := load_car hok hdrdec fast win in
    VL [v_res_cids r; VL (map v_blocks puts)].

  Definition rt_readonly (q : qopts) (file : bytes) : val :=
    match ro_open hdrdec q file None with
    | Err e => VL [VT "openerr"; v_err e]
    | Ok s =>
      let ks := ro_keys hdrdec s in
      let keys := match ks with KKeys l _ => l | KOpenErr _ => [] end in
      VL [VT "ok"; v_out (ro_roots hdrdec s); v_keys_out ks; VL (map (fun k => v_out (ro_get s k)) keys)]
    end.

  Definition rt_storage (q : qopts) (file : bytes) : val :=
    match sto_open hdrdec q file with
    | Err e => VL [VT "openerr"; v_err e]
    | Ok s => VL [VT "ok"; v_out (sto_roots s); VL (map (fun k => v_out (sto_get s k)) (rt_cids file))]
    end.

  Definition v_res_bytes (r : res bytes) : val :=
    match r with Ok b => VB b | Err e => VL [VT "err"; v_err e] end.

  Definition run_rt_with (input : val) : val :=
    let q := rt_qopts (v_wopts (vnth 1 input)) in
    match rt_write input with
    | Err e => VL [VL [VT "err"; v_err e]]
    | Ok file =>
      let win := rt_window file in
      let w := match win with Ok b => b | Err _ => [] end in
      VL [VB file; v_res_bytes win; rt_blockreader file; rt_rootreader w; rt_load false w; rt_load true w;
          rt_readonly q file; rt_storage q file]
    end.
End Run.

Definition run_rt (input : val) : val :=
  run_rt_with (hok_lookup (vL (vnth 5 input))) (hdr_lookup (vL (vnth 6 input))) input.

(* ---- layer B: the property on what the implementation produced ------------------------------------ *)
Local Open Scope string_scope.

(* the logical content after the documented de-duplication *)
Definition rt_stored (input : val) : list block :=
  let wk := vN (vnth 0 input) in
  let o := v_wopts (vnth 1 input) in
  let ro := v_roots_opt (vnth 2 input) in
  if N.eqb wk 7 then first_occ (vblocks (vnth 0 (vnth 4 input)))
  else spec_stored (v_fkind wk) o ro (v_batches (vnth 3 input)).

Definition is_err (v : val) : bool := tag_is v "err" || tag_is v "openerr".

Definition scan_is (v : val) (bs : list block) : bool :=
  match v with
  | VL [blocks; VT e] => blocks_eq (vblocks blocks) bs && String.eqb e "eof"
  | _ => false
  end.

Definition gets_are (v : val) (bs : list block) : bool :=
  (N.eqb (N.of_nat (length (vL v))) (N.of_nat (length bs))) &&
  forallb (fun xy => val_is_bytes (fst xy) (snd (snd xy))) (combine (vL v) bs).

Definition rt_fail (clause : string) : val := VL [VT "FAIL"; VT clause; VT ""].

Definition prop_rt (input obs : val) : val :=
  let wk := vN (vnth 0 input) in
  let o := v_wopts (vnth 1 input) in
  let roots := vcids (vnth 2 input) in
  let ro := v_roots_opt (vnth 2 input) in
  let hok := hok_lookup (vL (vnth 5 input)) in
  let stored := rt_stored input in
  let v2 := negb (N.eqb wk 7) && negb (w_v1 o) in
  let stream_v2 := (N.eqb wk 3 || N.eqb wk 5) && negb (w_v1 o) in
  let walk_failed := N.eqb wk 7 && negb (vbool (vnth 1 (vnth 4 input))) in
  let lazy := (N.eqb wk 4 || N.eqb wk 5) && rt_no_puts input in  (* deferred writer without a Put: no output *)
  if stream_v2 || walk_failed || lazy then VT "ok"              (* refused / lazy: nothing was produced *)
  else if negb (N.eqb wk 7) && negb (w_v1 o) &&
          match idx_new (w_codec o) with None => true | Some _ => false end then VT "ok"
  else if is_err (vnth 0 obs) then rt_fail "writer-failed"
  else
    let payload := payload_opt ro stored in
    (* all writers: the same CARv1 payload for the same logical content *)
    if negb (val_is_bytes (VL [VT "bytes"; vnth 1 obs]) payload) then rt_fail "payload-differs"
    else if negb v2 && negb (bytes_eqb (vB (vnth 0 obs)) payload) then rt_fail "carv1-file-is-not-the-payload"
    else
      let readable := readable_b hok roots stored in
      let br := vnth 2 obs in
      if readable &&
         negb (tag_is br "ok" && N.eqb (vN (vnth 1 br)) (if v2 then 2 else 1) &&
               cids_eq (vcids (vnth 2 br)) roots && scan_is (vnth 3 br) stored)
      then rt_fail "block-reader-read-back-differs"
      else
        let rr := vnth 3 obs in
        let root_ok := match roots with [] => false | _ => true end in
        if readable && root_ok && negb (tag_is rr "ok" && cids_eq (vcids (vnth 2 rr)) roots && scan_is (vnth 3 rr) stored)
        then rt_fail "root-reader-read-back-differs"
        else if readable && negb root_ok && negb (is_err rr) then rt_fail "root-reader-accepted-empty-roots"
        else
          let chk_load (lv : val) : bool :=
            tag_is (vnth 0 lv) "ok" && cids_eq (vcids (vnth 1 (vnth 0 lv))) roots &&
            blocks_eq (concat (map vblocks (vL (vnth 1 lv)))) stored in
          if readable && root_ok && negb (chk_load (vnth 4 obs) && chk_load (vnth 5 obs))
          then rt_fail "loadcar-read-back-differs"
          else
            (* the content conditions of the random-access read-back theorems (C01_roundtrip_*_dec), in their
               decidable form: they hold of hash-consistent blocks, so a failure here is the generator's *)
            if readable && negb (consistentb stored && id_consistentb stored) then rt_fail "stored-blocks-not-consistent"
            else
            let rov := vnth 6 obs in
            let keys_ok := match vnth 2 rov with
                           | VL [VT t; ks; VT e] => String.eqb t "keys" && String.eqb e "nil" &&
                                                    cids_eqb (vcids ks) (ref_keys (w_whole o) stored)
                           | _ => false end in
            let roots_ok (v : val) := match v with
                                      | VL [VT t; rs] => String.eqb t "keys" && cids_eqb (vcids rs) roots
                                      | _ => false end in
            if negb (tag_is rov "ok" && roots_ok (vnth 1 rov) && keys_ok && gets_are (vnth 3 rov) stored)
            then rt_fail "readonly-blockstore-read-back-differs"
            else
              let sv := vnth 7 obs in
              if readable && negb (tag_is sv "ok" && roots_ok (vnth 1 sv) && gets_are (vnth 2 sv) stored)
              then rt_fail "readable-storage-read-back-differs"
              else VT "ok".

(* ---- kind "rtload": many-block archives through the sequential readers only --------------------------
   (the writers' sessions and the random-access stores are quadratic in the extracted list model; the
   root loader's batching needs > 1000 blocks)
   input  = (roots blocks file)   file = what a real writer produced from the distinct blocks; the harness
            has checked that every block hashes to its CID, which is the hash oracle of these cases (a
            2005-entry table would make every lookup linear)
   output = (window-length (count first last end) loadslow loadfast) *)
Definition v_scan_summary (s : scan_out) : val :=
  VL [VN (N.of_nat (length (s_blocks s)));
      match s_blocks s with b :: _ => v_block b | [] => VL [] end;
      v_block (last (s_blocks s) ([], []));
      v_err (s_end s)].

Definition run_rtload (input : val) : val :=
  let hok : bytes -> bytes -> option bool := fun _ _ => Some true in
  let hdr := hdr_lookup [] in
  let file := vB (vnth 2 input) in
  let w := match rt_window hdr file with Ok b => b | Err _ => [] end in
  VL [VN (blen w);
      match br_read_all hok hdr rt_ropts file with
      | Err e => VL [VT "openerr"; v_err e]
      | Ok (_, _, s) => v_scan_summary s
      end;
      rt_load hok hdr false w; rt_load hok hdr true w].

Definition prop_rtload (input obs : val) : val :=
  let roots := vcids (vnth 0 input) in
  let bs := vblocks (vnth 1 input) in
  let file := vB (vnth 2 input) in
  let payload := payload_opt (Some roots) bs in
  let w := match rt_window (hdr_lookup []) file with Ok b => b | Err _ => [] end in
  if negb (bytes_eqb w payload) then rt_fail "payload-differs"
  else
    let br := vnth 1 obs in
    if negb (N.eqb (vN (vnth 0 br)) (N.of_nat (length bs)) &&
             blocks_eq (vblocks (VL [vnth 1 br; vnth 2 br]))
                       [hd ([], []) bs; last bs ([], [])] && tag_is (VL [vnth 3 br]) "eof")
    then rt_fail "block-reader-read-back-differs"
    else
      let chk_load (lv : val) : bool :=
        tag_is (vnth 0 lv) "ok" && cids_eq (vcids (vnth 1 (vnth 0 lv))) roots &&
        blocks_eq (concat (map vblocks (vL (vnth 1 lv)))) bs in
      if chk_load (vnth 2 obs) && chk_load (vnth 3 obs) then VT "ok" else rt_fail "loadcar-read-back-differs".

(* ---- kind "rtread": a damaged writer output through every reader (model = code only) ------------------
   input  = (file whole storeid hoktab hdrtab)
   output = (window blockreader rootreader loadslow loadfast readonly storage), as in run_rt after the file *)
Definition run_rtread (input : val) : val :=
  let file := vB (vnth 0 input) in
  let hok := hok_lookup (vL (vnth 3 input)) in
  let hdr := hdr_lookup (vL (vnth 4 input)) in
  let q := mkq (vbool (vnth 1 input)) (vbool (vnth 2 input)) false default_maxh default_maxs 2048 codec_mh_sorted in
  let win := rt_window hdr file in
  let w := match win with Ok b => b | Err _ => [] end in
  VL [v_res_bytes win; rt_blockreader hok hdr file; rt_rootreader hok hdr w; rt_load hok hdr false w;
      rt_load hok hdr true w; rt_readonly hdr q file; rt_storage hok hdr q file].

Definition prop_rtread (input obs : val) : val := VT "ok".

(* ---- kind "rthist": several sequential readers of one kind alive at once, interleaved ------------------
   input  = (kind ropts files sched hoktab hdrtab expect)
     kind   : 0 root car.CarReader | 1 internal carv1.CarReader | 2 v2 BlockReader
     files  : (b<file> ...)           one archive per reader
     sched  : ((n<i> topen) | (n<i> tnext) ...)   reader i is created / asked for its next block
     expect : ((roots blocks) ...) per reader, or tnone
   output = ((troots cids) | (tblock cid data) | (terr class) ...), one answer per scheduled operation *)
From GoCar Require Import ReaderHist.

Definition v_rkind (n : N) : rkind := if N.eqb n 0 then KRoot else if N.eqb n 1 then KCarv1 else KBlock.
Definition v_rhop (v : val) : rhop := if is_tagf v "open" then HOpen else HNext.
Definition v_rhans (a : rhans) : val :=
  match a with
  | HRoots r => VL [VT "roots"; v_cids r]
  | HBlock b => VL [VT "block"; VB (fst b); VB (snd b)]
  | HErr e => VL [VT "err"; v_err e]
  end.
Definition v_sched (v : val) : list (nat * rhop) :=
  map (fun x => (N.to_nat (vN (vnth 0 x)), v_rhop (vnth 1 x))) (vL v).

Definition run_rthist (input : val) : val :=
  let k := v_rkind (vN (vnth 0 input)) in
  let o := v_ropts (vnth 1 input) in
  let hok := hok_lookup (vL (vnth 4 input)) in
  let hdr := hdr_lookup (vL (vnth 5 input)) in
  let sts := map (fun f => mkrh (vB f) None) (vL (vnth 2 input)) in
  VL (map (fun ia => v_rhans (snd ia))
          (run_multi rhstate rhans rhop (rh_step hok hdr k o) sts (v_sched (vnth 3 input)))).

(* layer B: every reader, taken by itself, answers the roots when opened, then its archive's blocks in
   order, then io.EOF for every further Next -- whatever the other readers are doing *)
Definition rh_expected (roots : list bytes) (bs : list block) (ops : list rhop) : list val :=
  (fix go (ops : list rhop) (rest : list block) (opened : bool) : list val :=
     match ops with
     | [] => []
     | HOpen :: t => VL [VT "roots"; v_cids roots] :: go t bs true
     | HNext :: t =>
         match rest with
         | b :: r => VL [VT "block"; VB (fst b); VB (snd b)] :: go t r opened
         | [] => VL [VT "err"; VT "eof"] :: go t [] opened
         end
     end) ops bs false.

Fixpoint vals_eqb (a b : list val) : bool :=
  match a, b with
  | [], [] => true
  | x :: a', y :: b' => val_eqb x y && vals_eqb a' b'
  | _, _ => false
  end.

Definition prop_rthist (input obs : val) : val :=
  let expect := vnth 6 input in
  match expect with
  | VL per =>
    let sched := v_sched (vnth 3 input) in
    let tagged := combine (map fst sched) (vL obs) in
    let bad := existsb (fun ie =>
                 let i := fst ie in let e := snd ie in
                 negb (vals_eqb (proj i tagged)
                                (rh_expected (vcids (vnth 0 e)) (vblocks (vnth 1 e)) (proj i sched))))
               (combine (seq 0 (length per)) per) in
    if negb (N.eqb (N.of_nat (length (vL obs))) (N.of_nat (length sched))) then rt_fail "answer-count-mismatch"
    else if bad then rt_fail "reader-history-differs-from-its-archive" else VT "ok"
  | _ => VT "ok"
  end.

(* ---- kind "rtpos": a seekable source positioned at the CAR, behind a preamble --------------------------
   input  = (entry file ropts hoktab hdrtab expect preamble srckind)
     srckind : 0 bytes.Reader after Seek | 1 *os.File after Seek | 2 SectionReader over everything after Seek |
               3 SectionReader starting at the CAR        (the model does not distinguish them)
     entry : 0 NewBlockReader + Next to the end | 1 ReadVersion | 2 GenerateIndex (default options) + index.WriteTo
   output = entry 0: as kind scan | entry 1: (tok n<version>) | (terr class) | entry 2: (tok b<index bytes>) | (terr class)
   model: the reader starts where the source stands -- it sees positioned (preamble ++ file) |preamble| *)
Definition run_rtpos (input : val) : val :=
  let entry := vN (vnth 0 input) in
  (* the source holds the preamble (field 6) followed by the CAR (field 1) and stands at the CAR *)
  let pre := vB (vnth 6 input) in
  let file := positioned (List.app pre (vB (vnth 1 input))) (blen pre) in
  let o := v_ropts (vnth 2 input) in
  let hok := hok_lookup (vL (vnth 3 input)) in
  let hdr := hdr_lookup (vL (vnth 4 input)) in
  if N.eqb entry 0 then
    match br_read_all hok hdr o file with
    | Err e => VL [VT "openerr"; v_err e]
    | Ok (v, roots, s) => VL [VT "ok"; VN v; v_cids roots; v_scan s]
    end
  else if N.eqb entry 1 then
    match read_header hdr (o_maxh o) file with
    | Ok (_, v, _, _) => VL [VT "ok"; VN v]
    | Err e => VL [VT "err"; v_err e]
    end
  else
    match gen_flat hdr (mkq false false false default_maxh default_maxs 2048 codec_mh_sorted) 0 file with
    | Ok (RFlat i) => VL [VT "ok"; VB (idx_write i)]
    | Ok (RIns _) => VL [VT "err"; v_err EOracleMiss]
    | Err e => VL [VT "err"; v_err e]
    end.

(* input field 5: tnone | (tvalid version roots blocks) *)
Definition prop_rtpos (input obs : val) : val :=
  let expect := vnth 5 input in
  if negb (tag_is expect "valid") then VT "ok"
  else if N.eqb (vN (vnth 0 input)) 0 then
    if tag_is obs "ok" && N.eqb (vN (vnth 1 obs)) (vN (vnth 1 expect)) &&
       cids_eq (vcids (vnth 2 obs)) (vcids (vnth 2 expect)) && scan_is (vnth 3 obs) (vblocks (vnth 3 expect))
    then VT "ok" else rt_fail "positioned-block-reader-read-back-differs"
  else if N.eqb (vN (vnth 0 input)) 1 then
    if tag_is obs "ok" && N.eqb (vN (vnth 1 obs)) (vN (vnth 1 expect)) then VT "ok"
    else rt_fail "positioned-read-version-differs"
  else
    (* the index generated from a positioned source is the index of the CAR: the same bytes as generated
       from the CAR alone (the model's) *)
    match gen_flat (hdr_lookup (vL (vnth 4 input))) (mkq false false false default_maxh default_maxs 2048 codec_mh_sorted)
                   0 (vB (vnth 1 input)) with
    | Ok (RFlat i) => if val_is_bytes (VL [VT "bytes"; vnth 1 obs]) (idx_write i) && tag_is obs "ok" then VT "ok"
                      else rt_fail "positioned-generate-index-differs"
    | _ => VT "ok"
    end.
