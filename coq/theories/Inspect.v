(* v2/reader.go: NewReader and Reader.Inspect(validateBlockHash) with every Stats field, and
   the statistics a scan's block list determines (layer B).

   Modelled as repaired by notes/fixes/C13-*.patch (each repair is marked FIX below; the
   unrepaired behaviour is described next to it). *)
From GoCar Require Import Bytes Varint Cid Header Frame V2Header Scan.

(* Reader{Version, Header}: Header stays zero-valued for a CARv1 *)
Record rdr := mkrdr { r_version : N; r_hdr : v2hdr }.
Definition zero_v2hdr : v2hdr := mkv2 0 0 0 0 0.

(* Stats *)
Record stats := mkstats {
  t_version : N; t_header : v2hdr; t_roots : list bytes; t_roots_present : bool;
  t_count : N;
  t_codecs : list (N * N);      (* CodecCounts, ascending key *)
  t_mhtypes : list (N * N);     (* MhTypeCounts, ascending key *)
  t_avg_cid : N; t_max_cid : N; t_min_cid : N;
  t_avg_blk : N; t_max_blk : N; t_min_blk : N;
  t_index_codec : N
}.

(* map[multicodec.Code]uint64 as an association list in ascending key order *)
Fixpoint count_add (k : N) (m : list (N * N)) : list (N * N) :=
  match m with
  | [] => [(k, 1)]
  | (k', n) :: t =>
      if k =? k' then (k', n + 1) :: t
      else if k <? k' then (k, 1) :: m
      else (k', n) :: count_add k t
  end.

(* the running variables of Inspect's loop *)
Record iacc := mkiacc {
  a_present : list bool;        (* rootsPresent *)
  a_present_count : N;          (* rootsPresentCount *)
  a_count : N;                  (* stats.BlockCount *)
  a_codecs : list (N * N); a_mhtypes : list (N * N);
  a_tot_cid : N; a_tot_blk : N;
  a_min_cid : N; a_max_cid : N; a_min_blk : N; a_max_blk : N
}.
Definition max_uint64 : N := two64 - 1.
Definition iacc0 (roots : list bytes) : iacc :=
  mkiacc (map (fun _ => false) roots) 0 0 [] [] 0 0 max_uint64 0 max_uint64 0.

(* for i, r := range roots { if !rootsPresent[i] && c == r { rootsPresent[i] = true; count++ } } *)
Fixpoint mark_roots (c : bytes) (roots : list bytes) (present : list bool) : list bool * N :=
  match roots, present with
  | r :: roots', p :: present' =>
      let (ps, k) := mark_roots c roots' present' in
      if negb p && bytes_eqb c r then (true :: ps, k + 1) else (p :: ps, k)
  | _, _ => (present, 0)
  end.

(* one accepted section: CID bytes c with parts p, CID length cn, block length bl *)
Definition iacc_step (roots : list bytes) (c : bytes) (p : cidp) (cn bl : N) (a : iacc) : iacc :=
  let (present, k) :=
    if a_present_count a <? N.of_nat (length roots)
    then mark_roots c roots (a_present a) else (a_present a, 0) in
  mkiacc present (a_present_count a + k) (a_count a + 1)
         (count_add (c_codec p) (a_codecs a)) (count_add (c_mhcode p) (a_mhtypes a))
         (a_tot_cid a + cn) (a_tot_blk a + bl)
         (if cn <? a_min_cid a then cn else a_min_cid a)
         (if a_max_cid a <? cn then cn else a_max_cid a)
         (if bl <? a_min_blk a then bl else a_min_blk a)
         (if a_max_blk a <? bl then bl else a_max_blk a).

Section Oracles.
  Variable hok : bytes -> bytes -> option bool.
  Variable hdrdec : bytes -> option (list bytes * N).

  (* NewReader over the whole file *)
  Definition new_reader (o : ropts) (file : bytes) : res rdr :=
    match read_header hdrdec (o_maxh o) file with      (* ReadVersion *)
    | Err e => Err e
    | Ok (_, v, _, used) =>
      if v =? 1 then Ok (mkrdr 1 zero_v2hdr)
      else if v =? 2 then
        (* FIX (C13-newreader-pragma): the CARv2 header is read at the fixed offset 11, so a
           version-2 first header of any other length is refused.  Unrepaired: accepted, and the
           40 bytes at offset 11 (possibly inside that header) were taken as the CARv2 header,
           while NewBlockReader reads the CARv2 header right after the first header. *)
        if negb (used =? 11) then Err EOther
        else
          (* io.NewSectionReader(r, 11, 40) + Header.ReadFrom: at most 40 bytes are looked at *)
          match read_v2hdr (drop 11 file) with
          | Err e => Err e
          | Ok (h, _) => Ok (mkrdr 2 h)
          end
      else Err EOther
    end.

  (* Reader.DataReader(): the bytes of the data payload *)
  Definition data_window (rd : rdr) (file : bytes) : bytes :=
    if r_version rd =? 2 then take (h_dsize (r_hdr rd)) (drop (h_doff (r_hdr rd)) file)
    else file.

  (* the section loop of Inspect on the remaining payload bytes *)
  Fixpoint insp_loop (fuel : nat) (validate : bool) (o : ropts) (roots : list bytes)
           (s : bytes) (a : iacc) : res iacc :=
    match fuel with
    | O => Err EFuel
    | S f =>
      match read_uv s with
      | VEof => Ok a                              (* normal ending *)
      | VUnexpectedEof => Err EUnexpectedEof
      | VOverflow | VNotMinimal => Err EOther
      | VOk l rest _ =>
        if (l =? 0) && o_zeof o then Ok a        (* normal ending for this read mode *)
        else if o_maxs o <? l then Err ESectionTooLarge
        else
          match cid_from_reader rest with          (* on the stream, not limited to the section *)
          | CfrEof =>
              (* FIX (C13-inspect-truncated-section): the stream ended right after the length
                 varint.  Unrepaired: CidFromReader's bare io.EOF was returned as the error. *)
              Err EUnexpectedEof
          | CfrErr _ => Err EOther
          | CfrOk cn c p after =>
            if l <? cn then Err EOther             (* "section length shorter than CID length" *)
            else
              let bl := l - cn in
              if validate then
                (* FIX (C13-inspect-truncated-section): fewer than bl bytes left.  Unrepaired:
                   multihash.SumStream over io.LimitReader(dr, bl) hashed what was there, so a
                   last section promising more data than exists was accepted whenever the bytes
                   present hash to the CID, and bl was reported as its length. *)
                if blen after <? bl then Err EUnexpectedEof
                else
                  match verify hok c p (take bl after) with
                  | Err e => Err e
                  | Ok _ => insp_loop f validate o roots (drop bl after) (iacc_step roots c p cn bl a)
                  end
              else
                (* dr.Seek(bl, io.SeekCurrent): never fails, may move past the end *)
                insp_loop f validate o roots (drop bl after) (iacc_step roots c p cn bl a)
          end
      end
    end.

  (* index.ReadCodec(r.IndexReader()) when the header claims an index *)
  Definition index_codec (rd : rdr) (file : bytes) : res N :=
    if negb (r_version rd =? 1) && has_index (r_hdr rd) then
      match read_uv (drop (h_ioff (r_hdr rd)) file) with
      | VOk code _ _ => Ok code
      | VEof => Err EEof
      | VUnexpectedEof => Err EUnexpectedEof
      | VOverflow | VNotMinimal => Err EOther
      end
    else Ok 0.

  Definition finish_stats (rd : rdr) (roots : list bytes) (a : iacc) (codec : N) : stats :=
    let n := a_count a in
    mkstats (r_version rd) (r_hdr rd) roots (N.of_nat (length roots) =? a_present_count a)
            n (a_codecs a) (a_mhtypes a)
            (if 0 <? n then a_tot_cid a / n else 0) (a_max_cid a) (if 0 <? n then a_min_cid a else 0)
            (if 0 <? n then a_tot_blk a / n else 0) (a_max_blk a) (if 0 <? n then a_min_blk a else 0)
            codec.

  (* Reader.Inspect(validateBlockHash) *)
  Definition inspect (o : ropts) (rd : rdr) (file : bytes) (validate : bool) : res stats :=
    let dr := data_window rd file in
    match read_header hdrdec (o_maxh o) dr with
    | Err e => Err e
    | Ok (roots, hv, rest, _) =>
      (* FIX (C13-inspect-inner-version): a CARv2 whose payload header is not version 1 is
         refused, as NewBlockReader does.  Unrepaired: the inner version was not looked at. *)
      if (r_version rd =? 2) && negb (hv =? 1) then Err EOther
      else
        match insp_loop (S (length rest)) validate o roots rest (iacc0 roots) with
        | Err e => Err e
        | Ok a =>
          match index_codec rd file with
          | Err e => Err e
          | Ok codec => Ok (finish_stats rd roots a codec)
          end
        end
    end.

  (* NewReader + Inspect *)
  Definition inspect_file (o : ropts) (file : bytes) (validate : bool) : res stats :=
    match new_reader o file with
    | Err e => Err e
    | Ok rd => inspect o rd file validate
    end.
End Oracles.

(* ---- layer B: the statistics of a block list ------------------------------------------- *)
Definition cid_parts (c : bytes) : cidp :=
  match cid_from_bytes c with Some (_, p) => p | None => mkcid 0 0 0 [] end.

Fixpoint list_min (d : N) (l : list N) : N :=
  match l with [] => d | x :: t => N.min x (list_min d t) end.
Definition list_min0 (l : list N) : N := match l with [] => 0 | x :: t => list_min x t end.
Fixpoint list_max (l : list N) : N :=
  match l with [] => 0 | x :: t => N.max x (list_max t) end.
Fixpoint list_sum (l : list N) : N :=
  match l with [] => 0 | x :: t => x + list_sum t end.
Definition list_avg (l : list N) : N :=
  match l with [] => 0 | _ => list_sum l / N.of_nat (length l) end.

Definition count_keys (keys : list N) : list (N * N) :=
  fold_left (fun m k => count_add k m) keys [].

Definition roots_all_present (roots : list bytes) (blocks : list block) : bool :=
  forallb (fun r => existsb (fun b => bytes_eqb (fst b) r) blocks) roots.

Definition stats_of (version : N) (h : v2hdr) (roots : list bytes) (blocks : list block)
           (index_codec : N) : stats :=
  let cl := map (fun b => blen (fst b)) blocks in
  let dl := map (fun b => blen (snd b)) blocks in
  mkstats version h roots (roots_all_present roots blocks)
          (N.of_nat (length blocks))
          (count_keys (map (fun b => c_codec (cid_parts (fst b))) blocks))
          (count_keys (map (fun b => c_mhcode (cid_parts (fst b))) blocks))
          (list_avg cl) (list_max cl) (list_min0 cl)
          (list_avg dl) (list_max dl) (list_min0 dl)
          index_codec.

(* ---- layer B for Inspect(false) ----------------------------------------------------------- *)
(* "the stream is a final section whose CID is complete but whose data is cut short":
   Some (cid, its parts, cid length, promised block length) *)
Definition cut_last (o : ropts) (t : bytes) : option (bytes * cidp * N * N) :=
  match read_uv t with
  | VOk l rest _ =>
      if (l =? 0) && o_zeof o then None
      else if o_maxs o <? l then None
      else if blen rest <? l then
        match cid_from_reader rest with
        | CfrOk cn c p _ => if l <? cn then None else Some (c, p, cn, l - cn)
        | _ => None
        end
      else None
  | _ => None
  end.

Section Tail.
  Variable hok : bytes -> bytes -> option bool.
  Variable hdrdec : bytes -> option (list bytes * N).
  (* the stream at which a scan stopped *)
  Fixpoint scan_tail (fuel : nat) (o : ropts) (s : bytes) : bytes :=
    match fuel with
    | O => s
    | S f => match next_block hok o s with
             | Err _ => s
             | Ok (_, rest) => scan_tail f o rest
             end
    end.
  (* NewBlockReader + Next until it fails: what was left unread of the section stream *)
  Definition br_read_tail (o : ropts) (file : bytes) : bytes :=
    match br_open hdrdec o file with
    | Err _ => []
    | Ok (_, _, s, _, _) => scan_tail (S (length s)) o s
    end.
End Tail.

(* ---- a history of calls on one Reader ------------------------------------------------------
   The Reader has one piece of mutable state: Roots() caches the decoded roots (r.roots) when they
   are non-empty.  DataReader() and IndexReader() return fresh readers over the ReaderAt; Inspect
   creates its own DataReader and (in the code as it is) never looks at the cache. *)
Inductive rop := ORoots | ODataReader | OIndexReader | OInspect (validate : bool).

Record rstate := mkrstate { rs_rd : rdr; rs_cache : option (list bytes) }.
Definition fresh_reader (rd : rdr) : rstate := mkrstate rd None.

Inductive rout :=
| RRoots (r : res (list bytes))
| RData (first : bytes)              (* the first bytes the returned DataReader delivers *)
| RIndex (first : option bytes)      (* None: IndexReader returned nil *)
| RInspect (r : res stats).

Definition probe_len : N := 16.

Section History.
  Variable hok : bytes -> bytes -> option bool.
  Variable hdrdec : bytes -> option (list bytes * N).

  (* Reader.Roots *)
  Definition reader_roots_st (o : ropts) (file : bytes) (st : rstate) : res (list bytes) * rstate :=
    match rs_cache st with
    | Some roots => (Ok roots, st)
    | None =>
      match read_header hdrdec (o_maxh o) (data_window (rs_rd st) file) with
      | Err e => (Err e, st)
      | Ok (roots, _, _, _) =>
          (Ok roots, mkrstate (rs_rd st) (match roots with [] => None | _ => Some roots end))
      end
    end.

  Definition rstep (o : ropts) (file : bytes) (st : rstate) (op : rop) : rout * rstate :=
    match op with
    | ORoots => let (r, st') := reader_roots_st o file st in (RRoots r, st')
    | ODataReader => (RData (take probe_len (data_window (rs_rd st) file)), st)
    | OIndexReader =>
        (RIndex (if (r_version (rs_rd st) =? 1) || negb (has_index (r_hdr (rs_rd st))) then None
                 else Some (take probe_len (drop (h_ioff (r_hdr (rs_rd st))) file))), st)
    | OInspect v => (RInspect (inspect hok hdrdec o (rs_rd st) file v), st)
    end.

  Fixpoint rrun (o : ropts) (file : bytes) (st : rstate) (ops : list rop) : list rout * rstate :=
    match ops with
    | [] => ([], st)
    | op :: ops' =>
        let (out, st') := rstep o file st op in
        let (outs, st'') := rrun o file st' ops' in
        (out :: outs, st'')
    end.
End History.
