(* entry points of the index kinds: val -> val.  Glue around Index.v; the functions the
   theorems of props/C11.v mention (idx_load, idx_write, idx_read, idx_getall, idx_canon,
   ii_load, ii_flatten, ...) are evaluated here unchanged. *)
From Coq Require Import Strings.String.
From GoCar Require Import Bytes Varint Cid Header Frame V2Header Scan Val RunScan Index IndexGen Options.

(* ---- decoding the case input ------------------------------------------------------------- *)
Definition v_recs (v : val) : list irec :=
  flat_map (fun x => match rec_of_cid (vB (vnth 0 x)) (vN (vnth 1 x)) with
                     | Some r => [r]
                     | None => []
                     end) (vL v).

Definition dummy_rec : irec := mkrec [] 0 [] 0.
Definition permute (rs : list irec) (perm : val) : list irec :=
  map (fun i => nth (N.to_nat (vN i)) rs dummy_rec) (vL perm).

(* lookup key of a query CID: (hash code, digest) *)
Definition v_key (c : bytes) : N * bytes :=
  match cid_parse c with
  | Some p => (c_mhcode p, c_digest p)
  | None => (0, [])
  end.

(* ---- printing ------------------------------------------------------------------------------ *)
Fixpoint ins_N (x : N) (l : list N) : list N :=
  match l with
  | [] => [x]
  | y :: t => if x <=? y then x :: l else y :: ins_N x t
  end.
Definition sort_N (l : list N) : list N := fold_right ins_N [] l.
Definition v_offs (l : list N) : val := VL (map VN l).

Definition v_foreach (i : index) : val :=
  match i with
  | IdxSorted _ => VL []       (* car-index-sorted has no public iteration *)
  | IdxMh m => VL (map (fun e => VL [VB (mh_enc (fst (fst e)) (snd (fst e))); VN (snd e)])
                       (mh_foreach m))
  end.

Definition getalls (i : index) (qs : list bytes) : list (list N) :=
  map (fun q => idx_getall i (fst (v_key q)) (snd (v_key q))) qs.
Definition v_getalls_sorted (i : index) (qs : list bytes) : val :=
  VL (map (fun l => v_offs (sort_N l)) (getalls i qs)).
Definition v_getalls_raw (i : index) (qs : list bytes) : val :=
  VL (map v_offs (getalls i qs)).

Definition canon_bytes (i : index) : bytes := idx_write (idx_canon i).

(* ---- kind idxser: (codec, records, permutations, queries, trailer) --------------------------- *)
Definition run_idxser (input : val) : val :=
  let codec := vN (vnth 0 input) in
  let rs := v_recs (vnth 1 input) in
  let perms := vL (vnth 2 input) in
  let qs := map vB (vL (vnth 3 input)) in
  let trailer := vB (vnth 4 input) in
  match idx_new codec with
  | None => VL [VT "badcodec"]
  | Some i0 =>
    let i := idx_load rs i0 in
    let raw := idx_write i in
    let reread :=
      match idx_read (raw ++ trailer) with
      | Err e => VL [VT "err"; v_err e]
      | Ok (i', rest) =>
          VL [VT "ok"; VN (blen rest);
              VT (if bytes_eqb (idx_write i') raw then "same" else "diff");
              v_foreach (idx_canon i'); v_getalls_sorted i' qs]
      end in
    let ii := ii_load rs [] in
    let flat :=
      match ii_flatten codec ii with
      | Some fi => VB (canon_bytes fi)
      | None => VT "badcodec"
      end in
    VL [VB (canon_bytes i);
        VB (if idx_has_ties i then [] else raw);
        VN (idx_write_len i);
        v_foreach (idx_canon i);
        v_getalls_sorted i qs;
        reread;
        VL (map (fun p => VB (canon_bytes (idx_load (permute rs p) i0))) perms);
        VL [flat;
            VL (map (fun q => v_offs (ii_getall (snd (v_key q)) ii)) qs);
            VL (map (fun r => VL [VB (r_cid r); VN (r_off r)]) (ii_flatten_records ii))]]
  end.

(* layer B for lookups: the offsets of the records carrying the key, in ascending order *)
Definition spec_getall (codec : N) (rs : list irec) (q : bytes) : list N :=
  let k := v_key q in
  sort_N (if codec =? codec_sorted then spec_offsets_digest rs (snd k)
          else spec_offsets_mh rs (fst k) (snd k)).

Fixpoint val_eqb (a b : val) {struct a} : bool :=
  match a, b with
  | VN x, VN y => x =? y
  | VB x, VB y => bytes_eqb x y
  | VT x, VT y => String.eqb x y
  | VL x, VL y =>
      (fix go (l1 l2 : list val) : bool :=
         match l1, l2 with
         | [], [] => true
         | u :: l1', v :: l2' => val_eqb u v && go l1' l2'
         | _, _ => false
         end) x y
  | _, _ => false
  end.

Definition fail (clause : string) : val := VL [VT "FAIL"; VT clause].

(* the clauses of C11 evaluated on what the IMPLEMENTATION produced *)
Definition prop_idxser (input obs : val) : val :=
  let codec := vN (vnth 0 input) in
  let rs := v_recs (vnth 1 input) in
  let qs := map vB (vL (vnth 3 input)) in
  let trailer := vB (vnth 4 input) in
  let canon := vB (vnth 0 obs) in
  let raw := vB (vnth 1 obs) in
  let reported := vN (vnth 2 obs) in
  let fe := vnth 3 obs in
  let ga := vnth 4 obs in
  let rr := vnth 5 obs in
  let perms := vL (vnth 6 obs) in
  let flat := vnth 0 (vnth 7 obs) in
  let iiga := vnth 1 (vnth 7 obs) in
  if negb (reported =? blen canon) then fail "reported-length-differs-from-bytes-written"
  else if negb (is_tag (vnth 0 rr) "ok") then fail "roundtrip-read-failed"
  else if negb (vN (vnth 1 rr) =? blen trailer) then fail "roundtrip-consumed-wrong-byte-count"
  else if negb (is_tag (vnth 2 rr) "same") then fail "roundtrip-remarshal-differs"
  else if negb (val_eqb (vnth 3 rr) fe) then fail "roundtrip-iteration-differs"
  else if negb (val_eqb (vnth 4 rr) ga) then fail "roundtrip-lookup-differs"
  else if negb (val_eqb ga (VL (map (fun q => v_offs (spec_getall codec rs q)) qs)))
  then fail "lookup-differs-from-record-multiset"
  else if negb (forallb (fun p => bytes_eqb (vB p) canon) perms) then fail "serialization-depends-on-load-order"
  else if negb (val_eqb flat (VB canon)) then fail "flattened-insertion-index-differs-from-loaded-index"
  else if negb (val_eqb iiga (VL (map (fun q => v_offs (spec_offsets_digest rs (snd (v_key q)))) qs)))
  then fail "insertion-index-lookup-not-in-insertion-order"
  else if negb (match raw with [] => true | _ => bytes_eqb raw canon end)
  then fail "bytes-differ-without-equal-digests"
  else match idx_read canon with
       | Ok (i, []) => if idx_sortedb i then VT "ok" else fail "buckets-or-entries-not-ascending"
       | _ => fail "serialized-form-unreadable"
       end.

(* ---- kind idxread: index.ReadFrom on arbitrary bytes: (bytes, queries) ------------------------ *)
Definition run_idxread (input : val) : val :=
  let s := vB (vnth 0 input) in
  let qs := map vB (vL (vnth 1 input)) in
  match idx_read s with
  | Err e => VL [VT "err"; v_err e]
  | Ok (i, rest) =>
      VL [VT "ok"; VN (blen rest); VB (idx_write i); VN (idx_write_len i);
          v_foreach i; v_getalls_raw i qs]
  end.

(* whatever ReadFrom accepted must itself round-trip, and the reported length must be right *)
Definition prop_idxread (input obs : val) : val :=
  if is_tag (vnth 0 obs) "ok" then
    let w := vB (vnth 2 obs) in
    if negb (vN (vnth 3 obs) =? blen w) then fail "reported-length-differs-from-bytes-written"
    else match idx_read w with
         | Ok (i, []) => if bytes_eqb (idx_write i) w then VT "ok"
                         else fail "roundtrip-remarshal-differs"
         | _ => fail "roundtrip-read-failed"
         end
  else VT "ok".

(* ---- kind idxgen: LoadIndex / GenerateIndex over a source kind ----------------------------------
   input = (source kind, opts, file, header-oracle table, codec, queries, expect)
     source kind: 0 bytes.Reader | 1 Read+Seek only | 2 plain io.Reader | 3 os.File
                  | 4 io.ReaderAt through NewReader(..).DataReader()
                  | 5 bufio.Reader over a plain reader | 6 bytes.Buffer (plain streams with ReadByte)
                  | 7 iotest.DataErrReader | 8 iotest.HalfReader | 9 iotest.OneByteReader (plain)
                  | 10, 11 ReadOrGenerateIndex | 12 GenerateIndexFromFile(path of the file)
                  | 13 GenerateIndexFromFile(a path that does not exist)
     opts = (zeroLengthAsEOF maxHeader storeIdentity maxIndexCidSize)
     codec: 0x0400 | 0x0401 | 0x300003 (InsertionIndex handed to LoadIndex)
     expect (for the property predicate only) = (tvalid hlen blocks payload pad) | (tnone)
   observation = (terr class) | (tok listing getalls)
     listing: canonical serialized bytes (on-disk codecs) / ForEachCid order (insertion index)
     getalls: per query, ascending offsets (insertion index: in GetAll order) *)

(* the option values as PASSED (MaxIndexCidSize(n), possibly an explicit 0): ApplyOptions resolves a
   zero MaxIndexCidSize to its default and caps it (Options.v resolve_max_cid); a zero
   MaxAllowedHeaderSize stays zero *)
Definition v_gopts (v : val) : gopts :=
  mkgopts (vbool (vnth 0 v)) (vN (vnth 1 v)) (vbool (vnth 2 v)) (resolve_max_cid (vN (vnth 3 v))).
(* UseIndexCodec(c) as passed: 0 resolves to car-multihash-index-sorted *)
Definition v_codec (v : val) : N := resolve_codec (vN v).

(* 2 plain io.Reader, 5 bufio.Reader, 6 bytes.Buffer, 7 iotest.DataErrReader (last data arrive with
   io.EOF), 8 iotest.HalfReader, 9 iotest.OneByteReader (short reads): no Seek method, so ToByteReadSeeker puts the
   discarding wrapper around them whether or not they have ReadByte *)
Definition src_of_kind (k : N) : srckind :=
  if (k =? 2) || ((5 <=? k) && (k <=? 9)) then SrcPlain else SrcSeek.

Definition run_load (fx : fixes) (input : val) : res (list irec) :=
  let kind := vN (vnth 0 input) in
  let o := v_gopts (vnth 1 input) in
  let file := vB (vnth 2 input) in
  let hdr := hdr_lookup (vL (vnth 3 input)) in
  if kind =? 4 then load_index_reader_at_gen hdr fx o file
  else load_index_gen hdr fx (src_of_kind kind) o file.

Definition v_index_obs (codec : N) (recs : list irec) (qs : list bytes) : val :=
  if codec =? codec_insertion then
    let ii := ii_load recs [] in
    VL [VT "ok";
        VL (map (fun r => VL [VB (r_cid r); VN (r_off r)]) (ii_flatten_records ii));
        VL (map (fun q => v_offs (ii_getall (snd (v_key q)) ii)) qs)]
  else
    match idx_new codec with
    | None => VL [VT "err"; VT "other"]
    | Some i0 =>
        let i := idx_load recs i0 in
        VL [VT "ok"; VB (canon_bytes i); v_getalls_sorted i qs]
    end.

Definition run_idxgen_with (fx : fixes) (input : val) : val :=
  let codec := v_codec (vnth 4 input) in
  let qs := map vB (vL (vnth 5 input)) in
  if vN (vnth 0 input) =? 13 then VL [VT "err"; v_err EOther]   (* GenerateIndexFromFile on a missing path *)
  else if (vN (vnth 0 input) =? 10) || (vN (vnth 0 input) =? 11) then
    (* source kinds 10 (bytes.Reader) / 11 (Read+Seek only): ReadOrGenerateIndex; the listing is
       the length of the index's serialized form *)
    match read_or_generate_index (hdr_lookup (vL (vnth 3 input))) codec (v_gopts (vnth 1 input)) (vB (vnth 2 input)) with
    | Err e => VL [VT "err"; v_err e]
    | Ok i => VL [VT "ok"; VN (blen (idx_write i)); v_getalls_sorted i qs]
    end
  else
  match run_load fx input with
  | Err e => VL [VT "err"; v_err e]
  | Ok recs => v_index_obs codec recs qs
  end.
(* the tree with notes/fixes/C03-loadindex-plain-reader.patch *)
Definition run_idxgen (input : val) : val := run_idxgen_with repaired input.

(* the clauses of C03 on what the implementation returned, for a constructed archive *)
Definition class_of_kind (k : N) : string :=
  if k =? 2 then "plain-reader" else if k =? 4 then "reader-at"
  else if (k =? 5) || (k =? 6) then "plain-bytereader"
  else if 12 <=? k then "from-file"
  else if 10 <=? k then "read-or-generate"
  else if 7 <=? k then "plain-short-or-eof-with-data" else "seekable".
Definition fail3 (clause cls : string) : val := VL [VT "FAIL"; VT clause; VT cls].

Definition prop_idxgen (input obs : val) : val :=
  let kind := vN (vnth 0 input) in
  let o := v_gopts (vnth 1 input) in
  let codec := v_codec (vnth 4 input) in
  let qs := map vB (vL (vnth 5 input)) in
  let expect := vnth 6 input in
  let cls := class_of_kind kind in
  if negb (is_tag (vnth 0 expect) "valid") then VT "ok" else
  let hlen := vN (vnth 1 expect) in
  let blocks := vblocks (vnth 2 expect) in
  let payload := vB (vnth 3 expect) in
  let padded := vbool (vnth 4 expect) in         (* zero bytes follow the sections inside the payload *)
  let too_large := existsb (fun b => section_indexed o (fst b) && (g_max_cid o <? blen (fst b))) blocks in
  if too_large then
    (if is_tag (vnth 0 obs) "err" && is_tag (vnth 1 obs) "cid2big" then VT "ok"
     else fail3 "oversized-cid-not-refused" cls)
  else if padded && negb (g_zeof o) then
    (if is_tag (vnth 0 obs) "err" then VT "ok" else fail3 "null-padding-accepted-without-option" cls)
  else if negb (is_tag (vnth 0 obs) "ok") then fail3 "valid-archive-not-indexed" cls
  else
    let by_code := codec =? codec_mh_sorted in
    let gas := vL (vnth 2 obs) in
    let want := map (fun q => spec_lookup o by_code (fst (v_key q)) (snd (v_key q)) hlen blocks) qs in
    let got := map (fun g => map vN (vL g)) gas in
    if negb (val_eqb (VL (map (fun l => v_offs (sort_N l)) got)) (VL (map (fun l => v_offs (sort_N l)) want)))
    then fail3 "lookup-differs-from-reference-scan" cls
    else if negb (forallb (fun qg =>
                    forallb (fun off =>
                      match section_at payload off with
                      | Some (c, _) => key_match by_code (fst (v_key (fst qg))) (snd (v_key (fst qg))) c
                      | None => false
                      end) (snd qg)) (combine qs got))
    then fail3 "offset-does-not-decode-to-the-key" cls
    else VT "ok".

(* ---- kind idxbig: large buckets (above the 1 MiB read chunk of Unmarshal) -------------------------
   A 30 000-record bucket is out of reach of the extracted layer-A functions (list-based compact
   buckets make ForEach / canon quadratic), so for this kind ONLY the layer-B side is evaluated:
   [run_idxbig] computes what the property demands of the implementation -- the byte count from the
   format's arithmetic, the lookups from [spec_offsets_digest] / [spec_offsets_mh] over the record
   list -- and [prop_idxbig] compares the implementation's observation with it clause by clause.  The
   record set is given by a rule shared with the harness (harness/p_c11.go c11BigRecords):
     input = (codec, (codeA dlA nA) (codeB dlB nB) ndup, samples, trailer)
     bucket A: record i < nA has digest  be64(i * big_mult mod 2^64) ++ a5^(dlA-8), offset 1000 + 3 i
     bucket B: likewise with offset 7 + 5 i;  dlA <> dlB, codeA <> codeB, dl >= 8
     dups: record j < ndup repeats the digest of A's record (7 j mod nA) at offset 5*10^9 + j
     samples: (bucket, i) pairs; i beyond the bucket's size names an absent key
   observation = (tok reported byteslen structure entries (tok rest same|diff) foreach getalls
                  (flat-structure flat-entries same|diff))
     structure: the harness's own byte-level parse found ascending codes/widths/digests and exactly
     the given (digest, offset) multiset; entries: records found by that parse;
     foreach: ForEach callbacks (multihash codec) or entries again (car-index-sorted). *)
Definition big_mult : N := 11400714819323198485.
(* big-endian 64-bit word by shifts and masks (N.div on 64-bit values is too slow 240 000 times) *)
Definition be64 (x : N) : bytes :=
  map (fun k => n2b (N.land (N.shiftr x (8 * k)) 255)) [7; 6; 5; 4; 3; 2; 1; 0].
Definition big_digest (dl i : N) : bytes :=
  be64 (N.land (i * big_mult) 18446744073709551615) ++ N.iter (dl - 8) (cons xa5) [].
Definition big_bucket (code dl n off0 step : N) : list irec :=
  rev_append (snd (N.iter n (fun st => (fst st + 1,
                                 mkrec [] code (big_digest dl (fst st)) (off0 + step * fst st) :: snd st))
                  (0, []))) [].
Definition big_dups (codeA dlA nA ndup : N) : list irec :=
  rev_append (snd (N.iter ndup (fun st => (fst st + 1,
                                    mkrec [] codeA (big_digest dlA ((7 * fst st) mod nA)) (5000000000 + fst st) :: snd st))
                  (0, []))) [].
Definition big_recs (d : val) : list irec :=
  let a := vnth 0 d in let b := vnth 1 d in
  big_bucket (vN (vnth 0 a)) (vN (vnth 1 a)) (vN (vnth 2 a)) 1000 3 ++
  big_bucket (vN (vnth 0 b)) (vN (vnth 1 b)) (vN (vnth 2 b)) 7 5 ++
  big_dups (vN (vnth 0 a)) (vN (vnth 1 a)) (vN (vnth 2 a)) (vN (vnth 2 d)).

(* bytes WriteTo must produce, from the format: codec varint, int32 count, per bucket 4+8+data,
   per hash code 8 + the nested index *)
Definition big_expected_len (codec : N) (d : val) : N :=
  let a := vnth 0 d in let b := vnth 1 d in
  let na := vN (vnth 2 a) + vN (vnth 2 d) in
  let nb := vN (vnth 2 b) in
  let ba := if na =? 0 then 0 else 12 + na * (vN (vnth 1 a) + 8) in
  let bb := if nb =? 0 then 0 else 12 + nb * (vN (vnth 1 b) + 8) in
  if codec =? codec_sorted then uv_size codec + 4 + ba + bb
  else uv_size codec + 4 + (if na =? 0 then 0 else 8 + 4 + ba) + (if nb =? 0 then 0 else 8 + 4 + bb).

Definition big_sample_key (d : val) (s : val) : N * bytes :=
  let bk := vnth (if vN (vnth 0 s) =? 0 then 0 else 1) d in
  (vN (vnth 0 bk), big_digest (vN (vnth 1 bk)) (vN (vnth 1 s))).

Definition big_expected (input : val) : val :=
  let codec := vN (vnth 0 input) in
  let d := vnth 1 input in
  let samples := vL (vnth 2 input) in
  let trailer := vB (vnth 3 input) in
  let rs := big_recs d in
  let total := N.of_nat (length rs) in
  VL [VT "ok"; VN (big_expected_len codec d); VN (big_expected_len codec d); VN 1; VN total;
      VL [VT "ok"; VN (blen trailer); VT "same"]; VN total;
      VL (map (fun s => let k := big_sample_key d s in
                        v_offs (sort_N (if codec =? codec_sorted then spec_offsets_digest rs (snd k)
                                        else spec_offsets_mh rs (fst k) (snd k)))) samples);
      (* the same records inserted one by one into an InsertionIndex and flattened: structure flag,
         record count, and "answers the sampled lookups like the loaded index" flag *)
      VL [VN 1; VN total; VT "same"]].

Definition run_idxbig (input : val) : val := big_expected input.

Definition prop_idxbig (input obs : val) : val :=
  let want := big_expected input in
  if negb (is_tag (vnth 0 obs) "ok") then fail "large-index-not-written"
  else if negb (val_eqb (vnth 1 obs) (vnth 2 obs)) then fail "reported-length-differs-from-bytes-written"
  else if negb (val_eqb (vnth 2 obs) (vnth 2 want)) then fail "serialized-length-differs-from-format"
  else if negb (val_eqb (vnth 3 obs) (VN 1)) then fail "buckets-or-entries-not-ascending-or-records-lost"
  else if negb (val_eqb (vnth 4 obs) (vnth 4 want)) then fail "record-count-differs"
  else if negb (is_tag (vnth 0 (vnth 5 obs)) "ok") then fail "roundtrip-read-failed"
  else if negb (val_eqb (vnth 1 (vnth 5 obs)) (vnth 1 (vnth 5 want))) then fail "roundtrip-consumed-wrong-byte-count"
  else if negb (is_tag (vnth 2 (vnth 5 obs)) "same") then fail "roundtrip-remarshal-differs"
  else if negb (val_eqb (vnth 6 obs) (vnth 6 want)) then fail "roundtrip-iteration-differs"
  else if negb (val_eqb (vnth 7 obs) (vnth 7 want)) then fail "lookup-differs-from-record-multiset"
  else if negb (val_eqb (vnth 8 obs) (vnth 8 want)) then fail "flattened-insertion-index-differs-from-loaded-index"
  else VT "ok".

(* ---- kind idxgenbig: an archive with more sections than LoadIndex could ever hand to idx.Load in
   one piece if it batched (tens of thousands of tiny sections) ---------------------------------------
   As for idxbig, the position-based layer-A walker ([view] = [drop pos all], linear per step) cannot
   process such a file in the time budget, so ONLY layer B is evaluated: the block list is built from
   a rule shared with the harness (harness/k_indexgenbig.go c03BigBlocks) and the expectation comes
   from [sections_at] / [section_indexed] / [spec_lookup].
     input = (source kind, opts, (code dl n ndup), hlen, codec, samples, container)
     block i < n: CID = 01 55 <code_i> <dl> <big_digest dl i>, data = one byte (i mod 251);
                  code_i = 0 (identity) when i mod 16 = 15, else code
     then ndup blocks repeating block (7 j mod n), j < ndup
     samples: block indices (beyond n: a key that is absent)
     container: n0 bare CARv1 | n1 CARv2 (offsets are payload-relative either way)
   observation = (terr class) | (tok entries resolved getalls)
     entries: records in the generated index; resolved: indexed sections whose own CID's GetAll
     contains their own offset (counted by the harness, which knows the offsets by construction) *)
Definition gbig_block (code dl i : N) : block :=
  ([x01; x55] ++ put_uv (if i mod 16 =? 15 then 0 else code) ++ put_uv dl ++ big_digest dl i,
   [n2b (i mod 251)]).
Definition gbig_blocks (d : val) : list block :=
  let code := vN (vnth 0 d) in let dl := vN (vnth 1 d) in
  let n := vN (vnth 2 d) in let ndup := vN (vnth 3 d) in
  rev_append (snd (N.iter n (fun st => (fst st + 1, gbig_block code dl (fst st) :: snd st)) (0, []))) [] ++
  rev_append (snd (N.iter ndup (fun st => (fst st + 1, gbig_block code dl ((7 * fst st) mod n) :: snd st)) (0, []))) [].

(* [spec_lookup] with every CID parsed once instead of once per key (equal to it:
   proofs/IndexGetFirst.v lookup_fast_eq) *)
Definition gbig_keys (hlen : N) (bs : list block) : list (N * option cidp) :=
  map (fun ob => (fst ob, cid_parse (fst (snd ob)))) (sections_at hlen bs).
Definition lookup_fast (o : gopts) (by_code : bool) (code : N) (d : bytes) (keys : list (N * option cidp)) : list N :=
  map fst (filter (fun k => match snd k with
                            | Some p => indexed o p && (bytes_eqb (c_digest p) d && (negb by_code || (c_mhcode p =? code)))
                            | None => false
                            end) keys).

Definition gbig_expected (input : val) : val :=
  let o := v_gopts (vnth 1 input) in
  let d := vnth 2 input in
  let hlen := vN (vnth 3 input) in
  let codec := v_codec (vnth 4 input) in
  let samples := vL (vnth 5 input) in
  let bs := gbig_blocks d in
  let keys := gbig_keys hlen bs in
  let nidx := N.of_nat (length (filter (fun k => match snd k with Some p => indexed o p | None => false end) keys)) in
  let by_code := codec =? codec_mh_sorted in
  VL [VT "ok"; VN nidx; VN nidx;
      VL (map (fun s => let k := v_key (fst (gbig_block (vN (vnth 0 d)) (vN (vnth 1 d)) (vN s))) in
                        v_offs (sort_N (lookup_fast o by_code (fst k) (snd k) keys))) samples)].

Definition run_idxgenbig (input : val) : val := gbig_expected input.

Definition prop_idxgenbig (input obs : val) : val :=
  let cls := class_of_kind (vN (vnth 0 input)) in
  let want := gbig_expected input in
  if negb (is_tag (vnth 0 obs) "ok") then fail3 "valid-archive-not-indexed" cls
  else if negb (val_eqb (vnth 1 obs) (vnth 1 want)) then fail3 "index-record-count-differs-from-indexed-sections" cls
  else if negb (val_eqb (vnth 2 obs) (vnth 2 want)) then fail3 "section-not-resolvable-through-the-index" cls
  else if negb (val_eqb (vnth 3 obs) (vnth 3 want)) then fail3 "lookup-differs-from-reference-scan" cls
  else VT "ok".

(* ---- kinds iiser / iiread: InsertionIndex.Marshal / Unmarshal (the CBOR-framed form) ---------------
   The CBOR decoder is a dependency: its verdict on the stream after the 8-byte count comes from a
   table recorded by the harness: entries (stream, tok|teof|tother|tPANIC, bytes consumed).
   iiser:  input = (mode, records, records2, trailer, table)
           observation = (bytes reported unmarshal bytes2)
             unmarshal = (tok bytes-left ((cid off) ...)) | (terr class), of bytes ++ trailer
             bytes2    = Marshal of the insertion index built from records2
           mode selects the clause of C11 evaluated on the implementation:
             0 reported length = bytes written   1 round trip   2 different indexes, different bytes
   iiread: input = (bytes, table), observation = unmarshal as above (correspondence only) *)
Fixpoint recdec_lookup (tab : list val) (s : bytes) : res bytes :=
  match tab with
  | [] => Err EOracleMiss
  | e :: t =>
      if bytes_eqb (vB (vnth 0 e)) s then
        (if is_tag (vnth 1 e) "ok" then Ok (drop (vN (vnth 2 e)) s)
         else if is_tag (vnth 1 e) "eof" then Err EEof
         else if is_tag (vnth 1 e) "PANIC" then Err EPanic
         else Err EOther)
      else recdec_lookup t s
  end.

Definition v_ii_list (ii : iidx) : val := VL (map (fun r => VL [VB (r_cid r); VN (r_off r)]) ii).

Definition v_ii_unmarshal (tab : list val) (s : bytes) : val :=
  match ii_unmarshal (recdec_lookup tab) s with
  | Err e => VL [VT "err"; v_err e]
  | Ok (ii, rest) => VL [VT "ok"; VN (blen rest); v_ii_list ii]
  end.

Definition run_iiser (input : val) : val :=
  let ii := ii_load (v_recs (vnth 1 input)) [] in
  let ii2 := ii_load (v_recs (vnth 2 input)) [] in
  let trailer := vB (vnth 3 input) in
  VL [VB (ii_marshal ii); VN (ii_marshal_len ii);
      v_ii_unmarshal (vL (vnth 4 input)) (ii_marshal ii ++ trailer); VB (ii_marshal ii2)].

Definition prop_iiser (input obs : val) : val :=
  let mode := vN (vnth 0 input) in
  let ii := ii_load (v_recs (vnth 1 input)) [] in
  let ii2 := ii_load (v_recs (vnth 2 input)) [] in
  let trailer := vB (vnth 3 input) in
  let bs := vB (vnth 0 obs) in
  let unm := vnth 2 obs in
  if mode =? 0 then
    (if vN (vnth 1 obs) =? blen bs then VT "ok"
     else fail3 "reported-length-differs-from-bytes-written" "insertion-index-length")
  else if mode =? 1 then
    (if is_tag (vnth 0 unm) "ok" && (vN (vnth 1 unm) =? blen trailer) && val_eqb (vnth 2 unm) (v_ii_list ii)
     then VT "ok" else fail3 "roundtrip-read-failed" "insertion-index-roundtrip")
  else
    (if val_eqb (v_ii_list ii) (v_ii_list ii2) || negb (bytes_eqb bs (vB (vnth 3 obs))) then VT "ok"
     else fail3 "different-indexes-serialize-identically" "insertion-index-lossy").

Definition run_iiread (input : val) : val :=
  v_ii_unmarshal (vL (vnth 1 input)) (vB (vnth 0 input)).
Definition prop_iiread (input obs : val) : val := VT "ok".

(* ---- kind idxload2: Load called TWICE on one sorted index ------------------------------------------
   input = (codec, records1, records2, queries); observation = (canonical bytes, sorted GetAll per
   query) after idx.Load(records1); idx.Load(records2).  Correspondence only: C11 and C03 speak of an
   index loaded once; what the second Load does is stated in props/C11.v (the C11_second_load theorems). *)
Definition run_idxload2 (input : val) : val :=
  let codec := vN (vnth 0 input) in
  let qs := map vB (vL (vnth 3 input)) in
  match idx_new codec with
  | None => VL [VT "badcodec"]
  | Some i0 =>
      let i := idx_load (v_recs (vnth 2 input)) (idx_load (v_recs (vnth 1 input)) i0) in
      VL [VB (canon_bytes i); v_getalls_sorted i qs]
  end.
Definition prop_idxload2 (input obs : val) : val := VT "ok".

(* ---- kind idxfirst: index.GetFirst on the three index kinds, InsertionIndex.Get -----------------------
   input = (codec, records, queries); codec 0x300003 = the insertion index
   observation = per query (getfirst get), each (tnotfound) | (tok off) | (tamong) | (tBAD):
     the sorted codecs leave the order inside equal digests to sort.Sort and llrb.Get picks by tree
     shape, so when GetAll reports several offsets the answer is projected to "one of them"
     (tamong; tBAD if it is not); InsertionIndex.GetFirst is exact (insertion order).
     get is () for the on-disk codecs. *)
Definition v_first (exact : bool) (all : list N) (r : res N) : val :=
  match r with
  | Err ENotFound => VL [VT "notfound"]
  | Err _ => VL [VT "BAD"]
  | Ok o =>
      if negb (existsb (N.eqb o) all) then VL [VT "BAD"]
      else if exact || (length all =? 1)%nat then VL [VT "ok"; VN o]
      else VL [VT "among"]
  end.

Definition run_idxfirst (input : val) : val :=
  let codec := vN (vnth 0 input) in
  let rs := v_recs (vnth 1 input) in
  let qs := map vB (vL (vnth 2 input)) in
  if codec =? codec_insertion then
    let ii := ii_load rs [] in
    VL (map (fun q => let d := snd (v_key q) in
                      VL [v_first true (ii_getall d ii) (ii_getfirst d ii);
                          v_first false (ii_getall d ii) (ii_get d ii)]) qs)
  else
    match idx_new codec with
    | None => VL [VT "badcodec"]
    | Some i0 =>
        let i := idx_load rs i0 in
        VL (map (fun q => let k := v_key q in
                          VL [v_first false (idx_getall i (fst k) (snd k)) (idx_getfirst i (fst k) (snd k));
                              VL []]) qs)
    end.

(* layer B on the implementation's answers: an offset of a record carrying the key, not-found exactly
   when there is none *)
Definition first_ok (spec : list N) (v : val) : bool :=
  if is_tag (vnth 0 v) "notfound" then (length spec =? 0)%nat
  else if is_tag (vnth 0 v) "ok" then existsb (N.eqb (vN (vnth 1 v))) spec
  else if is_tag (vnth 0 v) "among" then (1 <? length spec)%nat
  else match v with VL [] => true | _ => false end.

Definition prop_idxfirst (input obs : val) : val :=
  let codec := vN (vnth 0 input) in
  let rs := v_recs (vnth 1 input) in
  let qs := map vB (vL (vnth 2 input)) in
  let spec q := let k := v_key q in
                if codec =? codec_mh_sorted then spec_offsets_mh rs (fst k) (snd k)
                else spec_offsets_digest rs (snd k) in
  if forallb (fun qo => first_ok (spec (fst qo)) (vnth 0 (snd qo)) && first_ok (spec (fst qo)) (vnth 1 (snd qo)))
             (combine qs (vL obs))
     && (length qs =? length (vL obs))%nat
  then VT "ok" else fail "first-offset-is-not-a-record-carrying-the-key".
