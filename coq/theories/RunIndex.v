(* entry points of the index kinds: val -> val.  Glue around Index.v; the functions the
   theorems of props/C11.v mention (idx_load, idx_write, idx_read, idx_getall, idx_canon,
   ii_load, ii_flatten, ...) are evaluated here unchanged. *)
From Coq Require Import Strings.String.
From GoCar Require Import Bytes Varint Cid Header Frame V2Header Scan Val RunScan Index IndexGen.

(* ---- decoding the case input ------------------------------------------------------------- *)
Definition v_recs (v : val) : list irec :=
  flat_map (fun x => match rec_of_cid (vB (vnth 0 x)) (vN (vnth 1 x)) with
                     | Some r => [r]
                     | None => []
                     end) (vL v).

Definition dummy_rec : irec := mkrec [] 0 [] 0.
Definition permute (rs : list irec) (perm : val) : list irec :=
  map (fun i => nth (N.to_nat (vN i)) rs dummy_rec) (vL perm).

(* lookup key of a query CID: (hash code, digest) *)
Definition v_key (c : bytes) : N * bytes :=
  match cid_parse c with
  | Some p => (c_mhcode p, c_digest p)
  | None => (0, [])
  end.

(* ---- printing ------------------------------------------------------------------------------ *)
Fixpoint ins_N (x : N) (l : list N) : list N :=
  match l with
  | [] => [x]
  | y :: t => if x <=? y then x :: l else y :: ins_N x t
  end.
Definition sort_N (l : list N) : list N := fold_right ins_N [] l.
Definition v_offs (l : list N) : val := VL (map VN l).

Definition v_foreach (i : index) : val :=
  match i with
  | IdxSorted _ => VL []       (* car-index-sorted has no public iteration *)
  | IdxMh m => VL (map (fun e => VL [VB (mh_enc (fst (fst e)) (snd (fst e))); VN (snd e)])
                       (mh_foreach m))
  end.

Definition getalls (i : index) (qs : list bytes) : list (list N) :=
  map (fun q => idx_getall i (fst (v_key q)) (snd (v_key q))) qs.
Definition v_getalls_sorted (i : index) (qs : list bytes) : val :=
  VL (map (fun l => v_offs (sort_N l)) (getalls i qs)).
Definition v_getalls_raw (i : index) (qs : list bytes) : val :=
  VL (map v_offs (getalls i qs)).

Definition canon_bytes (i : index) : bytes := idx_write (idx_canon i).

(* ---- kind idxser: (codec, records, permutations, queries, trailer) --------------------------- *)
Definition run_idxser (input : val) : val :=
  let codec := vN (vnth 0 input) in
  let rs := v_recs (vnth 1 input) in
  let perms := vL (vnth 2 input) in
  let qs := map vB (vL (vnth 3 input)) in
  let trailer := vB (vnth 4 input) in
  match idx_new codec with
  | None => VL [VT "badcodec"]
  | Some i0 =>
    let i := idx_load rs i0 in
    let raw := idx_write i in
    let reread :=
      match idx_read (raw ++ trailer) with
      | Err e => VL [VT "err"; v_err e]
      | Ok (i', rest) =>
          VL [VT "ok"; VN (blen rest);
              VT (if bytes_eqb (idx_write i') raw then "same" else "diff");
              v_foreach (idx_canon i'); v_getalls_sorted i' qs]
      end in
    let ii := ii_load rs [] in
    let flat :=
      match ii_flatten codec ii with
      | Some fi => VB (canon_bytes fi)
      | None => VT "badcodec"
      end in
    VL [VB (canon_bytes i);
        VB (if idx_has_ties i then [] else raw);
        VN (idx_write_len i);
        v_foreach (idx_canon i);
        v_getalls_sorted i qs;
        reread;
        VL (map (fun p => VB (canon_bytes (idx_load (permute rs p) i0))) perms);
        VL [flat;
            VL (map (fun q => v_offs (ii_getall (snd (v_key q)) ii)) qs);
            VL (map (fun r => VL [VB (r_cid r); VN (r_off r)]) (ii_flatten_records ii))]]
  end.

(* layer B for lookups: the offsets of the records carrying the key, in ascending order *)
Definition spec_getall (codec : N) (rs : list irec) (q : bytes) : list N :=
  let k := v_key q in
  sort_N (if codec =? codec_sorted then spec_offsets_digest rs (snd k)
          else spec_offsets_mh rs (fst k) (snd k)).

Fixpoint val_eqb (a b : val) {struct a} : bool :=
  match a, b with
  | VN x, VN y => x =? y
  | VB x, VB y => bytes_eqb x y
  | VT x, VT y => String.eqb x y
  | VL x, VL y =>
      (fix go (l1 l2 : list val) : bool :=
         match l1, l2 with
         | [], [] => true
         | u :: l1', v :: l2' => val_eqb u v && go l1' l2'
         | _, _ => false
         end) x y
  | _, _ => false
  end.

Definition fail (clause : string) : val := VL [VT "FAIL"; VT clause].

(* the clauses of C11 evaluated on what the IMPLEMENTATION produced *)
Definition prop_idxser (input obs : val) : val :=
  let codec := vN (vnth 0 input) in
  let rs := v_recs (vnth 1 input) in
  let qs := map vB (vL (vnth 3 input)) in
  let trailer := vB (vnth 4 input) in
  let canon := vB (vnth 0 obs) in
  let raw := vB (vnth 1 obs) in
  let reported := vN (vnth 2 obs) in
  let fe := vnth 3 obs in
  let ga := vnth 4 obs in
  let rr := vnth 5 obs in
  let perms := vL (vnth 6 obs) in
  let flat := vnth 0 (vnth 7 obs) in
  let iiga := vnth 1 (vnth 7 obs) in
  if negb (reported =? blen canon) then fail "reported-length-differs-from-bytes-written"
  else if negb (is_tag (vnth 0 rr) "ok") then fail "roundtrip-read-failed"
  else if negb (vN (vnth 1 rr) =? blen trailer) then fail "roundtrip-consumed-wrong-byte-count"
  else if negb (is_tag (vnth 2 rr) "same") then fail "roundtrip-remarshal-differs"
  else if negb (val_eqb (vnth 3 rr) fe) then fail "roundtrip-iteration-differs"
  else if negb (val_eqb (vnth 4 rr) ga) then fail "roundtrip-lookup-differs"
  else if negb (val_eqb ga (VL (map (fun q => v_offs (spec_getall codec rs q)) qs)))
  then fail "lookup-differs-from-record-multiset"
  else if negb (forallb (fun p => bytes_eqb (vB p) canon) perms) then fail "serialization-depends-on-load-order"
  else if negb (val_eqb flat (VB canon)) then fail "flattened-insertion-index-differs-from-loaded-index"
  else if negb (val_eqb iiga (VL (map (fun q => v_offs (spec_offsets_digest rs (snd (v_key q)))) qs)))
  then fail "insertion-index-lookup-not-in-insertion-order"
  else if negb (match raw with [] => true | _ => bytes_eqb raw canon end)
  then fail "bytes-differ-without-equal-digests"
  else match idx_read canon with
       | Ok (i, []) => if idx_sortedb i then VT "ok" else fail "buckets-or-entries-not-ascending"
       | _ => fail "serialized-form-unreadable"
       end.

(* ---- kind idxread: index.ReadFrom on arbitrary bytes: (bytes, queries) ------------------------ *)
Definition run_idxread (input : val) : val :=
  let s := vB (vnth 0 input) in
  let qs := map vB (vL (vnth 1 input)) in
  match idx_read s with
  | Err e => VL [VT "err"; v_err e]
  | Ok (i, rest) =>
      VL [VT "ok"; VN (blen rest); VB (idx_write i); VN (idx_write_len i);
          v_foreach i; v_getalls_raw i qs]
  end.

(* whatever ReadFrom accepted must itself round-trip, and the reported length must be right *)
Definition prop_idxread (input obs : val) : val :=
  if is_tag (vnth 0 obs) "ok" then
    let w := vB (vnth 2 obs) in
    if negb (vN (vnth 3 obs) =? blen w) then fail "reported-length-differs-from-bytes-written"
    else match idx_read w with
         | Ok (i, []) => if bytes_eqb (idx_write i) w then VT "ok"
                         else fail "roundtrip-remarshal-differs"
         | _ => fail "roundtrip-read-failed"
         end
  else VT "ok".

(* ---- kind idxgen: LoadIndex / GenerateIndex over a source kind ----------------------------------
   input = (source kind, opts, file, header-oracle table, codec, queries, expect)
     source kind: 0 bytes.Reader | 1 Read+Seek only | 2 plain io.Reader | 3 os.File
                  | 4 io.ReaderAt through NewReader(..).DataReader()
                  | 5 bufio.Reader over a plain reader | 6 bytes.Buffer (plain streams with ReadByte)
     opts = (zeroLengthAsEOF maxHeader storeIdentity maxIndexCidSize)
     codec: 0x0400 | 0x0401 | 0x300003 (InsertionIndex handed to LoadIndex)
     expect (for the property predicate only) = (tvalid hlen blocks payload pad) | (tnone)
   observation = (terr class) | (tok listing getalls)
     listing: canonical serialized bytes (on-disk codecs) / ForEachCid order (insertion index)
     getalls: per query, ascending offsets (insertion index: in GetAll order) *)
Definition codec_insertion : N := 3145731. (* 0x300003 *)

Definition v_gopts (v : val) : gopts :=
  mkgopts (vbool (vnth 0 v)) (vN (vnth 1 v)) (vbool (vnth 2 v)) (vN (vnth 3 v)).

(* 2 plain io.Reader, 5 bufio.Reader, 6 bytes.Buffer: no Seek method, so ToByteReadSeeker puts the
   discarding wrapper around them whether or not they have ReadByte *)
Definition src_of_kind (k : N) : srckind :=
  if (k =? 2) || (k =? 5) || (k =? 6) then SrcPlain else SrcSeek.

Definition run_load (fx : fixes) (input : val) : res (list irec) :=
  let kind := vN (vnth 0 input) in
  let o := v_gopts (vnth 1 input) in
  let file := vB (vnth 2 input) in
  let hdr := hdr_lookup (vL (vnth 3 input)) in
  if kind =? 4 then load_index_reader_at_gen hdr fx o file
  else load_index_gen hdr fx (src_of_kind kind) o file.

Definition v_index_obs (codec : N) (recs : list irec) (qs : list bytes) : val :=
  if codec =? codec_insertion then
    let ii := ii_load recs [] in
    VL [VT "ok";
        VL (map (fun r => VL [VB (r_cid r); VN (r_off r)]) (ii_flatten_records ii));
        VL (map (fun q => v_offs (ii_getall (snd (v_key q)) ii)) qs)]
  else
    match idx_new codec with
    | None => VL [VT "err"; VT "other"]
    | Some i0 =>
        let i := idx_load recs i0 in
        VL [VT "ok"; VB (canon_bytes i); v_getalls_sorted i qs]
    end.

Definition run_idxgen_with (fx : fixes) (input : val) : val :=
  let codec := vN (vnth 4 input) in
  let qs := map vB (vL (vnth 5 input)) in
  match run_load fx input with
  | Err e => VL [VT "err"; v_err e]
  | Ok recs => v_index_obs codec recs qs
  end.
(* the tree with notes/fixes/C03-loadindex-plain-reader.patch *)
Definition run_idxgen (input : val) : val := run_idxgen_with repaired input.

(* the clauses of C03 on what the implementation returned, for a constructed archive *)
Definition class_of_kind (k : N) : string :=
  if k =? 2 then "plain-reader" else if k =? 4 then "reader-at"
  else if (k =? 5) || (k =? 6) then "plain-bytereader" else "seekable".
Definition fail3 (clause cls : string) : val := VL [VT "FAIL"; VT clause; VT cls].

Definition prop_idxgen (input obs : val) : val :=
  let kind := vN (vnth 0 input) in
  let o := v_gopts (vnth 1 input) in
  let codec := vN (vnth 4 input) in
  let qs := map vB (vL (vnth 5 input)) in
  let expect := vnth 6 input in
  let cls := class_of_kind kind in
  if negb (is_tag (vnth 0 expect) "valid") then VT "ok" else
  let hlen := vN (vnth 1 expect) in
  let blocks := vblocks (vnth 2 expect) in
  let payload := vB (vnth 3 expect) in
  let padded := vbool (vnth 4 expect) in         (* zero bytes follow the sections inside the payload *)
  let too_large := existsb (fun b => section_indexed o (fst b) && (g_max_cid o <? blen (fst b))) blocks in
  if too_large then
    (if is_tag (vnth 0 obs) "err" && is_tag (vnth 1 obs) "cid2big" then VT "ok"
     else fail3 "oversized-cid-not-refused" cls)
  else if padded && negb (g_zeof o) then
    (if is_tag (vnth 0 obs) "err" then VT "ok" else fail3 "null-padding-accepted-without-option" cls)
  else if negb (is_tag (vnth 0 obs) "ok") then fail3 "valid-archive-not-indexed" cls
  else
    let by_code := codec =? codec_mh_sorted in
    let gas := vL (vnth 2 obs) in
    let want := map (fun q => spec_lookup o by_code (fst (v_key q)) (snd (v_key q)) hlen blocks) qs in
    let got := map (fun g => map vN (vL g)) gas in
    if negb (val_eqb (VL (map (fun l => v_offs (sort_N l)) got)) (VL (map (fun l => v_offs (sort_N l)) want)))
    then fail3 "lookup-differs-from-reference-scan" cls
    else if negb (forallb (fun qg =>
                    forallb (fun off =>
                      match section_at payload off with
                      | Some (c, _) => key_match by_code (fst (v_key (fst qg))) (snd (v_key (fst qg))) c
                      | None => false
                      end) (snd qg)) (combine qs got))
    then fail3 "offset-does-not-decode-to-the-key" cls
    else VT "ok".
