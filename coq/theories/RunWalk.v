(* entry points of the kinds "brpos" (C14) and "inspect" (C13): val -> val.  Glue. *)
From Coq Require Import Strings.String.
From GoCar Require Import Bytes Varint Cid Header Frame V2Header Scan Val RunScan BlockReaderPos Inspect.

(* ---- kind brpos ------------------------------------------------------------------------
   input: ((srckind chunk) opts file hok-table hdr-table (choices: n1 = Next, n0 = SkipNext) expect)
   srckind: 0 bytes.Reader, 1 *os.File, 2 plain io.Reader (counting, chunked),
            3 counting Read+ReadByte+Seek, 4 counting Read+Seek.
   The high-water mark is observable for kinds 2..4 only (printed as 0 otherwise).
   observation: (tok version roots pos0 hw0 steps end kept) -- kept: the returned blocks / *BlockMetadata
   read again after the walk.
   expect: (tvalid blocks base payload_len) | (ttrunc nonboundary [blocks base payload_len]) | (tnone) *)
Definition brpos_seek (k : N) : bool := negb (k =? 2).
Definition brpos_hwobs (k : N) : bool := 2 <=? k.

Definition v_meta (m : meta) : list val :=
  [VB (m_cid m); VN (m_off m); VN (m_soff m); VN (m_size m)].
Definition v_step (hwobs : bool) (s : step) : val :=
  let h x := VN (if hwobs then x else 0) in
  match s with
  | StN c d pos hw => VL [VT "N"; VB c; VB d; VN pos; h hw]
  | StS m pos hw => VL (VT "S" :: v_meta m ++ [VN pos; h hw])
  end.

(* what a kept result reads as after the walk: the model's step list is a value, so this is the
   same data again (without the position fields) *)
Definition v_step_kept (s : step) : val :=
  match s with
  | StN c d _ _ => VL [VT "N"; VB c; VB d]
  | StS m _ _ => VL (VT "S" :: v_meta m)
  end.

Definition run_brpos (input : val) : val :=
  let k := vN (vnth 0 (vnth 0 input)) in
  let o := v_ropts (vnth 1 input) in
  let file := vB (vnth 2 input) in
  let hok := hok_lookup (vL (vnth 3 input)) in
  let hdr := hdr_lookup (vL (vnth 4 input)) in
  let w := map vbool (vL (vnth 5 input)) in
  let hwobs := brpos_hwobs k in
  let h x := VN (if hwobs then x else 0) in
  match brp_run64 hok hdr o (brpos_seek k) file w with   (* br.offset as uint64 *)
  | Err e => VL [VT "openerr"; v_err e]
  | Ok (v, roots, st0, (steps, (e, fin))) =>
    VL [VT "ok"; VN v; v_cids roots; VN (p_pos st0); h (p_hw st0);
        VL (map (v_step hwobs) steps);
        match e with
        | None => VL [VT "stop"]
        | Some EEof => VL [VT "err"; v_err EEof; VN (p_pos fin); h (p_hw fin)]
        | Some e => VL [VT "err"; v_err e]
        end;
        VL (map v_step_kept steps)]
  end.

Fixpoint val_eqb (fuel : nat) (a b : val) : bool :=
  match fuel with
  | O => false
  | S f =>
    match a, b with
    | VN x, VN y => x =? y
    | VB x, VB y => bytes_eqb x y
    | VT x, VT y => String.eqb x y
    | VL x, VL y =>
        (fix go (l1 l2 : list val) : bool :=
           match l1, l2 with
           | [], [] => true
           | u :: l1', v :: l2' => val_eqb f u v && go l1' l2'
           | _, _ => false
           end) x y
    | _, _ => false
    end
  end.

(* layer-B predicate on the implementation's observation of a walk over a constructed valid
   archive: written against the byte layout only (no reader model involved). *)
Definition fail1 (clause : string) : val := VL [VT "FAIL"; VT clause].
Definition cl (s : string) : option string := Some s.

Fixpoint check_steps (o : ropts) (file : bytes) (base lim : N) (w : list bool)
         (bs : list (bytes * bytes)) (steps : list val) (poff : N) : option string :=
  match w, bs, steps with
  | _, _, [] => None
  | ch :: w', (c, d) :: bs', s :: steps' =>
    let isn := is_tag (vnth 0 s) "N" in
    let poff' := poff + section_size c d in
    let pos := vN (vnth (if isn then 3 else 5) s) in
    let hw := vN (vnth (if isn then 4 else 6) s) in
    if negb (Bool.eqb isn ch) then cl "step-kind"
    else if negb (bytes_eqb (vB (vnth 1 s)) c) then cl "cid-sequence"
    else if isn && negb (bytes_eqb (vB (vnth 2 s)) d) then cl "next-block-data"
    else if negb isn && negb ((vN (vnth 2 s) =? poff) && (vN (vnth 3 s) =? base + poff)
                              && (vN (vnth 4 s) =? blen d)) then cl "skip-metadata"
    else if negb isn && negb (match read_node false (o_maxs o) (drop (vN (vnth 3 s)) file) with
                              | Ok (c', _, d', _) => bytes_eqb c' c && bytes_eqb d' d
                              | Err _ => false
                              end) then cl "source-offset-does-not-decode"
    else if negb (pos =? base + poff') then cl "source-position"
    else if (0 <? base) && ((lim <? hw) || (lim <? pos)) then cl "consumed-past-payload"
    else check_steps o file base lim w' bs' steps' poff'
  | _, _, _ => cl "step-count"
  end.

(* for ANY input the reader opened as CARv2: doff + dsize as the reader itself read them *)
Definition v2_limit_of (hdr : bytes -> option (list bytes * N)) (o : ropts) (file : bytes) : option N :=
  match read_header hdr (o_maxh o) file with
  | Ok (_, v, rest, _) =>
    if v =? 2 then match read_v2hdr rest with
                   | Ok (h, _) => Some (h_doff h + h_dsize h)
                   | Err _ => None
                   end
    else None
  | Err _ => None
  end.

Definition step_over (lim : N) (s : val) : bool :=
  let isn := is_tag (vnth 0 s) "N" in
  (lim <? vN (vnth (if isn then 3 else 5) s)) || (lim <? vN (vnth (if isn then 4 else 6) s)).

Definition prop_brpos (input obs : val) : val :=
  let o := v_ropts (vnth 1 input) in
  let file := vB (vnth 2 input) in
  let hdr := hdr_lookup (vL (vnth 4 input)) in
  let w := map vbool (vL (vnth 5 input)) in
  let expect := vnth 6 input in
  let opened := is_tag (vnth 0 obs) "ok" in
  let steps := vL (vnth 5 obs) in
  let endv := vnth 6 obs in
  (* the CARv2 consumption bound, whatever the input *)
  let over :=
    match v2_limit_of hdr o file with
    | Some lim =>
      opened && ((lim <? vN (vnth 3 obs)) || (lim <? vN (vnth 4 obs)) || existsb (step_over lim) steps
                 || (is_tag (vnth 1 endv) "eof" && ((lim <? vN (vnth 2 endv)) || (lim <? vN (vnth 3 endv)))))
    | None => false
    end in
  (* the results handed out during the walk, read again after it, must be what they were when
     they were returned (8th part of the observation vs the steps) *)
  let kept_same :=
    (fix go (ss ks : list val) : bool :=
       match ss, ks with
       | [], [] => true
       | s :: ss', k :: ks' =>
           let isn := is_tag (vnth 0 s) "N" in
           val_eqb 40 k (VL (firstn (if isn then 3 else 5) (vL s))) && go ss' ks'
       | _, _ => false
       end) steps (vL (vnth 7 obs)) in
  if opened && negb kept_same then fail1 "metadata-changed-after-return"
  else if over then fail1 "consumed-past-payload"
  else if is_tag (vnth 0 expect) "valid" then
    let bs := vblocks (vnth 1 expect) in
    let base := vN (vnth 2 expect) in
    let plen := vN (vnth 3 expect) in
    let start0 := plen - blen (enc_sections bs) in
    if negb opened then fail1 "open-failed"
    else if negb (vN (vnth 3 obs) =? base + start0) then fail1 "source-position"
    else
      match check_steps o file base (base + plen) w bs steps start0 with
      | Some clause => fail1 clause
      | None =>
        if negb (length steps =? Nat.min (length w) (length bs))%nat then fail1 "step-count"
        else if (length bs <? length w)%nat
        then (if is_tag (vnth 0 endv) "err" && is_tag (vnth 1 endv) "eof" then VT "ok" else fail1 "end-not-eof")
        else (if is_tag (vnth 0 endv) "stop" then VT "ok" else fail1 "early-end")
      end
  else if is_tag (vnth 0 expect) "trunc" then
    (* the file is a proper prefix of a valid archive, cut strictly inside the header or a
       section (C02's truncation clause, for the walker C02's own check does not drive) *)
    if opened && vbool (vnth 1 expect) && is_tag (vnth 1 endv) "eof"
    then VL [VT "FAIL"; VT "truncation-reported-as-clean-eof"; VT "skipnext-after-length-varint"]
    else if opened && negb (length (vL expect) <? 5)%nat then
      (* (ttrunc inside blocks base payload_len): whatever steps the walk over the prefix made must
         be the exact first steps of the walk over the whole archive
         (C14_walk_over_a_prefix_is_the_prefix_of_the_walk) *)
      let bs := vblocks (vnth 2 expect) in
      let base := vN (vnth 3 expect) in
      let plen := vN (vnth 4 expect) in
      match check_steps o file base (base + plen) w bs steps (plen - blen (enc_sections bs)) with
      | Some clause => VL [VT "FAIL"; VT "prefix-walk-differs"; VT clause]
      | None => VT "ok"
      end
    else VT "ok"
  else VT "ok".

(* ---- kind inspect ------------------------------------------------------------------------
   input: (opts file hok-table hdr-table validate how history)   [how: free-form tag of the generator;
          history: calls made on the same Reader before the Inspect under test]
   observation: (inspect-part scan-part index-part trusted-scan-part history-part)
     inspect-part: (tnewerr e) | (tinsperr e) | (tok stats...)
     scan-part:    what NewBlockReader + Next* (hash-verifying, same limits) did on the same bytes
     index-part:   (tnone) | (tidx code) | (tidxerr e)   -- index.ReadCodec at IndexOffset *)
Definition v_counts (m : list (N * N)) : val := VL (map (fun kv => VL [VN (fst kv); VN (snd kv)]) m).
Definition v_v2hdr (h : v2hdr) : val :=
  VL [VN (h_hi h); VN (h_lo h); VN (h_doff h); VN (h_dsize h); VN (h_ioff h)].
Definition v_stats (t : stats) : list val :=
  [VN (t_version t); v_v2hdr (t_header t); v_cids (t_roots t); v_of_bool (t_roots_present t);
   VN (t_count t); v_counts (t_codecs t); v_counts (t_mhtypes t);
   VN (t_avg_cid t); VN (t_max_cid t); VN (t_min_cid t);
   VN (t_avg_blk t); VN (t_max_blk t); VN (t_min_blk t); VN (t_index_codec t)].

Definition insp_opts (v : val) : ropts :=
  mkropts (vbool (vnth 0 v)) (vN (vnth 1 v)) (vN (vnth 2 v)) false.

(* section-reader reuse (input field 7): each step opens a Reader on the current bytes and continues
   on its DataReader (10+mode) or IndexReader (20+mode) after that value was consumed as a stream in
   some way (mode).  A DataReader / IndexReader is a positioned view of [base+off, ...) of its parent:
   what the next Reader sees does not depend on the mode (InspectViews.v), so the model just narrows
   the bytes. *)
Inductive reuse_res := ReuseOk (eff : bytes) | ReuseErr (e : err) | ReuseNil.
Fixpoint reuse_eff (hdr : bytes -> option (list bytes * N)) (o : ropts) (steps : list N) (eff : bytes)
  : reuse_res :=
  match steps with
  | [] => ReuseOk eff
  | st :: steps' =>
    match new_reader hdr o eff with
    | Err e => ReuseErr e
    | Ok rd =>
      if st <? 20 then reuse_eff hdr o steps' (data_window rd eff)
      else if (r_version rd =? 1) || negb (has_index (r_hdr rd)) then ReuseNil
      else reuse_eff hdr o steps' (drop (h_ioff (r_hdr rd)) eff)
    end
  end.

Definition run_inspect_on (input : val) (file : bytes) : val :=
  let o := insp_opts (vnth 0 input) in
  let hok := hok_lookup (vL (vnth 2 input)) in
  let hdr := hdr_lookup (vL (vnth 3 input)) in
  let validate := vbool (vnth 4 input) in
  let has_reuse := negb (length (vL (vnth 7 input)) =? 0)%nat in
  let scan :=
    match br_read_all hok hdr o file with
    | Err e => VL [VT "openerr"; v_err e]
    | Ok (v, roots, s) => VL [VT "ok"; VN v; v_cids roots; v_scan s]
    end in
  (* 4th part (validate = false only): the non-verifying (TrustedCAR) scan *)
  let tscan :=
    if validate then VL [VT "none"]
    else match br_read_all hok hdr (mkropts (o_zeof o) (o_maxh o) (o_maxs o) true) file with
         | Err e => VL [VT "openerr"; v_err e]
         | Ok (v, roots, s) => VL [VT "ok"; VN v; v_cids roots; v_scan s]
         end in
  (* 5th part: what the calls made on the same Reader BEFORE the Inspect under test returned
     (input field 6: n1 Roots, n2 DataReader, n3 IndexReader, n4 Inspect(false), n5 Inspect(true)) *)
  let ops := map (fun x => let k := vN x in
                           if k =? 1 then ORoots else if k =? 2 then ODataReader
                           else if k =? 3 then OIndexReader else OInspect (k =? 5)) (vL (vnth 6 input)) in
  let v_insp r := match r with
                  | Err e => VL [VT "insperr"; v_err e]
                  | Ok t => VL (VT "ok" :: v_stats t)
                  end in
  let v_out x := match x with
                 | RRoots (Ok r) => VL [VT "roots"; v_cids r]
                 | RRoots (Err e) => VL [VT "rootserr"; v_err e]
                 | RData b => VL [VT "data"; VB b]
                 | RIndex None => VL [VT "noindex"]
                 | RIndex (Some b) => VL [VT "index"; VB b]
                 | RInspect r => v_insp r
                 end in
  match new_reader hdr o file with
  | Err e => VL [VL [VT "newerr"; v_err e]; scan; VL [VT "none"]; tscan; VL [];
                 if has_reuse then VL [VT "newerr"; v_err e] else VL [VT "none"]]
  | Ok rd =>
    let hist := rrun hok hdr o file (fresh_reader rd) ops in
    VL [match fst (rstep hok hdr o file (snd hist) (OInspect validate)) with
        | RInspect r => v_insp r
        | _ => VL []
        end;
        scan;
        if negb (r_version rd =? 1) && has_index (r_hdr rd) then
          match index_codec rd file with
          | Ok code => VL [VT "idx"; VN code]
          | Err e => VL [VT "idxerr"; v_err e]
          end
        else VL [VT "none"];
        tscan;
        VL (map v_out (fst hist));
        (* 6th part: the same on a fresh view of the bytes -- the model's answer does not depend on
           the view, so it is the first part again *)
        if has_reuse then v_insp (inspect hok hdr o rd file validate) else VL [VT "none"]]
  end.


Definition insp_eff (input : val) : bytes :=
  match reuse_eff (hdr_lookup (vL (vnth 3 input))) (insp_opts (vnth 0 input))
                  (map vN (vL (vnth 7 input))) (vB (vnth 1 input)) with
  | ReuseOk eff => eff
  | _ => vB (vnth 1 input)
  end.

Definition run_inspect (input : val) : val :=
  match reuse_eff (hdr_lookup (vL (vnth 3 input))) (insp_opts (vnth 0 input))
                  (map vN (vL (vnth 7 input))) (vB (vnth 1 input)) with
  | ReuseOk eff => run_inspect_on input eff
  | ReuseErr e => VL [VL [VT "reuseerr"; v_err e]]
  | ReuseNil => VL [VL [VT "reusenil"]]
  end.

Definition stat_names : list string :=
  ["version"; "header"; "roots"; "roots-present"; "block-count"; "codec-counts"; "mhtype-counts";
   "avg-cid-length"; "max-cid-length"; "min-cid-length";
   "avg-block-length"; "max-block-length"; "min-block-length"; "index-codec"]%string.

Fixpoint first_diff (names : list string) (a b : list val) : option string :=
  match names, a, b with
  | nm :: names', x :: a', y :: b' => if val_eqb 50 x y then first_diff names' a' b' else Some nm
  | [], [], [] => None
  | _, _, _ => cl "shape"
  end.

(* the layer-B predicate, on implementation observations only: the real Inspect(true) against
   the real BlockReader scan of the same bytes and the real index.ReadCodec *)
Definition prop_inspect (input obs : val) : val :=
  let validate := vbool (vnth 4 input) in
  let insp := vnth 0 obs in
  let scan := vnth 1 obs in
  let idx := vnth 2 obs in
  if is_tag (vnth 0 insp) "reuseerr" || is_tag (vnth 0 insp) "reusenil" then VT "ok"
  else if negb (is_tag (vnth 0 (vnth 5 obs)) "none") && negb (val_eqb 60 insp (vnth 5 obs))
  then VL [VT "FAIL"; VT "reused-view-differs-from-fresh-view"]
  else if is_tag (vnth 0 insp) "newerr" then VT "ok"
  else if existsb (fun p => (vN (fst p) =? (if validate then 5 else 4)) && negb (val_eqb 60 (snd p) insp))
                  (combine (vL (vnth 6 input)) (vL (vnth 4 obs)))
  then VL [VT "FAIL"; VT "inspect-depends-on-history"]
  else if negb validate then
    (* Inspect(false) against the real TrustedCAR scan: a clean scan (and readable codec) must be
       accepted with exactly its statistics; anything else it accepts must be the cut-last-block
       shape: the scan got going, failed, and Inspect counted one block more *)
    let tscan := vnth 3 obs in
    let insp_ok := is_tag (vnth 0 insp) "ok" in
    let t_open := is_tag (vnth 0 tscan) "ok" in
    let t_clean := t_open && is_tag (vnth 1 (vnth 3 tscan)) "eof" in
    let idx_ok := negb (is_tag (vnth 0 idx) "idxerr") in
    let blocks := vblocks (vnth 0 (vnth 3 tscan)) in
    if t_clean && idx_ok && negb insp_ok then VL [VT "FAIL"; VT "quick-scan-succeeds-inspect-fails"]
    else if insp_ok && negb idx_ok then VL [VT "FAIL"; VT "inspect-succeeds-index-codec-unreadable"]
    else if insp_ok && t_clean then
      let version := vN (vnth 1 tscan) in
      let hdrv := if version =? 2
                  then match read_v2hdr (drop 11 (insp_eff input)) with
                       | Ok (h, _) => h
                       | Err _ => zero_v2hdr
                       end
                  else zero_v2hdr in
      let codec := if is_tag (vnth 0 idx) "idx" then vN (vnth 1 idx) else 0 in
      match first_diff stat_names (tl (vL insp)) (v_stats (stats_of version hdrv (vcids (vnth 2 tscan)) blocks codec)) with
      | None => VT "ok"
      | Some nm => VL [VT "FAIL"; VT "quick-stats-differ"; VT nm]
      end
    else if insp_ok then
      if t_open && is_tag (vnth 1 (vnth 3 tscan)) "other" && (vN (vnth 5 insp) =? N.of_nat (length blocks) + 1)
      then VT "ok" else VL [VT "FAIL"; VT "quick-inspect-accepts-more-than-a-cut-last-block"]
    else VT "ok"
  else
    let insp_ok := is_tag (vnth 0 insp) "ok" in
    let scan_ok := is_tag (vnth 0 scan) "ok" && is_tag (vnth 1 (vnth 3 scan)) "eof" in
    let idx_ok := negb (is_tag (vnth 0 idx) "idxerr") in
    (* an io.EOF error reads as "clean end": Inspect may report it only where the BlockReader's
       constructor does, or when the scan is clean and it is index.ReadCodec that hit the end *)
    let insp_eof := is_tag (vnth 0 insp) "insperr" && is_tag (vnth 1 insp) "eof" in
    let open_eof := is_tag (vnth 0 scan) "openerr" && is_tag (vnth 1 scan) "eof" in
    let idx_eof := is_tag (vnth 0 idx) "idxerr" && is_tag (vnth 1 idx) "eof" in
    (* inputs made by flipping one byte inside a block's data or its CID's digest in a valid
       archive: full validation must fail (C13_full_validation_reports_a_corrupted_*_byte) *)
    let how := vnth 5 input in
    if (is_tag how "data-flip" || is_tag how "digest-flip") && is_tag (vnth 0 insp) "ok"
    then VL [VT "FAIL"; VT "corruption-not-reported"]
    else if insp_eof && negb open_eof && negb (scan_ok && idx_eof)
    then VL [VT "FAIL"; VT "inspect-error-is-clean-eof"]
    else if insp_ok && negb scan_ok then VL [VT "FAIL"; VT "inspect-succeeds-scan-fails"]
    else if insp_ok && negb idx_ok then VL [VT "FAIL"; VT "inspect-succeeds-index-codec-unreadable"]
    else if negb insp_ok && scan_ok && idx_ok then VL [VT "FAIL"; VT "scan-succeeds-inspect-fails"]
    else if negb insp_ok then VT "ok"
    else
      let version := vN (vnth 1 scan) in
      let roots := vcids (vnth 2 scan) in
      let blocks := vblocks (vnth 0 (vnth 3 scan)) in
      let hdrv := if version =? 2
                  then match read_v2hdr (drop 11 (insp_eff input)) with
                       | Ok (h, _) => h
                       | Err _ => zero_v2hdr
                       end
                  else zero_v2hdr in
      let codec := if is_tag (vnth 0 idx) "idx" then vN (vnth 1 idx) else 0 in
      let want := v_stats (stats_of version hdrv roots blocks codec) in
      match first_diff stat_names (tl (vL insp)) want with
      | None => VT "ok"
      | Some nm => VL [VT "FAIL"; VT "stats-differ"; VT nm]
      end.
