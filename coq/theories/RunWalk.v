(* entry points of the kinds "brpos" (C14) and "inspect" (C13): val -> val.  Glue. *)
From Coq Require Import Strings.String.
From GoCar Require Import Bytes Varint Cid Header Frame V2Header Scan Val RunScan BlockReaderPos.

(* ---- kind brpos ------------------------------------------------------------------------
   input: ((srckind chunk) opts file hok-table hdr-table (choices: n1 = Next, n0 = SkipNext) expect)
   srckind: 0 bytes.Reader, 1 *os.File, 2 plain io.Reader (counting, chunked),
            3 counting Read+ReadByte+Seek, 4 counting Read+Seek.
   The high-water mark is observable for kinds 2..4 only (printed as 0 otherwise).
   expect: (tvalid blocks base payload_len) | (ttrunc nonboundary) | (tnone) *)
Definition brpos_seek (k : N) : bool := negb (k =? 2).
Definition brpos_hwobs (k : N) : bool := 2 <=? k.

Definition v_meta (m : meta) : list val :=
  [VB (m_cid m); VN (m_off m); VN (m_soff m); VN (m_size m)].
Definition v_step (hwobs : bool) (s : step) : val :=
  let h x := VN (if hwobs then x else 0) in
  match s with
  | StN c d pos hw => VL [VT "N"; VB c; VB d; VN pos; h hw]
  | StS m pos hw => VL (VT "S" :: v_meta m ++ [VN pos; h hw])
  end.

Definition run_brpos (input : val) : val :=
  let k := vN (vnth 0 (vnth 0 input)) in
  let o := v_ropts (vnth 1 input) in
  let file := vB (vnth 2 input) in
  let hok := hok_lookup (vL (vnth 3 input)) in
  let hdr := hdr_lookup (vL (vnth 4 input)) in
  let w := map vbool (vL (vnth 5 input)) in
  let hwobs := brpos_hwobs k in
  let h x := VN (if hwobs then x else 0) in
  match brp_run hok hdr o (brpos_seek k) file w with
  | Err e => VL [VT "openerr"; v_err e]
  | Ok (v, roots, st0, (steps, (e, fin))) =>
    VL [VT "ok"; VN v; v_cids roots; VN (p_pos st0); h (p_hw st0);
        VL (map (v_step hwobs) steps);
        match e with
        | None => VL [VT "stop"]
        | Some EEof => VL [VT "err"; v_err EEof; VN (p_pos fin); h (p_hw fin)]
        | Some e => VL [VT "err"; v_err e]
        end]
  end.

(* layer-B predicate on the implementation's observation of a walk over a constructed valid
   archive: written against the byte layout only (no reader model involved). *)
Definition fail1 (clause : string) : val := VL [VT "FAIL"; VT clause].
Definition cl (s : string) : option string := Some s.

Fixpoint check_steps (o : ropts) (file : bytes) (base lim : N) (w : list bool)
         (bs : list (bytes * bytes)) (steps : list val) (poff : N) : option string :=
  match w, bs, steps with
  | _, _, [] => None
  | ch :: w', (c, d) :: bs', s :: steps' =>
    let isn := is_tag (vnth 0 s) "N" in
    let poff' := poff + section_size c d in
    let pos := vN (vnth (if isn then 3 else 5) s) in
    let hw := vN (vnth (if isn then 4 else 6) s) in
    if negb (Bool.eqb isn ch) then cl "step-kind"
    else if negb (bytes_eqb (vB (vnth 1 s)) c) then cl "cid-sequence"
    else if isn && negb (bytes_eqb (vB (vnth 2 s)) d) then cl "next-block-data"
    else if negb isn && negb ((vN (vnth 2 s) =? poff) && (vN (vnth 3 s) =? base + poff)
                              && (vN (vnth 4 s) =? blen d)) then cl "skip-metadata"
    else if negb isn && negb (match read_node false (o_maxs o) (drop (vN (vnth 3 s)) file) with
                              | Ok (c', _, d', _) => bytes_eqb c' c && bytes_eqb d' d
                              | Err _ => false
                              end) then cl "source-offset-does-not-decode"
    else if negb (pos =? base + poff') then cl "source-position"
    else if (0 <? base) && ((lim <? hw) || (lim <? pos)) then cl "consumed-past-payload"
    else check_steps o file base lim w' bs' steps' poff'
  | _, _, _ => cl "step-count"
  end.

(* for ANY input the reader opened as CARv2: doff + dsize as the reader itself read them *)
Definition v2_limit_of (hdr : bytes -> option (list bytes * N)) (o : ropts) (file : bytes) : option N :=
  match read_header hdr (o_maxh o) file with
  | Ok (_, v, rest, _) =>
    if v =? 2 then match read_v2hdr rest with
                   | Ok (h, _) => Some (h_doff h + h_dsize h)
                   | Err _ => None
                   end
    else None
  | Err _ => None
  end.

Definition step_over (lim : N) (s : val) : bool :=
  let isn := is_tag (vnth 0 s) "N" in
  (lim <? vN (vnth (if isn then 3 else 5) s)) || (lim <? vN (vnth (if isn then 4 else 6) s)).

Definition prop_brpos (input obs : val) : val :=
  let o := v_ropts (vnth 1 input) in
  let file := vB (vnth 2 input) in
  let hdr := hdr_lookup (vL (vnth 4 input)) in
  let w := map vbool (vL (vnth 5 input)) in
  let expect := vnth 6 input in
  let opened := is_tag (vnth 0 obs) "ok" in
  let steps := vL (vnth 5 obs) in
  let endv := vnth 6 obs in
  (* the CARv2 consumption bound, whatever the input *)
  let over :=
    match v2_limit_of hdr o file with
    | Some lim =>
      opened && ((lim <? vN (vnth 3 obs)) || (lim <? vN (vnth 4 obs)) || existsb (step_over lim) steps
                 || (is_tag (vnth 1 endv) "eof" && ((lim <? vN (vnth 2 endv)) || (lim <? vN (vnth 3 endv)))))
    | None => false
    end in
  if over then fail1 "consumed-past-payload"
  else if is_tag (vnth 0 expect) "valid" then
    let bs := vblocks (vnth 1 expect) in
    let base := vN (vnth 2 expect) in
    let plen := vN (vnth 3 expect) in
    let start0 := plen - blen (enc_sections bs) in
    if negb opened then fail1 "open-failed"
    else if negb (vN (vnth 3 obs) =? base + start0) then fail1 "source-position"
    else
      match check_steps o file base (base + plen) w bs steps start0 with
      | Some clause => fail1 clause
      | None =>
        if negb (length steps =? Nat.min (length w) (length bs))%nat then fail1 "step-count"
        else if (length bs <? length w)%nat
        then (if is_tag (vnth 0 endv) "err" && is_tag (vnth 1 endv) "eof" then VT "ok" else fail1 "end-not-eof")
        else (if is_tag (vnth 0 endv) "stop" then VT "ok" else fail1 "early-end")
      end
  else if is_tag (vnth 0 expect) "trunc" then
    (* the file is a proper prefix of a valid archive, cut strictly inside the header or a
       section (C02's truncation clause, for the walker C02's own check does not drive) *)
    if opened && vbool (vnth 1 expect) && is_tag (vnth 1 endv) "eof"
    then VL [VT "FAIL"; VT "truncation-reported-as-clean-eof"; VT "skipnext-after-length-varint"]
    else VT "ok"
  else VT "ok".
