(* C09 run entry (kind "total"): the projected outcome of every parsing entry point on arbitrary
   bytes, and the layer-B predicate "returned (no panic, no timeout, not killed), allocated within
   the budget, limits enforced exactly" evaluated on what the implementation did.

   input  = (entry opts file hok hdr extra expect meas)
     entry  : number, see [entry_*] below
     opts   : (zeof maxh maxs trusted)   -- for the root module maxh = maxs = its fixed 32 MiB
     hok/hdr: oracle tables as for kind "scan"
     extra  : entry specific; resume: (wopts roots)
     expect : (tnone) | (texact) | (tover thdr2big) | (tover tsec2big)  -- how the option row was
              derived from a VALID archive: limit = exact size, or one byte less
     meas   : runtime.MemStats.TotalAlloc delta around the call(s), measured in the child process
   obs    = (outcome lim)
     outcome: ok | open-<class> | end-<class> | err-<class> | PANIC | TIMEOUT | KILLED, and for
              entry points without a model: total | PANIC | TIMEOUT | KILLED
     lim    : for cases with expect <> none, the too-large class observed (hdr2big | sec2big) or "-" *)
From Coq Require Import Strings.String.
From GoCar Require Import Bytes Varint Cid Header Frame V2Header Scan Index Store Alloc Val.

Inductive tout :=
| TOk                 (* returned without error *)
| TOpen (e : err)     (* constructor failed *)
| TEnd (e : err)      (* iteration ended with e (EEof = clean end) *)
| TErr (e : err)      (* returned e *)
| TPanic
| TUnmodelled.

Section Oracles.
  Variable hok : bytes -> bytes -> option bool.
  Variable hdrdec : bytes -> option (list bytes * N).

  (* NewBlockReader + Next until error *)
  Definition tot_br (o : ropts) (file : bytes) : tout :=
    if allocs_panic (br_allocs hok hdrdec o file) then TPanic else
    match br_read_all hok hdrdec o file with
    | Err e => TOpen e
    | Ok (_, _, s) => TEnd (s_end s)
    end.
  (* internal carv1 reader *)
  Definition tot_carv1 (o : ropts) (file : bytes) : tout :=
    if allocs_panic (carv1_allocs hok hdrdec o file) then TPanic else
    match carv1_read_all hok hdrdec o file with
    | Err e => TOpen e
    | Ok (_, s) => TEnd (s_end s)
    end.
  (* root module NewCarReader + Next until error *)
  Definition tot_root (file : bytes) : tout :=
    if allocs_panic (root_allocs hok hdrdec file) then TPanic else
    match root_read_all hok hdrdec file with
    | Err e => TOpen e
    | Ok (_, s) => TEnd (s_end s)
    end.
  (* root module LoadCar: the same loop; a clean end is success, anything else the error *)
  Definition tot_rootload (file : bytes) : tout :=
    if allocs_panic (root_allocs hok hdrdec file) then TPanic else
    match root_read_all hok hdrdec file with
    | Err e => TErr e
    | Ok (_, s) => match s_end s with EEof => TOk | e => TErr e end
    end.
  (* carv2.ReadVersion = carv1.ReadHeader *)
  Definition tot_version (maxh : N) (s : bytes) : tout :=
    if allocs_panic (ld_read_allocs false maxh s) then TPanic else
    match read_header hdrdec maxh s with
    | Ok _ => TOk
    | Err e => TErr e
    end.
  (* store.Resume through blockstore.OpenReadWrite on a non-empty file *)
  Definition tot_resume (o : wopts) (roots : list bytes) (file : bytes) : tout :=
    if allocs_panic (resume_allocs hdrdec KBlockstore true o roots file []) then TPanic else
    match resume hdrdec KBlockstore true o roots file [] with
    | inl _ => TOk
    | inr (e, _) => TErr e
    end.
End Oracles.

(* ---- entry points modelled in theories/Transform.v ---- *)
From GoCar Require Transform.
Section Xform.
  Variable hdrdec : bytes -> option (list bytes * N).
  (* LoadIndex / GenerateIndex over an io.ReadSeeker *)
  Definition tot_loadindex (o : Transform.xopts) (all : bytes) : tout :=
    if allocs_panic (load_index_allocs hdrdec o all) then TPanic else
    match Transform.load_index hdrdec o all with
    | Ok _ => TOk
    | Err e => TErr e
    end.
  (* ExtractV1File to an absent destination path, or in place *)
  Definition copy_chunk : N -> N := fun _ => 32768.
  Definition tot_extract (o : Transform.xopts) (in_place : bool) (a : bytes) : tout :=
    if allocs_panic (extract_allocs o a) then TPanic else
    match fst (Transform.extract_file hdrdec copy_chunk o
                 (Transform.mkfs (Some a) (if in_place then Transform.DSame else Transform.DOther None))) with
    | Transform.XOk => TOk
    | Transform.XAlreadyV1 => TErr EOther
    | Transform.XErr e => TErr e
    end.
  (* ReplaceRootsInFile with a non-nil root slice *)
  Definition tot_replace (o : Transform.xopts) (roots : list bytes) (a : bytes) : tout :=
    if allocs_panic (replace_allocs hdrdec o a) then TPanic else
    match fst (Transform.replace_roots hdrdec o (Some a) (Some roots)) with
    | Ok _ => TOk
    | Err e => TErr e
    end.
End Xform.

(* ---- entry points modelled in theories/IndexGen.v and theories/Inspect.v ---- *)
From GoCar Require IndexGen Inspect.
Section Gen.
  Variable hdrdec : bytes -> option (list bytes * N).
  (* LoadIndex / GenerateIndex over a seekable source or a plain io.Reader (the tree as repaired by C03) *)
  Definition tot_gen (k : IndexGen.srckind) (o : IndexGen.gopts) (all : bytes) : tout :=
    if allocs_panic (gen_allocs hdrdec IndexGen.repaired k o all) then TPanic else
    match IndexGen.load_index hdrdec k o all with
    | Ok _ => TOk
    | Err e => TErr e
    end.
End Gen.
Section Insp.
  Variable hok : bytes -> bytes -> option bool.
  Variable hdrdec : bytes -> option (list bytes * N).
  (* NewReader + Inspect(validateBlockHash) *)
  Definition tot_inspect (o : ropts) (file : bytes) (validate : bool) : tout :=
    if allocs_panic (inspect_allocs hok hdrdec o file validate) then TPanic else
    match Inspect.inspect_file hok hdrdec o file validate with
    | Ok _ => TOk
    | Err e => TErr e
    end.
End Insp.

(* ---- entry points modelled in theories/ReadOnly.v and theories/BlockReaderPos.v ---- *)
From GoCar Require ReadOnly BlockReaderPos.
Definition out_tout (x : out) : tout := match x with OErr e => TErr e | _ => TOk end.
Section RO.
  Variable hdrdec : bytes -> option (list bytes * N).
  (* blockstore.NewReadOnly(backing, nil, opts...) and then Get(key) (through util.ReadNode) *)
  Definition tot_robs (o : ReadOnly.qopts) (file : bytes) (key : option bytes) : tout :=
    if allocs_panic (ro_open_allocs hdrdec o file) then TPanic else
    match ReadOnly.ro_open hdrdec o file None with
    | Err e => TOpen e
    | Ok s =>
      match key with
      | None => TOk
      | Some k =>
        match cid_parse k with
        | None => TErr EOther
        | Some kp =>
          if allocs_panic (ro_find_allocs s k kp true) then TPanic else out_tout (ReadOnly.ro_get s k)
        end
      end
    end.
  (* storage.OpenReadable and then Get(key) (GetStream through FindCid's size-only path + ReadAll) *)
  Definition tot_storage (o : ReadOnly.qopts) (file : bytes) (key : option bytes) : tout :=
    if allocs_panic (sto_open_allocs hdrdec o file) then TPanic else
    match ReadOnly.sto_open hdrdec o file with
    | Err e => TOpen e
    | Ok s =>
      match key with
      | None => TOk
      | Some k =>
        match cid_parse k with
        | None => TErr EOther
        | Some kp =>
          if allocs_panic (ro_find_allocs s k kp false) then TPanic else out_tout (ReadOnly.sto_get s k)
        end
      end
    end.
End RO.
Section Brp.
  Variable hok : bytes -> bytes -> option bool.
  Variable hdrdec : bytes -> option (list bytes * N).
  (* NewBlockReader, then Next (true) / SkipNext (false) as the choice list says, until the first error;
     choices running out before that is reported as EFuel (excluded for |w| > |file|) *)
  Definition tot_brskip (o : ropts) (seek : bool) (file : bytes) (w : list bool) : tout :=
    if allocs_panic (brp_run_allocs hok hdrdec o seek file w) then TPanic else
    match BlockReaderPos.brp_run hok hdrdec o seek file w with
    | Err e => TOpen e
    | Ok (_, _, _, (_, (Some e, _))) => TEnd e
    | Ok (_, _, _, (_, (None, _))) => TEnd EFuel
    end.
End Brp.
(* the harness repeats its choice bytes cyclically: odd = SkipNext *)
Fixpoint cyc_choices (n : nat) (pat cur : bytes) : list bool :=
  match n with
  | O => []
  | S k =>
    match cur with
    | b :: t => (b2n b mod 2 =? 0) :: cyc_choices k pat t
    | [] => match pat with
            | b :: t => (b2n b mod 2 =? 0) :: cyc_choices k pat t
            | [] => true :: cyc_choices k pat []
            end
    end
  end.

(* carv2.Header.ReadFrom: two fixed-size reads, nothing input-sized *)
Definition tot_v2hdr (s : bytes) : tout :=
  match read_v2hdr s with
  | Ok _ => TOk
  | Err e => TErr e
  end.
(* index.ReadFrom *)
Definition tot_idx (s : bytes) : tout :=
  if allocs_panic (idx_allocs s) then TPanic else
  match idx_read s with
  | Ok _ => TOk
  | Err e => TErr e
  end.

(* ---- glue ------------------------------------------------------------------------------------- *)
Local Open Scope string_scope.
Definition err_tag (e : err) : string := match v_err e with VT s => s | _ => "?" end.
Definition tout_tag (t : tout) : string :=
  match t with
  | TOk => "ok"
  | TOpen e => "open-" ++ err_tag e
  | TEnd e => "end-" ++ err_tag e
  | TErr e => "err-" ++ err_tag e
  | TPanic => "PANIC"
  | TUnmodelled => "total"
  end.
Definition tout_err (t : tout) : option err :=
  match t with TOpen e | TEnd e | TErr e => Some e | _ => None end.

Definition v_ropts_t (v : val) : ropts :=
  mkropts (vbool (vnth 0 v)) (vN (vnth 1 v)) (vN (vnth 2 v)) (vbool (vnth 3 v)).
Definition v_wopts_t (v : val) : wopts :=
  mkwopts (vN (vnth 0 v)) (vN (vnth 1 v)) (vN (vnth 2 v)) (vbool (vnth 3 v)) (vN (vnth 4 v))
          (vbool (vnth 5 v)) (vbool (vnth 6 v)) (vbool (vnth 7 v)) (vbool (vnth 8 v))
          (vN (vnth 9 v)) (vN (vnth 10 v)).

Local Open Scope N_scope.
(* entry numbers (harness/k_total.go c09Entries, same order) *)
Definition entry_br : N := 0.
Definition entry_carv1 : N := 1.
Definition entry_root : N := 2.
Definition entry_rootload : N := 3.
Definition entry_version : N := 4.
Definition entry_v2hdr : N := 5.
Definition entry_idx : N := 6.
Definition entry_resume : N := 7.
Definition entry_loadindex : N := 10.
Definition entry_inspect : N := 13.
Definition entry_brskip : N := 8.
Definition entry_robs : N := 11.
Definition entry_storage : N := 12.
Definition entry_replaceroots : N := 14.
Definition entry_extract : N := 15.
(* 8.. : implementation-level entries (no model yet): brskip, reader, loadindex, robs, storage,
   inspect, replaceroots, extract, resume-huge, idxread-big (index.ReadFrom on megabyte inputs,
   which the extracted model is too slow for in the quick tier) *)

(* entry numbers >= 100 are the implementation-level variants of entry - 100 (inputs the extracted model
   would be too slow on: megabyte files, thousands of overlapping CIDs) *)
Definition model_outcome (input : val) : tout :=
  let e := vN (vnth 0 input) in
  let o := v_ropts_t (vnth 1 input) in
  let file := vB (vnth 2 input) in
  let hok := hok_lookup (vL (vnth 3 input)) in
  let hdr := hdr_lookup (vL (vnth 4 input)) in
  let extra := vnth 5 input in
  if e =? entry_br then tot_br hok hdr o file
  else if e =? entry_carv1 then tot_carv1 hok hdr o file
  else if e =? entry_root then tot_root hok hdr file
  else if e =? entry_rootload then tot_rootload hok hdr file
  else if e =? entry_version then tot_version hdr (o_maxh o) file
  else if e =? entry_v2hdr then tot_v2hdr file
  else if e =? entry_idx then tot_idx file
  else if e =? entry_resume then tot_resume hdr (v_wopts_t (vnth 0 extra)) (vcids (vnth 1 extra)) file
  else
    (* extra = (flavour choice keys roots maxseek) *)
    let flavour := vN (vnth 0 extra) in
    let variant := match vB (vnth 1 extra) with b :: _ => b2n b | [] => 0 end in
    let xo codec storeid := Transform.mkxopts (o_maxh o) (o_zeof o) codec storeid 2048 (vN (vnth 4 extra)) in
    if e =? entry_loadindex then
      (* IndexGen.load_index: flavour 0 = bytes.Reader (seekable), 1 = plain io.Reader;
         variant 3 = StoreIdentityCIDs; variant 2 is ReadOrGenerateIndex (not modelled here) *)
      if negb (variant mod 4 =? 2) then
        tot_gen hdr (if flavour =? 0 then IndexGen.SrcSeek else IndexGen.SrcPlain)
                (IndexGen.mkgopts (o_zeof o) (o_maxh o) (variant mod 4 =? 3) 2048) file
      else TUnmodelled
    else if e =? entry_inspect then tot_inspect hok hdr o file (negb (variant mod 2 =? 0))
    else if e =? entry_brskip then
      (* flavour 0 = bytes.Reader (SkipNext seeks), 1 = plain reader; 2 = Reader.DataReader(): not modelled *)
      if flavour <? 2 then tot_brskip hok hdr o (flavour =? 0) file
                                      (cyc_choices (S (length file)) (vB (vnth 1 extra)) [])
      else TUnmodelled
    else if e =? entry_robs then
      tot_robs hdr (ReadOnly.mkq false false (o_zeof o) (o_maxh o) (o_maxs o) 2048 codec_mh_sorted) file
               (match vL (vnth 2 extra) with k :: _ => Some (vB k) | [] => None end)
    else if e =? entry_storage then
      tot_storage hdr (ReadOnly.mkq false false (o_zeof o) (o_maxh o) (o_maxs o) 2048 codec_mh_sorted) file
               (match vL (vnth 2 extra) with k :: _ => Some (vB k) | [] => None end)
    else if e =? entry_replaceroots then tot_replace hdr (xo codec_mh_sorted false) (vcids (vnth 3 extra)) file
    else if e =? entry_extract then tot_extract hdr (xo codec_mh_sorted false) (negb (variant mod 2 =? 0)) file
    else TUnmodelled.

Definition is_tagv (v : val) (s : string) : bool :=
  match v with VT t => String.eqb t s | _ => false end.

(* the too-large class in an outcome tag: suffix test on the tag the implementation printed *)
Fixpoint str_suffix (suf s : string) : bool :=
  if String.eqb suf s then true
  else match s with EmptyString => false | String _ t => str_suffix suf t end.
Definition lim_of_tag (expect : val) (tag : string) : string :=
  if is_tagv (vnth 0 expect) "none" then "-"
  else if str_suffix "hdr2big" tag then "hdr2big"
  else if str_suffix "sec2big" tag then "sec2big"
  else "-".

(* entry points without a model: the prediction is the property itself -- they return, and on a
   limit-derived case they answer as the limit clause demands *)
Definition spec_lim (expect : val) : string :=
  if is_tagv (vnth 0 expect) "over" then
    (if is_tagv (vnth 1 expect) "hdr2big" then "hdr2big" else "sec2big")
  else "-".

(* ---- calling an iterator again after it has reported the end ------------------------------------------------
   The harness calls Next (or the next Next/SkipNext of its choice string) twice more after the first
   terminal result.  When that result was a clean io.EOF the model predicts what the two calls return --
   "eof" | "blk" (a block / metadata) | "err", and "?" for whatever follows an "err" (the position after an
   error is not tracked); after any other terminal result only "returned, no panic" is required ("-"). *)
Section Again.
  Variable hok : bytes -> bytes -> option bool.
  Variable hdrdec : bytes -> option (list bytes * N).
  (* the stream at the call that ended the scan *)
  Fixpoint scan_tail (fuel : nat) (o : ropts) (s : bytes) : bytes :=
    match fuel with
    | O => s
    | S f => match next_block hok o s with Ok (_, rest) => scan_tail f o rest | Err _ => s end
    end.
  (* what a call that returned io.EOF consumed: nothing at the end of the stream, the one-byte varint of
     a zero-length section under ZeroLengthSectionAsEOF *)
  Definition after_eof_stream (o : ropts) (s : bytes) : bytes :=
    match read_uv s with
    | VOk l rest _ => if (l =? 0) && o_zeof o then rest else s
    | _ => s
    end.
  Fixpoint again_next (k : nat) (o : ropts) (s : bytes) : list string :=
    match k with
    | O => []
    | S k' =>
      match next_block hok o s with
      | Ok (_, rest) => "blk" :: again_next k' o rest
      | Err EEof => "eof" :: again_next k' o (after_eof_stream o s)
      | Err _ => "err" :: repeat "?" k'
      end
    end.
  Definition again_scan (o : ropts) (s : bytes) : list string :=
    let t := scan_tail (S (length s)) o s in
    match next_block hok o t with
    | Err EEof => again_next 2 o (after_eof_stream o t)
    | _ => []
    end.
  Definition again_br (o : ropts) (file : bytes) : list string :=
    match br_open hdrdec o file with
    | Ok (_, _, s, _, _) => again_scan o s
    | Err _ => []
    end.
  Definition again_carv1 (o : ropts) (file : bytes) : list string :=
    match carv1_read_all hok hdrdec o file with
    | Ok _ =>
      match read_header hdrdec (o_maxh o) file with
      | Ok (_, _, rest, _) => again_scan (mkropts (o_zeof o) (o_maxh o) (o_maxs o) false) rest
      | Err _ => []
      end
    | Err _ => []
    end.
  (* root module: after io.EOF the bufio.Reader has gone back to the pool and Next answers io.EOF for good *)
  Definition again_root (file : bytes) : list string :=
    match root_read_all hok hdrdec file with
    | Ok (_, sc) => match s_end sc with EEof => ["eof"; "eof"] | _ => [] end
    | Err _ => []
    end.
  (* Next / SkipNext strings: the choices after the one that ended the walk *)
  Definition again_step (o : ropts) (ch : bool) (st : BlockReaderPos.brp) : string * option BlockReaderPos.brp :=
    match BlockReaderPos.brp_walk hok o [ch] st with
    | (_ :: _, (_, st')) => ("blk", Some st')
    | ([], (Some EEof, st')) => ("eof", Some st')
    | ([], (_, _)) => ("err", None)
    end.
  Definition again_brskip (o : ropts) (seek : bool) (file : bytes) (w : list bool) : list string :=
    match BlockReaderPos.brp_run hok hdrdec o seek file w with
    | Ok (_, _, _, (steps, (Some EEof, st))) =>
      let k := length steps in
      match again_step o (nth (S k) w true) st with
      | (c1, Some st1) => [c1; fst (again_step o (nth (S (S k)) w true) st1)]
      | (c1, None) => [c1; "?"]
      end
    | _ => []
    end.
End Again.
Definition tag_eof : string := "eof".
Fixpoint join_comma (l : list string) : string :=
  match l with
  | [] => "-"
  | [x] => x
  | x :: t => x ++ "," ++ join_comma t
  end.
Definition model_again (input : val) : string :=
  let e := vN (vnth 0 input) in
  let o := v_ropts_t (vnth 1 input) in
  let file := vB (vnth 2 input) in
  let hok := hok_lookup (vL (vnth 3 input)) in
  let hdr := hdr_lookup (vL (vnth 4 input)) in
  let extra := vnth 5 input in
  join_comma
    (if e =? entry_br then again_br hok hdr o file
     else if e =? entry_carv1 then again_carv1 hok hdr o file
     else if e =? entry_root then again_root hok hdr file
     else if (e =? entry_brskip) && (vN (vnth 0 extra) <? 2) then
       again_brskip hok hdr o (vN (vnth 0 extra) =? 0) file
                    (cyc_choices (S (S (S (length file)))) (vB (vnth 1 extra)) [])
     else []).

Definition run_total (input : val) : val :=
  let t := model_outcome input in
  let expect := vnth 6 input in
  match t with
  | TUnmodelled => VL [VT "total"; VT (spec_lim expect); VT "-"]
  | TPanic => VL [VT (tout_tag t); VT (lim_of_tag expect (tout_tag t)); VT "-"]
  | _ => VL [VT (tout_tag t); VT (lim_of_tag expect (tout_tag t)); VT (model_again input)]
  end.

(* what each entry point (id mod 100) reads under which limit:
   header limit   : every CAR entry point (Resume's version probe included: repaired, it used to run under
                    the 32 MiB default; notes/fixes/C09-resume-version-probe-limit.patch);
   section limit  : the readers that buffer a section (Next, the internal and root readers, the stores' Get);
   go-cid constant: everything that runs cid.CidFromReader (on the stream, or for the root module on the buffer);
   index chunk    : everything that may decode an index. *)
Definition in_list (e : N) (l : list N) : bool := existsb (N.eqb e) l.
Definition entry_hlim (e maxh : N) : N :=
  if in_list e [5; 6; 17] then 0
  else maxh.
Definition entry_slim (e maxs : N) : N := if in_list e [0; 1; 2; 3; 8; 11; 12] then maxs else 0.
Definition entry_uses_cfr (e : N) : bool := in_list e [2; 3; 7; 8; 10; 11; 12; 13; 16].
Definition entry_uses_idx (e : N) : bool := in_list e [6; 9; 10; 11; 12; 17].

(* class of a failing case, for known findings: a limit above what the Go runtime can allocate at
   all is a class of its own *)
Definition payload_stream (input : val) : bytes :=
  match br_open (hdr_lookup (vL (vnth 4 input))) (mkropts false two63 two63 true) (vB (vnth 2 input)) with
  | Ok (_, _, s, _, _) => s
  | Err _ => []
  end.
Definition case_class (input : val) : string :=
  let o := v_ropts_t (vnth 1 input) in
  if (go_max_alloc <? o_maxh o) || (go_max_alloc <? o_maxs o) then "limit-above-runtime-max"
  else if in_list (vN (vnth 0 input) mod 100) [7; 10; 11; 12; 16] &&
          (let s := payload_stream input in has_short_section (S (length s)) s)
  then (* only the walkers that seek backwards over such a section (Resume, LoadIndex and the stores that
          generate an index); the clause of the known finding is alloc-bound, never panic / timeout / killed *)
       "section-shorter-than-its-cid"
  else "entry-" ++ (match vN (vnth 0 input) mod 100 with
                    | 0 => "br" | 1 => "carv1" | 2 => "root" | 3 => "rootload" | 4 => "version"
                    | 5 => "v2hdr" | 6 => "idxread" | 7 => "resume" | 8 => "brskip" | 9 => "reader"
                    | 10 => "loadindex" | 11 => "robs" | 12 => "storage" | 13 => "inspect"
                    | 14 => "replaceroots" | 15 => "extract" | 16 => "resume-huge" | 17 => "idxread-big"
                    | _ => "other" end)%N.

Definition failv (clause : string) (input : val) : val := VL [VT "FAIL"; VT clause; VT (case_class input)].
Definition prop_total (input obs : val) : val :=
  let e := vN (vnth 0 input) mod 100 in
  let o := v_ropts_t (vnth 1 input) in
  let file := vB (vnth 2 input) in
  let expect := vnth 6 input in
  let meas := vN (vnth 7 input) in
  let outcome := vnth 0 obs in
  let lim := vnth 1 obs in
  if is_tagv outcome "PANIC" then failv "panic" input
  else if is_tagv outcome "TIMEOUT" then failv "timeout" input
  else if is_tagv outcome "KILLED" then failv "killed" input
  else if alloc_budget (entry_hlim e (o_maxh o)) (entry_slim e (o_maxs o)) (entry_uses_cfr e) (entry_uses_idx e)
                       (blen file) <? meas
  then failv "alloc-bound" input
  else if is_tagv outcome "end-eof" && in_list (vN (vnth 0 input)) [0; 1; 2; 8]
          && ((vN (vnth 0 input) =? 2) || negb (o_zeof o))
          && negb (is_tagv (vnth 2 obs) "eof,eof") && negb (is_tagv (vnth 2 obs) "-")
  then (* without ZeroLengthSectionAsEOF a clean io.EOF means the stream is exhausted (the root reader has
          released its buffer): every further call must answer io.EOF again *)
       failv "eof-not-terminal" input
  else if is_tagv (vnth 0 expect) "exact" && negb (is_tagv lim "-")
  then failv "limit-exact-rejected" input
  else if is_tagv (vnth 0 expect) "over" && negb (is_tagv lim (spec_lim expect))
  then failv "limit-over-not-rejected" input
  else VT "ok".
