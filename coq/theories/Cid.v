(* go-cid / go-multihash binary parsing.  A CID *is* its byte string (go-cid stores
   Cid{string(bytes)}); [cidp] is the structured view used to build and to hash. *)
From GoCar Require Import Bytes Varint.

Record cidp := mkcid { c_ver : N; c_codec : N; c_mhcode : N; c_digest : bytes }.

Definition mh_enc (code : N) (digest : bytes) : bytes :=
  put_uv code ++ put_uv (blen digest) ++ digest.

Definition cid_enc (c : cidp) : bytes :=
  if c_ver c =? 0 then mh_enc (c_mhcode c) (c_digest c)
  else put_uv 1 ++ put_uv (c_codec c) ++ mh_enc (c_mhcode c) (c_digest c).

Definition max_int32 : N := 2147483647.
Definition max_digest_alloc : N := 33554432. (* 32 MiB, go-cid CidFromReader *)

(* mh.readMultihashFromBuf: Some (total length, code, digest) *)
Definition mh_from_bytes (buf : bytes) : option (N * N * bytes) :=
  if blen buf <? 2 then None else
  match read_uv buf with
  | VOk code r1 n1 =>
    match read_uv r1 with
    | VOk len r2 n2 =>
      if max_int32 <? len then None
      else if blen r2 <? len then None
      else Some (n1 + n2 + len, code, take len r2)
    | _ => None
    end
  | _ => None
  end.

Definition is_v0_prefix (data : bytes) : bool :=
  match data with
  | b0 :: b1 :: _ :: _ => (b2n b0 =? 18) && (b2n b1 =? 32)
  | _ => false
  end.

(* cid.CidFromBytes: Some (length of the CID at the front of data, its parts) *)
Definition cid_from_bytes (data : bytes) : option (N * cidp) :=
  if is_v0_prefix data then
    if blen data <? 34 then None
    else Some (34, mkcid 0 112 18 (take 32 (drop 2 data)))
  else
    match read_uv data with
    | VOk vers r1 n1 =>
      if negb (vers =? 1) then None else
      match read_uv r1 with
      | VOk codec r2 n2 =>
        match mh_from_bytes r2 with
        | Some (n3, code, dig) => Some (n1 + n2 + n3, mkcid 1 codec code dig)
        | None => None
        end
      | _ => None
      end
    | _ => None
    end.

(* cid.Cast / "is this whole byte string exactly one CID" *)
Definition cid_parse (c : bytes) : option cidp :=
  match cid_from_bytes c with
  | Some (n, p) => if n =? blen c then Some p else None
  | None => None
  end.

(* cid.CidFromReader on a stream *)
Inductive cfr :=
| CfrOk (n : N) (c : bytes) (p : cidp) (rest : bytes)
| CfrEof                          (* stream empty: plain io.EOF *)
| CfrErr (consumed : N).

Definition cid_from_reader (s : bytes) : cfr :=
  match read_uv s with
  | VEof => CfrEof
  | VOk vers r1 n1 =>
    if vers =? 18 then
      (* CIDv0: 33 more bytes, then mh.Cast of the 34 *)
      if blen r1 <? 33 then CfrErr (n1 + blen r1)
      else
        let c := take 34 s in
        match c with
        | _ :: b1 :: _ => if b2n b1 =? 32
                          then CfrOk 34 c (mkcid 0 112 18 (drop 2 c)) (drop 34 s)
                          else CfrErr 34
        | _ => CfrErr 34
        end
    else if negb (vers =? 1) then CfrErr n1
    else
      match read_uv r1 with
      | VOk codec r2 n2 =>
        match read_uv r2 with
        | VOk code r3 n3 =>
          match read_uv r3 with
          | VOk mhl r4 n4 =>
            let pre := n1 + n2 + n3 + n4 in
            if max_digest_alloc <? mhl then CfrErr pre
            else if blen r4 <? mhl then CfrErr (pre + blen r4)
            else CfrOk (pre + mhl) (take (pre + mhl) s)
                       (mkcid 1 codec code (take mhl r4)) (drop mhl r4)
          | VEof => CfrErr (n1 + n2 + n3)
          | _ => CfrErr (n1 + n2 + n3 + blen r3) (* conservative: consumed count unused on error *)
          end
        | VEof => CfrErr (n1 + n2)
        | _ => CfrErr (n1 + n2 + blen r2)
        end
      | VEof => CfrErr n1
      | _ => CfrErr (n1 + blen r1)
      end
  | _ => CfrErr (blen s)
  end.

(* multihash bytes of a CID (Cid.Hash()) *)
Definition cid_mh (p : cidp) : bytes := mh_enc (c_mhcode p) (c_digest p).

Definition is_identity (p : cidp) : bool := c_mhcode p =? 0.

(* hashing oracle: does [data] hash to CID [c] under c's own prefix?
   (c.Prefix().Sum(data) then Equals).  Identity is defined, everything else is the oracle. *)
Section Hash.
  Variable hok : bytes -> bytes -> option bool.
  Definition hash_matches (c : bytes) (p : cidp) (data : bytes) : option bool :=
    if is_identity p then Some (bytes_eqb (c_digest p) data)
    else hok c data.
End Hash.
