(* run / prop entries of kind "cli": one case = one invocation of the car binary.
   input  = (tcmd flags files hok hdrtab expect)
     files : (f ...) with f = b<bytes> | tnone (the file does not exist)
     expect: what the harness knows about how the input files were constructed (for the property
             predicate only; () = nothing is claimed about this case).  An archive description is
             arch = (roots blocks nilroots): the file is a CARv1 / CARv2 container of the payload
             with header {roots (null if nilroots), version 1} and those blocks.
   cmd / flags / observation / expect:
     filter      (sel inverse version append)   files (in out)  -> (status out post)   (arch [archout])
                 sel = (cid ...)  [rendered one per line, LF-terminated]  or
                       (text table mode intended): the CID list file byte for byte, cid.Parse's verdicts
                       ((text cid) ...), mode 0 --cid-file / 1 stdin, the CIDs the harness meant
     index       (codeckind version)            files (in)      -> (status out post)   (arch)
     indexcreate (codeckind)                    files (in)      -> (status out)        (arch)
     detach      ()                             files (in)      -> (status out)        (arch codeckind storeid)
     detachlist  ()                             files (idx)     -> (status ((mh off) ...))  (arch storeid)
     getblock    (cid)                          files (in)      -> (status data)       (arch)
     list        ()                             files (in)      -> (status (cid ...))  (arch)
     root        ()                             files (in)      -> (status (cid ...))  (arch)
     concat      (version)                      files (in ...)  -> (status out post)   (arch ...)
     getdag      (version root seljson strict (loads ok))  files (in out) -> (status out post)  (n1) | ()
                 root = b<cid> | tnone (taken from the archive); seljson = b<json> | tnone; (loads ok) =
                 the ORACLE: ((cid data) ...) a reference walk opened, and whether it returned nil
     verify      ()                             files (in)      -> (status)            ()
     inspect     (full)                         files (in)      -> (status stats)      ()
     listfile    ()                             files (in)      -> (status (cid ...))  (arch)     [car list in out.txt]
     list / root / inspect / detachlist take an optional trailing flag n1 = the archive comes through a PIPE on
                 standard input (no file argument); list: (stdin verbose)
     listunixfs  (blocks (rootvalue ...) (rootview ...))  files () -> (status (path ...))   (n1)
                 the harness builds the UnixFS DAG of the root values (k_cli.go dagStore) into a CAR; the
                 model works on the views (RunFs.v_uroot)
     compilebad (kind n)                        files (in)      -> (1) when car compile over the damaged text of car debug
                                                                   neither crashed nor reported success for an output
                                                                   inspect --full rejects; (0 text) / (2 text) otherwise
     debugcompile (stdin)                       files (in)      -> (status roots (block ...) length post)
                 car debug -o p in; car compile -o out p; blocks sorted by CID
     outindep    (tname ...)                    files ()        -> (n1)   the harness ran a command the model does not
                 cover (create, extract, debug, compile) twice -- output path absent / pre-existing and
                 longer -- and reports 1 iff status and output bytes are identical (compile: the same blocks
                 and length; it emits blocks in Go map order), 2 iff the second run refused (exit 1) and left
                 the existing file untouched (what car create does), 0 otherwise
   files may end with (tpre b<bytes>): the content of a file already sitting at the OUTPUT path before the
   command runs (for filter / getdag it is files[1] instead).  A command that fails before touching its
   output leaves that content there; otherwise the result is exactly the command's output.
   status = tok | terr (exit status class); out = b<bytes> | tnone;
   post = () when there is no output file or the command failed, else
          (status of `car inspect --full out`, status of `car verify out`). *)
From Coq Require Import Strings.String.
From GoCar Require Import Bytes Varint Cid Header Frame V2Header Scan Index Store Traversal ExtractFs Val CliCmds.
From GoCar Require RunFs.

Definition is_t (v : val) (s : string) : bool :=
  match v with VT t => String.eqb t s | _ => false end.
Definition v_status (b : bool) : val := VT (if b then "ok" else "err")%string.
Definition v_file (o : option bytes) : val := match o with Some b => VB b | None => VT "none"%string end.
Definition vfile (v : val) : option bytes := match v with VB b => Some b | _ => None end.
Definition res_ok {A} (r : res A) : bool := match r with Ok _ => true | Err _ => false end.

Definition codec_kind_name (k : N) : string :=
  if k =? 1 then "none"%string else if k =? 2 then "sorted"%string
  else if (k =? 0) || (k =? 3) then "mh"%string else "badcodec"%string.

Definition idx_kind_of_codec (c : N) : N :=
  if c =? 0 then 0 else if c =? codec_sorted then 2 else if c =? codec_mh_sorted then 3 else 9.

Definition v_istats (s : istats) : val :=
  let bls := map (fun x => snd x) (is_secs s) in
  let cls := map (fun x => snd (fst x)) (is_secs s) in
  let h := is_hdr s in
  VL [VN (is_ver s); VN (is_count s); v_of_bool (is_roots_present s);
      VN (min_N bls); VN (avg_N bls); VN (max_N bls);
      VN (min_N cls); VN (avg_N cls); VN (max_N cls);
      VN (h_doff h); VN (h_dsize h); VN (h_ioff h); VN (idx_kind_of_codec (is_idx_codec s));
      v_cids (is_roots s)].

(* the CID list of a filter case: new form (text table mode intended) or the plain list of CIDs *)
Definition cidlist_new (v : val) : bool :=
  match vL v with [VB _; VL _; VN _; VL _] => true | _ => false end.
Definition v_cid_table (v : val) : list (bytes * bytes) :=
  map (fun e => (vB (vnth 0 e), vB (vnth 1 e))) (vL v).
Definition intended_sel (v : val) : list bytes :=
  if cidlist_new v then vcids (vnth 3 v) else vcids v.

(* a file already at the output path: (tpre b<bytes>) at the end of the file list *)
Definition pre_of (files : list val) : option bytes :=
  match rev files with
  | VL [VT t; VB b] :: _ => if String.eqb t "pre" then Some b else None
  | _ => None
  end.
Definition in_files (files : list val) : list val :=
  filter (fun v => match v with VB _ => true | VT _ => true | _ => false end) files.
(* None from a command model = "the output path was not touched" *)
Definition out_or_pre (pre : option bytes) (r : bool * option bytes) : bool * option bytes :=
  match snd r with Some _ => r | None => (fst r, pre) end.

Section Run.
  Variable hok : bytes -> bytes -> option bool.
  Variable hdrdec : bytes -> option (list bytes * N).

  Definition v_post (ok : bool) (out : option bytes) : val :=
    match out with
    | Some f => if ok then VL [v_status (res_ok (inspect_car hok hdrdec true f));
                               v_status (res_ok (verify_car hok hdrdec f))]
                else VL []
    | None => VL []
    end.

  Definition run_cli_with (input : val) : val :=
    let cmd := vnth 0 input in
    let flags := vnth 1 input in
    let pre := pre_of (vL (vnth 2 input)) in
    let files := in_files (vL (vnth 2 input)) in
    let f0 := vB (nth 0 files (VB [])) in
    if is_t cmd "filter" then
      let outf := vfile (nth 1 files (VT "none"%string)) in
      let cl := vnth 0 flags in
      let '(ok, out) :=
        if cidlist_new cl
        then filter_cmd hok hdrdec (v_cid_table (vnth 1 cl)) (vB (vnth 0 cl)) (vbool (vnth 1 flags))
                        (vN (vnth 2 flags)) (vbool (vnth 3 flags)) f0 outf
        else filter_car hok hdrdec (vcids cl) (vbool (vnth 1 flags)) (vN (vnth 2 flags))
                        (vbool (vnth 3 flags)) f0 outf in
      VL [v_status ok; v_file out; v_post ok out]
    else if is_t cmd "index" then
      let '(ok, out) := out_or_pre pre (index_car hdrdec (vN (vnth 0 flags)) (vN (vnth 1 flags)) f0) in
      VL [v_status ok; v_file out; v_post ok out]
    else if is_t cmd "indexcreate" then
      let '(ok, out) := out_or_pre pre (index_create hdrdec (vN (vnth 0 flags)) f0) in
      VL [v_status ok; v_file out]
    else if is_t cmd "detach" then
      let '(ok, out) := out_or_pre pre (detach_index hdrdec f0) in
      VL [v_status ok; v_file out]
    else if is_t cmd "detachlist" then
      let '(ok, es) := if vbool (vnth 0 flags) then detach_list_stdin f0 else detach_list f0 in
      VL [v_status ok; VL (map (fun e => VL [VB (fst e); VN (snd e)]) es)]
    else if is_t cmd "getblock" then
      match get_block hdrdec f0 (vB (vnth 0 flags)) with
      | Ok d => VL [v_status true; VB d]
      | Err _ => VL [v_status false; VB []]
      end
    else if is_t cmd "list" then
      let '(ok, cs) := if vbool (vnth 0 flags) then list_car_stdin true hok hdrdec f0 else list_car hok hdrdec f0 in
      VL [v_status ok; v_cids cs]
    else if is_t cmd "listunixfs" then
      let '(ls, ok) := ulist_roots (map RunFs.v_uroot (vL (vnth 2 flags))) in
      VL [v_status ok; VL (map VB ls)]
    else if is_t cmd "debugcompile" then
      match br_read_all hok hdrdec default_ropts f0 with
      | Ok (_, roots, sc) =>
        match s_end sc with
        | EEof =>
          let order := sort_blocks (first_occ (s_blocks sc)) in
          let out := compile_out roots order in
          VL [v_status true; v_cids roots; v_blocks order; VN (blen out); v_post true (Some out)]
        | _ => VL [v_status false]
        end
      | Err _ => VL [v_status false]
      end
    else if is_t cmd "listfile" then
      let '(ok, cs) := list_car hok hdrdec f0 in VL [v_status ok; v_cids cs]
    else if is_t cmd "compilebad" then VL [VN 1]   (* the harness reports whether the invariant held *)
    else if is_t cmd "outindep" then
      (* car create goes through blockstore.OpenReadWrite, which tries to RESUME a non-empty file: over
         a file that is not the CAR it would write it refuses (exit 1) and leaves the file as it was *)
      VL [VN (if is_t (vnth 0 flags) "create" then 2 else 1)]
    else if is_t cmd "root" then
      let '(ok, cs) := if vbool (vnth 0 flags) then root_car_stdin true hdrdec f0 else root_car hdrdec f0 in
      VL [v_status ok; v_cids cs]
    else if is_t cmd "concat" then
      let '(ok, out) := out_or_pre pre (concat_car hdrdec (vN (vnth 0 flags)) (map vB files)) in
      VL [v_status ok; v_file out; v_post ok out]
    else if is_t cmd "getdag" then
      let tr := vnth 4 flags in
      let '(ok, out) := get_dag hdrdec (vN (vnth 0 flags)) (vfile (vnth 1 flags)) (vblocks (vnth 0 tr))
                                (vbool (vnth 1 tr)) f0 (vfile (nth 1 files (VT "none"%string))) in
      VL [v_status ok; v_file out; v_post ok out]
    else if is_t cmd "verify" then
      VL [v_status (res_ok (verify_car hok hdrdec f0))]
    else if is_t cmd "inspect" then
      match (if vbool (vnth 1 flags) then inspect_car_stdin f0 else inspect_car hok hdrdec (vbool (vnth 0 flags)) f0) with
      | Ok st => VL [v_status true; v_istats st]
      | Err _ => VL [v_status false; VL []]
      end
    else VL [VT "unknown-command"%string].

  (* ---- the property predicate, on what the implementation did ---------------------------------- *)
  Definition decode_archive (f : bytes) : option (N * list bytes * list block) :=
    match br_read_all hok hdrdec default_ropts f with
    | Ok (v, roots, sc) => match s_end sc with EEof => Some (v, roots, s_blocks sc) | _ => None end
    | Err _ => None
    end.
End Run.

Fixpoint list_eqb {A} (eq : A -> A -> bool) (a b : list A) : bool :=
  match a, b with
  | [], [] => true
  | x :: a', y :: b' => eq x y && list_eqb eq a' b'
  | _, _ => false
  end.
Definition cids_eqb := list_eqb bytes_eqb.
Definition blk_eqb (a b : block) : bool := bytes_eqb (fst a) (fst b) && bytes_eqb (snd a) (snd b).
Definition blks_eqb := list_eqb blk_eqb.
Definition opt_bytes_eqb (a : option bytes) (b : bytes) : bool :=
  match a with Some x => bytes_eqb x b | None => false end.

Definition fail2 (clause cls : string) : val := VL [VT "FAIL"%string; VT clause; VT cls].

(* an archive description (roots blocks nilroots) *)
Definition a_roots (a : val) : list bytes := vcids (vnth 0 a).
Definition a_blocks (a : val) : list block := vblocks (vnth 1 a).
Definition a_hb (a : val) : bytes := enc_header (roots_opt (vbool (vnth 2 a)) (a_roots a)) 1.

(* car verify is expected to accept exactly when there is a root and every root is a block *)
Definition verify_expected (roots : list bytes) (bs : list block) : bool :=
  match roots with [] => false | _ => forallb (cid_in (map fst bs)) roots end.

Definition closure_verdict (cls : string) (post : val) (roots : list bytes) (bs : list block) : val :=
  if negb (is_t (vnth 0 post) "ok") then fail2 "closed-under-inspect" cls
  else if verify_expected roots bs && negb (is_t (vnth 1 post) "ok") then fail2 "closed-under-verify" cls
  else VT "ok"%string.

(* the guard of the partial verify-closure theorems, on the file the implementation wrote *)
Definition embedded_index_answers (hdrdec : bytes -> option (list bytes * N)) (f : bytes) (cids : list bytes) : bool :=
  match new_reader hdrdec f with
  | Ok r => if (cr_ver r =? 2) && has_index (cr_hdr r)
            then index_answers (drop (h_ioff (cr_hdr r)) f) cids else true
  | Err _ => false
  end.

Definition expect_archive (dec : option (N * list bytes * list block)) (v : N) (roots : list bytes)
           (bs : list block) : bool :=
  match dec with
  | Some (v', r', b') => (v' =? v) && cids_eqb r' roots && blks_eqb b' bs
  | None => false
  end.

Definition first_with_mh (key : bytes) (bs : list block) : option block :=
  find (fun b => same_mh (fst b) key) bs.

Definition rec_entry (r : irec) : bytes * N := (mh_enc (r_code r) (r_digest r), r_off r).
Definition entry_eqb (a b : bytes * N) : bool := bytes_eqb (fst a) (fst b) && (snd a =? snd b).

Definition prop_cli_with (hok : bytes -> bytes -> option bool) (hdrdec : bytes -> option (list bytes * N))
           (input obs : val) : val :=
  let cmd := vnth 0 input in
  let flags := vnth 1 input in
  let expect := vL (vnth 5 input) in
  let a0 := nth 0 expect (VL []) in
  let ok := is_t (vnth 0 obs) "ok" in
  let out := vfile (vnth 1 obs) in
  match expect with
  | [] => VT "ok"%string
  | _ =>
    if is_t cmd "filter" then
      let sel := intended_sel (vnth 0 flags) in
      let inv := vbool (vnth 1 flags) in
      let ver := vN (vnth 2 flags) in
      let app := vbool (vnth 3 flags) in
      let cls := if app then "filter-append"%string else if ver =? 1 then "filter-v1"%string else "filter-v2"%string in
      let chosen := filter (fun b => match_filter sel inv (fst b)) (a_blocks a0) in
      let '(eroots, eblocks) :=
        if app then
          let a1 := nth 1 expect (VL []) in
          (a_roots a1, a_blocks a1 ++ dedup_from (map fst (a_blocks a1)) chosen)
        else (filter (match_filter sel inv) (a_roots a0), dedup_blocks chosen) in
      if negb ok then fail2 "filter-exit-status" cls
      else match out with
           | None => fail2 "filter-blocks" cls
           | Some f =>
             if negb (expect_archive (decode_archive hok hdrdec f) ver eroots eblocks)
             then fail2 "filter-blocks" cls
             else if negb (embedded_index_answers hdrdec f (map fst eblocks)) then fail2 "verify-guard-false" cls
             else closure_verdict cls (vnth 2 obs) eroots eblocks
           end
    else if is_t cmd "index" then
      let k := vN (vnth 0 flags) in
      let ver := vN (vnth 1 flags) in
      let hb := a_hb a0 in
      let bs := a_blocks a0 in
      let p := payload_hb hb bs in
      if ver =? 1 then
        if negb ok then fail2 "index-exit-status" "index-v1"
        else if negb (opt_bytes_eqb out p) then fail2 "index-payload-unchanged" "index-v1"
        else closure_verdict "index-v1" (vnth 2 obs) (a_roots a0) bs
      else
        let cls := String.append "index-" (codec_kind_name k) in
        if negb ok then fail2 "index-exit-status" cls
        else if codec_is_none k then
          if negb (opt_bytes_eqb out (indexless_file hb bs)) then fail2 "index-payload-unchanged" cls
          else closure_verdict cls (vnth 2 obs) (a_roots a0) bs
        else
          match out, codec_of_kind k with
          | Some f, Some codec =>
            let pre := pragma ++ enc_v2hdr (new_header (blen p)) ++ p in
            if negb (bytes_eqb (take (blen pre) f) pre) then fail2 "index-payload-unchanged" cls
            else if negb (opt_bytes_eqb (detached_index codec hb bs) (drop (blen pre) f))
            then fail2 "index-regenerated" cls
            else if negb (index_answers (drop (blen pre) f) (map fst bs)) then fail2 "verify-guard-false" cls
            else closure_verdict cls (vnth 2 obs) (a_roots a0) bs
          | _, _ => fail2 "index-payload-unchanged" cls
          end
    else if is_t cmd "indexcreate" then
      let k := vN (vnth 0 flags) in
      let cls := String.append "indexcreate-" (codec_kind_name k) in
      if negb ok then fail2 "index-exit-status" cls
      else match out, codec_of_kind k with
           | Some f, Some codec =>
             if opt_bytes_eqb (detached_index codec (a_hb a0) (a_blocks a0)) f then VT "ok"%string
             else fail2 "index-regenerated" cls
           | _, _ => fail2 "index-regenerated" cls
           end
    else if is_t cmd "detach" then
      (* the input carries an index generated for codeckind (all records if storeid) *)
      let k := vN (vnth 1 (VL expect)) in
      let storeid := vbool (vnth 2 (VL expect)) in
      let recs := if storeid then all_records_hb (a_hb a0) (a_blocks a0)
                  else regen_records_hb (a_hb a0) (a_blocks a0) in
      if negb ok then fail2 "detach-exit-status" "detach"
      else match out, codec_of_kind k with
           | Some f, Some codec =>
             match idx_new codec with
             | Some i0 => if bytes_eqb f (idx_write (idx_load recs i0)) then VT "ok"%string
                          else fail2 "detach-index" "detach"
             | None => fail2 "detach-index" "detach"
             end
           | _, _ => fail2 "detach-index" "detach"
           end
    else if is_t cmd "detachlist" then
      let storeid := vbool (vnth 1 (VL expect)) in
      let recs := if storeid then all_records_hb (a_hb a0) (a_blocks a0)
                  else regen_records_hb (a_hb a0) (a_blocks a0) in
      let want := map rec_entry recs in
      let got := map (fun e => (vB (vnth 0 e), vN (vnth 1 e))) (vL (vnth 1 obs)) in
      if vbool (vnth 0 flags) then (if ok then fail2 "detach-exit-status" "detachlist-stdin" else VT "ok"%string)
      else if negb ok then fail2 "detach-exit-status" "detachlist"
      else if (N.of_nat (length want) =? N.of_nat (length got)) &&
              forallb (fun e => existsb (entry_eqb e) got) want
      then VT "ok"%string else fail2 "detach-list" "detachlist"
    else if is_t cmd "getblock" then
      let key := vB (vnth 0 flags) in
      let data := vB (vnth 1 obs) in
      match cid_parse key with
      | None => VT "ok"%string
      | Some kp =>
        (* the guards of the partial get-block theorems, on the index the model opens for this file *)
        let f0 := vB (nth 0 (vL (vnth 2 input)) (VB [])) in
        let present := match first_with_mh key (a_blocks a0) with Some _ => true | None => false end in
        let guard :=
          match new_reader hdrdec f0 with
          | Ok r =>
            match open_readonly_index hdrdec r f0 with
            | Ok i =>
              let cands := idx_getall i (c_mhcode kp) (c_digest kp) in
              candidates_sound (a_hb a0) (a_blocks a0) cands &&
              (negb present || existsb (cand_matches (a_hb a0) (a_blocks a0) key) cands)
            | Err _ => false
            end
          | Err _ => false
          end in
        if negb (is_identity kp) && negb guard then fail2 "get-block-guard-false" "getblock"
        else if is_identity kp then
          if ok && bytes_eqb data (c_digest kp) then VT "ok"%string else fail2 "get-block" "getblock-identity"
        else match first_with_mh key (a_blocks a0) with
             | Some b => if ok && bytes_eqb data (snd b) then VT "ok"%string else fail2 "get-block" "getblock-present"
             | None => if ok then fail2 "get-block" "getblock-absent" else VT "ok"%string
             end
      end
    else if is_t cmd "list" then
      (* through a pipe as from a file (CliCmds.list_car_stdin with the fix); (stdin verbose corrupt):
         corrupt = one data byte of the described archive flipped -- the listing must fail *)
      if vbool (vnth 2 flags) then
        (if ok then fail2 "list-accepts-corrupt-block" "list-corrupt" else VT "ok"%string)
      else if ok && cids_eqb (vcids (vnth 1 obs)) (map fst (a_blocks a0)) then VT "ok"%string
      else fail2 "list-scan-order" (if vbool (vnth 0 flags) then "list-stdin" else "list")
    else if is_t cmd "listunixfs" then
      let '(ls, mok) := ulist_roots (map RunFs.v_uroot (vL (vnth 2 flags))) in
      if Bool.eqb ok mok && cids_eqb (map vB (vL (vnth 1 obs))) ls then VT "ok"%string
      else fail2 "list-unixfs-paths" "listunixfs"
    else if is_t cmd "debugcompile" then
      (* compile(debug(x)): the roots of x, every distinct CID of x once (any order), accepted by the checkers *)
      let want := sort_blocks (first_occ (a_blocks a0)) in
      if negb ok then fail2 "debug-compile-exit-status" "debugcompile"
      else if negb (cids_eqb (vcids (vnth 1 obs)) (a_roots a0)) then fail2 "debug-compile-roots" "debugcompile"
      else if negb (blks_eqb (vblocks (vnth 2 obs)) want) then fail2 "debug-compile-blocks" "debugcompile"
      else closure_verdict "debugcompile" (vnth 4 obs) (a_roots a0) want
    else if is_t cmd "listfile" then
      if ok && cids_eqb (vcids (vnth 1 obs)) (map fst (a_blocks a0)) then VT "ok"%string
      else fail2 "list-scan-order" "listfile"
    else if is_t cmd "compilebad" then
      (* car compile over a damaged patch text: no crash; a reported success is an archive inspect --full accepts *)
      if vN (vnth 0 obs) =? 1 then VT "ok"%string
      else fail2 (if vN (vnth 0 obs) =? 0 then "compile-crash" else "compile-output-invalid") "compilebad"
    else if is_t cmd "outindep" then
      if (vN (vnth 0 obs) =? 1) || ((vN (vnth 0 obs) =? 2) && is_t (vnth 0 flags) "create")
      then VT "ok"%string else fail2 "output-depends-on-existing-file" "outindep"
    else if is_t cmd "root" then
      if ok && cids_eqb (vcids (vnth 1 obs)) (a_roots a0) then VT "ok"%string
      else fail2 "root" (if vbool (vnth 0 flags) then "root-stdin" else "root")
    else if is_t cmd "getdag" then
      (* the blocks of the output = the first occurrences of what the reference walk loaded
         (--version 1: per CID; --version 2: per multihash, identity blocks dropped), root = the
         requested root; a failed walk is a failed command *)
      let ver := vN (vnth 0 flags) in
      let tr := vnth 4 flags in
      let loads := vblocks (vnth 0 tr) in
      let cls := if ver =? 2 then "getdag-v2"%string else "getdag-v1"%string in
      let eblocks := if ver =? 2 then dedup_blocks loads else first_occ loads in
      if negb (vbool (vnth 1 tr)) then
        (if ok then fail2 "get-dag-exit-status" cls else VT "ok"%string)
      else if negb ok then fail2 "get-dag-exit-status" cls
      else match out, vfile (vnth 0 (VL expect)) with
           | Some f, Some rc =>
             if negb (expect_archive (decode_archive hok hdrdec f) (if ver =? 2 then 2 else 1) [rc] eblocks)
             then fail2 "get-dag-blocks" cls
             else if negb (embedded_index_answers hdrdec f (map fst eblocks)) then fail2 "verify-guard-false" cls
             else closure_verdict cls (vnth 2 obs) [rc] eblocks
           | _, _ => fail2 "get-dag-blocks" cls
           end
    else if is_t cmd "concat" then
      let ver := vN (vnth 0 flags) in
      let cls := if ver =? 2 then "concat-v2"%string else "concat-v1"%string in
      let all := concat (map a_blocks expect) in
      if negb ok then fail2 "concat-exit-status" cls
      else match out with
           | None => fail2 "concat-blocks" cls
           | Some f =>
             if negb (expect_archive (decode_archive hok hdrdec f) (if ver =? 2 then 2 else 1) (a_roots a0) all)
             then fail2 "concat-blocks" cls
             else closure_verdict cls (vnth 2 obs) (a_roots a0) all
           end
    else VT "ok"%string
  end.

Definition run_cli (input : val) : val :=
  run_cli_with (hok_lookup (vL (vnth 3 input))) (hdr_lookup (vL (vnth 4 input))) input.
Definition prop_cli (input obs : val) : val :=
  prop_cli_with (hok_lookup (vL (vnth 3 input))) (hdr_lookup (vL (vnth 4 input))) input obs.
