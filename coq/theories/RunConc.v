(* RunConc.v -- property C08, the part above the lock discipline:
   (1) the sequential specification of the three writable stores as the concurrent workloads
       of the harness see them (blocks are small ids; what the code does, error classes
       included),
   (2) the executable linearizability check of a timestamped history against it, given a
       witness order,
   (3) the atomic-section semantics (every call = invocation, one atomic step of (1) taken
       at its linearization point, response) whose histories the theorem in
       proofs/MonitorLin.v shows to pass (2),
   (4) the run entry for the dynamic cases of the harness (kind "conc"): the model is (1)
       applied along the linearization witness found by the harness; the property predicate is
       (2) evaluated on what the implementation returned, plus "no race report, no panic, no
       hang, final file = each distinct block once, in linearization order". *)
From Coq Require Import Strings.String.
From GoCar Require Import Bytes Varint Cid Header Frame V2Header Val.
Local Open Scope N_scope.

(* ---- (1) sequential specification --------------------------------------------------- *)
(* operation kinds (wire numbers): 0 Put, 1 PutMany, 2 Has, 3 Get, 4 GetSize, 5 AllKeys,
   6 Roots, 7 Finalize (Close for the deferred writer), 8 FinalizeReadOnly *)
Record cop := { c_kind : N; c_ids : list N }.

(* error classes: 1 closed, 2 finalized, 3 notfound, 4 other *)
Inductive cres :=
| ROk
| RNum (n : N)
| RList (l : list N)
| RErr (e : N)
| RPanic
| RNone.

Record sst := { s_keys : list N; s_fin : bool; s_closed : bool; s_created : bool }.
Definition s_init : sst := {| s_keys := []; s_fin := false; s_closed := false; s_created := false |}.

(* Blocks are ids.  Ids below 100 are ordinary blocks (one key each).  Ids >= 100 form key families:
   id = 100 + 10*g + v; all members of family g carry the same digest bytes; variants 0,1,2 share one
   multihash (CIDv1 raw / CIDv1 dag-pb / CIDv0 over sha2-256), variants 3,4 another (sha3-256 code,
   raw / dag-cbor), variant 5 a third (blake2b-256 code).  The stores de-duplicate by multihash
   (default options): [mhkey i] is the smallest id with the multihash of i. *)
Definition mhkey (i : N) : N :=
  if i <? 100 then i
  else let v := i mod 10 in
       if v <=? 2 then i - v else if v <=? 4 then i - v + 3 else i - v + 5.
Definition same_mh (a b : N) : bool := mhkey a =? mhkey b.
(* some stored block has the multihash of x / the first such block (what a lookup returns) *)
Definition memN (x : N) (l : list N) : bool := existsb (same_mh x) l.
Definition firstN (x : N) (l : list N) : N :=
  match find (same_mh x) l with Some j => j | None => x end.
Fixpoint add_keys (ks ids : list N) : list N :=
  match ids with
  | [] => ks
  | i :: r => add_keys (if memN i ks then ks else ks ++ [i]) r
  end.
Fixpoint insertN (x : N) (l : list N) : list N :=
  match l with
  | [] => [x]
  | y :: t => if x <=? y then x :: l else y :: insertN x t
  end.
Definition sortN (l : list N) : list N := fold_right insertN [] l.

Definition digits (i : N) : N :=
  if i <? 10 then 1 else if i <? 100 then 2 else if i <? 1000 then 3 else if i <? 10000 then 4
  else if i <? 100000 then 5 else if i <? 1000000 then 6 else if i <? 10000000 then 7
  else if i <? 100000000 then 8 else if i <? 1000000000 then 9 else 10.
(* len("c08-block-<i>-") + (i*7) mod 40 *)
Definition blk_size (i : N) : N := 11 + digits i + (i * 7) mod 40.

Definition first_id (o : cop) : N := hd 0 (c_ids o).
Definition with_keys (s : sst) (k : list N) : sst :=
  {| s_keys := k; s_fin := s_fin s; s_closed := s_closed s; s_created := s_created s |}.
Definition with_fin (s : sst) : sst :=
  {| s_keys := s_keys s; s_fin := true; s_closed := s_closed s; s_created := s_created s |}.
Definition with_closed (s : sst) : sst :=
  {| s_keys := s_keys s; s_fin := s_fin s; s_closed := true; s_created := s_created s |}.
Definition with_created (s : sst) : sst :=
  {| s_keys := s_keys s; s_fin := s_fin s; s_closed := s_closed s; s_created := true |}.
Definition is_err (r : cres) : bool := match r with RErr _ => true | _ => false end.

(* ReadWrite.finalizeReadOnlyWithoutMutex / closeWithoutMutex *)
Definition fin_ro_step (v1 : bool) (s : sst) : sst * cres :=
  if v1 then (with_fin s, ROk)
  else if s_closed s then (s, RErr 4)
  else if s_fin s then (s, RErr 4)
  else (with_fin s, ROk).
Definition close_step (v1 : bool) (s : sst) : sst * cres :=
  if negb v1 && negb (s_fin s) then (s, RErr 4)
  else if s_closed s then (s, RErr 4)
  else (with_closed s, ROk).

Definition read_ops (s : sst) (o : cop) : sst * cres :=
  let k := c_kind o in
  if k =? 2 then (s, RNum (if memN (first_id o) (s_keys s) then 1 else 0))
  else if k =? 3 then (s, if memN (first_id o) (s_keys s) then RNum (firstN (first_id o) (s_keys s)) else RErr 3)
  else if k =? 4 then (s, if memN (first_id o) (s_keys s) then RNum (blk_size (firstN (first_id o) (s_keys s))) else RErr 3)
  else if k =? 5 then (s, RList (sortN (map mhkey (s_keys s))))
  else (s, RNone).

Definition step_blockstore (v1 : bool) (s : sst) (o : cop) : sst * cres :=
  let k := c_kind o in
  if (k =? 0) || (k =? 1) then
    if s_closed s then (s, RErr 1)
    else if s_fin s then (s, RErr 2)
    else (with_keys s (add_keys (s_keys s) (c_ids o)), ROk)
  else if (k =? 2) || (k =? 3) || (k =? 4) || (k =? 5) then
    if s_closed s then (s, RErr 1) else read_ops s o
  else if k =? 6 then (s, if s_closed s then RErr 4 else RNum 1)
  else if k =? 7 then
    let '(s1, e1) := fin_ro_step v1 s in
    let '(s2, e2) := close_step v1 s1 in
    (s2, if is_err e1 then e1 else e2)
  else if k =? 8 then fin_ro_step v1 s
  else (s, RNone).

Definition step_storage (s : sst) (o : cop) : sst * cres :=
  let k := c_kind o in
  if k =? 0 then
    if s_closed s then (s, RErr 1) else (with_keys s (add_keys (s_keys s) (c_ids o)), ROk)
  else if (k =? 2) || (k =? 3) then
    if s_closed s then (s, RErr 1) else read_ops s o
  else if k =? 6 then (s, RNum 1)
  else if k =? 7 then
    if s_closed s then (s, RErr 4) else (with_closed s, ROk)
  else (s, RNone).

Definition step_deferred (s : sst) (o : cop) : sst * cres :=
  let k := c_kind o in
  if k =? 0 then
    if s_closed s then (s, RErr 1)
    else (with_created (with_keys s (add_keys (s_keys s) (c_ids o))), ROk)
  else if k =? 2 then
    if s_closed s then (s, RErr 1) else read_ops s o
  else if k =? 7 then
    if s_closed s then (s, RErr 1) else (with_closed s, ROk)
  else (s, RNone).

Definition spec_step (store : N) (v1 : bool) (s : sst) (o : cop) : sst * cres :=
  if store =? 0 then step_blockstore v1 s o
  else if store =? 1 then step_storage s o
  else step_deferred s o.

(* ---- (2) the linearizability check --------------------------------------------------- *)
Fixpoint listN_eqb (a b : list N) : bool :=
  match a, b with
  | [], [] => true
  | x :: a', y :: b' => (x =? y) && listN_eqb a' b'
  | _, _ => false
  end.
Definition res_eqb (a b : cres) : bool :=
  match a, b with
  | ROk, ROk => true
  | RNum x, RNum y => x =? y
  | RList x, RList y => listN_eqb x y
  | RErr x, RErr y => x =? y
  | _, _ => false
  end.

Definition bad_op : cop := {| c_kind := 99; c_ids := [] |}.
Definition nth_op (ops : list cop) (i : nat) : cop := nth i ops bad_op.

(* the sequential run along the order w must produce exactly the observed results *)
Fixpoint replay_ok (store : N) (v1 : bool) (ops : list cop) (results : list cres)
         (w : list nat) (s : sst) : option sst :=
  match w with
  | [] => Some s
  | i :: r =>
      let '(s', x) := spec_step store v1 s (nth_op ops i) in
      if res_eqb x (nth i results RNone) then replay_ok store v1 ops results r s' else None
  end.

(* w lists every operation 0..n-1 exactly once *)
Definition perm_ok (n : nat) (w : list nat) : bool :=
  Nat.eqb (List.length w) n && forallb (fun i => existsb (Nat.eqb i) w) (seq 0 n).

(* real time: an operation that returned before another one was invoked is never ordered after it *)
Definition h_inv (hist : list (N * N)) (i : nat) : N := fst (nth i hist (0, 0)).
Definition h_ret (hist : list (N * N)) (i : nat) : N := snd (nth i hist (0, 0)).
Fixpoint rt_ok (hist : list (N * N)) (w : list nat) : bool :=
  match w with
  | [] => true
  | i :: r => forallb (fun j => negb (h_ret hist j <? h_inv hist i)) r && rt_ok hist r
  end.

Definition lin_check (store : N) (v1 : bool) (ops : list cop) (hist : list (N * N))
           (results : list cres) (w : list nat) : bool :=
  perm_ok (List.length ops) w && rt_ok hist w &&
  match replay_ok store v1 ops results w s_init with Some _ => true | None => false end.

Definition final_state (store : N) (v1 : bool) (ops : list cop) (w : list nat) : sst :=
  fold_left (fun s i => fst (spec_step store v1 s (nth_op ops i))) w s_init.

(* ---- (3) atomic-section semantics ---------------------------------------------------- *)
(* An execution is a sequence of events over the operations 0..n-1: invocation, the atomic
   execution of the critical section, response; each exactly once and in that order per
   operation; otherwise arbitrary interleaving (any number of threads, calls of one thread
   being sequential is just one such interleaving). *)
Inductive ev := EInv (i : nat) | ELin (i : nat) | ERet (i : nat).
Definition ev_eqb (a b : ev) : bool :=
  match a, b with
  | EInv i, EInv j | ELin i, ELin j | ERet i, ERet j => Nat.eqb i j
  | _, _ => false
  end.
Fixpoint pos (e : ev) (tr : list ev) : option nat :=
  match tr with
  | [] => None
  | x :: t => if ev_eqb e x then Some O else option_map S (pos e t)
  end.
Definition ev_op (e : ev) : nat := match e with EInv i | ELin i | ERet i => i end.
Definition wf_trace (n : nat) (tr : list ev) : Prop :=
  NoDup tr /\
  (forall e, In e tr -> (ev_op e < n)%nat) /\
  (forall i, (i < n)%nat -> exists a b c,
      pos (EInv i) tr = Some a /\ pos (ELin i) tr = Some b /\ pos (ERet i) tr = Some c /\
      (a < b)%nat /\ (b < c)%nat).
(* the order of the critical sections *)
Definition lin_order (tr : list ev) : list nat :=
  flat_map (fun e => match e with ELin i => [i] | _ => [] end) tr.
Definition stamp (e : ev) (tr : list ev) : N :=
  match pos e tr with Some p => N.of_nat p | None => 0 end.
Definition hist_of (n : nat) (tr : list ev) : list (N * N) :=
  map (fun i => (stamp (EInv i) tr, stamp (ERet i) tr)) (seq 0 n).
(* each critical section is one step of the sequential specification on the shared state *)
Fixpoint exec_atomic (store : N) (v1 : bool) (ops : list cop) (w : list nat) (s : sst)
  : list (nat * cres) :=
  match w with
  | [] => []
  | i :: r =>
      let '(s', x) := spec_step store v1 s (nth_op ops i) in (i, x) :: exec_atomic store v1 ops r s'
  end.
Fixpoint assoc_res (i : nat) (l : list (nat * cres)) : cres :=
  match l with
  | [] => RNone
  | (j, x) :: t => if Nat.eqb i j then x else assoc_res i t
  end.
Definition results_of (store : N) (v1 : bool) (ops : list cop) (tr : list ev) : list cres :=
  map (fun i => assoc_res i (exec_atomic store v1 ops (lin_order tr) s_init)) (seq 0 (List.length ops)).

(* ---- (3') the same for ANY sequential model -------------------------------------------------
   [step] is the sequential step function of some model of an object (for instance
   StoreSpec.impl_step, the dispatcher onto the functions of Store.v, or Deferred.d_step).  In the
   atomic-section semantics every call executes [step] once, atomically, at its ELin event. *)
Section GenLin.
  Variables St Op Res : Type.
  Variable step : St -> Op -> St * Res.
  Variable dflt : Op.
  (* the results of running the operations l one after the other *)
  Fixpoint gexec (s : St) (l : list Op) : list Res :=
    match l with
    | [] => []
    | o :: t => let '(s', r) := step s o in r :: gexec s' t
    end.
  Definition ops_along (ops : list Op) (w : list nat) : list Op := map (fun i => nth i ops dflt) w.
  (* what each call returns in the atomic-section execution tr: (call number, result) *)
  Definition gresults (s0 : St) (ops : list Op) (tr : list ev) : list (nat * Res) :=
    combine (lin_order tr) (gexec s0 (ops_along ops (lin_order tr))).
  (* a timestamped history with these results is linearizable with respect to [step]: some order w of
     all the calls respects real time and the sequential run along w returns exactly these results *)
  Definition glinearizable (s0 : St) (ops : list Op) (hist : list (N * N)) (res : list (nat * Res)) : Prop :=
    exists w, perm_ok (List.length ops) w = true /\ rt_ok hist w = true /\
              res = combine w (gexec s0 (ops_along ops w)).
End GenLin.

(* ---- OnPut callbacks of the deferred writer -----------------------------------------------
   DeferredCarWriter.Put (after the closed check, under lk) calls every registered callback in
   registration order and removes the once-only ones.  Callbacks are registered before the
   concurrent phase (OnPut is not an operation of the property).  [cb_fires flags n]: the
   callbacks (by registration number) fired by n successful Puts, in order. *)
Definition cb_one_put (cbs : list (nat * bool)) : list nat * list (nat * bool) :=
  (map fst cbs, filter (fun c => negb (snd c)) cbs).
Fixpoint cb_fires (cbs : list (nat * bool)) (n : nat) : list nat :=
  match n with
  | O => []
  | S k => fst (cb_one_put cbs) ++ cb_fires (snd (cb_one_put cbs)) k
  end.
(* what the check demands of the observed invocation counts *)
Definition cb_expected (once : bool) (oks : N) : N := if once then N.min 1 oks else oks.

(* ---- (4) run entry -------------------------------------------------------------------- *)
Definition v_op (v : val) : cop := {| c_kind := vN (vnth 1 v); c_ids := map vN (vL (vnth 2 v)) |}.
Definition v_hist (v : val) : N * N := (vN (vnth 0 v), vN (vnth 1 v)).

Definition is_tag (v : val) (s : string) : bool :=
  match v with VT t => String.eqb t s | _ => false end.

Definition err_class (v : val) : N :=
  if is_tag v "closed" then 1 else if is_tag v "finalized" then 2
  else if is_tag v "notfound" then 3 else 4.
Definition v_res (v : val) : cres :=
  if is_tag (vnth 0 v) "ok" then
    match vL v with
    | [_] => ROk
    | [_; VN n] => RNum n
    | [_; VL l] => RList (map vN l)
    | _ => RNone
    end
  else if is_tag (vnth 0 v) "err" then RErr (err_class (vnth 1 v))
  else if is_tag (vnth 0 v) "panic" then RPanic
  else RNone.
Definition res_v (r : cres) : val :=
  match r with
  | ROk => VL [VT "ok"]
  | RNum n => VL [VT "ok"; VN n]
  | RList l => VL [VT "ok"; VL (map VN l)]
  | RErr e => VL [VT "err"; VT (if e =? 1 then "closed" else if e =? 2 then "finalized"
                               else if e =? 3 then "notfound" else "other")]
  | RPanic => VL [VT "panic"]
  | RNone => VL [VT "unlinearized"]
  end.

(* operation numbers arrive as N; they are matched against 0..n-1 (never N.to_nat) *)
Fixpoint idx_of (cands : list nat) (x : N) : option nat :=
  match cands with
  | [] => None
  | i :: r => if N.of_nat i =? x then Some i else idx_of r x
  end.
Definition v_witness (n : nat) (v : val) : list nat :=
  flat_map (fun x => match idx_of (seq 0 n) (vN x) with Some i => [i] | None => [n] end) (vL v).

Definition final_keys (s : sst) (store : N) : list N :=
  if (store =? 2) && negb (s_created s) then [] else s_keys s.

Definition v_cbs (input : val) : list bool := map vbool (vL (vnth 1 (vnth 1 input))).
(* number of Puts that returned ok, given the result of every operation *)
Definition put_oks (ops : list cop) (res : nat -> cres) : N :=
  N.of_nat (List.length (filter (fun i => (c_kind (nth_op ops i) =? 0) && res_eqb (res i) ROk)
                                (seq 0 (List.length ops)))).

Definition run_conc (input : val) : val :=
  let store := vN (vnth 0 input) in
  let v1 := vbool (vnth 0 (vnth 1 input)) in
  let ops := map v_op (vL (vnth 2 input)) in
  let n := List.length ops in
  let w := v_witness n (vnth 4 input) in
  let rs := exec_atomic store v1 ops w s_init in
  let fin := final_state store v1 ops w in
  VL [VL (map (fun i => res_v (assoc_res i rs)) (seq 0 n));
      VL (map VN (final_keys fin store));
      VN 1; VN 0; VN 0; VB [];
      VL (map (fun once => VN (cb_expected once (put_oks ops (fun i => assoc_res i rs)))) (v_cbs input))].

Fixpoint nodupN (l : list N) : bool :=
  match l with [] => true | x :: t => negb (memN x t) && nodupN t end.

Definition prop_conc (input obs : val) : val :=
  let store := vN (vnth 0 input) in
  let v1 := vbool (vnth 0 (vnth 1 input)) in
  let ops := map v_op (vL (vnth 2 input)) in
  let n := List.length ops in
  let hist := map v_hist (vL (vnth 3 input)) in
  let w := v_witness n (vnth 4 input) in
  let results := map v_res (vL (vnth 0 obs)) in
  let final := map vN (vL (vnth 1 obs)) in
  if negb (vN (vnth 4 obs) =? 0) then VL [VT "FAIL"; VT "panic-or-hang"; VT "crash"]
  else if negb (vN (vnth 3 obs) =? 0) then VL [VT "FAIL"; VT "data-race"; VT "race"]
  else if negb (lin_check store v1 ops hist results w) then VL [VT "FAIL"; VT "not-linearizable"; VT "history"]
  else if negb (nodupN final) then VL [VT "FAIL"; VT "block-stored-twice"; VT "final-file"]
  else if negb (listN_eqb final (final_keys (final_state store v1 ops w) store))
  then VL [VT "FAIL"; VT "final-file-differs-from-linearization"; VT "final-file"]
  else if vN (vnth 2 obs) =? 0 then VL [VT "FAIL"; VT "final-file-unreadable"; VT "final-file"]
  else if negb (listN_eqb (map vN (vL (vnth 6 obs)))
                          (map (fun once => cb_expected once (put_oks ops (fun i => nth i results RNone))) (v_cbs input)))
  then VL [VT "FAIL"; VT "onput-callback-count"; VT "deferred-callbacks"]
  else VT "ok".
